#!/bin/sh
# Builds every engine binary once (warms the Go build cache). Offline; writes only under /verif/build and /verif/bin.
set -e
cd "$(dirname "$0")"
export GOFLAGS=-mod=mod GOPROXY=off GOSUMDB=off GOTOOLCHAIN=local
./check build
