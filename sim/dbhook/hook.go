// Package verifhook is harness-side code injected by -overlay under pkg/db so
// that engines living outside pkg/db can install the Pebble options hook of
// pkg/db/internal/engine (hook H1, build tag verif).
package verifhook

import (
	"github.com/WuKongIM/WuKongIM/pkg/db/internal/engine"
	"github.com/cockroachdb/pebble/v2"
)

// SetPebbleHook installs (or clears, with nil) the function that receives the
// *pebble.Options of every pkg/db engine opened afterwards in this process.
func SetPebbleHook(f func(*pebble.Options)) { engine.VerifPebbleHook = f }

// QuietLogger discards Pebble's informational log lines (WAL replay notices
// would otherwise flood worker output after every simulated crash); Fatalf
// still panics so that a store that cannot continue is never silent.
type QuietLogger struct{}

func (QuietLogger) Infof(string, ...interface{})  {}
func (QuietLogger) Errorf(string, ...interface{}) {}
func (QuietLogger) Fatalf(format string, args ...interface{}) {
	panic("pebble fatal: " + format)
}
