package chansim

import (
	"context"
	"fmt"
	"time"

	infracluster "github.com/WuKongIM/WuKongIM/internal/infra/cluster"
	"github.com/WuKongIM/WuKongIM/internal/usecase/message"
	"github.com/WuKongIM/WuKongIM/internal/verifsim/simkit"
	ch "github.com/WuKongIM/WuKongIM/pkg/channel"
	channelstore "github.com/WuKongIM/WuKongIM/pkg/channel/store"
	"github.com/WuKongIM/WuKongIM/pkg/cluster"
	"github.com/WuKongIM/WuKongIM/pkg/cluster/channels"
	"github.com/WuKongIM/WuKongIM/pkg/cluster/routing"
	dbengine "github.com/WuKongIM/WuKongIM/pkg/db/internal/engine"
	metadb "github.com/WuKongIM/WuKongIM/pkg/db/meta"
	"github.com/cockroachdb/pebble/v2"
	"github.com/cockroachdb/pebble/v2/vfs"
)

// ---- construction ----------------------------------------------------------

var (
	simMetaDB   *metadb.DB
	simHashSlot uint16
)

// Simulated time per run is capped below 2.5 s: a follower whose coalesced
// committed-HW checkpoint (armed 2.5-5 s after an empty pull) becomes due while
// it sits in pull backoff makes the reactor re-arm the overdue deadline in a
// loop that only ends when the wall clock passes the backoff
// (reactor/scheduler.go nextReplicationDue + follower_replication.go
// tickFollowerReplication); under the bubble's frozen clock that loop never
// ends. Staying below the earliest possible deadline keeps the state unreachable.
const (
	simTimeCap = 2300 * time.Millisecond
	opTimeout  = 150 * time.Millisecond
)

type quietLogger struct{}

func (quietLogger) Infof(string, ...interface{})  {}
func (quietLogger) Errorf(string, ...interface{}) {}
func (quietLogger) Fatalf(f string, a ...interface{}) {
	panic(fmt.Sprintf("pebble fatal: "+f, a...))
}

func (e *engine) makeStores() (func(id ch.NodeID) (channelstore.Factory, func()), func(), error) {
	fs := vfs.NewMem()
	dbengine.VerifPebbleHook = func(o *pebble.Options) {
		o.FS = fs
		o.MemTableSize = 1 << 20
		o.Logger = quietLogger{}
	}
	db, err := metadb.Open("meta")
	if err != nil {
		dbengine.VerifPebbleHook = nil
		return nil, nil, err
	}
	simMetaDB = db
	mk := func(id ch.NodeID) (channelstore.Factory, func()) {
		if e.c.msgdb {
			// An append holds the channel log's append mutex while the group-commit
			// coordinator collects for its flush window (a timer). Any second repo
			// goroutine that asks for that mutex meanwhile (the quorum repair owner's
			// Load, a retention trim) waits on a sync.Mutex, which is not durably
			// blocking, so the bubble's clock could never reach the timer. A negative
			// window selects the coordinator's timer-free collect path (0 would be
			// replaced by the 500µs default); one shard keeps commit order canonical.
			opts := channelstore.MessageDBFactoryOptions{CommitShards: 1, CommitFlushWindow: -1}
			f := channelstore.NewMessageDBFactoryWithOptions(fmt.Sprintf("msg%d", id), opts)
			return f, func() { _ = f.Close() }
		}
		return channelstore.NewMemoryFactory(), nil
	}
	cleanup := func() {
		_ = db.Close()
		simMetaDB = nil
		dbengine.VerifPebbleHook = nil
		simkit.Wait()
	}
	return mk, cleanup, nil
}

func (e *engine) makeReaders() error {
	e.readers = map[ch.NodeID]*infracluster.ChannelMessageReader{}
	e.mgmt = map[ch.NodeID]mgmtNode{}
	for _, id := range e.w.ids {
		nd := e.w.nodes[id]
		node, slot, err := cluster.VerifNewReadNode(nd.fac, simMetaDB, nd.svc, e.w.id.ID)
		if err != nil {
			return err
		}
		simHashSlot = slot
		e.mgmt[id] = node
		e.readers[id] = infracluster.NewChannelMessageReader(node)
		if mdb, ok := nd.fac.(*channelstore.MessageDBFactory); ok {
			// the node-level retention GC driver needs the MessageDB catalog; one channel
			// per catalog page so that its cursor really pages, trim budget from the run's regime
			maxMsgs, maxBytes := 0, 0
			switch e.c.trimLimit {
			case 1:
				maxMsgs = 2
			case 2:
				maxBytes = 8
			}
			batch := 1
			if e.c.trimLimit == 0 {
				batch = 2
			}
			cluster.VerifEnableRetentionGC(node, mdb, simMetaDB, uint64(id), batch, maxMsgs, maxBytes)
			if err := e.seedSideChannels(nd); err != nil {
				return err
			}
		}
	}
	if e.c.msgdb {
		// "side1" has authoritative metadata with a boundary but no runtime on any
		// node (its apply fails: the pass must carry on); "side2" has rows only
		slot := routingHashSlot("side1")
		err := simMetaDB.ForHashSlot(slot).UpsertChannelRuntimeMeta(context.Background(), metadb.ChannelRuntimeMeta{
			ChannelID: "side1", ChannelType: int64(e.w.id.Type), ChannelEpoch: 1, LeaderEpoch: 1, Replicas: []uint64{1, 2, 3}, ISR: []uint64{1, 2, 3},
			Leader: 1, MinISR: 2, Status: uint8(ch.StatusActive), RetentionThroughSeq: 2, RetentionUpdatedAtMS: 1,
		})
		if err != nil {
			return fmt.Errorf("side channel metadata: %w", err)
		}
	}
	return nil
}

func routingHashSlot(key string) uint16 { return routing.HashSlotForKey(key, 4) }

// seedSideChannels puts two more channels into the node's MessageDB catalog.
func (e *engine) seedSideChannels(nd *cnode) error {
	for k, name := range []string{"side1", "side2"} {
		base := uint64(900 + 10*k) // message ids are unique per MessageDB
		id := ch.ChannelID{ID: name, Type: e.w.id.Type}
		st, err := nd.fac.ChannelStore(ch.ChannelKeyForID(id), id)
		if err != nil {
			return err
		}
		recs := []ch.Record{{ID: base + 1, Payload: []byte("a"), SizeBytes: 1}, {ID: base + 2, Payload: []byte("b"), SizeBytes: 1}, {ID: base + 3, Payload: []byte("c"), SizeBytes: 1}}
		_, err = st.AppendLeader(context.Background(), channelstore.AppendLeaderRequest{Records: recs})
		_ = st.Close()
		if err != nil {
			return fmt.Errorf("seed %s on node %d: %w", name, nd.id, err)
		}
	}
	return nil
}

func toU64(in []ch.NodeID) []uint64 {
	out := make([]uint64, len(in))
	for i, n := range in {
		out[i] = uint64(n)
	}
	return out
}

// onPublish mirrors the authoritative metadata into the slot metadata DB read by the management path.
func (e *engine) onPublish(v int, m ch.Meta) {
	err := simMetaDB.ForHashSlot(simHashSlot).UpsertChannelRuntimeMeta(context.Background(), metadb.ChannelRuntimeMeta{
		ChannelID: e.w.id.ID, ChannelType: int64(e.w.id.Type), ChannelEpoch: m.Epoch, LeaderEpoch: m.LeaderEpoch,
		Replicas: toU64(m.Replicas), ISR: toU64(m.ISR), Leader: uint64(m.Leader), MinISR: int64(m.MinISR), Status: uint8(m.Status),
		LeaseUntilMS: m.LeaseUntil.UnixMilli(), RetentionThroughSeq: m.RetentionThroughSeq, RetentionUpdatedAtMS: int64(v),
	})
	if err != nil {
		e.r.Infra("slot metadata upsert v%d: %v", v, err)
		return
	}
	got, err := simMetaDB.ForHashSlot(simHashSlot).GetChannelRuntimeMeta(context.Background(), e.w.id.ID, int64(e.w.id.Type))
	if err != nil || got.RetentionThroughSeq != m.RetentionThroughSeq || got.LeaderEpoch != m.LeaderEpoch || got.ChannelEpoch != m.Epoch {
		e.r.Infra("slot metadata readback v%d: %+v err=%v", v, got, err)
	}
}

// ---- scheduler actions -----------------------------------------------------

func (e *engine) collect() []simkit.Action {
	w := e.w
	var acts []simkit.Action
	pend := w.sw.Pending()
	occ := map[string]int{}
	for _, p := range pend {
		p := p
		info := p.Info.(*rpcInfo)
		occ[p.Key]++
		key := fmt.Sprintf("%s #%d", p.Key, occ[p.Key])
		blocked := w.nodes[info.from].isolated || (w.nodes[info.to] != nil && w.nodes[info.to].isolated)
		// quorum mode: a forwarded append runs Service.Append on the target, which may
		// take the metadata-apply mutex; it waits in the network while another taker is inside
		gated := isAppendRPC(info.service) && w.svcBusy(info.to)
		if !blocked && !gated {
			acts = append(acts, simkit.Action{Prio: 0, Key: "deliver " + key, Weight: 8, Do: func() { w.sw.Release(p, rpcDeliver) }})
		}
		if blocked || e.c.fDrop {
			acts = append(acts, simkit.Action{Prio: 5, Key: "drop " + key, Weight: 1, Do: func() {
				e.r.Fault("net.drop")
				w.sw.Release(p, rpcDrop)
			}})
		}
		if !blocked && !gated && e.c.fDrop {
			acts = append(acts, simkit.Action{Prio: 5, Key: "dropresp " + key, Weight: 1, Do: func() {
				e.r.Fault("net.response_lost")
				w.sw.Release(p, rpcDropResponse)
			}})
		}
	}
	if e.started < e.c.ops && e.inflight < 3 {
		acts = append(acts, simkit.Action{Prio: 1, Key: "op", Weight: 10, Do: e.startOp})
	}
	if left := simTimeCap - time.Since(e.t0); left > 10*time.Millisecond {
		acts = append(acts, simkit.Action{Prio: 2, Key: "tick", Weight: 2, Do: func() {
			d := time.Duration(5+e.r.Tape.Intn(120)) * time.Millisecond
			if d > left {
				d = left
			}
			e.r.Logf("  tick %v", d)
			time.Sleep(d)
		}})
	}
	latest, _ := e.latest()
	if latest < 9 {
		acts = append(acts, simkit.Action{Prio: 3, Key: "control", Weight: 2, Do: e.controlPlane})
	}
	for _, id := range w.ids {
		id := id
		n := w.nodes[id]
		if n.view < latest && !w.svcInside(id) { // quorum mode: the view is frozen while a service call (and its retries) is inside the node
			acts = append(acts, simkit.Action{Prio: 3, Key: fmt.Sprintf("view n%d", id), Weight: 3, Do: func() {
				to := n.view + 1 + e.r.Tape.Intn(latest-n.view)
				if e.r.Tape.Intn(2) == 0 {
					to = latest
				}
				w.mu.Lock()
				n.view = to
				w.mu.Unlock()
				e.r.Logf("  node %d metadata view -> v%d", id, to)
			}})
		}
	}
	if e.c.fIsolate {
		var iso *cnode
		for _, id := range w.ids {
			if w.nodes[id].isolated {
				iso = w.nodes[id]
			}
		}
		if iso == nil {
			acts = append(acts, simkit.Action{Prio: 6, Key: "isolate", Weight: 1, Do: func() {
				n := w.nodes[w.ids[e.r.Tape.Intn(len(w.ids))]]
				w.mu.Lock()
				n.isolated = true
				w.mu.Unlock()
				e.r.Fault("net.isolate")
				e.r.Logf("  isolate node %d", n.id)
			}})
		} else {
			acts = append(acts, simkit.Action{Prio: 4, Key: "heal", Weight: 2, Do: func() {
				w.mu.Lock()
				iso.isolated = false
				w.mu.Unlock()
				e.r.Logf("  heal node %d", iso.id)
			}})
		}
	}
	return acts
}

// controlPlane publishes the next authoritative metadata version.
func (e *engine) controlPlane() {
	tp := e.r.Tape
	_, cur := e.latest()
	next := cloneMeta(cur)
	// what the management retention operator may accept: <= HW of the current leader
	lastObs := e.snaps[len(e.snaps)-1]
	ls := lastObs[cur.Leader]
	leaderHW := uint64(0)
	if ls != nil && ls.loaded && ls.rv.Role == ch.RoleLeader {
		leaderHW = ls.rv.HW
	}
	kind := tp.Weighted([]int{5, 3, 2})
	if kind == 0 && leaderHW <= cur.RetentionThroughSeq {
		kind = 1 + tp.Intn(2)
	}
	switch kind {
	case 0:
		span := int(leaderHW - cur.RetentionThroughSeq)
		next.RetentionThroughSeq = cur.RetentionThroughSeq + 1 + uint64(tp.Intn(span))
		e.publishMeta(next, "retention")
		e.r.Probe("control.retention_advance")
	case 1:
		next.LeaderEpoch++
		cands := []ch.NodeID{}
		for _, n := range next.ISR {
			if n != cur.Leader {
				cands = append(cands, n)
			}
		}
		if len(cands) == 0 {
			cands = append(cands, cur.Leader)
		}
		next.Leader = cands[tp.Intn(len(cands))]
		e.leaderChg = true
		if e.c.quorum {
			for _, op := range e.ops {
				if op.kind == "append" && !op.done {
					e.r.Probe("quorum.leader_change_with_inflight_append")
					break
				}
			}
		}
		e.publishMeta(next, "leader-change")
		e.r.Probe("control.leader_change")
	case 2:
		next.Epoch++
		// membership: keep the leader, draw an ISR containing it and a MinISR
		isr := []ch.NodeID{cur.Leader}
		for _, n := range next.Replicas {
			if n != cur.Leader && tp.Intn(3) != 0 {
				isr = append(isr, n)
			}
		}
		sortNodes(isr)
		next.ISR = isr
		next.MinISR = 1 + tp.Intn(len(isr))
		e.publishMeta(next, "membership")
		e.r.Probe("control.membership_change")
	}
}

func sortNodes(in []ch.NodeID) {
	for i := 1; i < len(in); i++ {
		for j := i; j > 0 && in[j] < in[j-1]; j-- {
			in[j], in[j-1] = in[j-1], in[j]
		}
	}
}

func (e *engine) newOp(kind string, node ch.NodeID) *opRec {
	op := &opRec{id: len(e.ops) + 1, kind: kind, node: node, start: len(e.snaps) - 1}
	op.viewIdx = e.w.nodes[node].view
	e.ops = append(e.ops, op)
	e.started++
	e.inflight++
	return op
}

func (e *engine) complete(op *opRec) {
	e.mu.Lock()
	op.done = true
	e.fin = append(e.fin, op)
	e.mu.Unlock()
}

func (e *engine) startOp() {
	tp := e.r.Tape
	w := e.w
	node := w.ids[tp.Intn(len(w.ids))]
	mg := 0
	if e.c.mgmtReads {
		mg = 3
	}
	gc := 0
	if e.c.msgdb {
		gc = 3 // the node-level retention GC pass pages the MessageDB channel catalog; appended last so older tapes keep their meaning
	}
	kind := tp.Weighted([]int{6, 5, 2, 1, 4, 2, mg, gc})
	if (kind == 0 || kind == 5) && w.svcBusy(node) {
		// quorum mode only: one metadata-lock taker per node at a time (see cworld.svcIn)
		e.r.Probe("quorum.lock_taker_deferred")
		kind = 1
	}
	switch kind {
	case 0:
		e.opAppend(node)
	case 1:
		e.opSync(node)
	case 2:
		e.opRaw(node)
	case 3:
		e.opSyncBatch(node)
	case 4:
		e.opRetention(node)
	case 5:
		e.opApplyMeta(node)
	case 6:
		e.opMgmt(node)
	case 7:
		e.opGC(node)
	}
}

type gcResult = cluster.ChannelRetentionGCResult

// gcCycle follows the driver's catalog cursor on one node from the first page to
// the page that reports no more entries.
type gcCycle struct {
	atStart int // channels in the node's catalog when the cycle began
	passes  int
	scanned int
}

// catalogSize counts the channels in a node's MessageDB catalog (-1: not a MessageDB node or unreadable).
func (e *engine) catalogSize(node ch.NodeID) int {
	mdb, ok := e.w.nodes[node].fac.(*channelstore.MessageDBFactory)
	if !ok {
		return -1
	}
	n := 0
	var after ch.ChannelKey
	for {
		entries, cursor, more, err := mdb.ListChannelsPage(context.Background(), after, 64)
		if err != nil {
			return -1
		}
		n += len(entries)
		if !more {
			return n
		}
		after = cursor
	}
}

// opGC runs one pass of the real node-level physical retention driver
// (pkg/cluster/channel_retention_physical.go RunChannelRetentionGCOnce): one
// catalog page of the node's MessageDB, the authoritative runtime metadata of
// every channel on it, ApplyChannelRetentionBoundary with the configured trim
// budget, cursor kept for the next pass.
func (e *engine) opGC(node ch.NodeID) {
	op := e.newOp("gc", node)
	_, cur := e.latest()
	op.through = cur.RetentionThroughSeq
	if cur.RetentionThroughSeq > e.maxReq[node] {
		e.maxReq[node] = cur.RetentionThroughSeq // the pass hands the authoritative boundary to the local runtime
	}
	op.desc = fmt.Sprintf("RunChannelRetentionGCOnce n%d (authoritative boundary %d)", node, cur.RetentionThroughSeq)
	e.r.Logf("  op%d %s", op.id, op.desc)
	nd := e.mgmt[node].(*cluster.Node)
	if e.gcCycles[node] == nil {
		e.gcCycles[node] = &gcCycle{atStart: e.catalogSize(node)}
	}
	go func() {
		// long-lived context, as the node's GC loop has (see opRetention)
		ctx, cancel := context.WithTimeout(context.Background(), opTimeout)
		_ = cancel
		res, err := nd.RunChannelRetentionGCOnce(ctx)
		op.err = err
		op.gc = res
		e.complete(op)
	}()
}

func (e *engine) opAppend(node ch.NodeID) {
	tp := e.r.Tape
	e.nextMsgID++
	id := e.nextMsgID
	barrier := tp.Intn(5) == 4
	mode := ch.CommitModeQuorum
	if tp.Intn(4) == 3 {
		mode = ch.CommitModeLocal
	}
	op := e.newOp("append", node)
	op.msgID = id
	msg := ch.Message{MessageID: id, FromUID: "u1", ClientMsgNo: fmt.Sprintf("c%d", id), Payload: []byte(fmt.Sprintf("p%d", id))}
	if barrier {
		// shape of a recovery barrier record (replication/recovery_barrier.go): SyncOnce, no sender, fixed 25 byte payload
		msg = ch.Message{MessageID: id, SyncOnce: true, Payload: append([]byte{1}, make([]byte, 24)...)}
		e.barrierIDs[id] = true
		e.r.Probe("append.barrier_shaped")
	}
	op.desc = fmt.Sprintf("append n%d id=%d mode=%d barrier=%v", node, id, mode, barrier)
	e.r.Logf("  op%d %s", op.id, op.desc)
	svc := e.w.nodes[node].svc
	chID := e.w.id
	e.w.svcEnter(node)
	go func() {
		defer e.w.svcLeave(node)
		ctx, cancel := context.WithTimeout(context.Background(), opTimeout)
		defer cancel()
		res, err := svc.Append(ctx, ch.AppendRequest{ChannelID: chID, Message: msg, CommitMode: mode})
		op.err = err
		op.appended = res.MessageSeq
		e.complete(op)
	}()
}

func (e *engine) drawSeq(allowZero bool) uint64 {
	tp := e.r.Tape
	maxLEO := uint64(0)
	for _, s := range e.snaps[len(e.snaps)-1] {
		if s.leo > maxLEO {
			maxLEO = s.leo
		}
	}
	v := uint64(tp.Intn(int(maxLEO) + 3))
	if !allowZero && v == 0 {
		v = 1
	}
	return v
}

func (e *engine) drawQuery() message.ChannelMessageQuery {
	tp := e.r.Tape
	q := message.ChannelMessageQuery{ChannelID: message.ChannelID{ID: e.w.id.ID, Type: e.w.id.Type}, Limit: 1 + tp.Intn(6)}
	switch tp.Weighted([]int{3, 3, 3, 1}) {
	case 0: // latest
	case 1: // older than / at start
		q.PullMode = message.PullModeDown
		q.StartSeq = e.drawSeq(false)
		if tp.Intn(2) == 1 {
			q.EndSeq = e.drawSeq(true)
		}
	case 2: // newer than / at start
		q.PullMode = message.PullModeUp
		q.StartSeq = e.drawSeq(true)
		if tp.Intn(2) == 1 {
			q.EndSeq = e.drawSeq(true)
		}
	case 3: // zero start, pull up
		q.PullMode = message.PullModeUp
		q.EndSeq = e.drawSeq(true)
	}
	if tp.Intn(3) == 0 {
		q.MinSeq = e.drawSeq(true)
	}
	return q
}

func (e *engine) drawRequest() channelstore.ReadCommittedRequest {
	tp := e.r.Tape
	req := channelstore.ReadCommittedRequest{FromSeq: e.drawSeq(true), Limit: tp.Intn(7), MaxBytes: []int{1 << 20, 0, 8, 20}[tp.Weighted([]int{5, 1, 1, 1})]}
	if tp.Intn(2) == 1 {
		req.MaxSeq = e.drawSeq(true)
	}
	if tp.Intn(3) == 0 {
		req.MinSeq = e.drawSeq(true)
	}
	if tp.Intn(2) == 1 {
		req.Reverse = true
		if tp.Intn(3) == 0 {
			req.FromSeq = ^uint64(0)
			req.MaxSeq = ^uint64(0)
		}
	}
	return req
}

func (e *engine) servingOf(node ch.NodeID) ch.NodeID {
	n := e.w.nodes[node]
	if n.view == 0 {
		return node
	}
	return e.metaAt(n.view).Leader
}

func fromSynced(in []message.SyncedMessage) []readMsg {
	out := make([]readMsg, len(in))
	for i, m := range in {
		out[i] = readMsg{seq: m.MessageSeq, id: m.MessageID}
	}
	return out
}

func fromRaw(in []ch.Message) []readMsg {
	out := make([]readMsg, len(in))
	for i, m := range in {
		out[i] = readMsg{seq: m.MessageSeq, id: m.MessageID, syncOnce: m.SyncOnce}
	}
	return out
}

func (e *engine) opSync(node ch.NodeID) {
	q := e.drawQuery()
	op := e.newOp("sync", node)
	op.synced = true
	op.serving = e.servingOf(node)
	op.desc = fmt.Sprintf("SyncMessages n%d(serving n%d) mode=%d start=%d end=%d min=%d limit=%d", node, op.serving, q.PullMode, q.StartSeq, q.EndSeq, q.MinSeq, q.Limit)
	e.r.Logf("  op%d %s", op.id, op.desc)
	rd := e.readers[node]
	go func() {
		ctx, cancel := context.WithTimeout(context.Background(), opTimeout)
		defer cancel()
		page, err := rd.SyncMessages(ctx, q)
		op.err = err
		op.msgs = fromSynced(page.Messages)
		if err == nil {
			op.pages = append(op.pages, syncPage{q: q, msgs: fromSynced(page.Messages), hasMore: page.HasMore})
		}
		e.complete(op)
	}()
}

func (e *engine) opSyncBatch(node ch.NodeID) {
	q1, q2 := e.drawQuery(), e.drawQuery()
	op := e.newOp("syncbatch", node)
	op.synced = true
	op.serving = e.servingOf(node)
	op.desc = fmt.Sprintf("SyncMessagesBatch n%d(serving n%d) [mode=%d start=%d end=%d min=%d limit=%d] [mode=%d start=%d end=%d min=%d limit=%d]", node, op.serving,
		q1.PullMode, q1.StartSeq, q1.EndSeq, q1.MinSeq, q1.Limit, q2.PullMode, q2.StartSeq, q2.EndSeq, q2.MinSeq, q2.Limit)
	e.r.Logf("  op%d %s", op.id, op.desc)
	rd := e.readers[node]
	go func() {
		ctx, cancel := context.WithTimeout(context.Background(), opTimeout)
		defer cancel()
		results, err := rd.SyncMessagesBatch(ctx, []message.ChannelMessageQuery{q1, q2})
		op.err = err
		qs := []message.ChannelMessageQuery{q1, q2}
		for i, res := range results {
			if res.Err != nil {
				if op.err == nil {
					op.err = res.Err
				}
				continue
			}
			op.msgs = append(op.msgs, fromSynced(res.Page.Messages)...)
			if i < len(qs) {
				op.pages = append(op.pages, syncPage{q: qs[i], msgs: fromSynced(res.Page.Messages), hasMore: res.Page.HasMore})
			}
		}
		e.complete(op)
	}()
}

func (e *engine) opRaw(node ch.NodeID) {
	req := e.drawRequest()
	op := e.newOp("raw", node)
	op.serving = e.servingOf(node)
	op.desc = fmt.Sprintf("ReadChannelCommittedBatch n%d(serving n%d) from=%d max=%d min=%d limit=%d bytes=%d reverse=%v", node, op.serving, req.FromSeq, req.MaxSeq, req.MinSeq, req.Limit, req.MaxBytes, req.Reverse)
	e.r.Logf("  op%d %s", op.id, op.desc)
	nd := e.mgmt[node]
	chID := e.w.id
	go func() {
		ctx, cancel := context.WithTimeout(context.Background(), opTimeout)
		defer cancel()
		results, err := nd.ReadChannelCommittedBatch(ctx, []channels.CommittedRead{{ChannelID: chID, Request: req}})
		op.err = err
		if err == nil && len(results) == 1 {
			op.err = results[0].Err
			op.msgs = fromRaw(results[0].Read.Messages)
		}
		e.complete(op)
	}()
}

func (e *engine) opMgmt(node ch.NodeID) {
	req := e.drawRequest()
	if req.Limit == 0 {
		req.Limit = 5
	}
	op := e.newOp("mgmt", node)
	op.mgmt = true
	op.serving = node
	_, cur := e.latest()
	op.through = cur.RetentionThroughSeq // authoritative boundary at invocation
	op.desc = fmt.Sprintf("Node.ReadChannelCommitted n%d from=%d max=%d min=%d limit=%d reverse=%v", node, req.FromSeq, req.MaxSeq, req.MinSeq, req.Limit, req.Reverse)
	e.r.Logf("  op%d %s", op.id, op.desc)
	nd := e.mgmt[node]
	chID := e.w.id
	go func() {
		ctx, cancel := context.WithTimeout(context.Background(), opTimeout)
		defer cancel()
		res, err := nd.ReadChannelCommitted(ctx, chID, req)
		op.err = err
		op.msgs = fromRaw(res.Messages)
		e.complete(op)
	}()
}

func (e *engine) opRetention(node ch.NodeID) {
	tp := e.r.Tape
	latest, cur := e.latest()
	through := cur.RetentionThroughSeq
	how := "current"
	if e.c.fRegress && latest > 1 && tp.Intn(3) == 0 {
		v := 1 + tp.Intn(latest)
		through = e.metaAt(v).RetentionThroughSeq
		how = fmt.Sprintf("from-v%d", v)
		if through < cur.RetentionThroughSeq {
			e.r.Fault("retention.regressing_update")
		} else {
			e.r.Fault("retention.duplicate_update")
		}
	} else if e.c.fBeyond && tp.Intn(4) == 0 {
		through = cur.RetentionThroughSeq + 1 + uint64(tp.Intn(3))
		how = "beyond-authoritative"
		e.r.Fault("retention.beyond_authoritative")
	}
	if through == 0 {
		// the GC loop skips channels without a boundary; spend the op on a metadata apply instead
		e.opApplyMeta(node)
		return
	}
	opts := ch.RetentionApplyOptions{}
	switch e.c.trimLimit {
	case 1:
		opts.MaxTrimMessages = 1 + tp.Intn(2)
	case 2:
		opts.MaxTrimBytes = 4 + tp.Intn(10)
	}
	op := e.newOp("retention", node)
	op.through = through
	if through > e.maxReq[node] {
		e.maxReq[node] = through
	}
	op.desc = fmt.Sprintf("ApplyChannelRetentionBoundary n%d through=%d (%s) maxmsgs=%d maxbytes=%d", node, through, how, opts.MaxTrimMessages, opts.MaxTrimBytes)
	e.r.Logf("  op%d %s", op.id, op.desc)
	nd := e.mgmt[node].(*cluster.Node)
	chID := e.w.id
	go func() {
		// The retention GC loop passes a long-lived context. The reactor hands this
		// context to the checkpoint task it submits when the trim is blocked by
		// checkpoint lag; cancelling it as soon as the call returns would race with
		// that task (executed or skipped depending on goroutine scheduling).
		ctx, cancel := context.WithTimeout(context.Background(), opTimeout)
		_ = cancel
		res, err := nd.ApplyChannelRetentionBoundary(ctx, chID, through, opts)
		op.err = err
		op.applyRes = res
		e.complete(op)
	}()
}

func (e *engine) opApplyMeta(node ch.NodeID) {
	n := e.w.nodes[node]
	op := e.newOp("applymeta", node)
	if n.view == 0 {
		op.desc = fmt.Sprintf("ApplyMeta n%d (no view)", node)
		e.r.Logf("  op%d %s", op.id, op.desc)
		e.complete(op)
		return
	}
	m := e.metaAt(n.view)
	v := n.view
	op.desc = fmt.Sprintf("ApplyMeta n%d v%d", node, v)
	if e.w.svcBusy(node) {
		// quorum mode only (reached through the retention fallback): another call may hold the metadata-apply mutex
		op.desc += " (skipped: service busy)"
		e.r.Logf("  op%d %s", op.id, op.desc)
		e.complete(op)
		return
	}
	e.r.Logf("  op%d %s", op.id, op.desc)
	op.meta, op.hasMeta = m, true
	e.w.svcEnter(node)
	go func() {
		defer e.w.svcLeave(node)
		op.err = n.svc.ApplyMeta(m)
		e.complete(op)
	}()
}
