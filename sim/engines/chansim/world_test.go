package chansim

// World of the chansim engine: N real channel nodes (pkg/cluster/channels.Service
// over the real pkg/channel service/reactor/worker stack and a real store), the
// real channels.TransportClient + handler registration (real wire codec on every
// hop) over a simulated clusternet.Caller, a per-node view of the authoritative
// channel metadata history (stub of the slot metadata replica), the real
// internal/infra/cluster.ChannelMessageReader and a partial real pkg/cluster.Node
// for the management read path.

import (
	"context"
	"errors"
	"fmt"
	"hash/fnv"
	"runtime"
	"sync"
	"time"

	"github.com/WuKongIM/WuKongIM/internal/verifsim/simkit"
	ch "github.com/WuKongIM/WuKongIM/pkg/channel"
	channelstore "github.com/WuKongIM/WuKongIM/pkg/channel/store"
	"github.com/WuKongIM/WuKongIM/pkg/cluster/channels"
	clusternet "github.com/WuKongIM/WuKongIM/pkg/cluster/net"
)

// decisions for a parked RPC
const (
	rpcDeliver = iota
	rpcDrop
	rpcDropResponse
	rpcClosed
)

var errSimDropped = errors.New("chansim: rpc dropped by simulated network")

type rpcInfo struct {
	from, to ch.NodeID
	service  uint8
	payload  []byte
}

// simCaller is the clusternet.Caller of one node.
type simCaller struct {
	w    *cworld
	from ch.NodeID
}

func payloadHash(b []byte) uint32 {
	h := fnv.New32a()
	h.Write(b)
	return h.Sum32()
}

func (c *simCaller) Call(ctx context.Context, nodeID uint64, serviceID uint8, payload []byte) ([]byte, error) {
	w := c.w
	to := ch.NodeID(nodeID)
	key := fmt.Sprintf("rpc %d->%d svc=%d len=%d h=%08x", c.from, to, serviceID, len(payload), payloadHash(payload))
	info := &rpcInfo{from: c.from, to: to, service: serviceID, payload: payload}
	var done <-chan struct{}
	if ctx != nil {
		done = ctx.Done()
	}
	d := rpcDeliver
	if serviceID == clusternet.RPCChannelPullHint || serviceID == clusternet.RPCChannelPullHintBatch || serviceID == clusternet.RPCChannelNotify {
		// Best-effort wakeups are fanned out by the leader one target after the
		// other in Go map order; parking them would let that order reach the
		// schedule. They are delivered at once (or refused while a side is
		// isolated); followers still have their own poll timers.
		if w.isolatedEither(c.from, to) {
			return nil, errSimDropped
		}
	} else {
		d = w.sw.ParkCtx(done, key, info, -1)
	}
	switch d {
	case -1:
		return nil, ctx.Err()
	case rpcDrop, rpcClosed:
		return nil, errSimDropped
	}
	target := w.nodes[to]
	if target == nil {
		return nil, errSimDropped
	}
	target.hmu.Lock()
	h := target.handlers[serviceID]
	target.hmu.Unlock()
	if h == nil {
		return nil, errSimDropped
	}
	resp, err := h.HandleRPC(ctx, append([]byte(nil), payload...))
	if d == rpcDropResponse {
		return nil, errSimDropped
	}
	return resp, err
}

// registrar collects the handlers the real code registers for one node.
type registrar struct{ n *cnode }

func (r registrar) Register(serviceID uint8, handler clusternet.Handler) {
	r.n.hmu.Lock()
	r.n.handlers[serviceID] = handler
	r.n.hmu.Unlock()
}

// metaView is the ChannelMetaSource of one node: its (possibly lagging) view of
// the authoritative metadata history.
type metaView struct {
	w *cworld
	n *cnode
}

func (v metaView) ResolveChannelMeta(ctx context.Context, id ch.ChannelID) (ch.Meta, error) {
	v.w.mu.Lock()
	defer v.w.mu.Unlock()
	if id != v.w.id || v.n.view == 0 {
		return ch.Meta{}, ch.ErrChannelNotFound
	}
	return cloneMeta(v.w.metas[v.n.view]), nil
}

func cloneMeta(m ch.Meta) ch.Meta {
	out := m
	out.Replicas = append([]ch.NodeID(nil), m.Replicas...)
	out.ISR = append([]ch.NodeID(nil), m.ISR...)
	return out
}

type cnode struct {
	id       ch.NodeID
	fac      channelstore.Factory
	closeFac func()
	svc      *channels.Service
	hmu      sync.Mutex
	handlers map[uint8]clusternet.Handler
	view     int // index into cworld.metas (0 = no metadata yet)
	applied  int // highest version explicitly applied to the runtime by the simulator
	isolated bool
}

type cworld struct {
	r     *simkit.Run
	sw    *simkit.World
	mu    sync.Mutex
	id    ch.ChannelID
	key   ch.ChannelKey
	nodes map[ch.NodeID]*cnode
	ids   []ch.NodeID
	metas []ch.Meta // authoritative history; metas[0] unused
}

func newWorld(r *simkit.Run, n int, mkStore func(id ch.NodeID) (channelstore.Factory, func())) (*cworld, error) {
	return newWorldBatchWait(r, n, mkStore, time.Millisecond)
}

// newWorldBatchWait is newWorld with an explicit leader append flush window
// (a longer window keeps accepted appends queued across scheduler steps).
func newWorldBatchWait(r *simkit.Run, n int, mkStore func(id ch.NodeID) (channelstore.Factory, func()), batchWait time.Duration) (*cworld, error) {
	w := &cworld{r: r, sw: simkit.NewWorld(r), nodes: map[ch.NodeID]*cnode{}, metas: []ch.Meta{{}}}
	w.id = ch.ChannelID{ID: "room", Type: 2}
	w.key = ch.ChannelKeyForID(w.id)
	for i := 1; i <= n; i++ {
		id := ch.NodeID(i)
		nd := &cnode{id: id, handlers: map[uint8]clusternet.Handler{}}
		nd.fac, nd.closeFac = mkStore(id)
		svc, err := channels.NewService(channels.Config{
			LocalNode:    id,
			ReactorCount: 1,
			MailboxSize:  64, // default 1024 per priority queue and per pool queue costs ~0.2 s of allocation per node
			// enough workers that parked RPCs never saturate the ants pools
			StoreAppendWorkers: 4, StoreApplyWorkers: 4, RPCWorkers: 16,
			AppendBatchMaxWait: batchWait,
			Store:              nd.fac,
			Transport:          channels.NewTransportClient(&simCaller{w: w, from: id}),
			MetaSource:         metaView{w: w, n: nd},
		})
		if err != nil {
			return nil, err
		}
		nd.svc = svc
		channels.RegisterServiceHandlersOn(registrar{nd}, svc)
		w.nodes[id] = nd
		w.ids = append(w.ids, id)
	}
	return w, nil
}

func (w *cworld) isolatedEither(a, b ch.NodeID) bool {
	w.mu.Lock()
	defer w.mu.Unlock()
	na, nb := w.nodes[a], w.nodes[b]
	return (na != nil && na.isolated) || (nb != nil && nb.isolated)
}

func (w *cworld) close() {
	// ants.ReleaseTimeout spins (without blocking) until the pool's helper
	// goroutines have exited; with one P that costs a 10 ms preemption per
	// pool (21 pools). Teardown happens after the last trace line, so it may
	// run on two Ps.
	if prev := runtime.GOMAXPROCS(0); prev < 2 {
		runtime.GOMAXPROCS(2)
		defer runtime.GOMAXPROCS(prev)
	}
	w.sw.CloseAll(rpcClosed)
	simkit.Wait()
	for _, id := range w.ids {
		_ = w.nodes[id].svc.Close()
	}
	simkit.Wait()
	for _, id := range w.ids {
		if f := w.nodes[id].closeFac; f != nil {
			f()
		}
	}
}
