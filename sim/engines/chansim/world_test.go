package chansim

// World of the chansim engine: N real channel nodes (pkg/cluster/channels.Service
// over the real pkg/channel service/reactor/worker stack and a real store), the
// real channels.TransportClient + handler registration (real wire codec on every
// hop) over a simulated clusternet.Caller, a per-node view of the authoritative
// channel metadata history (stub of the slot metadata replica), the real
// internal/infra/cluster.ChannelMessageReader and a partial real pkg/cluster.Node
// for the management read path.

import (
	"context"
	"errors"
	"fmt"
	"hash/fnv"
	"runtime"
	"sync"
	"sync/atomic"
	"time"

	"github.com/WuKongIM/WuKongIM/internal/verifsim/simkit"
	ch "github.com/WuKongIM/WuKongIM/pkg/channel"
	"github.com/WuKongIM/WuKongIM/pkg/channel/replication"
	channelstore "github.com/WuKongIM/WuKongIM/pkg/channel/store"
	"github.com/WuKongIM/WuKongIM/pkg/cluster/channels"
	clusternet "github.com/WuKongIM/WuKongIM/pkg/cluster/net"
	goruntimeregistry "github.com/WuKongIM/WuKongIM/pkg/goroutine"
)

// decisions for a parked RPC
const (
	rpcDeliver = iota
	rpcDrop
	rpcDropResponse
	rpcClosed
)

var errSimDropped = errors.New("chansim: rpc dropped by simulated network")

type rpcInfo struct {
	from, to ch.NodeID
	service  uint8
	payload  []byte
}

// simCaller is the clusternet.Caller of one node.
type simCaller struct {
	w    *cworld
	from ch.NodeID
}

func payloadHash(b []byte) uint32 {
	h := fnv.New32a()
	h.Write(b)
	return h.Sum32()
}

func (c *simCaller) Call(ctx context.Context, nodeID uint64, serviceID uint8, payload []byte) ([]byte, error) {
	w := c.w
	to := ch.NodeID(nodeID)
	key := fmt.Sprintf("rpc %d->%d svc=%d len=%d h=%08x", c.from, to, serviceID, len(payload), payloadHash(payload))
	info := &rpcInfo{from: c.from, to: to, service: serviceID, payload: payload}
	var done <-chan struct{}
	if ctx != nil {
		done = ctx.Done()
	}
	d := rpcDeliver
	if serviceID == clusternet.RPCChannelPullHint || serviceID == clusternet.RPCChannelPullHintBatch || serviceID == clusternet.RPCChannelNotify {
		// Best-effort wakeups are fanned out by the leader one target after the
		// other in Go map order; parking them would let that order reach the
		// schedule. They are delivered at once (or refused while a side is
		// isolated); followers still have their own poll timers.
		if w.isolatedEither(c.from, to) {
			return nil, errSimDropped
		}
	} else {
		d = w.sw.ParkCtx(done, key, info, -1)
	}
	switch d {
	case -1:
		return nil, ctx.Err()
	case rpcDrop, rpcClosed:
		return nil, errSimDropped
	}
	target := w.nodes[to]
	if target == nil {
		return nil, errSimDropped
	}
	target.hmu.Lock()
	h := target.handlers[serviceID]
	target.hmu.Unlock()
	if h == nil {
		return nil, errSimDropped
	}
	if isAppendRPC(serviceID) {
		w.svcEnter(to) // the forwarded append runs Service.Append on the target
		defer w.svcLeave(to)
	}
	resp, err := h.HandleRPC(ctx, append([]byte(nil), payload...))
	if d == rpcDropResponse {
		return nil, errSimDropped
	}
	return resp, err
}

// registrar collects the handlers the real code registers for one node.
type registrar struct{ n *cnode }

func (r registrar) Register(serviceID uint8, handler clusternet.Handler) {
	r.n.hmu.Lock()
	r.n.handlers[serviceID] = handler
	r.n.hmu.Unlock()
}

// metaView is the ChannelMetaSource of one node: its (possibly lagging) view of
// the authoritative metadata history.
type metaView struct {
	w *cworld
	n *cnode
}

func (v metaView) ResolveChannelMeta(ctx context.Context, id ch.ChannelID) (ch.Meta, error) {
	v.w.mu.Lock()
	defer v.w.mu.Unlock()
	if id != v.w.id || v.n.view == 0 {
		return ch.Meta{}, ch.ErrChannelNotFound
	}
	return cloneMeta(v.w.metas[v.n.view]), nil
}

func cloneMeta(m ch.Meta) ch.Meta {
	out := m
	out.Replicas = append([]ch.NodeID(nil), m.Replicas...)
	out.ISR = append([]ch.NodeID(nil), m.ISR...)
	return out
}

type cnode struct {
	id       ch.NodeID
	fac      channelstore.Factory
	closeFac func()
	svc      *channels.Service
	hmu      sync.Mutex
	handlers map[uint8]clusternet.Handler
	view     int // index into cworld.metas (0 = no metadata yet)
	applied  int // highest version explicitly applied to the runtime by the simulator
	isolated bool
	quorumRT *replication.Runtime // production composition only
	qlog     *recordingQuorumLog  // production composition only: what the reactor handed to the quorum log
}

// recordingQuorumLog is the production quorum log (replication.Runtime.Log())
// with a call record in front of it: every Install the reactor submitted. It
// adds no waiting and changes no argument or result.
type recordingQuorumLog struct {
	inner    replication.DurableQuorumLog
	mu       sync.Mutex
	installs []quorumInstallRec
}

type quorumInstallRec struct {
	auth replication.Authority
	done bool
	err  error
}

func (l *recordingQuorumLog) Install(ctx context.Context, a replication.Authority) (replication.Installed, error) {
	l.mu.Lock()
	i := len(l.installs)
	a.Voters = append([]ch.NodeID(nil), a.Voters...)
	l.installs = append(l.installs, quorumInstallRec{auth: a})
	l.mu.Unlock()
	res, err := l.inner.Install(ctx, a)
	l.mu.Lock()
	l.installs[i].done, l.installs[i].err = true, err
	l.mu.Unlock()
	return res, err
}

func (l *recordingQuorumLog) Commit(ctx context.Context, p replication.Proposal) (replication.Receipt, error) {
	return l.inner.Commit(ctx, p)
}

// installsSnapshot returns the Install calls submitted so far, in submission order.
func (l *recordingQuorumLog) installsSnapshot() []quorumInstallRec {
	if l == nil {
		return nil
	}
	l.mu.Lock()
	defer l.mu.Unlock()
	return append([]quorumInstallRec(nil), l.installs...)
}

type cworld struct {
	r     *simkit.Run
	sw    *simkit.World
	mu    sync.Mutex
	id    ch.ChannelID
	key   ch.ChannelKey
	nodes map[ch.NodeID]*cnode
	ids   []ch.NodeID
	metas []ch.Meta // authoritative history; metas[0] unused

	quorum bool
	// svcIn counts the calls currently inside one node's channels.Service that
	// can take its per-channel metadata-apply mutex (ApplyMeta, Append,
	// AppendBatch, a forwarded append being handled). With the quorum log the
	// leader holds that mutex while Install runs its network rounds, and a
	// second caller would wait on a sync.Mutex, which never lets the bubble
	// become quiescent. In quorum mode the simulator therefore admits one such
	// call per node at a time (reads, retention and runtime-surface calls do not
	// take the mutex).
	svcIn map[ch.NodeID]int
	// inflightFn tells whether the last observation showed an append proposal in flight on a node's reactor
	inflightFn func(ch.NodeID) bool
}

func (w *cworld) svcEnter(n ch.NodeID) {
	w.mu.Lock()
	w.svcIn[n]++
	w.mu.Unlock()
}

func (w *cworld) svcLeave(n ch.NodeID) {
	w.mu.Lock()
	w.svcIn[n]--
	w.mu.Unlock()
}

// svcBusy reports whether the simulator must keep further metadata-lock takers
// away from node n. Besides the service mutex there is the quorum log's own
// per-channel mutex: Install and Commit hold it across their network rounds and
// the reactor does submit an Install (new authority) while a Commit or an older
// Install is still out. In production the second call simply waits; inside a
// bubble a goroutine waiting on a sync.Mutex keeps the world from ever becoming
// quiescent. So in quorum mode nothing that can carry a new authority to node n
// (ApplyMeta, Append through the service, a forwarded append) is started while
// n's log has a round in flight, and n's metadata view only moves while no
// service call is inside n. The mutex serialises those calls in production
// too; what is lost is the reactor seeing the new authority before the old
// round's result (covered in pull/ack mode and by machinesim).
func (w *cworld) svcBusy(n ch.NodeID) bool {
	if !w.quorum {
		return false
	}
	w.mu.Lock()
	in := w.svcIn[n]
	w.mu.Unlock()
	return in > 0 || w.logBusy(n)
}

// svcInside: a harness-visible call is inside n's service (its retries resolve n's view).
func (w *cworld) svcInside(n ch.NodeID) bool {
	if !w.quorum {
		return false
	}
	w.mu.Lock()
	defer w.mu.Unlock()
	return w.svcIn[n] > 0
}

// logBusy: node n's quorum log has (or may have) a round in flight. Call at quiescence only.
func (w *cworld) logBusy(n ch.NodeID) bool {
	if !w.quorum {
		return false
	}
	if w.inflightFn != nil && w.inflightFn(n) {
		return true
	}
	for _, p := range w.sw.Pending() {
		if info, ok := p.Info.(*rpcInfo); ok && info.from == n && info.service == clusternet.RPCChannelQuorumExchange {
			return true
		}
	}
	return false
}

func isAppendRPC(service uint8) bool {
	return service == clusternet.RPCChannelAppend || service == clusternet.RPCChannelAppendBatch
}

// bootstrap applies the first metadata on every node. With the quorum log the
// leader's ApplyMeta returns only after Install probed its peers, so the calls
// run as goroutines while every exchange is delivered in canonical order.
func (w *cworld) bootstrap(m ch.Meta) error {
	if !w.quorum {
		for _, id := range w.ids {
			if err := w.nodes[id].svc.ApplyMeta(cloneMeta(m)); err != nil {
				return fmt.Errorf("node %d: %w", id, err)
			}
		}
		return nil
	}
	errs := make([]error, len(w.ids))
	var done sync.WaitGroup
	var finished atomic.Int32
	for i, id := range w.ids {
		i, id := i, id
		done.Add(1)
		go func() {
			defer done.Done()
			errs[i] = w.nodes[id].svc.ApplyMeta(cloneMeta(m))
			finished.Add(1)
		}()
	}
	delivered := 0
	for round := 0; round < 400 && int(finished.Load()) < len(w.ids); round++ {
		simkit.Wait()
		pend := w.sw.Pending()
		if len(pend) == 0 {
			time.Sleep(2 * time.Millisecond)
			continue
		}
		w.sw.Release(pend[0], rpcDeliver)
		delivered++
	}
	simkit.Wait()
	if int(finished.Load()) < len(w.ids) {
		return fmt.Errorf("bootstrap did not finish after %d delivered exchanges", delivered)
	}
	done.Wait()
	w.r.Logf("bootstrap: first metadata installed after %d delivered RPCs", delivered)
	for i, err := range errs {
		if err != nil {
			return fmt.Errorf("node %d: %w", w.ids[i], err)
		}
	}
	return nil
}

func newWorld(r *simkit.Run, n int, mkStore func(id ch.NodeID) (channelstore.Factory, func())) (*cworld, error) {
	return newWorldBatchWait(r, n, mkStore, time.Millisecond)
}

// newWorldBatchWait is newWorld with an explicit leader append flush window
// (a longer window keeps accepted appends queued across scheduler steps).
func newWorldBatchWait(r *simkit.Run, n int, mkStore func(id ch.NodeID) (channelstore.Factory, func()), batchWait time.Duration) (*cworld, error) {
	return newWorldOpts(r, n, mkStore, worldOpts{batchWait: batchWait})
}

// worldOpts selects the composition of every node.
type worldOpts struct {
	batchWait time.Duration
	// quorum wires the production default of pkg/cluster/node_defaults.go:
	// replication.NewStoreAdapter + channels.NewQuorumPeerLink +
	// replication.NewRuntime, QuorumLog: runtime.Log() into channels.NewService
	// and the quorum exchange gateway registered next to the service handlers.
	// The exchange RPC travels through the same simulated caller (real codec,
	// parked at the scheduler) as every other channel RPC. Without it the
	// reactor uses the transitional pull/ack replication.
	quorum bool
}

func newWorldOpts(r *simkit.Run, n int, mkStore func(id ch.NodeID) (channelstore.Factory, func()), o worldOpts) (*cworld, error) {
	w := &cworld{r: r, sw: simkit.NewWorld(r), nodes: map[ch.NodeID]*cnode{}, metas: []ch.Meta{{}}, quorum: o.quorum, svcIn: map[ch.NodeID]int{}}
	w.id = ch.ChannelID{ID: "room", Type: 2}
	w.key = ch.ChannelKeyForID(w.id)
	batchWait := o.batchWait
	for i := 1; i <= n; i++ {
		id := ch.NodeID(i)
		nd := &cnode{id: id, handlers: map[uint8]clusternet.Handler{}}
		nd.fac, nd.closeFac = mkStore(id)
		caller := &simCaller{w: w, from: id}
		var quorumLog replication.DurableQuorumLog
		if o.quorum {
			storeAdapter, err := replication.NewStoreAdapter(replication.StoreAdapterConfig{
				Factory: nd.fac, MaxBatchItems: replication.MaxExchangeBatchItems, MaxBatchBytes: replication.MaxExchangeBatchBytes,
			})
			if err != nil {
				return nil, err
			}
			peerLink, err := channels.NewQuorumPeerLink(id, caller)
			if err != nil {
				return nil, err
			}
			rt, err := replication.NewRuntime(replication.RuntimeConfig{
				LocalNode: id, Store: storeAdapter, Link: peerLink, Goroutines: goruntimeregistry.New(), MaxChannels: 64, MaxVoters: n,
				// knobs that matter inside a bubble (see quorumsim): one flight per
				// peer target (more flights re-arm an idle drain worker in a tight
				// loop), pools large enough that parked exchanges never saturate
				// them, small admission queues, timeouts that fit the simulated-time cap
				LocalWorkers: 8, PeerWorkers: 32, PeerTargetFlight: 1, RepairWorkers: 2,
				BatchItems: 16, QueueItems: 64, TargetItems: 32,
				ExchangeTimeout: 200 * time.Millisecond, LocalTimeout: 200 * time.Millisecond, RecoveryTimeout: 600 * time.Millisecond,
				CloseTimeout: 2 * time.Second,
			})
			if err != nil {
				return nil, err
			}
			nd.quorumRT = rt
			nd.qlog = &recordingQuorumLog{inner: rt.Log()}
			quorumLog = nd.qlog
		}
		svc, err := channels.NewService(channels.Config{
			QuorumLog:    quorumLog,
			LocalNode:    id,
			ReactorCount: 1,
			MailboxSize:  64, // default 1024 per priority queue and per pool queue costs ~0.2 s of allocation per node
			// enough workers that parked RPCs never saturate the ants pools
			StoreAppendWorkers: 4, StoreApplyWorkers: 4, RPCWorkers: 16,
			AppendBatchMaxWait: batchWait,
			Store:              nd.fac,
			Transport:          channels.NewTransportClient(caller),
			MetaSource:         metaView{w: w, n: nd},
		})
		if err != nil {
			return nil, err
		}
		nd.svc = svc
		channels.RegisterServiceHandlersOn(registrar{nd}, svc)
		if nd.quorumRT != nil {
			channels.RegisterQuorumExchangeHandlerOn(registrar{nd}, channels.NewQuorumExchangeGateway(nd.quorumRT.ExchangeServer()))
		}
		w.nodes[id] = nd
		w.ids = append(w.ids, id)
	}
	return w, nil
}

func (w *cworld) isolatedEither(a, b ch.NodeID) bool {
	w.mu.Lock()
	defer w.mu.Unlock()
	na, nb := w.nodes[a], w.nodes[b]
	return (na != nil && na.isolated) || (nb != nil && nb.isolated)
}

func (w *cworld) close() {
	// ants.ReleaseTimeout spins (without blocking) until the pool's helper
	// goroutines have exited; with one P that costs a 10 ms preemption per
	// pool (21 pools). Teardown happens after the last trace line, so it may
	// run on two Ps.
	if prev := runtime.GOMAXPROCS(0); prev < 2 {
		runtime.GOMAXPROCS(2)
		defer runtime.GOMAXPROCS(prev)
	}
	w.sw.CloseAll(rpcClosed)
	simkit.Wait()
	for _, id := range w.ids {
		_ = w.nodes[id].svc.Close()
	}
	simkit.Wait()
	for _, id := range w.ids {
		if rt := w.nodes[id].quorumRT; rt != nil {
			_ = rt.Close(context.Background())
		}
	}
	simkit.Wait()
	for _, id := range w.ids {
		if f := w.nodes[id].closeFac; f != nil {
			f()
		}
	}
}
