package chansim

import (
	"fmt"
	"strings"

	ch "github.com/WuKongIM/WuKongIM/pkg/channel"
)

type pendingViolation struct {
	class, sig, detail string
	facts              map[string]any
}

func errClass(err error) string {
	if err == nil {
		return "ok"
	}
	s := err.Error()
	if i := strings.LastIndex(s, ": "); i >= 0 && len(s)-i < 40 {
		s = s[i+2:]
	}
	if len(s) > 40 {
		s = s[:40]
	}
	return s
}

func seqList(ms []readMsg) string {
	parts := make([]string, len(ms))
	for i, m := range ms {
		parts[i] = fmt.Sprint(m.seq)
		if m.syncOnce {
			parts[i] += "b"
		}
	}
	return "[" + strings.Join(parts, " ") + "]"
}

// finish evaluates one completed operation at observation idx (the first
// quiescent state after it returned).
func (e *engine) finish(op *opRec, idx int) {
	r := e.r
	switch op.kind {
	case "append":
		r.Logf("  done op%d append -> seq=%d %s", op.id, op.appended, errClass(op.err))
		if op.err == nil {
			r.Probe("append.acked")
			e.acked[op.msgID] = true
			if e.c.quorum {
				r.Probe("quorum.commit_acked")
			}
		} else {
			r.Probe("append.err." + errClass(op.err))
		}
	case "applymeta":
		r.Logf("  done op%d applymeta -> %s", op.id, errClass(op.err))
		if e.c.quorum && op.hasMeta && op.meta.Leader == op.node {
			if op.err == nil {
				r.Probe("quorum.install_ok")
			} else {
				r.Probe("quorum.install_err." + errClass(op.err))
			}
		}
	case "retention":
		a := op.applyRes
		r.Logf("  done op%d retention through=%d -> %s local=%d physical=%d deleted=%d(through %d) more=%v blocked=%q", op.id, op.through, errClass(op.err),
			a.LocalRetentionThroughSeq, a.PhysicalRetentionThroughSeq, a.Deleted, a.DeletedThroughSeq, a.More, a.BlockedReason)
		if op.err == nil {
			if a.BlockedReason != "" {
				r.Probe("retention.blocked." + a.BlockedReason)
			}
			if a.Deleted > 0 {
				r.Probe("retention.trimmed")
			}
		} else {
			r.Probe("retention.err." + errClass(op.err))
		}
	default:
		e.checkRead(op, idx)
	}
}

func (e *engine) checkRead(op *opRec, idx int) {
	r := e.r
	r.Logf("  done op%d %s -> %s %s", op.id, op.kind, errClass(op.err), seqList(op.msgs))
	if op.err != nil {
		r.Probe("read.err." + errClass(op.err))
		return
	}
	e.reads++
	if len(op.msgs) > 0 {
		e.readsMsgs++
		r.Probe("read.nonempty." + op.kind)
	}
	serving := op.serving
	forwarded := !op.mgmt && serving != op.node
	if forwarded {
		r.Probe("read.forwarded")
	}
	s0 := e.snaps[op.start]
	originMin := s0[op.node].viewMin
	var hwBound, leoBound, persisted uint64
	allowLEO := false
	for i := op.start; i <= idx; i++ {
		s := e.snaps[i][serving]
		if s == nil {
			continue
		}
		hwBound = max64(hwBound, s.phw)
		persisted = max64(persisted, s.phw)
		if s.loaded {
			hwBound = max64(hwBound, s.rv.HW)
		}
		leoBound = max64(leoBound, s.leo)
		if s.view > 0 && s.viewMin <= 1 {
			allowLEO = true
		}
		if s.view == 0 && forwarded && originMin <= 1 {
			allowLEO = true
		}
	}
	committed := hwBound
	if allowLEO {
		committed = max64(committed, leoBound)
	}
	// logical boundary known at invocation
	var floor uint64
	if op.mgmt {
		floor = op.through
	} else {
		floor = s0[op.node].viewRet
		if ss := s0[serving]; ss != nil {
			floor = max64(floor, ss.viewRet)
			floor = max64(floor, ss.ret.LocalRetentionThroughSeq)
		}
	}
	path := op.kind
	if forwarded {
		path += "/forwarded"
	} else {
		path += "/local"
	}
	for _, m := range op.msgs {
		if m.seq > committed {
			detail := fmt.Sprintf("op%d %s returned seq %d above the committed watermark %d of serving node %d (durable log end %d, LEO counted as committed: %v)", op.id, op.desc, m.seq, committed, serving, leoBound, allowLEO)
			facts := map[string]any{"seq": m.seq, "hw": committed, "leo": leoBound, "serving": serving}
			switch {
			case op.mgmt:
				e.defer_(true, "mgmt-read-above-hw", "Node.ReadChannelCommitted", detail, facts)
			case persisted == 0:
				// the serving replica had no persisted checkpoint watermark during the read: one
				// root cause (a zero cap is treated as "no cap"), kept apart from every other way
				// of reading above the watermark and deferred so that the run keeps exploring
				// (reads have no side effects).
				facts["path"] = path
				e.defer_(false, "read-above-hw", "persisted-hw-zero", detail+" [path "+path+", persisted checkpoint HW of the serving node was 0]", facts)
			default:
				r.FailSig("read-above-hw", path, detail, facts)
			}
			return
		}
		if m.seq <= floor {
			detail := fmt.Sprintf("op%d %s returned seq %d at or below the logical retention boundary %d known at invocation", op.id, op.desc, m.seq, floor)
			if op.mgmt {
				e.defer_(true, "mgmt-read-below-retention", "Node.ReadChannelCommitted", detail, nil)
			} else {
				r.FailSig("read-below-retention", path, detail, map[string]any{"seq": m.seq, "boundary": floor})
			}
			return
		}
		if e.barrierIDs[m.id] {
			if op.synced || !m.syncOnce {
				// Where was the marker lost? Look at the durable row of the serving replica.
				row, have := e.snaps[idx][serving].stored[m.seq]
				detail := fmt.Sprintf("op%d %s returned recovery-barrier-shaped record id %d seq %d as an ordinary message", op.id, op.desc, m.id, m.seq)
				if !op.synced {
					detail = fmt.Sprintf("op%d %s returned barrier record id %d seq %d without its SyncOnce marker", op.id, op.desc, m.id, m.seq)
				}
				switch {
				case have && row.id == m.id && !row.syncOnce:
					e.defer_(op.mgmt, "barrier-as-message", "stored-without-marker", detail+fmt.Sprintf(" [path %s; the durable row on serving node %d has no SyncOnce marker: it was lost before the store (forwarded append or pull replication)]", path, serving), nil)
				case forwarded && have && row.id == m.id && row.syncOnce:
					e.defer_(false, "barrier-as-message", "forwarded-read", detail+fmt.Sprintf(" [path %s; the durable row on serving node %d carries the marker: it was lost on the forwarded read response]", path, serving), nil)
				default:
					r.FailSig("barrier-as-message", path, detail, nil)
				}
				return
			}
			r.Probe("read.raw_saw_barrier")
		}
	}
	if op.mgmt {
		r.Probe("read.mgmt_checked")
	}
}

// defer_ records a management-path violation; it is raised at the end of the
// run unless a client-path violation ended the run first, so that neither
// surface can mask the other inside one run.
func (e *engine) defer_(mgmt bool, class, sig, detail string, facts map[string]any) {
	if mgmt {
		e.r.Logf("  MANAGEMENT-PATH %s: %s", class, detail)
		e.r.Probe("deferred." + class)
		if e.deferredMgmt == nil {
			e.deferredMgmt = &pendingViolation{class, sig, detail, facts}
		}
		return
	}
	e.r.Logf("  DEFERRED %s/%s: %s", class, sig, detail)
	e.r.Probe("deferred." + class + "/" + sig)
	if e.deferred == nil {
		e.deferred = &pendingViolation{class, sig, detail, facts}
	}
}

func nodeList(in []ch.NodeID) string { return fmt.Sprint(in) }
