package chansim

import (
	"fmt"
	"strings"

	"github.com/WuKongIM/WuKongIM/internal/usecase/message"
	ch "github.com/WuKongIM/WuKongIM/pkg/channel"
)

type pendingViolation struct {
	class, sig, detail string
	facts              map[string]any
}

func errClass(err error) string {
	if err == nil {
		return "ok"
	}
	s := err.Error()
	if i := strings.LastIndex(s, ": "); i >= 0 && len(s)-i < 40 {
		s = s[i+2:]
	}
	if len(s) > 40 {
		s = s[:40]
	}
	return s
}

func seqList(ms []readMsg) string {
	parts := make([]string, len(ms))
	for i, m := range ms {
		parts[i] = fmt.Sprint(m.seq)
		if m.syncOnce {
			parts[i] += "b"
		}
	}
	return "[" + strings.Join(parts, " ") + "]"
}

// finish evaluates one completed operation at observation idx (the first
// quiescent state after it returned).
func (e *engine) finish(op *opRec, idx int) {
	r := e.r
	switch op.kind {
	case "append":
		r.Logf("  done op%d append -> seq=%d %s", op.id, op.appended, errClass(op.err))
		if op.err == nil {
			r.Probe("append.acked")
			e.acked[op.msgID] = true
			if e.c.quorum {
				r.Probe("quorum.commit_acked")
			}
		} else {
			r.Probe("append.err." + errClass(op.err))
		}
	case "applymeta":
		r.Logf("  done op%d applymeta -> %s", op.id, errClass(op.err))
		if e.c.quorum && op.hasMeta && op.meta.Leader == op.node {
			if op.err == nil {
				r.Probe("quorum.install_ok")
			} else {
				r.Probe("quorum.install_err." + errClass(op.err))
			}
		}
	case "retention":
		a := op.applyRes
		r.Logf("  done op%d retention through=%d -> %s local=%d physical=%d deleted=%d(through %d) more=%v blocked=%q", op.id, op.through, errClass(op.err),
			a.LocalRetentionThroughSeq, a.PhysicalRetentionThroughSeq, a.Deleted, a.DeletedThroughSeq, a.More, a.BlockedReason)
		if op.err == nil {
			if a.BlockedReason != "" {
				r.Probe("retention.blocked." + a.BlockedReason)
			}
			if a.Deleted > 0 {
				r.Probe("retention.trimmed")
			}
		} else {
			r.Probe("retention.err." + errClass(op.err))
		}
	case "gc":
		g := op.gc
		r.Logf("  done op%d gc -> %s scanned=%d applied=%d trimmed=%d blocked=%d deleted=%d more=%v errors=%d", op.id, errClass(op.err), g.ScannedChannels, g.AppliedChannels,
			g.TrimmedChannels, g.BlockedChannels, g.DeletedMessages, g.More, g.Errors)
		if op.err != nil {
			r.Probe("physical_driver.pass_err." + errClass(op.err))
			break
		}
		r.Probe("physical_driver.pass")
		// catalog cursor: one cycle (first page until a page without More) visits
		// every channel the catalog held when it began, and none twice
		if cyc := e.gcCycles[op.node]; cyc != nil {
			cyc.passes++
			cyc.scanned += g.ScannedChannels
			now := e.catalogSize(op.node)
			if now >= 0 && cyc.scanned > now {
				r.FailSig("gc-catalog-rescan", "", fmt.Sprintf("op%d %s: %d passes of one catalog cycle on node %d scanned %d entries, the catalog holds %d channels: a page was handed out twice", op.id, op.kind, cyc.passes, op.node, cyc.scanned, now), nil)
				return
			}
			if !g.More {
				r.Probe("physical_driver.catalog_cycle_complete")
				if cyc.scanned < cyc.atStart {
					r.FailSig("gc-catalog-skipped", "", fmt.Sprintf("op%d %s: the catalog cycle on node %d ended after %d passes with %d entries scanned, the catalog held %d channels when it began", op.id, op.kind, op.node, cyc.passes, cyc.scanned, cyc.atStart), nil)
					return
				}
				delete(e.gcCycles, op.node)
			}
		}
		if g.More {
			r.Probe("physical_driver.catalog_page_more")
		}
		if g.AppliedChannels > 0 {
			r.Probe("physical_driver.applied")
		}
		if g.BlockedChannels > 0 {
			r.Probe("physical_driver.blocked")
		}
		if g.Errors > 0 {
			r.Probe("physical_driver.channel_error_skipped")
		}
		if g.DeletedMessages > 0 {
			r.Probe("physical_driver.trimmed")
			// the pass is the only action of its step: what it reports deleted is what vanished from this node's store
			if idx == op.start+1 && e.lastDeleted[op.node] != g.DeletedMessages {
				r.Probe("physical_driver.deleted_count_differs_from_store")
			}
		}
	default:
		e.checkRead(op, idx)
	}
}

func (e *engine) checkRead(op *opRec, idx int) {
	r := e.r
	r.Logf("  done op%d %s -> %s %s", op.id, op.kind, errClass(op.err), seqList(op.msgs))
	if op.err != nil {
		r.Probe("read.err." + errClass(op.err))
		return
	}
	e.reads++
	if len(op.msgs) > 0 {
		e.readsMsgs++
		r.Probe("read.nonempty." + op.kind)
	}
	if op.synced {
		e.checkPages(op, idx)
		if r.Failed() {
			return
		}
	}
	serving := op.serving
	forwarded := !op.mgmt && serving != op.node
	if forwarded {
		r.Probe("read.forwarded")
	}
	s0 := e.snaps[op.start]
	originMin := s0[op.node].viewMin
	var hwBound, leoBound, persisted uint64
	allowLEO := false
	for i := op.start; i <= idx; i++ {
		s := e.snaps[i][serving]
		if s == nil {
			continue
		}
		hwBound = max64(hwBound, s.phw)
		persisted = max64(persisted, s.phw)
		if s.loaded {
			hwBound = max64(hwBound, s.rv.HW)
		}
		leoBound = max64(leoBound, s.leo)
		if s.view > 0 && s.viewMin <= 1 {
			allowLEO = true
		}
		if s.view == 0 && forwarded && originMin <= 1 {
			allowLEO = true
		}
	}
	committed := hwBound
	if allowLEO {
		committed = max64(committed, leoBound)
	}
	// logical boundary known at invocation
	var floor uint64
	if op.mgmt {
		floor = op.through
	} else {
		floor = s0[op.node].viewRet
		if ss := s0[serving]; ss != nil {
			floor = max64(floor, ss.viewRet)
			floor = max64(floor, ss.ret.LocalRetentionThroughSeq)
		}
	}
	path := op.kind
	if forwarded {
		path += "/forwarded"
	} else {
		path += "/local"
	}
	for _, m := range op.msgs {
		if m.seq > committed {
			detail := fmt.Sprintf("op%d %s returned seq %d above the committed watermark %d of serving node %d (durable log end %d, LEO counted as committed: %v)", op.id, op.desc, m.seq, committed, serving, leoBound, allowLEO)
			facts := map[string]any{"seq": m.seq, "hw": committed, "leo": leoBound, "serving": serving}
			switch {
			case op.mgmt:
				e.defer_(true, "mgmt-read-above-hw", "Node.ReadChannelCommitted", detail, facts)
			case persisted == 0:
				// the serving replica had no persisted checkpoint watermark during the read: one
				// root cause (a zero cap is treated as "no cap"), kept apart from every other way
				// of reading above the watermark and deferred so that the run keeps exploring
				// (reads have no side effects).
				facts["path"] = path
				e.defer_(false, "read-above-hw", "persisted-hw-zero", detail+" [path "+path+", persisted checkpoint HW of the serving node was 0]", facts)
			default:
				r.FailSig("read-above-hw", path, detail, facts)
			}
			if r.Failed() {
				return
			}
			continue // deferred: the other rows of this result are still judged
		}
		if m.seq <= floor {
			detail := fmt.Sprintf("op%d %s returned seq %d at or below the logical retention boundary %d known at invocation", op.id, op.desc, m.seq, floor)
			if op.mgmt {
				e.defer_(true, "mgmt-read-below-retention", "Node.ReadChannelCommitted", detail, nil)
			} else {
				r.FailSig("read-below-retention", path, detail, map[string]any{"seq": m.seq, "boundary": floor})
			}
			if r.Failed() {
				return
			}
			continue
		}
		if e.barrierIDs[m.id] {
			if op.synced || !m.syncOnce {
				// Where was the marker lost? Look at the durable row of the serving replica.
				row, have := e.snaps[idx][serving].stored[m.seq]
				detail := fmt.Sprintf("op%d %s returned recovery-barrier-shaped record id %d seq %d as an ordinary message", op.id, op.desc, m.id, m.seq)
				if !op.synced {
					detail = fmt.Sprintf("op%d %s returned barrier record id %d seq %d without its SyncOnce marker", op.id, op.desc, m.id, m.seq)
				}
				switch {
				case have && row.id == m.id && !row.syncOnce:
					e.defer_(op.mgmt, "barrier-as-message", "stored-without-marker", detail+fmt.Sprintf(" [path %s; the durable row on serving node %d has no SyncOnce marker: it was lost before the store (forwarded append or pull replication)]", path, serving), nil)
				case forwarded && have && row.id == m.id && row.syncOnce:
					e.defer_(false, "barrier-as-message", "forwarded-read", detail+fmt.Sprintf(" [path %s; the durable row on serving node %d carries the marker: it was lost on the forwarded read response]", path, serving), nil)
				default:
					r.FailSig("barrier-as-message", path, detail, nil)
				}
				if r.Failed() {
					return
				}
				continue
			}
			r.Probe("read.raw_saw_barrier")
		}
	}
	if op.mgmt {
		r.Probe("read.mgmt_checked")
	}
}

// checkPages: what internal/infra/cluster/message_reader.go itself promises about
// a page, beyond the watermark and boundary rules checked per message: ascending
// order without duplicates, at most Limit messages, HasMore only on a full page,
// every message inside the query's own bounds (pull down: EndSeq < seq <=
// StartSeq; pull up: StartSeq <= seq < EndSeq; seq >= MinSeq), and no ordinary
// durable row of the serving replica skipped between two returned messages.
func (e *engine) checkPages(op *opRec, idx int) {
	r := e.r
	for pi, pg := range op.pages {
		q := pg.q
		limit := q.Limit
		if limit <= 0 {
			limit = 1
		}
		what := fmt.Sprintf("op%d %s page %d (mode=%d start=%d end=%d min=%d limit=%d) = %s", op.id, op.kind, pi, q.PullMode, q.StartSeq, q.EndSeq, q.MinSeq, q.Limit, seqList(pg.msgs))
		latest := q.StartSeq == 0 && q.EndSeq == 0
		switch {
		case latest:
			r.Probe("reader.latest")
		case q.PullMode == message.PullModeDown:
			r.Probe("reader.pull_down")
		default:
			r.Probe("reader.pull_up")
		}
		if len(pg.msgs) > limit {
			r.FailSig("page-over-limit", op.kind, what+fmt.Sprintf(": %d messages for limit %d", len(pg.msgs), limit), nil)
			return
		}
		if pg.hasMore {
			r.Probe("reader.has_more")
			if len(pg.msgs) != limit {
				r.FailSig("page-hasmore-short", op.kind, what+fmt.Sprintf(": HasMore with %d of %d messages", len(pg.msgs), limit), nil)
				return
			}
		}
		for i, m := range pg.msgs {
			if i > 0 && m.seq <= pg.msgs[i-1].seq {
				r.FailSig("page-order", op.kind, what+": not in strictly ascending sequence order", nil)
				return
			}
			bad := ""
			switch {
			case q.MinSeq > 0 && m.seq < q.MinSeq:
				bad = "below MinSeq"
			case latest:
			case q.PullMode == message.PullModeDown && q.StartSeq > 0 && m.seq > q.StartSeq:
				bad = "above StartSeq of a pull-down query"
			case q.PullMode == message.PullModeDown && q.EndSeq > 0 && m.seq <= q.EndSeq:
				bad = "at or below EndSeq of a pull-down query"
			case q.PullMode == message.PullModeUp && m.seq < q.StartSeq:
				bad = "below StartSeq of a pull-up query"
			case q.PullMode == message.PullModeUp && q.EndSeq > 0 && m.seq >= q.EndSeq:
				bad = "at or above EndSeq of a pull-up query"
			}
			if bad != "" {
				r.FailSig("page-out-of-bounds", op.kind, what+fmt.Sprintf(": seq %d is %s", m.seq, bad), nil)
				return
			}
		}
		if len(pg.msgs) >= 2 {
			r.Probe("reader.multi_message_page")
			rows := e.snaps[idx][op.serving].stored
			got := map[uint64]bool{}
			for _, m := range pg.msgs {
				got[m.seq] = true
			}
			for s := pg.msgs[0].seq + 1; s < pg.msgs[len(pg.msgs)-1].seq; s++ {
				row, ok := rows[s]
				if !ok || got[s] || row.syncOnce || e.barrierIDs[row.id] {
					continue
				}
				r.FailSig("page-gap", op.kind, what+fmt.Sprintf(": ordinary durable row seq %d (message %d) of serving node %d lies between two returned messages but is missing", s, row.id, op.serving), nil)
				return
			}
		}
		if len(pg.msgs) > 0 {
			if s, id := e.pageAnchorMiss(op, idx, pg, latest); s > 0 {
				end := "newest"
				if !latest && q.PullMode != message.PullModeDown {
					end = "oldest"
				}
				r.FailSig("page-anchor", op.kind, what+fmt.Sprintf(": the page must start at the %s matching row, but ordinary durable row seq %d (message %d) of serving node %d, committed and above the retention boundary during the whole read, was passed over", end, s, id, op.serving), nil)
				return
			}
		}
	}
}

// pageAnchorMiss: a truncated page has to be cut from the far end, never from the
// end the query starts at (newest rows for latest / pull-down, oldest rows for
// pull-up). It returns an ordinary durable row of the serving replica that lies
// between the query's starting bound and the page although it was visible during
// the whole read: stored unchanged at invocation and at completion, at or below
// the lowest committed watermark (runtime and persisted) and above the highest
// retention boundary the serving replica showed in that interval. 0 = none or
// not decidable (replica not loaded for part of the interval).
func (e *engine) pageAnchorMiss(op *opRec, idx int, pg syncPage, latest bool) (uint64, uint64) {
	q := pg.q
	hwLow := ^uint64(0)
	var floor uint64
	for i := op.start; i <= idx; i++ {
		s := e.snaps[i][op.serving]
		if s == nil || !s.loaded || s.view == 0 {
			return 0, 0
		}
		hwLow = min64(hwLow, min64(s.phw, s.rv.HW))
		floor = max64(floor, max64(s.viewRet, s.ret.LocalRetentionThroughSeq))
		if o := e.snaps[i][op.node]; o != nil {
			floor = max64(floor, o.viewRet)
		}
	}
	floor = max64(floor, e.maxReq[op.serving])
	first, last := e.snaps[op.start][op.serving].stored, e.snaps[idx][op.serving].stored
	visible := func(s uint64) (uint64, bool) {
		a, ok1 := first[s]
		b, ok2 := last[s]
		if !ok1 || !ok2 || a.id != b.id || b.syncOnce || a.syncOnce || e.barrierIDs[b.id] {
			return 0, false
		}
		return b.id, s <= hwLow && s > floor && s >= q.MinSeq
	}
	lo, hi := pg.msgs[0].seq, pg.msgs[len(pg.msgs)-1].seq
	if latest || q.PullMode == message.PullModeDown {
		top := hwLow
		if q.StartSeq > 0 {
			top = min64(top, q.StartSeq)
		}
		for s := hi + 1; s <= top && s > hi; s++ {
			if id, ok := visible(s); ok {
				return s, id
			}
		}
		return 0, 0
	}
	from := q.StartSeq
	if from == 0 {
		from = 1
	}
	for s := from; s < lo; s++ {
		if id, ok := visible(s); ok {
			return s, id
		}
	}
	return 0, 0
}

// defer_ records a management-path violation; it is raised at the end of the
// run unless a client-path violation ended the run first, so that neither
// surface can mask the other inside one run.
//
// Every distinct (class, sig) is kept (first occurrence), client path before
// management path. At the end of the run each one goes through
// FailSigContinue: one that is an open known finding is counted and the next is
// looked at, so a known read finding early in a run hides neither a different
// deferred finding of the same run nor anything the run does afterwards.
func (e *engine) defer_(mgmt bool, class, sig, detail string, facts map[string]any) {
	if mgmt {
		e.r.Logf("  MANAGEMENT-PATH %s: %s", class, detail)
		e.r.Probe("deferred." + class)
	} else {
		e.r.Logf("  DEFERRED %s/%s: %s", class, sig, detail)
		e.r.Probe("deferred." + class + "/" + sig)
	}
	list := &e.deferred
	if mgmt {
		list = &e.deferredMgmt
	}
	for _, d := range *list {
		if d.class == class && d.sig == sig {
			return
		}
	}
	*list = append(*list, &pendingViolation{class, sig, detail, facts})
}

// raiseDeferred reports the deferred read findings of a finished run.
func (e *engine) raiseDeferred() {
	if len(e.deferred)+len(e.deferredMgmt) > 1 {
		e.r.Probe("deferred.several_distinct_in_one_run")
	}
	for _, d := range append(append([]*pendingViolation(nil), e.deferred...), e.deferredMgmt...) {
		if e.r.FailSigContinue(d.class, d.sig, d.detail, d.facts) {
			return
		}
	}
}

func nodeList(in []ch.NodeID) string { return fmt.Sprint(in) }
