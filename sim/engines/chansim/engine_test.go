package chansim

import (
	"context"
	"fmt"
	"runtime"
	"sort"
	"strings"
	"sync"
	"testing"
	"time"

	infracluster "github.com/WuKongIM/WuKongIM/internal/infra/cluster"
	"github.com/WuKongIM/WuKongIM/internal/usecase/message"
	"github.com/WuKongIM/WuKongIM/internal/verifsim/simkit"
	ch "github.com/WuKongIM/WuKongIM/pkg/channel"
	channelstore "github.com/WuKongIM/WuKongIM/pkg/channel/store"
	"github.com/WuKongIM/WuKongIM/pkg/cluster/channels"
)

func TestVerifSim(t *testing.T) {
	simkit.Main(t, simkit.Engine{
		Name:  "chansim",
		Props: map[string]simkit.PropFunc{"C10": runChanSim},
		Real: []string{"pkg/cluster/channels.Service (ReadCommittedBatch, readLocalCommitted, forwarded committed reads, RetentionView, ApplyRetentionBoundary, Append/forward append, meta cache)",
			"pkg/channel service + reactor + machine + worker pools (append, pull/ack replication, checkpoints, retention decision and physical trim)",
			"channels.TransportClient and RegisterServiceHandlersOn with the real wire codec on every hop",
			"pkg/channel/store memory store or MessageDB adapter over pkg/db/message on an in-memory Pebble vfs",
			"internal/infra/cluster.ChannelMessageReader (SyncMessages, SyncMessagesBatch)",
			"pkg/cluster.Node.ReadChannelCommitted / ReadChannelCommittedBatch / ApplyChannelRetentionBoundary on a partially constructed Node (real router table and real slot metadata DB)",
			"pkg/cluster.Node.RunChannelRetentionGCOnce (MessageDB runs: real MessageDB channel catalog, real slot proxy metadata read, trim budget from the node config)"},
		Stub: []string{"clusternet.Caller (simulated network: reorder, drop, response loss, isolation)",
			"slot layout under the retention GC driver's slot proxy: one slot led by the local node over the shared metadata DB (no remote slot owner, no stale authoritative read)",
			"slot metadata replication: one authoritative metadata history, per-node lagging view served through ChannelMetaSource; one shared metadata DB for the management path",
			"control plane and management retention operator (tape-drawn metadata changes and boundary values)", "clients",
			"repl_mode=pullack runs: no durable quorum log (transitional pull/ack replication); repl_mode=quorum runs use the production composition of pkg/cluster/node_defaults.go (replication.NewStoreAdapter + channels.NewQuorumPeerLink + replication.NewRuntime, QuorumLog into channels.NewService, quorum exchange gateway registered; exchanges travel through the simulated caller with the real codec)"},
		Rule: "One run = one synctest bubble with 3 real channel nodes, one channel, a tape-driven control plane, appenders, readers and retention appliers. " +
			"Non-trivial = at least one read returned messages AND (a fault fired OR a retention boundary was adopted OR a leader change happened).",
		Assumptions: []string{"testing/synctest fake clock and quiescence semantics (go1.26.8)",
			"committed watermark of a replica = max(runtime HW, persisted checkpoint HW), or its durable log end when the metadata it serves under has MinISR <= 1",
			"a node's metadata view never lags the metadata applied to its own runtime",
			"memory store / in-memory Pebble: every completed write is durable (no crashes in this engine)"},
	})
}

type cfg struct {
	noFaults  bool
	msgdb     bool
	quorum    bool // production composition: reactor appends through replication.Runtime (Install/Commit)
	minISR    int
	ops       int
	fDrop     bool
	fIsolate  bool
	fRegress  bool
	fBeyond   bool
	mgmtReads bool
	trimLimit int
}

type opRec struct {
	id      int
	kind    string
	node    ch.NodeID
	start   int // snapshot index current when the op started
	desc    string
	serving ch.NodeID
	// origin view at start
	viewIdx  int
	done     bool
	err      error
	msgs     []readMsg // raw or synced messages returned
	synced   bool      // msgs came through ChannelMessageReader (ordinary messages only)
	mgmt     bool
	appended uint64 // seq acknowledged
	msgID    uint64
	applyRes ch.RetentionApplyResult
	through  uint64
	meta     ch.Meta // applymeta ops
	hasMeta  bool
	pages    []syncPage // per-query pages of ChannelMessageReader reads
	gc       gcResult   // RunChannelRetentionGCOnce result
}

// syncPage is one page the message reader adapter returned for one query.
type syncPage struct {
	q       message.ChannelMessageQuery
	msgs    []readMsg
	hasMore bool
}

type readMsg struct {
	seq      uint64
	id       uint64
	syncOnce bool
}

type snap struct {
	loaded  bool
	rv      ch.RetentionView
	leo     uint64
	phw     uint64
	ret     channelstore.RetentionState
	present []uint64
	stored  map[uint64]readMsg // durable rows by sequence
	// inflight: an append proposal is out on this node's reactor (observed in quorum mode only)
	inflight bool
	view     int
	viewMin  int
	viewRet  uint64
}

type engine struct {
	t0  time.Time
	t   *testing.T
	r   *simkit.Run
	c   cfg
	w   *cworld
	mu  sync.Mutex
	ops []*opRec
	fin []*opRec

	snaps        []map[ch.NodeID]*snap // snaps[i] = observation i
	nextMsgID    uint64
	barrierIDs   map[uint64]bool
	started      int
	inflight     int
	reads        int
	readsMsgs    int
	adopted      bool
	leaderChg    bool
	readers      map[ch.NodeID]*infracluster.ChannelMessageReader
	mgmt         map[ch.NodeID]mgmtNode
	c06Logged    bool
	maxReq       map[ch.NodeID]uint64 // largest retention boundary any caller ever asked this node to adopt
	lastDeleted  map[ch.NodeID]int    // rows of the channel that vanished from a node's store in the last step (retention trims)
	acked        map[uint64]bool      // message ids acknowledged to a client
	tainted      bool                 // run ended by a C01 loss seen at the service level
	deferred     []*pendingViolation  // client-path read violations with a known root cause, distinct (class, sig)
	deferredMgmt []*pendingViolation  // management-path read violations, distinct (class, sig)

	// open catalog cycle of the retention GC driver, per node
	gcCycles map[ch.NodeID]*gcCycle
}

// mgmtNode is the management read surface (pkg/cluster.Node in production).
type mgmtNode interface {
	ReadChannelCommitted(context.Context, ch.ChannelID, channelstore.ReadCommittedRequest) (channelstore.ReadCommittedResult, error)
	ReadChannelCommittedBatch(context.Context, []channels.CommittedRead) ([]channels.CommittedReadResult, error)
}

func drawCfg(r *simkit.Run) cfg {
	tp := r.Tape
	c := cfg{}
	c.noFaults = tp.Intn(4) == 0
	// one draw for store and replication composition: 0..2 keep the meaning they
	// had when only the store was drawn (0,1 memory, 2 MessageDB; pull/ack
	// replication), 3..5 are the same stores under the production composition
	// (durable quorum log)
	comp := tp.Intn(6)
	c.msgdb = comp%3 == 2
	c.quorum = comp >= 3
	c.minISR = 1 + tp.Weighted([]int{1, 5, 2})
	c.ops = 10 + tp.Intn(26)
	c.mgmtReads = tp.Intn(3) == 1
	c.trimLimit = tp.Weighted([]int{3, 1, 1})
	if !c.noFaults {
		c.fDrop = tp.Intn(2) == 0
		c.fIsolate = tp.Intn(2) == 0
		c.fRegress = tp.Intn(2) == 0
		c.fBeyond = tp.Intn(4) == 0
	}
	return c
}

func runChanSim(t *testing.T, r *simkit.Run) {
	c := drawCfg(r)
	r.Config = map[string]any{"nofaults": c.noFaults, "msgdb": c.msgdb, "minisr": c.minISR, "ops": c.ops, "drop": c.fDrop, "isolate": c.fIsolate,
		"regress": c.fRegress, "beyond": c.fBeyond, "mgmt_reads": c.mgmtReads, "trim_limit": c.trimLimit, "repl_mode": replModeName(c.quorum)}
	// The world contains ~100 goroutines of real code that hand work to one
	// another inside one scheduler step; with several Ps two of them can
	// occasionally race for a reactor mailbox slot in either order (seen once in
	// ~30 replays at GOMAXPROCS 4/16). One P makes the hand-offs run in run-queue
	// order, so the run is a function of the tape alone.
	if prev := runtime.GOMAXPROCS(1); prev != 1 {
		defer runtime.GOMAXPROCS(prev)
	}
	simkit.Bubble(t, r, func() {
		e := &engine{t: t, r: r, c: c, barrierIDs: map[uint64]bool{}, acked: map[uint64]bool{}, maxReq: map[ch.NodeID]uint64{}, lastDeleted: map[ch.NodeID]int{}, gcCycles: map[ch.NodeID]*gcCycle{}, nextMsgID: 5000}
		e.run()
	})
}

func replModeName(quorum bool) string {
	if quorum {
		return "quorum"
	}
	return "pullack"
}

// taintC01 ends the run without a report: an acknowledged message was lost by
// quorum recovery, which is property C01's (known findings C01-K*), not C10's.
func (e *engine) taintC01(detail string) {
	e.r.Probe("c01_loss_observed_at_service_level")
	if !e.tainted {
		e.r.Logf("run ends (tainted by C01, nothing reported): %s", detail)
	}
	e.tainted = true
}

func (e *engine) run() {
	r := e.r
	stores, cleanup, err := e.makeStores()
	if err != nil {
		r.Infra("stores: %v", err)
		return
	}
	w, err := newWorldOpts(r, 3, stores, worldOpts{batchWait: time.Millisecond, quorum: e.c.quorum})
	if err != nil {
		cleanup()
		r.Infra("world: %v", err)
		return
	}
	e.w = w
	w.inflightFn = func(n ch.NodeID) bool {
		if len(e.snaps) == 0 {
			return false
		}
		s := e.snaps[len(e.snaps)-1][n]
		return s != nil && s.inflight
	}
	e.t0 = time.Now()
	defer cleanup()
	defer w.close()
	if err := e.makeReaders(); err != nil {
		r.Infra("readers: %v", err)
		return
	}
	// first authoritative metadata; every node sees it and activates the channel
	first := ch.Meta{Key: w.key, ID: w.id, Epoch: 1, LeaderEpoch: 1, Leader: 1, Replicas: []ch.NodeID{1, 2, 3}, ISR: []ch.NodeID{1, 2, 3},
		MinISR: e.c.minISR, Status: ch.StatusActive, LeaseUntil: time.Now().Add(24 * time.Hour)}
	e.publishMeta(first, "initial")
	for _, id := range w.ids {
		w.nodes[id].view = 1
		w.nodes[id].applied = 1
	}
	if err := w.bootstrap(e.metaAt(1)); err != nil {
		r.Infra("initial ApplyMeta: %v", err)
		return
	}
	skew := time.Duration(1+r.Tape.Intn(97)) * time.Microsecond
	sched := &simkit.Scheduler{R: r, MaxSteps: 60 + e.c.ops*12,
		Collect:   e.collect,
		Invariant: e.observe,
		Idle: func() time.Duration {
			if e.inflight > 0 || e.w.sw.NumPending() > 0 {
				return 20*time.Millisecond + skew
			}
			return 0
		},
		Done: func() bool {
			if e.tainted {
				return true
			}
			if time.Since(e.t0) > simTimeCap {
				r.Probe("run.sim_time_cap")
				return true
			}
			return e.started >= e.c.ops && e.inflight == 0
		},
		StepTime: func() time.Duration { return time.Millisecond + skew },
	}
	sched.Run()
	// deferred read violations: client path first, management path last, so
	// that neither surface masks the other (nor anything else) inside a run
	if e.tainted {
		return // nothing is reported about a run in which quorum recovery lost an acknowledged message
	}
	if !r.Failed() {
		e.raiseDeferred()
	}
	total := 0
	for _, v := range r.Faults {
		total += v
	}
	r.Nontrivial = e.readsMsgs > 0 && (total > 0 || e.adopted || e.leaderChg)
}

// ---- metadata --------------------------------------------------------------

func (e *engine) publishMeta(m ch.Meta, why string) {
	w := e.w
	w.mu.Lock()
	if e.c.quorum {
		// the quorum authority is (epoch, leader epoch, route generation): the slot
		// metadata store bumps the generation on every change of the record
		m.RouteGeneration = uint64(len(w.metas))
		// and the quorum log only accepts strict-majority write quorums
		// (replication.validateRecoveryTopology: quorum*2 > len(voters))
		if m.MinISR*2 <= len(m.ISR) {
			m.MinISR = len(m.ISR)/2 + 1
		}
	}
	w.metas = append(w.metas, cloneMeta(m))
	v := len(w.metas) - 1
	w.mu.Unlock()
	e.r.Logf("meta v%d [%s] e%d.%d leader=%d isr=%v min=%d ret=%d", v, why, m.Epoch, m.LeaderEpoch, m.Leader, m.ISR, m.MinISR, m.RetentionThroughSeq)
	e.onPublish(v, m)
}

func (e *engine) latest() (int, ch.Meta) {
	w := e.w
	w.mu.Lock()
	defer w.mu.Unlock()
	v := len(w.metas) - 1
	return v, cloneMeta(w.metas[v])
}

func (e *engine) metaAt(v int) ch.Meta {
	w := e.w
	w.mu.Lock()
	defer w.mu.Unlock()
	return cloneMeta(w.metas[v])
}

// ---- observation at every quiescent state ----------------------------------

func (e *engine) observe() {
	w := e.w
	r := e.r
	cur := map[ch.NodeID]*snap{}
	for _, id := range w.ids {
		n := w.nodes[id]
		s := &snap{view: n.view}
		if n.view > 0 {
			m := e.metaAt(n.view)
			s.viewMin = m.MinISR
			s.viewRet = m.RetentionThroughSeq
		}
		ctx, cancel := context.WithTimeout(context.Background(), time.Second)
		rv, err := n.svc.RetentionView(ctx, w.id)
		if err == nil {
			s.loaded = true
			s.rv = rv
		}
		if e.c.quorum {
			if pr, perr := n.svc.RuntimeProbe(ctx, ch.RuntimeSelector{ChannelIDs: []ch.ChannelID{w.id}}); perr == nil && len(pr.Channels) == 1 {
				s.inflight = pr.Channels[0].InflightAppend || pr.Channels[0].PendingAppendCount > 0
			}
		}
		cancel()
		st, err := n.fac.ChannelStore(w.key, w.id)
		if err != nil {
			r.Infra("observe: ChannelStore node %d: %v", id, err)
			return
		}
		init, err := st.Load(context.Background())
		if err != nil {
			_ = st.Close()
			r.Infra("observe: Load node %d: %v", id, err)
			return
		}
		s.leo, s.phw = init.LEO, init.HW
		s.ret, err = st.LoadRetentionState(context.Background())
		if err != nil {
			_ = st.Close()
			r.Infra("observe: LoadRetentionState node %d: %v", id, err)
			return
		}
		if s.leo > 0 {
			res, err := st.ReadCommitted(context.Background(), channelstore.ReadCommittedRequest{FromSeq: 1, MaxSeq: s.leo, Limit: int(s.leo) + 1, MaxBytes: 1 << 30})
			if err != nil {
				_ = st.Close()
				r.Infra("observe: scan node %d: %v", id, err)
				return
			}
			for _, m := range res.Messages {
				s.present = append(s.present, m.MessageSeq)
				if s.stored == nil {
					s.stored = map[uint64]readMsg{}
				}
				s.stored[m.MessageSeq] = readMsg{seq: m.MessageSeq, id: m.MessageID, syncOnce: m.SyncOnce}
				if m.SyncOnce {
					// also the barrier records the quorum log itself writes on Install
					e.barrierIDs[m.MessageID] = true
				}
				if e.barrierIDs[m.MessageID] && !m.SyncOnce {
					// the durable copy on this node no longer carries the marker
					r.Probe("store.barrier_marker_lost")
				}
			}
		}
		_ = st.Close()
		cur[id] = s
	}
	e.snaps = append(e.snaps, cur)
	idx := len(e.snaps) - 1
	var sb strings.Builder
	for _, id := range w.ids {
		s := cur[id]
		if s.loaded {
			fmt.Fprintf(&sb, " n%d[v%d role=%d L%d leo=%d hw=%d ck=%d ret=%d/%d/%d isr=%d|store leo=%d hw=%d ret=%d/%d n=%d]", id, s.view, s.rv.Role, s.rv.Leader, s.rv.LEO, s.rv.HW, s.rv.CheckpointHW,
				s.rv.RetentionThroughSeq, s.rv.LocalRetentionThroughSeq, s.rv.PhysicalRetentionThroughSeq, s.rv.MinISRMatchOffset, s.leo, s.phw, s.ret.LocalRetentionThroughSeq, s.ret.PhysicalRetentionThroughSeq, len(s.present))
		} else {
			fmt.Fprintf(&sb, " n%d[v%d unloaded|store leo=%d hw=%d ret=%d/%d n=%d]", id, s.view, s.leo, s.phw, s.ret.LocalRetentionThroughSeq, s.ret.PhysicalRetentionThroughSeq, len(s.present))
		}
		r.State(id, s.loaded, s.rv.Role, s.leo-min64(s.leo, s.rv.HW), s.rv.HW-min64(s.rv.HW, s.rv.CheckpointHW), s.ret.LocalRetentionThroughSeq > 0, s.ret.PhysicalRetentionThroughSeq > 0, len(s.present) > 0)
	}
	r.Logf("obs%d%s", idx, sb.String())
	// C06 is decided by machinesim; the same watermark order observed on the real
	// reactors is only counted here (reported, never a C10 violation).
	for _, id := range w.ids {
		s := cur[id]
		if !s.loaded {
			continue
		}
		if s.rv.CheckpointHW > s.rv.HW {
			r.Probe("c06_observed.checkpoint_above_hw")
			if !e.c06Logged {
				e.c06Logged = true
				r.Logf("  C06-OBSERVED (not a C10 violation): node %d runtime reports CheckpointHW=%d > HW=%d (role=%d leader=%d LEO=%d)", id, s.rv.CheckpointHW, s.rv.HW, s.rv.Role, s.rv.Leader, s.rv.LEO)
			}
		}
		if s.rv.HW > s.rv.LEO {
			r.Probe("c06_observed.hw_above_leo")
		}
		if idx > 0 {
			if p := e.snaps[idx-1][id]; p.loaded && p.rv.Role == s.rv.Role && p.rv.Leader == s.rv.Leader && p.view == s.view && s.rv.HW < p.rv.HW {
				r.Probe("c06_observed.hw_regressed")
			}
		}
	}
	if idx > 0 {
		e.checkStep(e.snaps[idx-1], cur, idx)
	}
	if r.Failed() {
		return
	}
	// finished operations, in op id order
	e.mu.Lock()
	fin := e.fin
	e.fin = nil
	e.mu.Unlock()
	sort.Slice(fin, func(i, j int) bool { return fin[i].id < fin[j].id })
	for _, op := range fin {
		e.inflight--
		e.finish(op, idx)
		if r.Failed() {
			return
		}
	}
}

func min64(a, b uint64) uint64 {
	if a < b {
		return a
	}
	return b
}

func max64(a, b uint64) uint64 {
	if a > b {
		return a
	}
	return b
}

// checkStep: boundary monotonicity and physical trim safety between two observations.
func (e *engine) checkStep(prev, cur map[ch.NodeID]*snap, idx int) {
	r := e.r
	for _, id := range e.w.ids {
		p, c := prev[id], cur[id]
		if c.ret.LocalRetentionThroughSeq < p.ret.LocalRetentionThroughSeq || c.ret.PhysicalRetentionThroughSeq < p.ret.PhysicalRetentionThroughSeq {
			r.FailSig("retention-regressed", "store", fmt.Sprintf("node %d durable retention state went back: local %d -> %d, physical %d -> %d", id,
				p.ret.LocalRetentionThroughSeq, c.ret.LocalRetentionThroughSeq, p.ret.PhysicalRetentionThroughSeq, c.ret.PhysicalRetentionThroughSeq), nil)
			return
		}
		if p.loaded && c.loaded {
			if c.rv.RetentionThroughSeq < p.rv.RetentionThroughSeq || c.rv.LocalRetentionThroughSeq < p.rv.LocalRetentionThroughSeq || c.rv.PhysicalRetentionThroughSeq < p.rv.PhysicalRetentionThroughSeq {
				r.FailSig("retention-regressed", "view", fmt.Sprintf("node %d RetentionView went back: boundary %d -> %d, local %d -> %d, physical %d -> %d", id,
					p.rv.RetentionThroughSeq, c.rv.RetentionThroughSeq, p.rv.LocalRetentionThroughSeq, c.rv.LocalRetentionThroughSeq, p.rv.PhysicalRetentionThroughSeq, c.rv.PhysicalRetentionThroughSeq), nil)
				return
			}
		}
		if c.ret.LocalRetentionThroughSeq > p.ret.LocalRetentionThroughSeq {
			e.adopted = true
			r.Probe("retention.adopted")
		}
		e.lastDeleted[id] = 0
		if c.ret.PhysicalRetentionThroughSeq > c.ret.LocalRetentionThroughSeq {
			r.FailSig("physical-above-logical", "", fmt.Sprintf("node %d: physical retention %d is above the adopted logical boundary %d", id, c.ret.PhysicalRetentionThroughSeq, c.ret.LocalRetentionThroughSeq), nil)
			return
		}
		if c.ret.LocalRetentionThroughSeq > p.ret.LocalRetentionThroughSeq && c.ret.LocalRetentionThroughSeq > e.maxReq[id] {
			// every way a boundary reaches a node goes through the simulator (explicit
			// applies, the retention GC pass with the authoritative record)
			r.FailSig("retention-beyond-requested", "", fmt.Sprintf("node %d adopted logical retention boundary %d although the largest boundary anyone ever asked it to adopt is %d", id, c.ret.LocalRetentionThroughSeq, e.maxReq[id]),
				map[string]any{"adopted": c.ret.LocalRetentionThroughSeq, "requested": e.maxReq[id]})
			return
		}
		// deleted sequences
		have := map[uint64]bool{}
		for _, s := range c.present {
			have[s] = true
		}
		var deleted []uint64
		for _, s := range p.present {
			if !have[s] {
				deleted = append(deleted, s)
			}
		}
		if e.c.quorum {
			// With the quorum log a leader change runs recovery (Install), which may
			// replace a node's suffix. Rows that vanish or change identity above the
			// adopted retention boundary are recovery's work, not retention's, and
			// belong to C01/C02 (quorumsim). If such a row had been acknowledged to a
			// client this is the known C01 loss seen at the service level: the run is
			// ended without a report so that no C10 oracle speaks about its consequences.
			boundary := c.ret.LocalRetentionThroughSeq
			var kept []uint64
			replaced := 0
			for _, s := range deleted {
				if s > boundary {
					replaced++
					if e.acked[p.stored[s].id] {
						e.taintC01(fmt.Sprintf("node %d lost acknowledged message %d at seq %d (recovery replaced its suffix)", id, p.stored[s].id, s))
						return
					}
					continue
				}
				kept = append(kept, s)
			}
			for _, s := range p.present {
				row := p.stored[s]
				if now, ok := c.stored[s]; ok && now.id != row.id && s > boundary {
					replaced++
					if e.acked[row.id] {
						e.taintC01(fmt.Sprintf("node %d: acknowledged message %d at seq %d was replaced by message %d", id, row.id, s, now.id))
						return
					}
				}
			}
			if replaced > 0 {
				r.Probe("quorum.recovery_replaced_unacknowledged_suffix")
				r.Logf("  recovery on node %d replaced %d unacknowledged row(s) above retention boundary %d", id, replaced, boundary)
			}
			deleted = kept
		}
		if len(deleted) == 0 {
			continue
		}
		r.Probe("trim.physical")
		r.ProbeN("trim.deleted_messages", len(deleted))
		e.lastDeleted[id] = len(deleted)
		top := deleted[len(deleted)-1]
		// most permissive honest bounds: the larger of the watermarks observed just before and just after the step
		hw := max64(max64(p.rv.HW, c.rv.HW), max64(p.phw, c.phw))
		ck := max64(max64(p.rv.CheckpointHW, c.rv.CheckpointHW), max64(p.phw, c.phw))
		leo := max64(max64(p.rv.LEO, c.rv.LEO), max64(p.leo, c.leo))
		adoptedB := c.ret.LocalRetentionThroughSeq
		r.Logf("  trim node %d deleted=%v bounds hw=%d ck=%d leo=%d adopted=%d", id, deleted, hw, ck, leo, adoptedB)
		if top > adoptedB {
			r.FailSig("trim-above-boundary", "", fmt.Sprintf("node %d physically deleted seq %d above its adopted logical boundary %d", id, top, adoptedB), nil)
			return
		}
		if top > hw {
			r.FailSig("trim-above-hw", "", fmt.Sprintf("node %d physically deleted seq %d above its committed watermark %d", id, top, hw), map[string]any{"deleted": top, "hw": hw})
			return
		}
		if top > ck {
			r.FailSig("trim-above-checkpoint", "", fmt.Sprintf("node %d physically deleted seq %d above its checkpointed watermark %d (HW %d)", id, top, ck, hw), map[string]any{"deleted": top, "ck": ck})
			return
		}
		if top > leo {
			r.FailSig("trim-above-leo", "", fmt.Sprintf("node %d physically deleted seq %d above its log end %d", id, top, leo), nil)
			return
		}
		if p.loaded && c.loaded && p.rv.Role == ch.RoleLeader && c.rv.Role == ch.RoleLeader {
			isr := c.rv.ISR
			minMatch := ^uint64(0)
			who := ch.NodeID(0)
			for _, m := range isr {
				if m == id {
					continue
				}
				pm, cm := prev[m], cur[m]
				if pm == nil || cm == nil {
					continue
				}
				have := max64(pm.leo, cm.leo)
				if have < minMatch {
					minMatch, who = have, m
				}
			}
			if who != 0 && top > minMatch {
				known := "no"
				if c.rv.MinISRMatchOffset >= top {
					known = "leader-believed-covered"
				}
				if r.FailSigContinue("trim-above-isr-progress", known, fmt.Sprintf("leader %d physically deleted seq %d while ISR member %d holds the log only through %d (leader's MinISRMatchOffset=%d, HW=%d, ISR=%v)",
					id, top, who, minMatch, c.rv.MinISRMatchOffset, hw, isr), map[string]any{"deleted": top, "member": who, "member_leo": minMatch}) {
					return
				}
				// open known finding (C10-K5): the run goes on. The reference of every later
				// check is the observed store of each node (prev/cur of a step, the serving
				// node's rows and watermarks for reads); the trimmed rows are simply gone from
				// it, and no oracle presumes that ISR members hold the leader's prefix.
				r.Probe("known.continued.trim-above-isr-progress")
				continue
			}
			r.Probe("trim.on_leader")
		} else {
			r.Probe("trim.on_follower")
		}
	}
}
