package chansim

// fencesim: the reactor-level clause of property C04 ("a deposed or fenced
// authority cannot acknowledge appends ... while a write fence is active, no
// new append is admitted; appends already admitted still reach a terminal
// result"), decided on the chansim world: three real channel nodes
// (cluster/channels.Service over the real channel service / reactor / machine /
// worker stack, memory store, real RPC codec over the simulated caller).
//
// Workload: single and batched appends through the runtime surface (straight
// into the node's reactor) and through the service surface (metadata cache,
// forwarding to the leader), queued, in flight and arriving while authoritative
// metadata is published and applied in any order: write fence set and cleared
// by fence-version bumps, leader-epoch bumps, epoch bumps, replays of older
// versions, and forged stale metadata (older epoch, older leader epoch,
// same-epoch leader switch).

import (
	"context"
	"errors"
	"fmt"
	"runtime"
	"sort"
	"strings"
	"sync"
	"testing"
	"time"

	"github.com/WuKongIM/WuKongIM/internal/verifsim/simkit"
	ch "github.com/WuKongIM/WuKongIM/pkg/channel"
	channelstore "github.com/WuKongIM/WuKongIM/pkg/channel/store"
)

func TestVerifSimFence(t *testing.T) {
	simkit.Main(t, simkit.Engine{
		Name:  "fencesim",
		Props: map[string]simkit.PropFunc{"C04fence": runFenceSim},
		Real: []string{"pkg/channel service + reactor (append admission, append queue and flush, metadata apply, fenced-work clearing, pull/ack replication) + machine + worker pools",
			"pkg/cluster/channels.Service (Append/AppendBatch with metadata cache and forwarding, ApplyMeta with the monotonic metadata floor, RuntimeProbe, RetentionView)",
			"channels.TransportClient and RegisterServiceHandlersOn with the real wire codec on every hop", "pkg/channel/store memory store"},
		Stub: []string{"clusternet.Caller (simulated network: reorder, drop, response loss, isolation; PullHint delivered immediately)",
			"control plane: tape-drawn authoritative metadata history (fence set/clear, leader-epoch and epoch bumps) with per-node lagging views served through ChannelMetaSource",
			"clients",
			"repl_mode=pullack runs: no durable quorum log (transitional pull/ack replication); repl_mode=quorum runs use the production composition of pkg/cluster/node_defaults.go (replication.NewStoreAdapter + channels.NewQuorumPeerLink + replication.NewRuntime, QuorumLog into channels.NewService, quorum exchange gateway registered; exchanges travel through the simulated caller with the real codec; one metadata-lock taker per node at a time; the log sits behind a pass-through that records the reactor's Install calls)"},
		Rule: "One run = one synctest bubble with 3 real channel nodes and one channel: a main phase of tape-chosen appends and metadata applications under network faults, then a fault-free drain phase (metadata converged on every node, every RPC delivered). " +
			"Non-trivial = at least one append acknowledged AND (an append rejected by an active write fence OR a fencing metadata change applied on a leader while appends were queued or in flight).",
		Assumptions: []string{"testing/synctest fake clock and quiescence semantics (go1.26.8)",
			"runtime state between two observations is one of the two observed states (one scheduler action per step, a node's metadata view is constant within a step)",
			"valid metadata reaches a runtime only through channels.Service (ApplyMeta / Append); the bare runtime surface is fed only metadata that ValidateMeta must reject",
			"simulated time per run stays below 2.3 s (see chansim: reactor busy-wait under a frozen clock)"},
	})
}

const (
	fenceMainCap  = 1200 * time.Millisecond // main phase ends here at the latest
	fenceDrainEnd = 2200 * time.Millisecond // drain phase ends here at the latest
	fenceCtxEnd   = 2260 * time.Millisecond // append contexts outlive the drain phase
	fenceMinDrain = 500 * time.Millisecond  // a pending append is a hang only after this much fault-free time
)

type fcfg struct {
	noFaults  bool
	minISR    int
	ops       int
	fDrop     bool
	fIsolate  bool
	batchWait time.Duration
	quorum    bool // production composition (durable quorum log) instead of pull/ack replication
}

// fnode is what one node looked like at one observation.
type fnode struct {
	loaded   bool
	epoch    uint64
	le       uint64
	role     ch.Role
	status   ch.Status
	fence    ch.WriteFence
	leader   ch.NodeID
	leo, hw  uint64
	inflight bool
	pending  int
	ids      map[uint64]uint64 // durable message id -> seq
	view     int
	// liftedFrom != 0: inside the current (epoch, leader epoch) this leader carried an
	// active write fence of that version and now carries a lower fence version without
	// a fence, i.e. older metadata lifted it (fence versions only grow in the history).
	liftedFrom uint64
}

func (s *fnode) leaderActive() bool {
	return s != nil && s.loaded && s.role == ch.RoleLeader && (s.status == ch.StatusActive || s.status == ch.StatusCreating)
}

// admissible: an unfenced active leader whose fence was not lifted by older metadata.
func (s *fnode) admissible() bool { return s.leaderActive() && !s.fence.Set() && s.liftedFrom == 0 }

// admissibleIgnoringLift is what the runtime itself believes.
func (s *fnode) admissibleIgnoringLift() bool { return s.leaderActive() && !s.fence.Set() }

func sameAuthority(a, b *fnode) bool {
	return a.leaderActive() && b.leaderActive() && a.epoch == b.epoch && a.le == b.le
}

type fop struct {
	id      int
	kind    string // append | batch | meta
	surface string // rt | svc
	node    ch.NodeID
	start   int
	ids     []uint64
	desc    string
	done    bool
	err     error
	seqs    []uint64
	cancel  context.CancelFunc
	meta    ch.Meta
	forge   string // "" for a version of the history
	version int
}

type fengine struct {
	t0  time.Time
	r   *simkit.Run
	c   fcfg
	w   *cworld
	mu  sync.Mutex
	ops []*fop
	fin []*fop

	snaps     []map[ch.NodeID]*fnode
	nextMsgID uint64
	started   int
	inflight  int
	acked     int
	rejected  int
	fencedMid bool
	// message ids of runtime-surface appends refused with ErrWriteFenced: nothing may ever be stored for them
	refused   map[uint64]int
	draining  bool
	converged map[ch.NodeID]bool
	drainFrom time.Time
	// Install calls of each node's quorum log already reported in the trace
	installSeen map[ch.NodeID]int
}

func runFenceSim(t *testing.T, r *simkit.Run) {
	tp := r.Tape
	c := fcfg{}
	// one draw for fault regime and replication composition: 0..3 keep the meaning
	// they had when only the fault regime was drawn (pull/ack replication), 4..7
	// are the same regimes under the production composition (durable quorum log)
	regime := tp.Intn(8)
	c.noFaults = regime%4 == 0
	c.quorum = regime >= 4
	c.minISR = 1 + tp.Weighted([]int{1, 5, 2})
	c.ops = 12 + tp.Intn(24)
	c.batchWait = []time.Duration{time.Millisecond, 20 * time.Millisecond, 60 * time.Millisecond}[tp.Weighted([]int{2, 2, 1})]
	if !c.noFaults {
		c.fDrop = tp.Intn(2) == 0
		c.fIsolate = tp.Intn(2) == 0
	}
	r.Config = map[string]any{"nofaults": c.noFaults, "minisr": c.minISR, "ops": c.ops, "drop": c.fDrop, "isolate": c.fIsolate, "batch_wait_ms": c.batchWait.Milliseconds(), "repl_mode": replModeName(c.quorum)}
	if prev := runtime.GOMAXPROCS(1); prev != 1 {
		defer runtime.GOMAXPROCS(prev)
	}
	simkit.Bubble(t, r, func() {
		e := &fengine{r: r, c: c, nextMsgID: 7000, refused: map[uint64]int{}, converged: map[ch.NodeID]bool{}, installSeen: map[ch.NodeID]int{}}
		e.run()
	})
}

func (e *fengine) run() {
	r := e.r
	w, err := newWorldOpts(r, 3, func(ch.NodeID) (channelstore.Factory, func()) { return channelstore.NewMemoryFactory(), nil }, worldOpts{batchWait: e.c.batchWait, quorum: e.c.quorum})
	if err != nil {
		r.Infra("world: %v", err)
		return
	}
	e.w = w
	w.inflightFn = func(n ch.NodeID) bool {
		if len(e.snaps) == 0 {
			return false
		}
		s := e.snaps[len(e.snaps)-1][n]
		return s != nil && s.loaded && (s.inflight || s.pending > 0)
	}
	e.t0 = time.Now()
	defer w.close()
	defer e.cancelAll()
	first := ch.Meta{Key: w.key, ID: w.id, Epoch: 1, LeaderEpoch: 1, RouteGeneration: 1, Leader: 1, Replicas: []ch.NodeID{1, 2, 3}, ISR: []ch.NodeID{1, 2, 3},
		MinISR: e.c.minISR, Status: ch.StatusActive, LeaseUntil: time.Now().Add(24 * time.Hour)}
	e.publish(first, "initial")
	for _, id := range w.ids {
		w.nodes[id].view = 1
	}
	if err := w.bootstrap(e.metaAt(1)); err != nil {
		r.Infra("initial ApplyMeta: %v", err)
		return
	}
	skew := time.Duration(1+r.Tape.Intn(97)) * time.Microsecond
	main := &simkit.Scheduler{R: r, MaxSteps: 50 + e.c.ops*10,
		Collect:   e.collect,
		Invariant: e.observe,
		Idle:      func() time.Duration { return 0 },
		Done:      func() bool { return e.started >= e.c.ops || time.Since(e.t0) > fenceMainCap },
		StepTime:  func() time.Duration { return time.Millisecond + skew },
	}
	main.Run()
	if r.Failed() || r.InfraErr != "" {
		return
	}
	// ---- drain: faults stop, metadata converges, everything is delivered ----
	e.draining = true
	w.mu.Lock()
	for _, id := range w.ids {
		w.nodes[id].isolated = false
		if !w.quorum {
			w.nodes[id].view = len(w.metas) - 1
		} // quorum mode: each view moves with its node's converge step (frozen while a service call is inside)
	}
	w.mu.Unlock()
	r.Logf("drain: faults stopped, every view at v%d", len(w.metas)-1)
	drain := &simkit.Scheduler{R: r, MaxSteps: r.Steps + 600,
		Collect:   e.collectDrain,
		Invariant: e.observe,
		Idle: func() time.Duration {
			if e.inflight > 0 && time.Since(e.t0) < fenceDrainEnd {
				return 10*time.Millisecond + skew
			}
			return 0
		},
		Done: func() bool {
			if time.Since(e.t0) >= fenceDrainEnd {
				return true
			}
			return len(e.converged) == len(w.ids) && e.inflight == 0
		},
		StepTime: func() time.Duration { return 2*time.Millisecond + skew },
	}
	drain.Run()
	if r.Failed() || r.InfraErr != "" {
		return
	}
	simkit.Wait()
	e.observe()
	if r.Failed() {
		return
	}
	pendingOps := 0
	for _, op := range e.ops {
		if op.kind != "meta" && !op.done {
			pendingOps++
		}
	}
	if pendingOps == 0 {
		r.Probe("drain.every_append_terminal")
	} else if why := e.quorumUnreachable(); why != "" {
		// The pull/ack path never truncates a diverged follower log, so after a
		// leader change with an uncommitted suffix the new leader may be unable
		// to reach MinISR whatever the fence did; that is not this property.
		r.Probe("drain.hang_check_skipped_" + why)
	} else if len(e.converged) == len(w.ids) && time.Since(e.drainFrom) >= fenceMinDrain {
		for _, op := range e.ops {
			if op.kind == "meta" || op.done {
				continue
			}
			last := e.snaps[len(e.snaps)-1]
			r.FailSig("append-hang", op.surface, fmt.Sprintf("op%d %s is still pending %v after faults stopped and metadata converged (%s)", op.id, op.desc,
				time.Since(e.drainFrom).Round(time.Millisecond), describeNodes(last, w.ids)), nil)
			return
		}
	} else {
		r.Probe("drain.too_short_for_hang_check")
	}
	r.Nontrivial = e.acked > 0 && (e.rejected > 0 || e.fencedMid)
}

// quorumUnreachable explains why pending quorum appends cannot be expected to
// finish although nothing is wrong with fencing: waiters are held only by the
// current leader and fewer than MinISR-1 ISR followers hold a log that is a
// prefix of the leader's.
func (e *fengine) quorumUnreachable() string {
	_, m := e.latest()
	last := e.snaps[len(e.snaps)-1]
	ld := last[m.Leader]
	if !ld.leaderActive() || ld.epoch != m.Epoch || ld.le != m.LeaderEpoch {
		return ""
	}
	for _, id := range e.w.ids {
		if id != m.Leader && last[id].loaded && (last[id].pending > 0 || last[id].inflight) {
			return "" // waiters stranded on a node that is not the leader: always a hang
		}
	}
	bySeq := map[uint64]uint64{}
	for mid, seq := range ld.ids {
		bySeq[seq] = mid
	}
	healthy := 1
	for _, id := range m.ISR {
		if id == m.Leader {
			continue
		}
		f := last[id]
		ok := f.loaded && f.leo <= ld.leo
		for mid, seq := range f.ids {
			if bySeq[seq] != mid {
				ok = false
			}
		}
		if ok {
			healthy++
		}
	}
	if healthy < m.MinISR {
		return "diverged_follower_logs"
	}
	return ""
}

func (e *fengine) cancelAll() {
	for _, op := range e.ops {
		if op.cancel != nil {
			op.cancel()
		}
	}
	e.w.sw.CloseAll(rpcClosed)
	simkit.Wait()
}

// ---- metadata history -------------------------------------------------------

func (e *fengine) publish(m ch.Meta, why string) int {
	w := e.w
	if e.c.quorum && m.MinISR*2 <= len(m.ISR) {
		// the quorum log only accepts strict-majority write quorums
		// (replication.validateRecoveryTopology: quorum*2 > len(voters))
		m.MinISR = len(m.ISR)/2 + 1
	}
	w.mu.Lock()
	w.metas = append(w.metas, cloneMeta(m))
	v := len(w.metas) - 1
	w.mu.Unlock()
	e.r.Logf("meta v%d [%s] e%d.%d leader=%d min=%d fence=%s", v, why, m.Epoch, m.LeaderEpoch, m.Leader, m.MinISR, fenceStr(m.WriteFence))
	return v
}

func fenceStr(f ch.WriteFence) string {
	if f.Set() {
		return fmt.Sprintf("SET(%s/%d)", f.Token, f.Version)
	}
	return fmt.Sprintf("clear(%d)", f.Version)
}

func (e *fengine) latest() (int, ch.Meta) {
	w := e.w
	w.mu.Lock()
	defer w.mu.Unlock()
	v := len(w.metas) - 1
	return v, cloneMeta(w.metas[v])
}

func (e *fengine) metaAt(v int) ch.Meta {
	w := e.w
	w.mu.Lock()
	defer w.mu.Unlock()
	return cloneMeta(w.metas[v])
}

func (e *fengine) controlPlane() {
	tp := e.r.Tape
	v, cur := e.latest()
	next := cloneMeta(cur)
	next.RouteGeneration = uint64(v + 1)
	kind := 0
	if cur.WriteFence.Set() {
		kind = tp.Weighted([]int{6, 2, 2, 1}) // clear, leader-epoch bump, epoch bump, re-fence with a higher version
	} else {
		kind = 4 + tp.Weighted([]int{6, 2, 2}) // set, leader-epoch bump, epoch bump
	}
	switch kind {
	case 0:
		next.WriteFence = ch.WriteFence{Version: cur.WriteFence.Version + 1}
		e.publish(next, "fence-clear")
		e.r.Probe("control.fence_clear")
	case 3, 4:
		next.WriteFence = ch.WriteFence{Token: fmt.Sprintf("t%d", v+1), Version: cur.WriteFence.Version + 1, Reason: ch.WriteFenceReasonLeaderTransfer, Until: time.Now().Add(time.Hour)}
		e.publish(next, "fence-set")
		e.r.Probe("control.fence_set")
	case 1, 5:
		next.LeaderEpoch++
		if tp.Intn(3) != 0 {
			next.Leader = next.ISR[tp.Intn(len(next.ISR))]
		}
		if tp.Intn(2) == 0 {
			next.WriteFence = ch.WriteFence{Version: cur.WriteFence.Version + 1} // a transfer normally ends by lifting the fence
		}
		if e.c.quorum {
			for _, op := range e.ops {
				if op.kind != "meta" && !op.done {
					e.r.Probe("quorum.leader_change_with_inflight_append") // published while appends are out; applied on a node once its log is idle
					break
				}
			}
		}
		e.publish(next, "leader-epoch")
		e.r.Probe("control.leader_epoch_bump")
	case 2, 6:
		next.Epoch++
		next.MinISR = 1 + tp.Weighted([]int{1, 4, 1})
		if tp.Intn(2) == 0 {
			next.WriteFence = ch.WriteFence{Version: cur.WriteFence.Version + 1}
		}
		e.publish(next, "epoch")
		e.r.Probe("control.epoch_bump")
	}
}

// ---- observation -------------------------------------------------------------

func (e *fengine) observe() {
	w := e.w
	r := e.r
	cur := map[ch.NodeID]*fnode{}
	for _, id := range w.ids {
		n := w.nodes[id]
		s := &fnode{view: n.view, ids: map[uint64]uint64{}}
		ctx, cancel := context.WithTimeout(context.Background(), time.Second)
		pr, err := n.svc.RuntimeProbe(ctx, ch.RuntimeSelector{ChannelIDs: []ch.ChannelID{w.id}})
		if err == nil && len(pr.Channels) == 1 {
			p := pr.Channels[0]
			s.loaded = true
			s.epoch, s.le, s.role, s.status, s.fence = p.ChannelEpoch, p.LeaderEpoch, p.Role, p.Status, p.WriteFence
			s.leo, s.hw, s.inflight, s.pending = p.LEO, p.HW, p.InflightAppend, p.PendingAppendCount
			if rv, err := n.svc.RetentionView(ctx, w.id); err == nil {
				s.leader = rv.Leader
			}
		}
		cancel()
		st, err := n.fac.ChannelStore(w.key, w.id)
		if err != nil {
			r.Infra("observe: ChannelStore node %d: %v", id, err)
			return
		}
		init, err := st.Load(context.Background())
		if err == nil && init.LEO > 0 {
			var res channelstore.ReadCommittedResult
			res, err = st.ReadCommitted(context.Background(), channelstore.ReadCommittedRequest{FromSeq: 1, MaxSeq: init.LEO, Limit: int(init.LEO) + 1, MaxBytes: 1 << 30})
			for _, m := range res.Messages {
				s.ids[m.MessageID] = m.MessageSeq
			}
		}
		_ = st.Close()
		if err != nil {
			r.Infra("observe: store scan node %d: %v", id, err)
			return
		}
		if n := len(e.snaps); n > 0 {
			p := e.snaps[n-1][id]
			if p.leaderActive() && s.leaderActive() && p.epoch == s.epoch && p.le == s.le {
				switch {
				case p.fence.Set() && !s.fence.Set() && s.fence.Version < p.fence.Version:
					s.liftedFrom = p.fence.Version
					r.Probe("observed.leader_fence_lifted_by_older_metadata")
					r.Logf("  note: leader %d fence %s -> %s inside e%d.%d (older metadata lifted an active write fence)", id, fenceStr(p.fence), fenceStr(s.fence), s.epoch, s.le)
				case p.liftedFrom != 0 && !s.fence.Set() && s.fence.Version < p.liftedFrom:
					s.liftedFrom = p.liftedFrom
				}
			}
		}
		cur[id] = s
	}
	e.snaps = append(e.snaps, cur)
	idx := len(e.snaps) - 1
	r.Logf("obs%d %s", idx, describeNodes(cur, w.ids))
	for _, id := range w.ids {
		// what the reactor handed to the durable quorum log since the last observation
		ins := w.nodes[id].qlog.installsSnapshot()
		for _, in := range ins[e.installSeen[id]:] {
			a := in.auth
			r.Logf("  quorum log n%d: Install e%d.%d gen %d leader %d fence=%s", id, a.ID.ChannelEpoch, a.ID.LeaderTerm, a.ID.FenceVersion, a.Leader, fenceStr(a.WriteFence))
			r.Probe("quorum.install_submitted")
			if a.WriteFence.Set() {
				r.Probe("quorum.fenced_authority_installed")
			}
		}
		e.installSeen[id] = len(ins)
	}
	var abs []any
	lv, _ := e.latest()
	for _, id := range w.ids {
		s := cur[id]
		abs = append(abs, id, s.loaded, s.role, s.fence.Set(), s.inflight, s.pending > 0, s.leo-minU(s.leo, s.hw) > 0, lv-s.view, "|")
	}
	r.State(abs...)
	if idx > 0 {
		e.checkStep(e.snaps[idx-1], cur)
	}
	if r.Failed() {
		return
	}
	e.mu.Lock()
	fin := e.fin
	e.fin = nil
	e.mu.Unlock()
	sort.Slice(fin, func(i, j int) bool { return fin[i].id < fin[j].id })
	for _, op := range fin {
		e.inflight--
		e.finish(op, idx)
		if r.Failed() {
			return
		}
	}
}

func minU(a, b uint64) uint64 {
	if a < b {
		return a
	}
	return b
}

func describeNodes(m map[ch.NodeID]*fnode, ids []ch.NodeID) string {
	var sb strings.Builder
	for _, id := range ids {
		s := m[id]
		if s == nil {
			continue
		}
		if !s.loaded {
			fmt.Fprintf(&sb, "n%d[v%d unloaded n=%d] ", id, s.view, len(s.ids))
			continue
		}
		f := "-"
		if s.fence.Set() {
			f = fmt.Sprintf("F%d", s.fence.Version)
		} else if s.liftedFrom != 0 {
			f = fmt.Sprintf("lifted(F%d)", s.liftedFrom)
		}
		fmt.Fprintf(&sb, "n%d[v%d e%d.%d L%d role=%d st=%d %s leo=%d hw=%d infl=%v pend=%d n=%d] ", id, s.view, s.epoch, s.le, s.leader, s.role, s.status, f, s.leo, s.hw, s.inflight, s.pending, len(s.ids))
	}
	return sb.String()
}

// checkStep: runtime metadata never goes back, and nothing refused by a fence is ever stored.
func (e *fengine) checkStep(prev, cur map[ch.NodeID]*fnode) {
	r := e.r
	for _, id := range e.w.ids {
		p, c := prev[id], cur[id]
		if p.loaded && c.loaded {
			if c.epoch < p.epoch || (c.epoch == p.epoch && c.le < p.le) {
				r.FailSig("runtime-meta-regressed", "fence", fmt.Sprintf("node %d runtime went from e%d.%d back to e%d.%d", id, p.epoch, p.le, c.epoch, c.le), nil)
				return
			}
			if c.epoch == p.epoch && c.le == p.le && p.leader != 0 && c.leader != 0 && c.leader != p.leader {
				r.FailSig("runtime-meta-regressed", "leader-switch", fmt.Sprintf("node %d runtime switched leader %d -> %d inside e%d.%d", id, p.leader, c.leader, c.epoch, c.le), nil)
				return
			}
			if c.epoch == p.epoch && c.le == p.le && c.fence.Version < p.fence.Version {
				r.Probe(fmt.Sprintf("observed.fence_version_went_back.role%d", c.role))
				r.Logf("  note: node %d (role %d) fence version %d -> %d inside e%d.%d", id, c.role, p.fence.Version, c.fence.Version, c.epoch, c.le)
			}
			if p.leaderActive() && (p.inflight || p.pending > 0) && sameAuthority(p, c) && !p.fence.Set() && c.fence.Set() {
				e.fencedMid = true
				r.Probe("fence.landed_on_inflight_appends")
			}
			if p.leaderActive() && (p.inflight || p.pending > 0) && !sameAuthority(p, c) {
				e.fencedMid = true
				r.Probe("authority.changed_with_inflight_appends")
				if e.c.quorum {
					r.Probe("quorum.leader_change_with_inflight_append")
				}
			}
		}
		for mid, opID := range e.refused {
			if seq, ok := c.ids[mid]; ok {
				r.FailSig("fenced-append-stored", "", fmt.Sprintf("message %d of op%d was refused with ErrWriteFenced but node %d stores it at seq %d", mid, opID, id, seq), nil)
				return
			}
		}
	}
}

// ---- scheduler actions ---------------------------------------------------------

func (e *fengine) rpcActions(faults bool) []simkit.Action {
	w := e.w
	var acts []simkit.Action
	occ := map[string]int{}
	for _, p := range w.sw.Pending() {
		p := p
		info := p.Info.(*rpcInfo)
		occ[p.Key]++
		key := fmt.Sprintf("%s #%d", p.Key, occ[p.Key])
		blocked := faults && (w.nodes[info.from].isolated || (w.nodes[info.to] != nil && w.nodes[info.to].isolated))
		if isAppendRPC(info.service) && w.svcBusy(info.to) {
			// quorum mode: the forwarded append would run Service.Append on a node
			// where another call may hold the metadata-apply mutex; it waits in the network
			if blocked {
				acts = append(acts, simkit.Action{Prio: 5, Key: "drop " + key, Weight: 1, Do: func() {
					e.r.Fault("net.drop")
					w.sw.Release(p, rpcDrop)
				}})
			}
			continue
		}
		if !blocked {
			acts = append(acts, simkit.Action{Prio: 0, Key: "deliver " + key, Weight: 8, Do: func() { w.sw.Release(p, rpcDeliver) }})
		}
		if faults && (blocked || e.c.fDrop) {
			acts = append(acts, simkit.Action{Prio: 5, Key: "drop " + key, Weight: 1, Do: func() {
				e.r.Fault("net.drop")
				w.sw.Release(p, rpcDrop)
			}})
		}
		if faults && !blocked && e.c.fDrop {
			acts = append(acts, simkit.Action{Prio: 5, Key: "dropresp " + key, Weight: 1, Do: func() {
				e.r.Fault("net.response_lost")
				w.sw.Release(p, rpcDropResponse)
			}})
		}
	}
	return acts
}

func (e *fengine) collect() []simkit.Action {
	w := e.w
	acts := e.rpcActions(true)
	if e.inflight < 5 {
		acts = append(acts, simkit.Action{Prio: 1, Key: "op", Weight: 10, Do: e.startOp})
	}
	acts = append(acts, simkit.Action{Prio: 2, Key: "tick", Weight: 2, Do: func() {
		d := time.Duration(2+e.r.Tape.Intn(40)) * time.Millisecond
		e.r.Logf("  tick %v", d)
		time.Sleep(d)
	}})
	latest, _ := e.latest()
	if latest < 14 {
		cw := 3
		for _, s := range e.snaps[len(e.snaps)-1] {
			if s.leaderActive() && (s.inflight || s.pending > 0) {
				cw = 7 // metadata changes are most interesting while appends are queued or in flight
			}
		}
		acts = append(acts, simkit.Action{Prio: 3, Key: "control", Weight: cw, Do: e.controlPlane})
	}
	for _, id := range w.ids {
		id := id
		n := w.nodes[id]
		if n.view < latest && !w.svcInside(id) { // quorum mode: the view is frozen while a service call (and its retries) is inside the node
			acts = append(acts, simkit.Action{Prio: 3, Key: fmt.Sprintf("view n%d", id), Weight: 3, Do: func() {
				to := n.view + 1 + e.r.Tape.Intn(latest-n.view)
				if e.r.Tape.Intn(2) == 0 {
					to = latest
				}
				w.mu.Lock()
				n.view = to
				w.mu.Unlock()
				e.r.Logf("  node %d metadata view -> v%d", id, to)
			}})
		}
	}
	if e.c.fIsolate {
		var iso *cnode
		for _, id := range w.ids {
			if w.nodes[id].isolated {
				iso = w.nodes[id]
			}
		}
		if iso == nil {
			acts = append(acts, simkit.Action{Prio: 6, Key: "isolate", Weight: 1, Do: func() {
				n := w.nodes[w.ids[e.r.Tape.Intn(len(w.ids))]]
				w.mu.Lock()
				n.isolated = true
				w.mu.Unlock()
				e.r.Fault("net.isolate")
				e.r.Logf("  isolate node %d", n.id)
			}})
		} else {
			acts = append(acts, simkit.Action{Prio: 4, Key: "heal", Weight: 2, Do: func() {
				w.mu.Lock()
				iso.isolated = false
				w.mu.Unlock()
				e.r.Logf("  heal node %d", iso.id)
			}})
		}
	}
	return acts
}

func (e *fengine) collectDrain() []simkit.Action {
	w := e.w
	for _, id := range w.ids {
		if !e.converged[id] {
			if w.svcBusy(id) {
				break // quorum mode: wait until the call inside this node's service has returned
			}
			id := id
			return []simkit.Action{{Prio: 0, Key: fmt.Sprintf("converge n%d", id), Weight: 1, Do: func() {
				v, m := e.latest()
				w.mu.Lock()
				w.nodes[id].view = v
				w.mu.Unlock()
				e.converged[id] = true
				if len(e.converged) == len(w.ids) {
					e.drainFrom = time.Now()
				}
				e.startMeta(id, "svc", m, "", v)
			}}}
		}
	}
	return e.rpcActions(false)
}

func (e *fengine) newOp(kind, surface string, node ch.NodeID) *fop {
	op := &fop{id: len(e.ops) + 1, kind: kind, surface: surface, node: node, start: len(e.snaps) - 1}
	e.ops = append(e.ops, op)
	if !e.draining {
		e.started++
	}
	e.inflight++
	return op
}

func (e *fengine) complete(op *fop) {
	e.mu.Lock()
	op.done = true
	e.fin = append(e.fin, op)
	e.mu.Unlock()
}

func (e *fengine) runtimeLeader() ch.NodeID {
	last := e.snaps[len(e.snaps)-1]
	for _, id := range e.w.ids {
		if last[id].leaderActive() {
			return id
		}
	}
	return e.w.ids[0]
}

func (e *fengine) startOp() {
	tp := e.r.Tape
	w := e.w
	node := w.ids[tp.Intn(len(w.ids))]
	switch tp.Weighted([]int{8, 3, 3, 2, 2}) {
	case 0: // append or batch, either surface
		surface := "rt"
		if tp.Intn(2) == 1 {
			surface = "svc"
		}
		if surface == "rt" && tp.Intn(4) != 0 {
			node = e.runtimeLeader() // the bare runtime only admits on its leader
		}
		n := 1
		if tp.Intn(3) == 2 {
			n = 2 + tp.Intn(2)
		}
		e.startAppend(node, surface, n)
	case 1: // the node applies its current view (what the cluster does on a slot metadata change)
		if v := w.nodes[node].view; v > 0 {
			e.startMeta(node, "svc", e.metaAt(v), "", v)
		} else {
			e.startAppend(node, "svc", 1)
		}
	case 2: // any version of the history, in any order
		latest, _ := e.latest()
		v := 1 + tp.Intn(latest)
		e.startMeta(node, "svc", e.metaAt(v), "", v)
		if v < latest {
			e.r.Fault("meta.replayed_older_version")
		}
	case 3, 4: // forged stale metadata relative to the node's runtime
		e.startForged(node)
	}
}

func (e *fengine) startAppend(node ch.NodeID, surface string, n int) {
	tp := e.r.Tape
	mode := ch.CommitModeQuorum
	if tp.Intn(5) == 4 {
		mode = ch.CommitModeLocal
	}
	kind := "append"
	if n > 1 {
		kind = "batch"
	}
	if surface == "svc" && e.w.svcBusy(node) {
		// quorum mode only: one metadata-lock taker per node at a time (see cworld.svcIn)
		e.r.Probe("quorum.lock_taker_deferred")
		surface, node = "rt", e.runtimeLeader()
	}
	op := e.newOp(kind, surface, node)
	msgs := make([]ch.Message, n)
	for i := range msgs {
		e.nextMsgID++
		op.ids = append(op.ids, e.nextMsgID)
		msgs[i] = ch.Message{MessageID: e.nextMsgID, FromUID: "u1", ClientMsgNo: fmt.Sprintf("c%d", e.nextMsgID), Payload: []byte(fmt.Sprintf("p%d", e.nextMsgID))}
	}
	op.desc = fmt.Sprintf("%s/%s n%d ids=%v mode=%d", kind, surface, node, op.ids, mode)
	e.r.Logf("  op%d %s", op.id, op.desc)
	nd := e.w.nodes[node]
	chID := e.w.id
	deadline := e.t0.Add(fenceCtxEnd)
	if e.c.quorum && surface == "svc" {
		// quorum mode admits one service call per node (see cworld.svcIn); two nodes
		// forwarding to each other would wait for one another, so these calls carry
		// an ordinary client deadline. The no-hang clause is then decided by the
		// runtime-surface appends, whose contexts outlive the drain phase.
		deadline = time.Now().Add(200 * time.Millisecond)
	}
	ctx, cancel := context.WithDeadline(context.Background(), deadline)
	op.cancel = cancel
	if surface == "svc" {
		e.w.svcEnter(node)
	}
	go func() {
		var cl ch.Cluster = nd.svc
		if surface == "rt" {
			cl = nd.svc.Runtime()
		} else {
			defer e.w.svcLeave(node)
		}
		if n == 1 {
			res, err := cl.Append(ctx, ch.AppendRequest{ChannelID: chID, Message: msgs[0], CommitMode: mode})
			op.err = err
			op.seqs = []uint64{res.MessageSeq}
		} else {
			res, err := cl.AppendBatch(ctx, ch.AppendBatchRequest{ChannelID: chID, Messages: msgs, CommitMode: mode})
			op.err = err
			for _, it := range res.Items {
				op.seqs = append(op.seqs, it.MessageSeq)
				if it.Err != nil && op.err == nil {
					op.err = it.Err
				}
			}
		}
		e.complete(op)
	}()
}

func (e *fengine) startMeta(node ch.NodeID, surface string, m ch.Meta, forge string, version int) {
	if surface == "svc" && e.w.svcBusy(node) {
		// quorum mode only: spend the step on a runtime-surface append instead
		e.r.Probe("quorum.lock_taker_deferred")
		e.startAppend(e.runtimeLeader(), "rt", 1)
		return
	}
	op := e.newOp("meta", surface, node)
	op.meta, op.forge, op.version = m, forge, version
	what := fmt.Sprintf("v%d", version)
	if forge != "" {
		what = "forged:" + forge
	}
	op.desc = fmt.Sprintf("ApplyMeta/%s n%d %s e%d.%d leader=%d gen=%d fence=%s", surface, node, what, m.Epoch, m.LeaderEpoch, m.Leader, m.RouteGeneration, fenceStr(m.WriteFence))
	e.r.Logf("  op%d %s", op.id, op.desc)
	nd := e.w.nodes[node]
	if surface == "svc" {
		e.w.svcEnter(node)
	}
	go func() {
		if surface == "rt" {
			op.err = nd.svc.Runtime().ApplyMeta(m)
		} else {
			defer e.w.svcLeave(node)
			op.err = nd.svc.ApplyMeta(m)
		}
		e.complete(op)
	}()
}

func (e *fengine) startForged(node ch.NodeID) {
	tp := e.r.Tape
	s := e.snaps[len(e.snaps)-1][node]
	if !s.loaded || s.leader == 0 {
		e.startAppend(node, "svc", 1)
		return
	}
	_, m := e.latest()
	m.Epoch, m.LeaderEpoch, m.Leader = s.epoch, s.le, s.leader
	m.RouteGeneration += 50 // a forged record may claim any generation
	forge := ""
	switch tp.Weighted([]int{3, 2, 3}) {
	case 0:
		if s.epoch <= 1 {
			forge = ""
			break
		}
		forge = "older-epoch"
		m.Epoch = s.epoch - 1
		m.LeaderEpoch = s.le + uint64(tp.Intn(3))
		if tp.Intn(2) == 0 {
			m.Leader = m.ISR[tp.Intn(len(m.ISR))]
		}
	case 1:
		if s.le <= 1 {
			break
		}
		forge = "older-leader-epoch"
		m.LeaderEpoch = s.le - 1
		if tp.Intn(2) == 0 {
			m.Leader = m.ISR[tp.Intn(len(m.ISR))]
		}
	case 2:
		forge = "same-epoch-leader-switch"
		for _, c := range m.ISR {
			if c != s.leader {
				m.Leader = c
				if tp.Intn(2) == 0 {
					break
				}
			}
		}
	}
	if forge == "" {
		e.startAppend(node, "svc", 1)
		return
	}
	if tp.Intn(2) == 0 {
		m.WriteFence = ch.WriteFence{Version: s.fence.Version + 1} // a forged record would also lift the fence
	}
	surface := "rt"
	if tp.Intn(3) == 0 {
		surface = "svc"
	}
	e.r.Fault("meta.forged_" + forge)
	e.startMeta(node, surface, m, forge, 0)
}

// ---- oracles --------------------------------------------------------------------

// isWriteFenced also recognises the error after it crossed the RPC codec.
func isWriteFenced(err error) bool {
	return err != nil && (errors.Is(err, ch.ErrWriteFenced) || strings.Contains(err.Error(), ch.ErrWriteFenced.Error()))
}

func ferr(err error) string {
	if err == nil {
		return "ok"
	}
	s := err.Error()
	if len(s) > 60 {
		s = s[:60]
	}
	return s
}

func (e *fengine) finish(op *fop, idx int) {
	r := e.r
	if op.kind == "meta" {
		r.Logf("  done op%d meta -> %s", op.id, ferr(op.err))
		e.checkMeta(op, idx)
		return
	}
	// Sequences are not logged: when a metadata change fails several waiters at
	// once the reactor walks a Go map, the service retries them in that order and
	// the retried appends swap sequences from one execution to the next.
	r.Logf("  done op%d %s -> %s", op.id, op.kind, ferr(op.err))
	x0 := e.snaps[op.start][op.node]
	// With the quorum log a fenced (or still installing) authority keeps
	// CommitReady false, and the admission check for that comes before the fence
	// check: the refusal is ErrNotReady there, ErrWriteFenced on the pull/ack path.
	notReady := e.c.quorum && op.err != nil && (errors.Is(op.err, ch.ErrNotReady) || strings.Contains(op.err.Error(), ch.ErrNotReady.Error()))
	refusedByFence := isWriteFenced(op.err) || notReady
	if op.err == nil {
		e.acked++
		r.Probe("append.acked." + op.surface)
		if e.c.quorum {
			r.Probe("quorum.commit_acked")
		}
		e.checkAck(op, idx)
		if r.Failed() {
			return
		}
	} else {
		if e.c.quorum {
			// the A / fenced B / A-again sequence ended in a refusal: the quorum log (or the
			// reactor's CommitReady) held although older metadata had lifted the fence in the reactor
			for _, id := range e.w.ids {
				if s := e.snaps[op.start][id]; s.leaderActive() && s.liftedFrom != 0 && (op.surface == "svc" || id == op.node) {
					r.Probe("quorum.append_unacknowledged_under_lifted_fence")
					break
				}
			}
		}
		switch {
		case notReady:
			r.Probe("append.err.not_ready")
			if x0.leaderActive() && x0.fence.Set() {
				e.rejected++
				r.Probe("quorum.fenced_commit_rejected")
			}
			if op.surface == "rt" {
				for _, id := range op.ids {
					e.refused[id] = op.id
				}
			}
		case isWriteFenced(op.err):
			e.rejected++
			r.Probe("append.write_fenced." + op.surface)
			if op.surface == "rt" {
				for _, id := range op.ids {
					e.refused[id] = op.id
				}
			}
		case errors.Is(op.err, ch.ErrStaleMeta):
			r.Probe("append.err.stale_meta")
		case errors.Is(op.err, ch.ErrNotLeader):
			r.Probe("append.err.not_leader")
		case errors.Is(op.err, context.DeadlineExceeded), errors.Is(op.err, context.Canceled):
			r.Probe("append.err.context")
		default:
			r.Probe("append.err.other")
		}
	}
	// clause 1 on the bare runtime surface: the reactor saw exactly the state observed before the step
	if op.surface == "rt" && x0.leaderActive() && x0.fence.Set() {
		x1 := e.snaps[op.start+1][op.node]
		if !refusedByFence || idx != op.start+1 {
			if sameAuthority(x0, x1) && x1.fence.Set() {
				r.FailSig("fenced-append-admitted", op.kind, fmt.Sprintf("op%d %s was submitted to leader %d while its runtime carried write fence %s (e%d.%d) and came back with %q after %d step(s) instead of ErrWriteFenced at once",
					op.id, op.desc, op.node, fenceStr(x0.fence), x0.epoch, x0.le, ferr(op.err), idx-op.start), nil)
				return
			}
		} else {
			r.Probe("fence.refused_at_admission")
		}
	}
	if op.surface == "rt" && x0.leaderActive() && !x0.fence.Set() && x0.liftedFrom != 0 {
		x1 := e.snaps[op.start+1][op.node]
		// an acknowledged append is judged by checkAck (same signature); here: refused in
		// the end but stored anyway. Sitting in the flush queue for a few steps and then
		// failing with a typed error without leaving a row is not an admission that matters.
		admitted := false
		if op.err != nil {
			for _, nid := range e.w.ids {
				for _, mid := range op.ids {
					if _, ok := e.snaps[idx][nid].ids[mid]; ok {
						admitted = true
					}
				}
			}
		}
		if admitted && sameAuthority(x0, x1) && x1.liftedFrom != 0 {
			// Same root cause as the acknowledged case (known finding C04-K1), one stage
			// earlier: the row exists but the caller got an error. Counted, not reported:
			// the reportable effect of that root cause is the acknowledgement.
			r.Probe("observed.append_stored_unacknowledged_under_lifted_fence")
			r.Logf("  note: op%d %s left a row although leader %d's write fence version %d had only been lifted by older metadata (result %q)", op.id, op.desc, op.node, x0.liftedFrom, ferr(op.err))
		}
	}
}

// checkAck: a successful append needs an authority that could admit it and that was still the same authority when it answered.
func (e *fengine) checkAck(op *fop, idx int) {
	r := e.r
	// Step s is what happens between observation s-1 and observation s. On the
	// bare runtime surface the op reaches the reactor in its own first step (a+1)
	// and is never resubmitted. On the service surface it can be (re)admitted in
	// any later step: a forwarded RPC is delivered, or a waiter failed by a
	// metadata change is retried with fresh metadata inside the same call. The
	// runtime state at admission is one of the two observations around the step,
	// and the admitting authority must still be in place at every observation
	// before the step in which the answer was produced.
	a, b := op.start, idx
	cands := []int{a + 1}
	if op.surface == "svc" {
		for s := a + 2; s <= b; s++ {
			cands = append(cands, s)
		}
	}
	// the bare runtime surface hands the append to one reactor only; through the
	// service it may be forwarded (and forwarded again) to any node
	nodes := e.w.ids
	if op.surface == "rt" {
		nodes = []ch.NodeID{op.node}
	}
	var byNode ch.NodeID // the node (and its state) that explained the acknowledgement
	var byState *fnode
	explain := func(adm func(*fnode) bool) (explained, anyAdm bool) {
		for _, s := range cands {
			for _, id := range nodes {
				for _, at := range []*fnode{e.snaps[s-1][id], e.snaps[s][id]} {
					if !adm(at) {
						continue
					}
					anyAdm = true
					ok := true
					for j := s; j < b; j++ {
						if !sameAuthority(at, e.snaps[j][id]) {
							ok = false
							break
						}
					}
					if ok {
						byNode, byState = id, at
						return true, true
					}
				}
			}
		}
		return false, anyAdm
	}
	explained, anyAdmissible := explain((*fnode).admissible)
	if explained {
		return
	}
	var hist []string
	for i := a; i <= b; i++ {
		hist = append(hist, fmt.Sprintf("obs%d %s", i, describeNodes(e.snaps[i], e.w.ids)))
	}
	if len(hist) > 6 {
		hist = append(hist[:3], hist[len(hist)-3:]...)
	}
	if ok, _ := explain((*fnode).admissibleIgnoringLift); ok {
		if e.c.quorum {
			// With the durable quorum log the reactor's metadata view is not the last
			// word: the log records the highest authority it was handed and refuses
			// proposals of a deposed one, so older metadata lifting the fence in the
			// reactor (known finding C04-K1 on the pull/ack path) cannot produce an
			// acknowledgement here. This one got through the log: either the fenced
			// authority never reached it, or it acknowledged under a deposed authority.
			installed, all := false, []string{}
			for _, in := range e.w.nodes[byNode].qlog.installsSnapshot() {
				a := in.auth
				all = append(all, fmt.Sprintf("(e%d.%d gen %d fence %s)", a.ID.ChannelEpoch, a.ID.LeaderTerm, a.ID.FenceVersion, fenceStr(a.WriteFence)))
				if a.ID.ChannelEpoch == byState.epoch && a.ID.LeaderTerm == byState.le && a.WriteFence.Set() && a.WriteFence.Version >= byState.liftedFrom {
					installed = true
				}
			}
			sig, why := "fenced-authority-never-installed", "the reactor never handed that fenced authority to the quorum log (no Install of it), so the log stayed open under the older authority"
			if installed {
				sig, why = "quorum-log-acked-deposed-authority", "the fenced authority had been handed to the quorum log (Install) and the log still acknowledged a proposal of the older authority"
			}
			r.FailSig("fenced-append-acked", sig, fmt.Sprintf("op%d %s was acknowledged (seqs %v) through the durable quorum log of leader %d although its runtime had carried write fence version %d inside e%d.%d and only older metadata took it away: %s; Install calls on that node: %s; %s",
				op.id, op.desc, op.seqs, byNode, byState.liftedFrom, byState.epoch, byState.le, why, strings.Join(all, " "), strings.Join(hist, " | ")), nil)
			return
		}
		// Pull/ack path, known finding C04-K1. When it is an open known finding the run
		// goes on: nothing here keeps a ledger that the acknowledged row contradicts
		// (observations are re-read from the stores every step, the refused set only
		// holds appends answered ErrWriteFenced), and every later acknowledgement is
		// judged on its own.
		if !r.FailSigContinue("fenced-append-acked", "lifted-by-older-metadata", fmt.Sprintf("op%d %s was acknowledged (seqs %v) only because the leader's active write fence had been lifted by metadata older than the one that set it (fence version went back inside one epoch/leader epoch): %s",
			op.id, op.desc, op.seqs, strings.Join(hist, " | ")), nil) {
			r.Probe("known.continued.fenced-append-acked")
		}
		return
	}
	if !anyAdmissible {
		r.FailSig("fenced-append-acked", op.surface, fmt.Sprintf("op%d %s was acknowledged (seqs %v) although between submission and answer no node was an unfenced active leader: %s", op.id, op.desc, op.seqs, strings.Join(hist, " | ")), nil)
		return
	}
	r.FailSig("stale-authority-acked", op.surface, fmt.Sprintf("op%d %s was acknowledged (seqs %v) although every authority that could have admitted it had been replaced by newer metadata before the answer: %s", op.id, op.desc, op.seqs, strings.Join(hist, " | ")), nil)
}

func (e *fengine) checkMeta(op *fop, idx int) {
	r := e.r
	before := e.snaps[op.start][op.node]
	after := e.snaps[idx][op.node]
	if op.forge == "" {
		if op.err != nil {
			r.Probe("meta.history_version_rejected")
		} else {
			r.Probe("meta.history_version_applied")
			if e.c.quorum && op.meta.Leader == op.node {
				r.Probe("quorum.install_ok") // the leader's ApplyMeta returns only after Install (recovery + barrier) succeeded
			}
		}
		return
	}
	if !before.loaded || !after.loaded {
		return
	}
	if op.surface == "rt" {
		if op.err == nil {
			r.FailSig("stale-meta-accepted", op.forge, fmt.Sprintf("op%d %s was accepted by the runtime (state before: e%d.%d leader %d, after: e%d.%d leader %d)", op.id, op.desc,
				before.epoch, before.le, before.leader, after.epoch, after.le, after.leader), nil)
			return
		}
		if !errors.Is(op.err, ch.ErrStaleMeta) {
			r.FailSig("stale-meta-wrong-error", op.forge, fmt.Sprintf("op%d %s rejected with %q, want ErrStaleMeta", op.id, op.desc, ferr(op.err)), nil)
			return
		}
	}
	took := false
	switch op.forge {
	case "older-epoch":
		took = after.epoch == op.meta.Epoch
	case "older-leader-epoch":
		took = after.epoch == op.meta.Epoch && after.le == op.meta.LeaderEpoch
	case "same-epoch-leader-switch":
		took = after.epoch == before.epoch && after.le == before.le && after.leader == op.meta.Leader && before.leader != op.meta.Leader
	}
	if took {
		r.FailSig("stale-meta-took-effect", op.forge, fmt.Sprintf("op%d %s changed the runtime: before e%d.%d leader %d role %d, after e%d.%d leader %d role %d", op.id, op.desc,
			before.epoch, before.le, before.leader, before.role, after.epoch, after.le, after.leader, after.role), nil)
		return
	}
	if op.surface == "rt" && before.fence.Set() && !after.fence.Set() && sameAuthority(before, after) && idx == op.start+1 {
		// the forged record carried a lifted fence; the only action of this step must not have lifted it
		r.FailSig("stale-meta-took-effect", op.forge+"/fence", fmt.Sprintf("op%d %s lifted write fence %s", op.id, op.desc, fenceStr(before.fence)), nil)
		return
	}
	r.Probe("meta.forged_rejected." + op.forge)
}
