//go:build verif

package cluster

// Overlay-only export for the chansim verification engine (never written into
// the repository): builds a Node that has exactly the dependencies the local
// channel read / retention facades use (channel store factory, slot metadata
// DB, a one-slot route table, the channel service) and is marked started, so
// the real Node.ReadChannelCommitted, Node.ReadChannelCommittedBatch,
// Node.ChannelRetentionView and Node.ApplyChannelRetentionBoundary can be
// exercised without starting controller, transport and slot Raft.

import (
	"context"
	"errors"

	channelstore "github.com/WuKongIM/WuKongIM/pkg/channel/store"
	"github.com/WuKongIM/WuKongIM/pkg/cluster/channels"
	"github.com/WuKongIM/WuKongIM/pkg/cluster/control"
	"github.com/WuKongIM/WuKongIM/pkg/cluster/routing"
	metadb "github.com/WuKongIM/WuKongIM/pkg/db/meta"
	"github.com/WuKongIM/WuKongIM/pkg/slot/multiraft"
	slotproxy "github.com/WuKongIM/WuKongIM/pkg/slot/proxy"
)

// VerifNewReadNode returns the partially constructed Node and the hash slot of key.
func VerifNewReadNode(factory channelstore.Factory, metaDB *metadb.DB, chans *channels.Service, key string) (*Node, uint16, error) {
	router := routing.NewRouter()
	snapshot := control.Snapshot{
		Revision:     1,
		ControllerID: 1,
		Nodes: []control.Node{
			{NodeID: 1, Addr: "sim:1", Roles: []control.Role{control.RoleData}, Status: control.NodeAlive},
			{NodeID: 2, Addr: "sim:2", Roles: []control.Role{control.RoleData}, Status: control.NodeAlive},
			{NodeID: 3, Addr: "sim:3", Roles: []control.Role{control.RoleData}, Status: control.NodeAlive},
		},
		Slots:     []control.SlotAssignment{{SlotID: 1, DesiredPeers: []uint64{1, 2, 3}, ConfigEpoch: 1, PreferredLeader: 1}},
		HashSlots: control.HashSlotTable{Revision: 1, Count: 4, Ranges: []control.HashSlotRange{{From: 0, To: 3, SlotID: 1}}},
	}
	if err := router.UpdateControlSnapshot(snapshot); err != nil {
		return nil, 0, err
	}
	router.UpdateSlotLeaders([]routing.SlotStatus{{SlotID: 1, Leader: 1, LeaderTerm: 1}})
	n := &Node{channelStoreFactory: factory, defaultSlotMetaDB: metaDB, router: router, channels: chans}
	n.started.Store(true)
	route, err := n.RouteKey(key)
	if err != nil {
		return nil, 0, err
	}
	return n, route.HashSlot, nil
}

// VerifEnableRetentionGC gives the partially constructed Node what
// RunChannelRetentionGCOnce (channel_retention_physical.go) consumes besides the
// channel service: the MessageDB factory whose channel catalog it pages, the
// slot proxy it asks for the authoritative runtime metadata (over a stand-in
// slot layout in which the local node owns the single slot, so the proxy reads
// the given metadata DB) and the ChannelRetention settings.
func VerifEnableRetentionGC(n *Node, store *channelstore.MessageDBFactory, metaDB *metadb.DB, nodeID uint64, batch, maxTrimMessages, maxTrimBytes int) {
	n.defaultChannelStore = store
	n.defaultSlotProxy = slotproxy.New(verifLocalSlots{node: multiraft.NodeID(nodeID)}, metaDB)
	n.cfg.ChannelRetention.ChannelBatchSize = batch
	n.cfg.ChannelRetention.MaxTrimMessages = maxTrimMessages
	n.cfg.ChannelRetention.MaxTrimBytes = maxTrimBytes
}

// verifLocalSlots is the slotproxy.Cluster stand-in: one slot, led by the local node.
type verifLocalSlots struct{ node multiraft.NodeID }

func (v verifLocalSlots) SlotIDs() []multiraft.SlotID           { return []multiraft.SlotID{1} }
func (v verifLocalSlots) SlotForKey(string) multiraft.SlotID    { return 1 }
func (v verifLocalSlots) HashSlotForKey(key string) uint16      { return routing.HashSlotForKey(key, 4) }
func (v verifLocalSlots) HashSlotsOf(multiraft.SlotID) []uint16 { return []uint16{0, 1, 2, 3} }
func (v verifLocalSlots) HashSlotTableVersion() uint64          { return 1 }
func (v verifLocalSlots) LeaderOf(multiraft.SlotID) (multiraft.NodeID, error) {
	return v.node, nil
}
func (v verifLocalSlots) IsLocal(id multiraft.NodeID) bool { return id == v.node }
func (v verifLocalSlots) PeersForSlot(multiraft.SlotID) []multiraft.NodeID {
	return []multiraft.NodeID{v.node}
}
func (v verifLocalSlots) RPCService(context.Context, multiraft.NodeID, multiraft.SlotID, uint8, []byte) ([]byte, error) {
	return nil, errors.New("verif: no remote slot owner in this world")
}
