//go:build verif

package cluster

// Overlay-only export for the chansim verification engine (never written into
// the repository): builds a Node that has exactly the dependencies the local
// channel read / retention facades use (channel store factory, slot metadata
// DB, a one-slot route table, the channel service) and is marked started, so
// the real Node.ReadChannelCommitted, Node.ReadChannelCommittedBatch,
// Node.ChannelRetentionView and Node.ApplyChannelRetentionBoundary can be
// exercised without starting controller, transport and slot Raft.

import (
	channelstore "github.com/WuKongIM/WuKongIM/pkg/channel/store"
	"github.com/WuKongIM/WuKongIM/pkg/cluster/channels"
	"github.com/WuKongIM/WuKongIM/pkg/cluster/control"
	"github.com/WuKongIM/WuKongIM/pkg/cluster/routing"
	metadb "github.com/WuKongIM/WuKongIM/pkg/db/meta"
)

// VerifNewReadNode returns the partially constructed Node and the hash slot of key.
func VerifNewReadNode(factory channelstore.Factory, metaDB *metadb.DB, chans *channels.Service, key string) (*Node, uint16, error) {
	router := routing.NewRouter()
	snapshot := control.Snapshot{
		Revision:     1,
		ControllerID: 1,
		Nodes: []control.Node{
			{NodeID: 1, Addr: "sim:1", Roles: []control.Role{control.RoleData}, Status: control.NodeAlive},
			{NodeID: 2, Addr: "sim:2", Roles: []control.Role{control.RoleData}, Status: control.NodeAlive},
			{NodeID: 3, Addr: "sim:3", Roles: []control.Role{control.RoleData}, Status: control.NodeAlive},
		},
		Slots:     []control.SlotAssignment{{SlotID: 1, DesiredPeers: []uint64{1, 2, 3}, ConfigEpoch: 1, PreferredLeader: 1}},
		HashSlots: control.HashSlotTable{Revision: 1, Count: 4, Ranges: []control.HashSlotRange{{From: 0, To: 3, SlotID: 1}}},
	}
	if err := router.UpdateControlSnapshot(snapshot); err != nil {
		return nil, 0, err
	}
	router.UpdateSlotLeaders([]routing.SlotStatus{{SlotID: 1, Leader: 1, LeaderTerm: 1}})
	n := &Node{channelStoreFactory: factory, defaultSlotMetaDB: metaDB, router: router, channels: chans}
	n.started.Store(true)
	route, err := n.RouteKey(key)
	if err != nil {
		return nil, 0, err
	}
	return n, route.HashSlot, nil
}
