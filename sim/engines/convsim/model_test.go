package convsim

// Reference model for C34, written from the property statement: it counts and
// selects messages one by one over a snapshot of the channel log instead of
// doing arithmetic on watermarks, so it shares no formula with the use case.

import (
	metadb "github.com/WuKongIM/WuKongIM/pkg/db/meta"
)

type msg struct {
	seq      uint64
	id       uint64
	from     string
	syncOnce bool
	payload  []byte
}

// headSnap is what one channel-head read could see: the committed prefix of
// the log and the retention boundary at that instant (messages are immutable
// and append-only, so holding the slice prefix is a true snapshot).
type headSnap struct {
	msgs      []msg // committed prefix only
	retention uint64
}

func (h headSnap) committed() uint64 { return uint64(len(h.msgs)) }

// ownLastSend is the user's own newest committed message.
func (h headSnap) ownLastSend(uid string) uint64 {
	var out uint64
	for _, m := range h.msgs {
		if m.from == uid && m.seq > out {
			out = m.seq
		}
	}
	return out
}

// visibleTo: the message is not before the join point, not hidden by the
// user's delete-to boundary and not compacted away by retention.
func visibleTo(row metadb.UserChannelMembership, h headSnap, m msg) bool {
	if m.seq < row.JoinSeq {
		return false
	}
	if m.seq <= row.DeletedToSeq {
		return false
	}
	if m.seq <= h.retention {
		return false
	}
	return true
}

// refUnread counts the committed messages after the effective read point.
func refUnread(row metadb.UserChannelMembership, h headSnap, uid string) uint64 {
	own := h.ownLastSend(uid)
	var n uint64
	for _, m := range h.msgs {
		if !visibleTo(row, h, m) {
			continue
		}
		if m.seq <= row.ReadSeq {
			continue
		}
		if m.seq <= own {
			continue
		}
		n++
	}
	return n
}

// refLast is the newest displayable (ordinary) committed message the user may
// see, or nil. A newer message the user may not see never makes an older one
// the "last message": the conversation then simply shows none.
func refLast(row metadb.UserChannelMembership, h headSnap) *msg {
	for i := len(h.msgs) - 1; i >= 0; i-- {
		m := h.msgs[i]
		if m.syncOnce {
			continue
		}
		if m.seq <= h.retention {
			return nil
		}
		if !visibleTo(row, h, m) {
			return nil
		}
		return &m
	}
	return nil
}

// refListed: a conversation row is listed when the user activated it or when
// some committed sequence lies after both the join point and the delete-to
// boundary (DeleteConversation "hides a conversation through the latest known
// message"; HideUserChannelMembership "clears directory activation").
func refListed(row metadb.UserChannelMembership, h headSnap) bool {
	if row.ActivatedAt > 0 {
		return true
	}
	for _, m := range h.msgs {
		if m.seq >= row.JoinSeq && m.seq > row.DeletedToSeq {
			return true
		}
	}
	return false
}
