// Package convsim decides C34 (conversation unread counts and visibility are
// exact): the real conversation.App (through the real cluster adapter
// infra/cluster.ConversationStore) runs over a simulated membership store and
// simulated channel heads. Every store call of an App operation is a seam: the
// operation is a coroutine that is suspended there while the simulator applies
// other operations' store calls and world events (sends, commits, retention,
// leave/rejoin, channel removal, clock). The oracle evaluates a message-by-
// message reference model on exactly the snapshots each operation observed.
package convsim

import (
	"context"
	"errors"
	"fmt"
	"iter"
	"sort"
	"strings"
	"testing"
	"time"

	infracluster "github.com/WuKongIM/WuKongIM/internal/infra/cluster"
	"github.com/WuKongIM/WuKongIM/internal/usecase/conversation"
	"github.com/WuKongIM/WuKongIM/internal/verifsim/simkit"
	ch "github.com/WuKongIM/WuKongIM/pkg/channel"
	clusterchannels "github.com/WuKongIM/WuKongIM/pkg/cluster/channels"
	metadb "github.com/WuKongIM/WuKongIM/pkg/db/meta"
	"github.com/WuKongIM/WuKongIM/pkg/transport"
)

func TestVerifSim(t *testing.T) {
	simkit.Main(t, simkit.Engine{
		Name:  "convsim",
		Props: map[string]simkit.PropFunc{
			"C34": func(t *testing.T, r *simkit.Run) { runConv(t, r, false) },
			// the production storage stack commits through a coordinator with a flush
			// window timer; the bubble makes that timer virtual
			"C16conv": func(t *testing.T, r *simkit.Run) { simkit.Bubble(t, r, func() { runConv(t, r, true) }) },
		},
		Real: []string{
			"internal/usecase/conversation.App (List, Retry, ClearUnread, SetUnread, DeleteConversation, ActivateConversation)",
			"internal/infra/cluster.ConversationStore (the production adapter between the use case and the node: head batching, error classification)",
			"C16conv only: pkg/slot/fsm state machine (TLV codec, ApplyBatch) over pkg/db/meta (membership table reducers, activation index paging, commit coordinator) on Pebble with vfs.NewCrashableMem, as the membership store behind the adapter",
		},
		Stub: []string{
			"C34: UID membership store (rows with monotonic read / delete-to floors, activation index paging) written from pkg/db/meta doc comments; C16conv: only the slot log / proposal path (apply now, apply after a reported timeout, apply a retried proposal again, reopen or crash-clone the database)",
			"channel heads (append-only log per channel with committed watermark, retention boundary, sender index, SyncOnce records) written from pkg/cluster/channels ConversationHead doc comments",
			"clock (Options.Now reads the simulated clock)",
		},
		Rule: "One run = 1-3 channels with arbitrary initial logs and arbitrary membership rows for two users (join point, read cursor, delete-to, activation, tombstone drawn independently, including cursors ahead of the head), then 25-60 tape-chosen steps: start an App operation (List with page limits and cursors, Retry, ClearUnread, SetUnread N, DeleteConversation, ActivateConversation), resume one suspended operation by one store call, apply a world event (send by self / the other user / a stranger, ordinary or SyncOnce, committed at once or later; commit advance; retention advance; leave; rejoin; channel removal; head unavailability), or advance the clock. One run in four runs every operation atomically and without store faults. A run is non-trivial when at least three operations completed, at least one listed conversation was compared and (interleaving or a fault happened, or the run is a fault-free one with at least two world events). C16conv uses the same runs with 1-5 channels and the production storage stack as membership store: membership changes, older-source subscriber writes, late application of proposals reported as timed out, second application of retried proposals, lagging channel leaders and database reopen / kill / power loss are additional world events, and complete directory passes through App.List (page size 1, 2, 3 or default) are additional operations during which nothing touches the scanned user's rows.",
		Assumptions: []string{
			"C16conv: slot commands are applied one at a time in log order; a new membership incarnation (first creation, or re-creation of a tombstoned row under a newer source version) may restart the cursors; the store's own directory order is taken as given (metasimb checks it)",
			"store calls are atomic and the stores' own semantics (monotonic floors, tombstones ignore personal-state commands, head snapshot consistent within one channel) are as documented; they are simulated, not verified here",
			"an operation's result is judged against the membership row and the channel heads that this operation itself read (its reads are not required to form one global snapshot)",
			"SetUnread is additionally required to be exact (min(N, previous unread)), which is stronger than the statement's 'at most N'",
		},
	})
}

const (
	faultNone = iota
	faultHard
	faultRetryable
)

var errInjected = errors.New("convsim: injected store failure")

type access struct {
	kind   string // page get head adv hide activate
	chID   string
	at     time.Time
	fault  error
	rows   []metadb.UserChannelMembership
	done   bool
	row    metadb.UserChannelMembership // get: row read; writes: row as stored after the write
	rowOK  bool
	head   headSnap
	hErr   error
	arg    uint64
	argAt  int64
	argUpd int64
	applied bool
}

type op struct {
	id      int
	kind    string
	uid     string
	chID    string
	n       int
	limit   int
	cursor  conversation.Cursor
	keys    []conversation.ConversationKey
	start   time.Time
	next    func() (string, bool)
	stop    func()
	yield   func(string) bool
	pending string
	fault   int
	obs     []access
	err     error
	res     conversation.ListResult
	done    bool
	stamp   int // world version when the op last ran
	raced   bool
	// C16conv directory pass: every page result and the store's own listing at the start
	pages   []passPage
	passRef []metadb.UserChannelMembership
}

type channel struct {
	id        string
	msgs      []msg
	committed uint64
	retention uint64
	gone      bool
	flaky     int
	stale     int // C16conv: next head reads are answered by a lagging leader
}

type rowKey struct{ uid, ch string }

type world struct {
	r   *simkit.Run
	tp  *simkit.Tape
	app *conversation.App
	// real is the production membership storage stack (C16conv); nil for C34,
	// where the rows map below is the store itself instead of a mirror of it
	real *realStore

	clean    bool
	now      time.Time
	chans    []*channel
	rows     map[rowKey]*metadb.UserChannelMembership
	cur      *op
	atomic   bool
	inflight []*op
	nextOp   int
	nextMsg  uint64
	version  int

	completed, itemsCompared, interleavings, faults, worldEvents int
	lastCursor                                                map[string]conversation.Cursor
}

const chType = 2

var users = []string{"u1", "u2"}
var senders = []string{"o9", "u1", "u2"}

func runConv(t *testing.T, r *simkit.Run, realStorage bool) {
	tp := r.Tape
	w := &world{r: r, tp: tp, rows: map[rowKey]*metadb.UserChannelMembership{}, lastCursor: map[string]conversation.Cursor{}}
	w.clean = tp.Intn(4) == 0
	maxCh := 3
	if realStorage {
		maxCh = 5
	}
	nCh := 1 + tp.Intn(maxCh)
	steps := 25 + tp.Intn(36)
	storeFaultPct := 0
	if !w.clean {
		storeFaultPct = tp.Intn(12)
	}
	w.atomic = w.clean
	r.Config["clean"] = w.clean
	r.Config["channels"] = nCh
	r.Config["steps"] = steps
	r.Config["store_fault_pct"] = storeFaultPct
	w.now = time.Unix(1_700_000_000, 0)
	for i := 0; i < nCh; i++ {
		c := &channel{id: fmt.Sprintf("g%d", i+1)}
		n0 := tp.Intn(9)
		for k := 0; k < n0; k++ {
			w.appendMsg(c, senders[tp.Intn(len(senders))], tp.Intn(5) == 4)
		}
		c.committed = uint64(n0)
		if n0 > 0 && tp.Intn(3) == 2 {
			c.committed = uint64(n0 - 1 - tp.Intn(minInt(2, n0)))
		}
		if c.committed > 0 && tp.Intn(2) == 1 {
			c.retention = uint64(tp.Intn(int(c.committed) + 1))
		}
		w.chans = append(w.chans, c)
		for ui, u := range users {
			if ui > 0 && tp.Intn(3) == 2 {
				continue
			}
			row := &metadb.UserChannelMembership{UID: u, ChannelID: c.id, ChannelType: chType}
			row.JoinSeq = uint64(tp.Intn(n0 + 3))
			row.ReadSeq = uint64(tp.Intn(n0 + 3))
			if tp.Intn(3) == 2 {
				row.DeletedToSeq = uint64(tp.Intn(n0 + 2))
			}
			if tp.Intn(2) == 1 {
				row.ActivatedAt = w.now.UnixNano() - int64(tp.Intn(5))*1_000_000_000
			}
			if tp.Intn(10) == 9 {
				row.Tombstone = true
			}
			row.UpdatedAt = w.now.UnixNano() - 10_000_000_000
			w.rows[rowKey{u, c.id}] = row
		}
		r.Logf("init %s", w.chanString(c))
	}
	for _, k := range w.sortedRowKeys() {
		r.Logf("init row %s", rowString(*w.rows[k]))
	}
	r.Logf("config clean=%v channels=%d steps=%d store_fault_pct=%d", w.clean, nCh, steps, storeFaultPct)

	if realStorage {
		w.real = newRealStore(r)
		defer w.real.close()
		if r.InfraErr != "" {
			return
		}
		w.seedReal()
	}
	w.newApp()
	defer w.abandon()

	for step := 0; step < steps && !r.Failed() && r.InfraErr == ""; step++ {
		r.Steps++
		wt := []int{10, 0, 8, 2}
		cands := w.inflight
		if w.real != nil {
			cands = w.resumable()
		}
		if len(cands) > 0 {
			wt[1] = 14
		}
		if len(w.inflight) >= 3 {
			wt[0] = 0
		}
		switch tp.Weighted(wt) {
		case 0:
			w.startOp()
		case 1:
			o := cands[tp.PickOldestBiased(len(cands))]
			w.resume(o, storeFaultPct)
		case 2:
			w.worldEvent()
		case 3:
			d := []time.Duration{time.Second, time.Millisecond, time.Minute}[tp.Intn(3)]
			w.now = w.now.Add(d)
			w.version++
			r.SimTime += d
			r.Logf("clock +%s", d)
		}
		r.State(w.abstractState())
	}
	for len(w.inflight) > 0 && !r.Failed() && r.InfraErr == "" {
		r.Steps++
		next := w.inflight[0]
		if w.real != nil {
			cands := w.resumable()
			if len(cands) == 0 {
				r.Infra("every operation in flight is blocked by a directory pass")
				break
			}
			next = cands[0]
		}
		w.resume(next, 0)
	}
	if w.real != nil && !r.Failed() && r.InfraErr == "" {
		w.mirrorAll("end")
	}
	if w.clean && (w.faults > 0 || w.interleavings > 0) {
		r.Infra("a fault or interleaving happened in a run configured without them: faults=%v interleavings=%d", r.Faults, w.interleavings)
	}
	r.Nontrivial = w.completed >= 3 && w.itemsCompared >= 1 && (w.interleavings > 0 || w.faults > 0 || (w.clean && w.worldEvents >= 2))
}

// newApp builds the adapter and the use case the way the application wires them.
func (w *world) newApp() {
	store := infracluster.NewConversationStore(w)
	w.app = conversation.New(conversation.Options{
		Directory: store, Hydrator: store, MembershipMutations: store,
		Now:                     func() time.Time { return w.now },
		TombstonesRetainedSince: func() int64 { return 0 },
	})
}

func minInt(a, b int) int {
	if a < b {
		return a
	}
	return b
}

func (w *world) abandon() {
	for _, o := range w.inflight {
		func() {
			defer func() { recover() }()
			o.stop()
		}()
	}
	w.inflight = nil
}

func (w *world) abstractState() string {
	var b strings.Builder
	for _, c := range w.chans {
		fmt.Fprintf(&b, "%d/%d/%d;", len(c.msgs), c.committed, c.retention)
	}
	for _, k := range w.sortedRowKeys() {
		row := w.rows[k]
		fmt.Fprintf(&b, "%d.%d.%d.%v.%v;", row.JoinSeq, row.ReadSeq, row.DeletedToSeq, row.ActivatedAt > 0, row.Tombstone)
	}
	fmt.Fprintf(&b, "f%d", len(w.inflight))
	return b.String()
}

func (w *world) sortedRowKeys() []rowKey {
	ks := make([]rowKey, 0, len(w.rows))
	for k := range w.rows {
		ks = append(ks, k)
	}
	sort.Slice(ks, func(i, j int) bool {
		if ks[i].uid != ks[j].uid {
			return ks[i].uid < ks[j].uid
		}
		return ks[i].ch < ks[j].ch
	})
	return ks
}

func (w *world) chanByID(id string) *channel {
	for _, c := range w.chans {
		if c.id == id {
			return c
		}
	}
	return nil
}

func (w *world) chanString(c *channel) string {
	var b strings.Builder
	fmt.Fprintf(&b, "%s committed=%d retention=%d gone=%v log=[", c.id, c.committed, c.retention, c.gone)
	for _, m := range c.msgs {
		tag := ""
		if m.syncOnce {
			tag = "*"
		}
		fmt.Fprintf(&b, "%d:%s%s ", m.seq, m.from, tag)
	}
	b.WriteString("]")
	return b.String()
}

func rowString(r metadb.UserChannelMembership) string {
	return fmt.Sprintf("%s@%s join=%d read=%d del=%d act=%d tomb=%v upd=%d", r.UID, r.ChannelID, r.JoinSeq, r.ReadSeq, r.DeletedToSeq, r.ActivatedAt, r.Tombstone, r.UpdatedAt)
}

func (w *world) appendMsg(c *channel, from string, syncOnce bool) {
	w.nextMsg++
	seq := uint64(len(c.msgs) + 1)
	c.msgs = append(c.msgs, msg{seq: seq, id: 1000 + w.nextMsg, from: from, syncOnce: syncOnce, payload: []byte(fmt.Sprintf("%s-%d", c.id, seq))})
}

// ------------------------------------------------------------ world events ----

func (w *world) worldEvent() {
	c := w.chans[w.tp.Intn(len(w.chans))]
	if w.real != nil && w.c16WorldEvent(c) {
		return
	}
	w.version++
	w.worldEvents++
	wt := []int{6, 4, 2, 0, 2, 1, 1, 0, 0}
	if uint64(len(c.msgs)) > c.committed {
		wt[3] = 4
	}
	if w.real != nil {
		// membership changes go through the slot log (c16WorldEvent)
		wt[5], wt[6] = 0, 0
	}
	if !w.clean {
		wt[8] = 2
	}
	if !c.gone && w.tp.Intn(30) == 29 {
		c.gone = true
		w.r.Logf("world: channel %s removed", c.id)
		return
	}
	switch w.tp.Weighted(wt) {
	case 0, 1, 2:
		from := []string{"o9", "u1", "u2"}[w.tp.Weighted([]int{6, 4, 2})]
		sync := w.tp.Intn(5) == 4
		w.appendMsg(c, from, sync)
		commit := w.tp.Intn(4) != 3
		if commit {
			c.committed = uint64(len(c.msgs))
		}
		w.r.Logf("world: send %s by %s seq=%d synconce=%v committed=%d", c.id, from, len(c.msgs), sync, c.committed)
	case 3:
		c.committed += uint64(1 + w.tp.Intn(len(c.msgs)-int(c.committed)))
		w.r.Logf("world: commit %s -> %d", c.id, c.committed)
	case 4:
		if c.committed > c.retention {
			c.retention += uint64(1 + w.tp.Intn(int(c.committed-c.retention)))
		}
		w.r.Logf("world: retention %s -> %d", c.id, c.retention)
	case 5:
		u := users[w.tp.Intn(len(users))]
		if row := w.rows[rowKey{u, c.id}]; row != nil && !row.Tombstone {
			row.Tombstone = true
			row.TombstoneAt = w.now.UnixNano()
			w.r.Logf("world: %s leaves %s", u, c.id)
		}
	case 6:
		u := users[w.tp.Intn(len(users))]
		row := w.rows[rowKey{u, c.id}]
		if row == nil {
			row = &metadb.UserChannelMembership{UID: u, ChannelID: c.id, ChannelType: chType}
			w.rows[rowKey{u, c.id}] = row
		}
		if row.Tombstone || row.JoinSeq == 0 {
			row.Tombstone = false
			row.TombstoneAt = 0
			if j := c.committed + 1; j > row.JoinSeq {
				row.JoinSeq = j
			}
			row.SourceVersion++
			w.r.Logf("world: %s (re)joins %s at join=%d", u, c.id, row.JoinSeq)
		}
	case 8:
		c.flaky = 1 + w.tp.Intn(2)
		w.r.Logf("world: %s head unavailable for the next %d reads", c.id, c.flaky)
	}
}

// ---------------------------------------------------------- operations ----

func (w *world) startOp() {
	w.nextOp++
	o := &op{id: w.nextOp, start: w.now}
	o.uid = users[w.tp.Weighted([]int{4, 1})]
	c := w.chans[w.tp.Intn(len(w.chans))]
	o.chID = c.id
	ctx := context.Background()
	var body func()
	kinds := []int{6, 3, 3, 2, 2, 2}
	if w.real != nil && w.real.passUID == "" {
		kinds = append(kinds, 3)
	}
	switch w.tp.Weighted(kinds) {
	case 6:
		// a complete directory pass of one user, page by page
		o.kind = "pass"
		o.limit = []int{1, 2, 3, 0}[w.tp.Intn(4)]
		o.passRef = w.real.listing(o.uid)
		w.real.passUID = o.uid
		body = w.passBody(o)
	case 0:
		o.kind = "list"
		o.limit = []int{0, 1, 2}[w.tp.Weighted([]int{3, 2, 2})]
		if cur, ok := w.lastCursor[o.uid]; ok && w.tp.Intn(2) == 1 {
			o.cursor = cur
			w.r.Probe("list.continues_cursor")
		}
		body = func() {
			o.res, o.err = w.app.List(ctx, conversation.ListRequest{UID: o.uid, Limit: o.limit, Cursor: o.cursor})
		}
	case 1:
		o.kind = "clear"
		body = func() {
			o.err = w.app.ClearUnread(ctx, conversation.ClearUnreadCommand{UID: o.uid, ChannelID: o.chID, ChannelType: chType})
		}
	case 2:
		o.kind = "set"
		o.n = []int{0, 1, 2, 3, 5, 50, -1}[w.tp.Weighted([]int{2, 3, 3, 2, 2, 1, 1})]
		body = func() {
			o.err = w.app.SetUnread(ctx, conversation.SetUnreadCommand{UID: o.uid, ChannelID: o.chID, ChannelType: chType, Unread: o.n})
		}
	case 3:
		o.kind = "delete"
		body = func() {
			o.err = w.app.DeleteConversation(ctx, conversation.DeleteConversationCommand{UID: o.uid, ChannelID: o.chID, ChannelType: chType})
		}
	case 4:
		o.kind = "activate"
		body = func() {
			o.err = w.app.ActivateConversation(ctx, conversation.ActivateConversationCommand{UID: o.uid, ChannelID: o.chID, ChannelType: chType})
		}
	case 5:
		o.kind = "retry"
		n := 1 + w.tp.Intn(3)
		for i := 0; i < n; i++ {
			id := []string{"g1", "g2", "g3", "nope"}[w.tp.Intn(4)]
			o.keys = append(o.keys, conversation.ConversationKey{ChannelID: id, ChannelType: chType})
		}
		body = func() {
			o.res, o.err = w.app.Retry(ctx, conversation.RetryRequest{UID: o.uid, Keys: o.keys})
		}
	}
	w.r.Logf("op#%d start %s uid=%s ch=%s n=%d limit=%d cursor=%v keys=%v", o.id, o.kind, o.uid, o.chID, o.n, o.limit, o.cursor, o.keys)
	o.next, o.stop = iter.Pull(iter.Seq[string](func(yield func(string) bool) {
		o.yield = yield
		body()
	}))
	w.inflight = append(w.inflight, o)
	o.stamp = w.version
	w.run(o)
	if w.atomic {
		for !o.done && !w.r.Failed() {
			w.run(o)
		}
	}
}

type opAborted struct{}

// run lets the operation execute until its next store call (or its end).
func (w *world) run(o *op) {
	w.cur = o
	seam, ok := o.next()
	w.cur = nil
	if ok {
		o.pending = seam
		return
	}
	o.done = true
	for i, x := range w.inflight {
		if x == o {
			w.inflight = append(w.inflight[:i], w.inflight[i+1:]...)
			break
		}
	}
	w.finish(o)
}

func (w *world) resume(o *op, storeFaultPct int) {
	if o.stamp != w.version {
		w.interleavings++
		o.raced = true
		w.r.Fault("interleaved_between_store_calls")
		w.r.Probe("interleaved." + strings.SplitN(o.pending, ":", 2)[0])
	}
	o.fault = faultNone
	if storeFaultPct > 0 && w.tp.Chance(storeFaultPct, 100) {
		o.fault = faultHard
	}
	if w.real != nil && storeFaultPct > 0 && o.fault == faultNone {
		switch strings.SplitN(o.pending, ":", 2)[0] {
		case "adv", "hide", "activate":
			if w.tp.Chance(2*storeFaultPct, 100) {
				o.fault = faultAmbiguous
			}
		}
	}
	w.version++ // the store call about to run is itself an event for the other operations
	o.stamp = w.version
	w.run(o)
}

// seam is called by every simulated store method before it touches the world.
func (w *world) seam(kind string) int {
	o := w.cur
	if o == nil {
		w.r.Infra("store call %s outside any operation", kind)
		panic(opAborted{})
	}
	if !w.atomic {
		if !o.yield(kind) {
			panic(opAborted{})
		}
	}
	f := o.fault
	o.fault = faultNone
	if f != faultNone {
		w.faults++
		name := "store_error."
		if f == faultAmbiguous {
			name = "proposal_timeout."
		}
		w.r.Fault(name + strings.SplitN(kind, ":", 2)[0])
	}
	return f
}

// ------------------------------------------------- simulated node (stub) ----

func (w *world) ListUserChannelMembershipPage(_ context.Context, uid string, after metadb.UserChannelMembershipCursor, limit int) ([]metadb.UserChannelMembership, metadb.UserChannelMembershipCursor, bool, error) {
	f := w.seam("page")
	a := access{kind: "page", at: w.now}
	if f != faultNone {
		a.fault = errInjected
		w.cur.obs = append(w.cur.obs, a)
		return nil, metadb.UserChannelMembershipCursor{}, false, errInjected
	}
	if w.real != nil {
		rows, cursor, done, err := w.realPage(&a, uid, after, limit)
		w.cur.obs = append(w.cur.obs, a)
		return rows, cursor, done, err
	}
	var all []metadb.UserChannelMembership
	for _, k := range w.sortedRowKeys() {
		if k.uid == uid {
			all = append(all, *w.rows[k])
		}
	}
	less := func(aAt int64, aID string, bAt int64, bID string) bool {
		if aAt != bAt {
			return aAt > bAt
		}
		return aID < bID
	}
	sort.SliceStable(all, func(i, j int) bool { return less(all[i].ActivatedAt, all[i].ChannelID, all[j].ActivatedAt, all[j].ChannelID) })
	var rest []metadb.UserChannelMembership
	for _, row := range all {
		if after != (metadb.UserChannelMembershipCursor{}) && !less(after.ActivatedAt, after.ChannelID, row.ActivatedAt, row.ChannelID) {
			continue
		}
		rest = append(rest, row)
	}
	page := rest
	if len(page) > limit {
		page = page[:limit]
	}
	done := len(page) == len(rest)
	cursor := after
	if len(page) > 0 {
		last := page[len(page)-1]
		cursor = metadb.UserChannelMembershipCursor{ActivatedAt: last.ActivatedAt, ChannelID: last.ChannelID, ChannelType: last.ChannelType}
	}
	a.rows = append([]metadb.UserChannelMembership(nil), page...)
	a.done = done
	w.cur.obs = append(w.cur.obs, a)
	return append([]metadb.UserChannelMembership(nil), page...), cursor, done, nil
}

func (w *world) ReadChannelConversationHeads(_ context.Context, ids []ch.ChannelID, uid string) ([]clusterchannels.ConversationHeadResult, error) {
	out := make([]clusterchannels.ConversationHeadResult, len(ids))
	for i, id := range ids {
		f := w.seam("head:" + id.ID)
		a := access{kind: "head", chID: id.ID, at: w.now}
		c := w.chanByID(id.ID)
		switch {
		case f != faultNone:
			a.fault = errInjected
			out[i].Err = errInjected
		case c == nil || c.gone:
			a.hErr = ch.ErrChannelNotFound
			out[i].Err = ch.ErrChannelNotFound
		case c.flaky > 0:
			c.flaky--
			w.faults++
			w.r.Fault("head_unavailable")
			a.hErr = []error{ch.ErrNotReady, ch.ErrNotLeader, transport.ErrTimeout, ch.ErrStaleMeta}[c.flaky%4]
			out[i].Err = fmt.Errorf("wrapped: %w", a.hErr)
		case c.stale > 0:
			c.stale--
			lag := staleChannel(c, 1+int(c.committed)%3)
			w.faults++
			w.r.Fault("head_from_lagging_leader")
			a.head = headSnap{msgs: lag.msgs[:lag.committed:lag.committed], retention: lag.retention}
			out[i].Head = stubHead(lag, uid)
		default:
			a.head = headSnap{msgs: c.msgs[:c.committed:c.committed], retention: c.retention}
			out[i].Head = stubHead(c, uid)
		}
		w.cur.obs = append(w.cur.obs, a)
	}
	return out, nil
}

// stubHead answers like a channel leader: commit boundary, retention floor,
// the caller's newest committed send, newest committed ordinary message above
// the retention floor.
func stubHead(c *channel, uid string) clusterchannels.ConversationHead {
	h := clusterchannels.ConversationHead{LastCommittedSeq: c.committed, RetentionThroughSeq: c.retention}
	for i := int(c.committed) - 1; i >= 0; i-- {
		if c.msgs[i].from == uid {
			h.CurrentUserLastSendSeq = c.msgs[i].seq
			break
		}
	}
	for i := int(c.committed) - 1; i >= 0 && c.msgs[i].seq > c.retention; i-- {
		m := c.msgs[i]
		if m.syncOnce {
			continue
		}
		h.Found = true
		h.Message = ch.Message{MessageID: m.id, MessageSeq: m.seq, ChannelID: c.id, ChannelType: chType, FromUID: m.from,
			ClientMsgNo: fmt.Sprintf("c%d", m.id), ServerTimestampMS: int64(m.id), Payload: append([]byte(nil), m.payload...)}
		break
	}
	return h
}

func (w *world) GetUserChannelMembership(_ context.Context, uid, channelID string, channelType int64) (metadb.UserChannelMembership, bool, error) {
	f := w.seam("get:" + channelID)
	a := access{kind: "get", chID: channelID, at: w.now}
	if f != faultNone {
		a.fault = errInjected
		w.cur.obs = append(w.cur.obs, a)
		return metadb.UserChannelMembership{}, false, errInjected
	}
	if w.real != nil {
		if channelType == chType {
			a.row, a.rowOK = w.real.get(uid, channelID)
			if a.rowOK {
				w.see("get", a.row)
			}
		}
		w.cur.obs = append(w.cur.obs, a)
		return a.row, a.rowOK, nil
	}
	row := w.rows[rowKey{uid, channelID}]
	if row != nil && channelType == chType {
		a.row, a.rowOK = *row, true
	}
	w.cur.obs = append(w.cur.obs, a)
	return a.row, a.rowOK, nil
}

func (w *world) mutate(kind, uid, channelID string, channelType int64, arg uint64, argAt, upd int64, fn func(row *metadb.UserChannelMembership)) error {
	f := w.seam(kind + ":" + channelID)
	a := access{kind: kind, chID: channelID, at: w.now, arg: arg, argAt: argAt, argUpd: upd}
	defer func() { w.cur.obs = append(w.cur.obs, a) }()
	if f != faultNone && f != faultAmbiguous {
		a.fault = errInjected
		return errInjected
	}
	if w.real != nil {
		return w.realMutate(&a, f, kind, uid, channelID, arg, argAt, upd)
	}
	row := w.rows[rowKey{uid, channelID}]
	if row == nil || channelType != chType {
		a.fault = metadb.ErrNotFound
		return metadb.ErrNotFound
	}
	a.applied = true
	if !row.Tombstone {
		before := *row
		fn(row)
		if *row != before && upd > row.UpdatedAt {
			row.UpdatedAt = upd
		}
	}
	a.row, a.rowOK = *row, true
	return nil
}

func (w *world) AdvanceUserChannelMembershipReadSeq(_ context.Context, uid, channelID string, channelType int64, readSeq uint64, updatedAt int64) error {
	return w.mutate("adv", uid, channelID, channelType, readSeq, 0, updatedAt, func(row *metadb.UserChannelMembership) {
		if readSeq > row.ReadSeq {
			row.ReadSeq = readSeq
		}
	})
}

func (w *world) HideUserChannelMembership(_ context.Context, uid, channelID string, channelType int64, deletedToSeq uint64, updatedAt int64) error {
	return w.mutate("hide", uid, channelID, channelType, deletedToSeq, 0, updatedAt, func(row *metadb.UserChannelMembership) {
		if deletedToSeq > row.DeletedToSeq {
			row.DeletedToSeq = deletedToSeq
		}
		row.ActivatedAt = 0
	})
}

func (w *world) ActivateUserChannelMembership(_ context.Context, uid, channelID string, channelType int64, activatedAt, updatedAt int64) error {
	return w.mutate("activate", uid, channelID, channelType, 0, activatedAt, updatedAt, func(row *metadb.UserChannelMembership) {
		if activatedAt > row.ActivatedAt {
			row.ActivatedAt = activatedAt
		}
	})
}

// ---------------------------------------------------------------- oracle ----

func (o *op) writes() []access {
	var out []access
	for _, a := range o.obs {
		if a.kind == "adv" || a.kind == "hide" || a.kind == "activate" {
			out = append(out, a)
		}
	}
	return out
}

func (o *op) first(kind, chID string) *access {
	for i := range o.obs {
		if o.obs[i].kind == kind && (chID == "" || o.obs[i].chID == chID) {
			return &o.obs[i]
		}
	}
	return nil
}

func retryableHead(err error) bool {
	return errors.Is(err, ch.ErrNotReady) || errors.Is(err, ch.ErrNotLeader) || errors.Is(err, transport.ErrTimeout) || errors.Is(err, ch.ErrStaleMeta)
}

func (w *world) fail(o *op, class, sig, detail string) {
	var lines []string
	for _, a := range o.obs {
		lines = append(lines, accessString(a))
	}
	w.r.FailSig(class, sig, fmt.Sprintf("op#%d %s uid=%s ch=%s n=%d: %s", o.id, o.kind, o.uid, o.chID, o.n, detail), map[string]any{"observed": lines})
}

func accessString(a access) string {
	switch a.kind {
	case "page":
		var rs []string
		for _, r := range a.rows {
			rs = append(rs, rowString(r))
		}
		return fmt.Sprintf("page fault=%v done=%v rows=%v", a.fault, a.done, rs)
	case "get":
		return fmt.Sprintf("get %s fault=%v ok=%v %s", a.chID, a.fault, a.rowOK, rowString(a.row))
	case "head":
		return fmt.Sprintf("head %s fault=%v err=%v committed=%d retention=%d", a.chID, a.fault, a.hErr, a.head.committed(), a.head.retention)
	}
	return fmt.Sprintf("%s %s arg=%d at=%d upd=%d fault=%v applied=%v -> %s", a.kind, a.chID, a.arg, a.argAt, a.argUpd, a.fault, a.applied, rowString(a.row))
}

func (w *world) finish(o *op) {
	w.completed++
	var lines []string
	for _, a := range o.obs {
		lines = append(lines, accessString(a))
	}
	w.r.Logf("op#%d done %s err=%v raced=%v obs=[%s]", o.id, o.kind, o.err, o.raced, strings.Join(lines, " | "))
	if o.kind == "list" || o.kind == "retry" {
		var items []string
		for _, it := range o.res.Items {
			last := "-"
			if it.LastMessage != nil {
				last = fmt.Sprintf("%d", it.LastMessage.MessageSeq)
			}
			items = append(items, fmt.Sprintf("%s unread=%d last=%s", it.ChannelID, it.Unread, last))
		}
		w.r.Logf("op#%d result items=%v deletes=%v unresolved=%v done=%v next=%v", o.id, items, keyIDs(o.res.Deletes), keyIDs(o.res.Unresolved), o.res.Done, o.res.NextCursor)
	}
	switch o.kind {
	case "pass":
		w.checkPass(o)
	case "list", "retry":
		w.checkRead(o)
	case "activate":
		w.checkActivate(o)
	default:
		w.checkMutation(o)
	}
}

// mutationPrecondition handles everything up to a usable (row, head) pair;
// it returns nil when the operation had to stop before deciding anything.
func (w *world) mutationPrecondition(o *op) (*access, *access) {
	wr := o.writes()
	expectErr := func(want error, why string) {
		if len(wr) != 0 {
			w.fail(o, "write_after_failure", o.kind, fmt.Sprintf("%s but the operation still wrote %s", why, accessString(wr[0])))
			return
		}
		if !errors.Is(o.err, want) {
			w.fail(o, "wrong_error", o.kind, fmt.Sprintf("%s: returned %v, want %v", why, o.err, want))
		}
	}
	g := o.first("get", o.chID)
	if g == nil {
		w.fail(o, "protocol", o.kind, "operation finished without reading the membership row")
		return nil, nil
	}
	if g.fault != nil {
		expectErr(errInjected, "membership read failed")
		return nil, nil
	}
	if !g.rowOK || g.row.Tombstone {
		w.r.Probe("mutation.no_membership")
		expectErr(metadb.ErrNotFound, "no live membership")
		return nil, nil
	}
	h := o.first("head", o.chID)
	if h == nil {
		w.fail(o, "protocol", o.kind, "operation decided without reading the channel head")
		return nil, nil
	}
	switch {
	case h.fault != nil:
		expectErr(errInjected, "head read failed")
		return nil, nil
	case errors.Is(h.hErr, ch.ErrChannelNotFound):
		expectErr(metadb.ErrNotFound, "channel is gone")
		return nil, nil
	case h.hErr != nil:
		expectErr(conversation.ErrRouteNotReady, "head unavailable")
		return nil, nil
	}
	return g, h
}

func (w *world) checkMutation(o *op) {
	if o.kind == "set" && o.n < 0 {
		if o.err == nil || len(o.obs) != 0 {
			w.fail(o, "wrong_error", "set", fmt.Sprintf("negative unread accepted: err=%v accesses=%d", o.err, len(o.obs)))
		}
		return
	}
	g, h := w.mutationPrecondition(o)
	if g == nil || w.r.Failed() {
		return
	}
	wr := o.writes()
	if len(wr) > 1 {
		w.fail(o, "protocol", o.kind, fmt.Sprintf("%d writes for one command", len(wr)))
		return
	}
	row, head := g.row, h.head
	before := refUnread(row, head, o.uid)
	wantKind := map[string]string{"clear": "adv", "set": "adv", "delete": "hide"}[o.kind]
	var wa *access
	if len(wr) == 1 {
		wa = &wr[0]
		if wa.kind != wantKind || wa.chID != o.chID {
			w.fail(o, "protocol", o.kind, "wrong store mutation: "+accessString(*wa))
			return
		}
		if wa.argUpd != h.at.UnixNano() {
			w.fail(o, "timestamp", o.kind, fmt.Sprintf("mutation stamped %d, the injected clock read %d when the command decided", wa.argUpd, h.at.UnixNano()))
			return
		}
		if w.real != nil {
			if w.checkAsked(o, g, wa); w.r.Failed() {
				return
			}
		}
		if wa.fault != nil {
			if !errors.Is(o.err, wa.fault) {
				w.fail(o, "wrong_error", o.kind, fmt.Sprintf("store write failed with %v but the command returned %v", wa.fault, o.err))
			}
			return
		}
	}
	if o.err != nil {
		w.fail(o, "wrong_error", o.kind, fmt.Sprintf("command failed with %v although membership and head were readable", o.err))
		return
	}
	// the row the command itself would produce from what it read
	produced := row
	// the row as actually stored right after the command's write
	stored := row
	if wa != nil {
		stored = wa.row
		switch wa.kind {
		case "adv":
			if wa.arg > produced.ReadSeq {
				produced.ReadSeq = wa.arg
			}
		case "hide":
			if wa.arg > produced.DeletedToSeq {
				produced.DeletedToSeq = wa.arg
			}
		}
		if stored.Tombstone {
			w.r.Probe("mutation.raced_by_leave")
			return
		}
	}
	if head.committed() < w.chanByID(o.chID).committed {
		w.r.Probe(o.kind + ".head_moved_before_completion")
	}
	switch o.kind {
	case "clear":
		if got := refUnread(stored, head, o.uid); got != 0 {
			w.fail(o, "clear_left_unread", "", fmt.Sprintf("after ClearUnread %d message(s) are still unread with respect to the head it observed (committed=%d); before: %d", got, head.committed(), before))
			return
		}
		if wa != nil && wa.arg > head.committed() {
			w.fail(o, "clear_beyond_head", "", fmt.Sprintf("ClearUnread advanced the read cursor to %d, beyond the latest known message %d", wa.arg, head.committed()))
			return
		}
		if wa == nil {
			w.r.Probe("clear.noop")
		}
	case "set":
		n := uint64(o.n)
		if got := refUnread(stored, head, o.uid); got > n {
			w.fail(o, "set_unread_exceeds", "", fmt.Sprintf("after SetUnread(%d) %d message(s) are unread with respect to the head it observed (committed=%d retention=%d)", o.n, got, head.committed(), head.retention))
			return
		}
		want := before
		if n < want {
			want = n
		}
		if got := refUnread(produced, head, o.uid); got != want {
			w.fail(o, "set_unread_inexact", "", fmt.Sprintf("SetUnread(%d) leaves %d unread, expected min(N, previous=%d)=%d (committed=%d retention=%d own=%d)", o.n, got, before, want, head.committed(), head.retention, head.ownLastSend(o.uid)))
			return
		}
		if wa != nil && wa.arg > head.committed() && wa.arg > visibilityFloorOf(row, head) {
			w.fail(o, "set_beyond_head", "", fmt.Sprintf("SetUnread advanced the read cursor to %d, beyond the head %d and every floor", wa.arg, head.committed()))
			return
		}
		if wa == nil {
			w.r.Probe("set.noop")
		}
		if before > n {
			w.r.Probe("set.reduced")
		}
	case "delete":
		if wa == nil {
			w.fail(o, "delete_not_applied", "", "DeleteConversation succeeded without hiding anything")
			return
		}
		if wa.arg != head.committed() {
			w.fail(o, "delete_wrong_boundary", "", fmt.Sprintf("DeleteConversation hid through %d, the latest known message is %d", wa.arg, head.committed()))
			return
		}
		if m := refLast(stored, head); m != nil || refUnread(stored, head, o.uid) != 0 {
			w.fail(o, "delete_left_visible", "", fmt.Sprintf("after DeleteConversation message %v is still shown / unread=%d with respect to the observed head", m, refUnread(stored, head, o.uid)))
			return
		}
	}
}

// visibilityFloorOf is the highest sequence the user may not see: the one
// before the join point, the delete-to boundary or the retention boundary.
func visibilityFloorOf(row metadb.UserChannelMembership, h headSnap) uint64 {
	f := h.retention
	if row.DeletedToSeq > f {
		f = row.DeletedToSeq
	}
	if row.JoinSeq > 0 && row.JoinSeq-1 > f {
		f = row.JoinSeq - 1
	}
	return f
}

func (w *world) checkActivate(o *op) {
	wr := o.writes()
	if len(wr) != 1 || wr[0].kind != "activate" || wr[0].chID != o.chID {
		w.fail(o, "protocol", "activate", fmt.Sprintf("expected exactly one activation write, saw %d", len(wr)))
		return
	}
	a := wr[0]
	if a.argAt != o.start.UnixNano() || a.argUpd != o.start.UnixNano() {
		w.fail(o, "timestamp", "activate", fmt.Sprintf("activation stamped %d/%d, the injected clock read %d", a.argAt, a.argUpd, o.start.UnixNano()))
		return
	}
	if (a.fault == nil) != (o.err == nil) || (a.fault != nil && !errors.Is(o.err, a.fault)) {
		w.fail(o, "wrong_error", "activate", fmt.Sprintf("store said %v, command returned %v", a.fault, o.err))
	}
}

type expectedItem struct {
	row  metadb.UserChannelMembership
	head headSnap
}

func (w *world) checkRead(o *op) {
	var rows []metadb.UserChannelMembership
	var wantDeletes, wantUnresolved []string
	hardErr := false
	if len(o.writes()) != 0 {
		w.fail(o, "protocol", o.kind, "a read operation wrote to the membership store")
		return
	}
	var page *access
	if o.kind == "list" {
		page = o.first("page", "")
		if page == nil {
			w.fail(o, "protocol", "list", "List finished without reading a membership page")
			return
		}
		if page.fault != nil {
			hardErr = true
		}
		for _, row := range page.rows {
			if row.Tombstone {
				wantDeletes = append(wantDeletes, row.ChannelID)
				continue
			}
			rows = append(rows, row)
		}
	} else {
		seen := map[string]bool{}
		gi := 0
		var gets []access
		for _, a := range o.obs {
			if a.kind == "get" {
				gets = append(gets, a)
			}
		}
		for _, k := range o.keys {
			if seen[k.ChannelID] || hardErr {
				continue
			}
			seen[k.ChannelID] = true
			if gi >= len(gets) || gets[gi].chID != k.ChannelID {
				w.fail(o, "protocol", "retry", fmt.Sprintf("Retry did not read membership of %s in request order", k.ChannelID))
				return
			}
			g := gets[gi]
			gi++
			switch {
			case g.fault != nil:
				hardErr = true
			case !g.rowOK || g.row.Tombstone:
				wantDeletes = append(wantDeletes, k.ChannelID)
				w.r.Probe("retry.deleted")
			default:
				rows = append(rows, g.row)
			}
		}
	}
	var want []expectedItem
	if !hardErr {
		for _, row := range rows {
			h := o.first("head", row.ChannelID)
			if h == nil {
				w.fail(o, "protocol", o.kind, "no head read for live membership "+row.ChannelID)
				return
			}
			switch {
			case h.fault != nil:
				hardErr = true
			case errors.Is(h.hErr, ch.ErrChannelNotFound):
				wantDeletes = append(wantDeletes, row.ChannelID)
			case h.hErr != nil:
				wantUnresolved = append(wantUnresolved, row.ChannelID)
				w.r.Probe("read.unresolved")
			default:
				if h.at != pageOrGetTime(o, row.ChannelID) || o.raced {
					if cur := w.rows[rowKey{o.uid, row.ChannelID}]; cur != nil && *cur != row {
						w.r.Probe("read.row_changed_before_completion")
					}
				}
				if refListed(row, h.head) {
					want = append(want, expectedItem{row: row, head: h.head})
				} else {
					w.r.Probe("list.hidden_row")
				}
			}
		}
	}
	if hardErr {
		if o.err == nil {
			w.fail(o, "wrong_error", o.kind, "a store read failed but the operation reported success")
		}
		return
	}
	if o.err != nil {
		w.fail(o, "wrong_error", o.kind, fmt.Sprintf("operation failed with %v although every store read succeeded", o.err))
		return
	}
	res := o.res
	if got := keyIDs(res.Deletes); !equalSorted(got, wantDeletes) {
		w.fail(o, "list_mismatch", "deletes", fmt.Sprintf("deletes %v, expected %v", got, wantDeletes))
		return
	}
	if got := keyIDs(res.Unresolved); !equalSorted(got, wantUnresolved) {
		w.fail(o, "list_mismatch", "unresolved", fmt.Sprintf("unresolved %v, expected %v", got, wantUnresolved))
		return
	}
	if len(res.Items) != len(want) {
		var ids []string
		for _, it := range res.Items {
			ids = append(ids, it.ChannelID)
		}
		var wids []string
		for _, x := range want {
			wids = append(wids, x.row.ChannelID)
		}
		w.fail(o, "list_mismatch", "items", fmt.Sprintf("listed conversations %v, expected %v", ids, wids))
		return
	}
	for i, it := range res.Items {
		x := want[i]
		w.itemsCompared++
		row, head := x.row, x.head
		if it.ChannelID != row.ChannelID || it.ChannelType != row.ChannelType || it.JoinSeq != row.JoinSeq || it.ReadSeq != row.ReadSeq ||
			it.DeletedToSeq != row.DeletedToSeq || it.ActiveAt != row.ActivatedAt || it.UpdatedAt != row.UpdatedAt {
			w.fail(o, "list_mismatch", "row_echo", fmt.Sprintf("item %d = {%s type=%d join=%d read=%d del=%d act=%d upd=%d} does not echo the membership row %s", i, it.ChannelID, it.ChannelType, it.JoinSeq, it.ReadSeq, it.DeletedToSeq, it.ActiveAt, it.UpdatedAt, rowString(row)))
			return
		}
		wantUnread := refUnread(row, head, o.uid)
		if it.Unread > head.committed() {
			w.fail(o, "unread_negative", "", fmt.Sprintf("%s: unread=%d exceeds the %d committed messages (underflow); row %s", row.ChannelID, it.Unread, head.committed(), rowString(row)))
			return
		}
		if it.Unread != wantUnread {
			w.fail(o, "unread_mismatch", unreadSig(row, head, o.uid), fmt.Sprintf("%s: unread=%d, reference counts %d (committed=%d retention=%d own_last_send=%d; row %s)", row.ChannelID, it.Unread, wantUnread,
				head.committed(), head.retention, head.ownLastSend(o.uid), rowString(row)))
			return
		}
		wantLast := refLast(row, head)
		if it.LastMessage != nil {
			m := it.LastMessage
			var shown *msg
			for k := range head.msgs {
				if head.msgs[k].seq == m.MessageSeq {
					shown = &head.msgs[k]
				}
			}
			if shown == nil || !visibleTo(row, head, *shown) {
				w.fail(o, "last_message_not_visible", "", fmt.Sprintf("%s: last message seq=%d is before the user's join/delete/retention point (join=%d del=%d retention=%d committed=%d)", row.ChannelID, m.MessageSeq,
					row.JoinSeq, row.DeletedToSeq, head.retention, head.committed()))
				return
			}
		}
		switch {
		case wantLast == nil && it.LastMessage != nil:
			w.fail(o, "last_message_mismatch", "unexpected", fmt.Sprintf("%s: shows message %d, reference shows none", row.ChannelID, it.LastMessage.MessageSeq))
			return
		case wantLast != nil && it.LastMessage == nil:
			w.fail(o, "last_message_mismatch", "missing", fmt.Sprintf("%s: shows no last message, reference shows %d", row.ChannelID, wantLast.seq))
			return
		case wantLast != nil:
			m := it.LastMessage
			if m.MessageSeq != wantLast.seq || m.MessageID != wantLast.id || m.FromUID != wantLast.from || string(m.Payload) != string(wantLast.payload) {
				w.fail(o, "last_message_mismatch", "content", fmt.Sprintf("%s: shows %+v, reference shows seq=%d id=%d from=%s", row.ChannelID, *m, wantLast.seq, wantLast.id, wantLast.from))
				return
			}
		}
		w.probeItem(row, head, o.uid, it)
	}
	if o.kind == "list" {
		if res.Done != page.done || res.HasMore == page.done || res.ScannedCandidates != len(page.rows) || res.Coverage != page.at.UnixNano() {
			w.fail(o, "list_mismatch", "paging", fmt.Sprintf("done=%v has_more=%v scanned=%d coverage=%d, the store page said done=%v rows=%d at clock %d", res.Done, res.HasMore, res.ScannedCandidates, res.Coverage,
				page.done, len(page.rows), page.at.UnixNano()))
			return
		}
		if !res.Done {
			w.lastCursor[o.uid] = res.NextCursor
			w.r.Probe("list.paged")
		} else {
			delete(w.lastCursor, o.uid)
		}
	}
}

func pageOrGetTime(o *op, chID string) time.Time {
	if p := o.first("page", ""); p != nil {
		return p.at
	}
	if g := o.first("get", chID); g != nil {
		return g.at
	}
	return time.Time{}
}

func unreadSig(row metadb.UserChannelMembership, h headSnap, uid string) string {
	own := h.ownLastSend(uid)
	join := uint64(0)
	if row.JoinSeq > 0 {
		join = row.JoinSeq - 1
	}
	type term struct {
		name string
		v    uint64
	}
	ts := []term{{"join", join}, {"delete", row.DeletedToSeq}, {"retention", h.retention}, {"read", row.ReadSeq}, {"own_send", own}}
	best := ts[0]
	for _, t := range ts[1:] {
		if t.v > best.v {
			best = t
		}
	}
	return "dominant=" + best.name
}

func (w *world) probeItem(row metadb.UserChannelMembership, h headSnap, uid string, it conversation.Conversation) {
	w.r.Probe("unread." + unreadSig(row, h, uid))
	if it.Unread > 0 {
		w.r.Probe("unread.positive")
	}
	if row.ReadSeq > h.committed() {
		w.r.Probe("unread.cursor_ahead_of_head")
	}
	if it.LastMessage == nil && h.committed() > 0 {
		w.r.Probe("last.hidden")
	}
	if it.LastMessage != nil && it.LastMessage.MessageSeq < h.committed() {
		w.r.Probe("last.skips_synconce")
	}
}

func keyIDs(ks []conversation.ConversationKey) []string {
	var out []string
	for _, k := range ks {
		out = append(out, k.ChannelID)
	}
	return out
}

func equalSorted(a, b []string) bool {
	if len(a) != len(b) {
		return false
	}
	x := append([]string(nil), a...)
	y := append([]string(nil), b...)
	sort.Strings(x)
	sort.Strings(y)
	for i := range x {
		if x[i] != y[i] {
			return false
		}
	}
	return true
}
