package convsim

// C16conv: the use-case side of C16 (per-user conversation cursors are
// monotonic). The same worlds as C34, but the membership double is replaced by
// the production storage stack: every mutation the App asks for is encoded with
// the slot FSM codec and applied through ApplyBatch of a real pkg/slot/fsm state
// machine to a real pkg/db/meta database (Pebble on an in-memory file system);
// reads (Get, directory pages) come from that database. The simulator is the
// slot log and the proposal path: a command may be applied now, applied although
// the caller was told "timeout", applied a second time later (a retried
// proposal), and the database may be reopened or crash-cloned in between.
//
// The oracle is about what the App ASKS and what the user SEES:
//   - a read-cursor command never asks for less than the cursor the command read;
//   - the read cursor, delete-to boundary and source version of one membership
//     incarnation never decrease between two consecutive reads served to the App
//     (and therefore in List/Retry output, which must echo the row it read);
//   - a subscriber-derived write with an older source version changes nothing;
//   - a complete directory pass through App.List (page by page, following
//     NextCursor, arbitrary page size, while nothing touches the scanned rows)
//     presents every stored row exactly once, in the store's order.

import (
	"context"
	"fmt"
	"math/rand/v2"
	"sort"
	"strings"

	"github.com/WuKongIM/WuKongIM/internal/usecase/conversation"
	"github.com/WuKongIM/WuKongIM/internal/verifsim/simkit"
	"github.com/WuKongIM/WuKongIM/pkg/db/internal/engine"
	metadb "github.com/WuKongIM/WuKongIM/pkg/db/meta"
	"github.com/WuKongIM/WuKongIM/pkg/slot/fsm"
	"github.com/WuKongIM/WuKongIM/pkg/slot/multiraft"
	"github.com/WuKongIM/WuKongIM/pkg/transport"
	"github.com/cockroachdb/pebble/v2"
	"github.com/cockroachdb/pebble/v2/vfs"
)

const (
	c16Slot     = 1
	c16HashSlot = 7
	// faultAmbiguous: the proposal is reported as timed out to the caller; the
	// simulator decides later whether the slot log applies it after all.
	faultAmbiguous = 3
)

type quietLogger struct{}

func (quietLogger) Infof(string, ...interface{})  {}
func (quietLogger) Errorf(string, ...interface{}) {}
func (quietLogger) Fatalf(format string, args ...interface{}) {
	panic("pebble fatal: " + fmt.Sprintf(format, args...))
}

// loggedCmd is one slot command the simulator may apply (again) later.
type loggedCmd struct {
	what    string
	key     rowKey
	payload []byte
}

type cursorSeen struct {
	read, del, ver uint64
	where          string
}

// realStore is the production membership storage stack owned by the simulator.
type realStore struct {
	r    *simkit.Run
	fs   *vfs.MemFS
	db   *metadb.DB
	sm   multiraft.BatchStateMachine
	next uint64

	late   []loggedCmd // told "timeout", not applied yet
	replay []loggedCmd // applied once, may be proposed again by a retrying caller
	seen   map[rowKey]*cursorSeen

	passUID  string
	restarts int
}

type passPage struct {
	res conversation.ListResult
	err error
}

func newRealStore(r *simkit.Run) *realStore {
	s := &realStore{r: r, fs: vfs.NewCrashableMem(), next: 1, seen: map[rowKey]*cursorSeen{}}
	s.open()
	return s
}

func (s *realStore) open() {
	fs := s.fs
	engine.VerifPebbleHook = func(o *pebble.Options) {
		o.FS = fs
		o.MemTableSize = 256 << 10
		o.CacheSize = 1 << 20
		o.Logger = quietLogger{}
	}
	db, err := metadb.Open("/convsim")
	engine.VerifPebbleHook = nil
	if err != nil {
		s.r.Infra("open meta db: %v", err)
		return
	}
	s.db = db
	sm, err := fsm.NewStateMachineWithHashSlots(db, c16Slot, []uint16{c16HashSlot})
	if err != nil {
		s.r.Infra("new slot state machine: %v", err)
		return
	}
	bsm, ok := sm.(multiraft.BatchStateMachine)
	if !ok {
		s.r.Infra("slot state machine %T has no ApplyBatch", sm)
		return
	}
	s.sm = bsm
}

func (s *realStore) close() {
	if s.db != nil {
		if err := s.db.Close(); err != nil {
			s.r.Infra("close meta db: %v", err)
		}
		s.db = nil
	}
}

// apply appends one command to the simulated slot log and applies it.
func (s *realStore) apply(payload []byte) string {
	if s.sm == nil {
		return "closed"
	}
	res, err := s.sm.ApplyBatch(context.Background(), []multiraft.Command{{SlotID: c16Slot, HashSlot: c16HashSlot, Index: s.next, Term: 1, Data: payload}})
	if err != nil || len(res) != 1 {
		s.r.Infra("ApplyBatch index %d: %v (%d results)", s.next, err, len(res))
		return "error"
	}
	s.next++
	return string(res[0])
}

func (s *realStore) shard() *metadb.Shard { return s.db.MetaDB().HashSlot(metadb.HashSlot(c16HashSlot)) }

func (s *realStore) get(uid, chID string) (metadb.UserChannelMembership, bool) {
	row, ok, err := s.shard().GetUserChannelMembership(context.Background(), uid, chID, chType)
	if err != nil {
		s.r.Infra("GetUserChannelMembership(%s,%s): %v", uid, chID, err)
	}
	return row, ok
}

// listing is the store's own complete directory of one user.
func (s *realStore) listing(uid string) []metadb.UserChannelMembership {
	rows, _, done, err := s.shard().ListUserChannelMembershipPage(context.Background(), uid, metadb.UserChannelMembershipCursor{}, 200)
	if err != nil || !done {
		s.r.Infra("full directory read of %s: done=%v err=%v", uid, done, err)
	}
	return rows
}

// ------------------------------------------------------------ world glue ----

// see feeds one row served by the store into the monotonic oracle.
func (w *world) see(where string, row metadb.UserChannelMembership) {
	if w.r.Failed() {
		return
	}
	k := rowKey{row.UID, row.ChannelID}
	cur := &cursorSeen{read: row.ReadSeq, del: row.DeletedToSeq, ver: row.SourceVersion, where: where}
	if prev := w.real.seen[k]; prev != nil {
		field := ""
		switch {
		case row.ReadSeq < prev.read:
			field = "read_seq"
		case row.DeletedToSeq < prev.del:
			field = "deleted_to_seq"
		case row.SourceVersion < prev.ver:
			field = "source_version"
		}
		if field != "" {
			w.r.FailSig("cursor_moved_backwards", field, fmt.Sprintf("%s@%s: %s went backwards: read=%d del=%d ver=%d (%s) after read=%d del=%d ver=%d (%s)", row.UID, row.ChannelID, field,
				row.ReadSeq, row.DeletedToSeq, row.SourceVersion, where, prev.read, prev.del, prev.ver, prev.where), nil)
			return
		}
	}
	w.real.seen[k] = cur
}

// mirror refreshes the simulator's copy of one stored row.
func (w *world) mirror(where string, k rowKey) {
	row, ok := w.real.get(k.uid, k.ch)
	if !ok {
		delete(w.rows, k)
		return
	}
	w.see(where, row)
	cp := row
	w.rows[k] = &cp
}

func (w *world) mirrorAll(where string) {
	keys := map[rowKey]bool{}
	for k := range w.rows {
		keys[k] = true
	}
	for k := range w.real.seen {
		keys[k] = true
	}
	var ks []rowKey
	for k := range keys {
		ks = append(ks, k)
	}
	sort.Slice(ks, func(i, j int) bool {
		if ks[i].uid != ks[j].uid {
			return ks[i].uid < ks[j].uid
		}
		return ks[i].ch < ks[j].ch
	})
	for _, k := range ks {
		w.mirror(where, k)
	}
}

// seedReal writes the drawn initial rows through the slot log.
func (w *world) seedReal() {
	for _, k := range w.sortedRowKeys() {
		row := *w.rows[k]
		row.SourceVersion = uint64(1 + w.tp.Intn(2))
		if res := w.real.apply(fsm.EncodeUpsertUserChannelMembershipsCommand([]metadb.UserChannelMembership{row})); res != fsm.ApplyResultOK {
			w.r.Infra("seeding %s: %s", rowString(row), res)
		}
		w.mirror("seed", k)
		got := w.rows[k]
		if got == nil || *got != row {
			w.r.Infra("seeded row %s reads back as %v", rowString(row), got)
		}
	}
}

func (w *world) realPage(a *access, uid string, after metadb.UserChannelMembershipCursor, limit int) ([]metadb.UserChannelMembership, metadb.UserChannelMembershipCursor, bool, error) {
	rows, cursor, done, err := w.real.shard().ListUserChannelMembershipPage(context.Background(), uid, after, limit)
	if err != nil {
		a.fault = err
		return nil, metadb.UserChannelMembershipCursor{}, false, err
	}
	for _, row := range rows {
		w.see("page", row)
	}
	a.rows = append([]metadb.UserChannelMembership(nil), rows...)
	a.done = done
	return rows, cursor, done, nil
}

// realMutate proposes one App mutation to the slot.
func (w *world) realMutate(a *access, fault int, kind, uid, channelID string, arg uint64, argAt, upd int64) error {
	entry := metadb.UserChannelMembership{UID: uid, ChannelID: channelID, ChannelType: chType, UpdatedAt: upd}
	var payload []byte
	switch kind {
	case "adv":
		entry.ReadSeq = arg
		payload = fsm.EncodeAdvanceUserChannelMembershipReadSeqCommand([]metadb.UserChannelMembership{entry})
	case "hide":
		entry.DeletedToSeq = arg
		payload = fsm.EncodeHideUserChannelMembershipCommand([]metadb.UserChannelMembership{entry})
	case "activate":
		entry.ActivatedAt = argAt
		payload = fsm.EncodeActivateUserChannelMembershipCommand([]metadb.UserChannelMembership{entry})
	}
	k := rowKey{uid, channelID}
	cmd := loggedCmd{what: fmt.Sprintf("%s %s@%s arg=%d at=%d", kind, uid, channelID, arg, argAt), key: k, payload: payload}
	if fault == faultAmbiguous {
		w.real.late = append(w.real.late, cmd)
		a.fault = transport.ErrTimeout
		return transport.ErrTimeout
	}
	if g := w.cur.first("get", channelID); g != nil && g.rowOK {
		if cur := w.rows[k]; cur != nil && cur.SourceVersion > g.row.SourceVersion && cur.JoinSeq != g.row.JoinSeq {
			// App commands carry no source version: one computed from an earlier
			// incarnation lands on the new one (it can only move cursors forward)
			w.r.Probe("c16.command_crosses_incarnation")
		}
	}
	res := w.real.apply(payload)
	w.r.Logf("slot: apply %s => %s", cmd.what, res)
	a.applied = true
	w.mirror("after:"+kind, k)
	if row := w.rows[k]; row != nil {
		a.row, a.rowOK = *row, true
	}
	if len(w.real.replay) < 4 {
		w.real.replay = append(w.real.replay, cmd)
	}
	return nil
}

// blockedByPass: while a directory pass of one user is running nothing may
// touch that user's rows (the property quantifies over scans interleaved with
// mutations that do not touch the scanned rows).
func (w *world) blockedByPass(o *op) bool {
	if w.real == nil || w.real.passUID == "" || o.uid != w.real.passUID || o.kind == "pass" {
		return false
	}
	k := strings.SplitN(o.pending, ":", 2)[0]
	return k == "adv" || k == "hide" || k == "activate"
}

func (w *world) resumable() []*op {
	var out []*op
	for _, o := range w.inflight {
		if !w.blockedByPass(o) {
			out = append(out, o)
		}
	}
	return out
}

// c16WorldEvent draws the storage-side events of the part; it returns false
// when the ordinary (channel-side) world event should run instead.
func (w *world) c16WorldEvent(c *channel) bool {
	wt := []int{12, 2, 2, 0, 0, 0, 0, 0}
	if !w.clean {
		wt[3] = 2 // older-source subscriber write
		wt[6] = 1 // reopen / crash
		wt[7] = 2 // stale head
		if len(w.real.replay) > 0 {
			wt[4] = 3
		}
		if len(w.real.late) > 0 {
			wt[5] = 3
		}
	}
	pick := w.tp.Weighted(wt)
	if pick == 0 {
		return false
	}
	w.version++
	w.worldEvents++
	u := users[w.tp.Intn(len(users))]
	k := rowKey{u, c.id}
	cur := w.rows[k]
	blocked := u == w.real.passUID
	switch pick {
	case 1: // leave: the subscriber projection tombstones the membership under a newer source version
		if cur == nil || cur.Tombstone || blocked {
			w.r.Logf("world: leave %s@%s skipped", u, c.id)
			return true
		}
		next := *cur
		next.Tombstone, next.TombstoneAt, next.SourceVersion, next.UpdatedAt = true, w.now.UnixNano(), cur.SourceVersion+1, w.now.UnixNano()
		res := w.real.apply(fsm.EncodeUpsertUserChannelMembershipsCommand([]metadb.UserChannelMembership{next}))
		w.r.Logf("world: %s leaves %s (source version %d) => %s", u, c.id, next.SourceVersion, res)
		w.mirror("leave", k)
	case 2: // (re)join under a newer source version: a tombstoned row starts a new incarnation
		if blocked {
			w.r.Logf("world: join %s@%s skipped", u, c.id)
			return true
		}
		next := metadb.UserChannelMembership{UID: u, ChannelID: c.id, ChannelType: chType, JoinSeq: c.committed + 1, SourceVersion: 1, UpdatedAt: w.now.UnixNano()}
		if cur != nil {
			next.SourceVersion = cur.SourceVersion + 1
		}
		if cur == nil || cur.Tombstone {
			// first creation or re-creation: the cursors legitimately restart
			delete(w.real.seen, k)
			w.r.Probe("c16.new_incarnation")
		}
		res := w.real.apply(fsm.EncodeUpsertUserChannelMembershipsCommand([]metadb.UserChannelMembership{next}))
		w.r.Logf("world: %s (re)joins %s at join=%d (source version %d) => %s", u, c.id, next.JoinSeq, next.SourceVersion, res)
		w.mirror("join", k)
		if got := w.rows[k]; got == nil || got.Tombstone || got.SourceVersion != next.SourceVersion {
			w.r.FailSig("newer_source_write_refused", "", fmt.Sprintf("join of %s@%s under source version %d left %v", u, c.id, next.SourceVersion, got), nil)
		}
	case 3: // a delayed subscriber-derived write carrying an older source version
		if cur == nil || cur.SourceVersion == 0 || blocked {
			w.r.Logf("world: stale subscriber write %s@%s skipped", u, c.id)
			return true
		}
		stale := metadb.UserChannelMembership{UID: u, ChannelID: c.id, ChannelType: chType, SourceVersion: uint64(w.tp.Intn(int(cur.SourceVersion))),
			JoinSeq: uint64(w.tp.Intn(4)), ReadSeq: uint64(w.tp.Intn(3)), DeletedToSeq: uint64(w.tp.Intn(2)), Tombstone: w.tp.Intn(2) == 1, UpdatedAt: w.now.UnixNano()}
		before := *cur
		res := w.real.apply(fsm.EncodeUpsertUserChannelMembershipsCommand([]metadb.UserChannelMembership{stale}))
		w.faults++
		w.r.Fault("stale_source_version_write")
		w.r.Logf("world: subscriber write with older source version %d (row has %d): %s => %s", stale.SourceVersion, before.SourceVersion, rowString(stale), res)
		w.mirror("stale_write", k)
		if got := w.rows[k]; got == nil || *got != before {
			w.r.FailSig("older_source_write_applied", "", fmt.Sprintf("a write with source version %d changed the row with source version %d: %s -> %v", stale.SourceVersion, before.SourceVersion, rowString(before), got), nil)
		}
	case 4, 5: // a retried proposal is applied a second time / a timed-out proposal is applied after all
		list := &w.real.replay
		tag := "slot.command_applied_again"
		if pick == 5 {
			list = &w.real.late
			tag = "slot.timed_out_command_applied_late"
		}
		i := w.tp.Intn(len(*list))
		cmd := (*list)[i]
		if cmd.key.uid == w.real.passUID {
			w.r.Logf("world: %s of %q skipped", tag, cmd.what)
			return true
		}
		*list = append((*list)[:i], (*list)[i+1:]...)
		res := w.real.apply(cmd.payload)
		w.faults++
		w.r.Fault(tag)
		w.r.Logf("world: %s: %s => %s", tag, cmd.what, res)
		w.mirror(tag, cmd.key)
		if pick == 5 && len(w.real.replay) < 4 {
			w.real.replay = append(w.real.replay, cmd)
		}
	case 6:
		w.restartStore()
	case 7:
		c.stale = 1 + w.tp.Intn(2)
		w.r.Logf("world: %s is served by a lagging leader for the next %d head reads", c.id, c.stale)
	}
	return true
}

// restartStore reopens the database (clean close, process kill or power loss)
// and hands a fresh adapter and App to every operation started afterwards.
func (w *world) restartStore() {
	s := w.real
	kind := w.tp.Intn(3)
	s.restarts++
	w.faults++
	switch kind {
	case 0:
		w.r.Fault("store.reopen")
		s.close()
	default:
		p := 100
		if kind == 2 {
			p = 0
		}
		w.r.Fault(fmt.Sprintf("store.crash_unsynced_%d", p))
		clone := s.fs.CrashClone(vfs.CrashCloneCfg{UnsyncedDataPercent: p, RNG: rand.New(rand.NewPCG(uint64(s.restarts), 0x5eed))})
		s.close()
		s.fs = clone
	}
	s.open()
	w.r.Logf("world: membership store restarted (kind %d)", kind)
	if w.r.InfraErr != "" {
		return
	}
	before := map[rowKey]metadb.UserChannelMembership{}
	for k, row := range w.rows {
		before[k] = *row
	}
	w.mirrorAll("restart")
	for _, k := range w.sortedRowKeys() {
		if b, ok := before[k]; ok && *w.rows[k] != b {
			w.r.FailSig("restart_changed_row", "", fmt.Sprintf("after the restart %s reads %s", rowString(b), rowString(*w.rows[k])), nil)
			return
		}
	}
	if len(w.rows) != len(before) {
		w.r.FailSig("restart_changed_row", "lost", fmt.Sprintf("%d rows before the restart, %d after", len(before), len(w.rows)), nil)
	}
	w.newApp()
}

// staleChannel is what a lagging leader would answer for c.
func staleChannel(c *channel, back int) *channel {
	cc := *c
	if uint64(back) > cc.committed {
		back = int(cc.committed)
	}
	cc.committed -= uint64(back)
	if cc.retention > cc.committed {
		cc.retention = cc.committed
	}
	return &cc
}

// -------------------------------------------------------- directory pass ----

func (w *world) passBody(o *op) func() {
	return func() {
		cur := conversation.Cursor{}
		for page := 0; page < 16; page++ {
			res, err := w.app.List(context.Background(), conversation.ListRequest{UID: o.uid, Limit: o.limit, Cursor: cur})
			o.pages = append(o.pages, passPage{res: res, err: err})
			if err != nil || res.Done {
				return
			}
			cur = res.NextCursor
		}
	}
}

func memberIDs(rows []metadb.UserChannelMembership) []string {
	var out []string
	for _, r := range rows {
		out = append(out, r.ChannelID)
	}
	return out
}

func (w *world) checkPass(o *op) {
	s := w.real
	s.passUID = ""
	ref := o.passRef
	now := s.listing(o.uid)
	if fmt.Sprint(now) != fmt.Sprint(ref) {
		w.r.Infra("directory of %s changed during an isolated pass: %v -> %v", o.uid, ref, now)
		return
	}
	var summary []string
	for _, p := range o.pages {
		summary = append(summary, fmt.Sprintf("{items=%v deletes=%v unresolved=%v scanned=%d done=%v next=%v err=%v}", convIDs(p.res.Items), keyIDs(p.res.Deletes), keyIDs(p.res.Unresolved),
			p.res.ScannedCandidates, p.res.Done, p.res.NextCursor, p.err))
	}
	w.r.Logf("op#%d pass uid=%s limit=%d store_order=%v pages=%s", o.id, o.uid, o.limit, memberIDs(ref), strings.Join(summary, " "))
	for _, p := range o.pages {
		if p.err != nil {
			w.r.Probe("pass.aborted_by_store_error")
			return
		}
	}
	fail := func(sig, detail string) {
		w.r.FailSig("directory_pass", sig, fmt.Sprintf("op#%d pass uid=%s limit=%d: %s; store order %v; pages %s", o.id, o.uid, o.limit, detail, memberIDs(ref), strings.Join(summary, " ")), nil)
	}
	if len(o.pages) == 0 || !o.pages[len(o.pages)-1].res.Done {
		fail("not_terminating", fmt.Sprintf("%d pages and still not done", len(o.pages)))
		return
	}
	scanned := 0
	count := map[string]int{}
	var items, deletes []string
	for _, p := range o.pages {
		scanned += p.res.ScannedCandidates
		for _, it := range p.res.Items {
			count[it.ChannelID]++
			items = append(items, it.ChannelID)
		}
		for _, k := range p.res.Deletes {
			count[k.ChannelID]++
			deletes = append(deletes, k.ChannelID)
		}
		for _, k := range p.res.Unresolved {
			count[k.ChannelID]++
		}
	}
	for _, id := range simkit.SortedKeys(count) {
		if count[id] > 1 {
			fail("listed_twice", fmt.Sprintf("%s was presented %d times", id, count[id]))
			return
		}
	}
	if scanned != len(ref) {
		fail("candidates", fmt.Sprintf("the pages scanned %d rows, the directory has %d", scanned, len(ref)))
		return
	}
	pos := map[string]int{}
	for i, row := range ref {
		pos[row.ChannelID] = i
		if (row.Tombstone || row.ActivatedAt > 0) && count[row.ChannelID] != 1 {
			fail("missing", fmt.Sprintf("%s (tombstone=%v activated=%v) was never presented", row.ChannelID, row.Tombstone, row.ActivatedAt > 0))
			return
		}
	}
	// Deletes mix membership tombstones and removed channels inside one page, so
	// only the listed conversations are held to the directory order
	for _, id := range deletes {
		if _, ok := pos[id]; !ok {
			fail("unknown_row", fmt.Sprintf("%s was reported deleted but is not in the directory", id))
			return
		}
	}
	for i := 1; i < len(items); i++ {
		a, okA := pos[items[i-1]]
		b, okB := pos[items[i]]
		if !okA || !okB || a >= b {
			fail("order", fmt.Sprintf("%s before %s contradicts the directory order", items[i-1], items[i]))
			return
		}
	}
	w.r.Probe("pass.complete")
	if len(o.pages) > 2 {
		w.r.Probe("pass.three_or_more_pages")
	}
}

func convIDs(items []conversation.Conversation) []string {
	var out []string
	for _, it := range items {
		out = append(out, it.ChannelID)
	}
	return out
}

// checkAsked: what the App asks the store for, judged against what that same
// command read. (A Hide may carry a lower boundary when its head was stale; the
// store's floor absorbs that and the user-visible check above covers it.)
func (w *world) checkAsked(o *op, g *access, wa *access) {
	if wa == nil || wa.kind != "adv" {
		return
	}
	if wa.arg <= g.row.ReadSeq {
		w.fail(o, "asked_cursor_rewind", o.kind, fmt.Sprintf("the command read read_seq=%d and asked the store to set read_seq=%d", g.row.ReadSeq, wa.arg))
	}
}
