package delivery

// deliversim: concurrent world for property C31 (online delivery preserves
// per-channel order and recipient coverage).
//
// One run = one synctest bubble with 1-3 real delivery.Runtime instances (one
// per simulated node, 1-4 plan workers, small queues) wired to simulated
// ports. Every port call parks at the scheduler:
//
//   PRES  presence resolver (answer: online routes / none / stale routes /
//         target error / short result / panic)
//   REQ   owner push to another node (deliver / drop / hold past deadline / panic)
//   RSP   its response (deliver / lose after the owner applied the push)
//   WRITE owner-local session write (accepted / retryable / dropped / hold / panic;
//         a route whose (node, session, generation) fence is not current is dropped)
//   OFFL  offline-recipients observer (return / panic)
//
// A push "happens" when the scheduler releases a WRITE with "accepted"; the
// order oracle runs at that instant. All other accounting is by commutative
// counters that port goroutines bump under a lock and the scheduler checks at
// quiescence, so the trace does not depend on goroutine interleaving inside a
// step.

import (
	"context"
	"errors"
	"fmt"
	"reflect"
	"sort"
	"strings"
	"sync"
	"testing"
	"time"

	"github.com/WuKongIM/WuKongIM/internal/contracts/authority"
	channelappendcontract "github.com/WuKongIM/WuKongIM/internal/contracts/channelappend"
	"github.com/WuKongIM/WuKongIM/internal/contracts/onlinedelivery"
	"github.com/WuKongIM/WuKongIM/internal/verifsim/simkit"
	goruntimeregistry "github.com/WuKongIM/WuKongIM/pkg/goroutine"
)

func TestVerifSimDeliver(t *testing.T) {
	simkit.Main(t, simkit.Engine{
		Name:  "deliversim",
		Props: map[string]simkit.PropFunc{"C31": runDeliverSim},
		Real: []string{"delivery.Runtime on every node (admission, channel-sharded ordered plan queue, plan workers, presence/offline/owner grouping, bounded owner concurrency, exact-route retry loop, PushOwner owner-local reserve-write-finish transaction, Stop/Quiesce/Start lifecycle)",
			"delivery.AckTracker behind the runtime", "goroutine registry", "timers via synctest fake clock"},
		Stub: []string{"plan producer (per-channel sequential enqueuer; plans shaped like channelappend's recipient dispatch: exact-target groups, duplicate rows, one message split over several plans)",
			"presence resolver", "node-to-node owner push transport (in-process call into the target runtime's PushOwner under the caller's context)", "session writer and session directory", "offline observer", "clients sending RECVACK / closing sessions"},
		Rule: "One run = 1-3 nodes, 1-4 channels each produced in sequence order by one source node, 3-14 messages split into plans, tape-chosen port outcomes and lifecycle actions. " +
			"Non-trivial = at least one accepted session write AND (at least one fault fired OR two plans were in flight at the same time).",
		Assumptions: []string{"testing/synctest fake clock and quiescence semantics (go1.26.8)",
			"an owner push that the caller abandoned (deadline, cancellation) never reaches the owner later: late delivery of timed-out RPCs, which would legitimately reorder, is not modelled",
			"each channel has one producing node that enqueues its plans one after another",
			"a UID belongs to one authority target within a plan",
			"scheduling inside one simulator step is the Go runtime's"},
	})
}

const (
	dsClosed = -1
	dsCtx    = -2

	dsPresAnswer = 0
	dsPresPanic  = 1

	dsReqDeliver = 0
	dsReqDrop    = 1
	dsReqHold    = 2
	dsReqPanic   = 3

	dsRspDeliver = 0
	dsRspLose    = 1

	dsWAccept = 0
	dsWRetry  = 1
	dsWDrop   = 2
	dsWHold   = 3
	dsWPanic  = 4

	dsOffDone  = 0
	dsOffPanic = 1
)

var (
	errDsNet      = errors.New("sim: owner push transport failure")
	errDsPresence = errors.New("sim: presence target failure")
	errDsWrite    = errors.New("sim: session write failure")
)

type dsCfg struct {
	N          int
	Workers    int
	Queue      int
	Users      int
	Chans      int
	Msgs       int
	Batch      int
	OwnerBatch int
	OwnerConc  int
	RetryMax   int
	PlanTO     time.Duration
	AckTTL     time.Duration
	NoFaults   bool
	FPresErr   bool
	FStale     bool
	FWrite     bool
	FHold      bool
	FPanic     bool
	FNet       bool
	FLifecycle bool
	FChurn     bool
	FEnqTO     bool
	OfflineObs bool
	Transient  int
	DupBias    int
	MultiSrc   bool
}

func dsDrawCfg(r *simkit.Run) dsCfg {
	tp := r.Tape
	c := dsCfg{}
	c.N = 1 + tp.Weighted([]int{2, 3, 2})
	c.Workers = 1 + tp.Intn(4)
	c.Queue = 1 + tp.Intn(4)
	c.Users = 2 + tp.Intn(4)
	c.Chans = 1 + tp.Intn(4)
	c.Msgs = 3 + tp.Intn(12)
	c.Batch = 1 + tp.Intn(4)
	c.OwnerBatch = []int{256, 1, 2, 3}[tp.Intn(4)]
	c.OwnerConc = 1 + tp.Intn(3)
	c.RetryMax = 1 + tp.Intn(4)
	c.NoFaults = tp.Intn(4) == 0
	c.OfflineObs = tp.Intn(8) != 0
	c.Transient = tp.Intn(3)
	c.DupBias = tp.Intn(3)
	c.MultiSrc = tp.Intn(2) == 0
	c.PlanTO = 5 * time.Second
	if !c.NoFaults {
		c.FPresErr = tp.Intn(2) == 0
		c.FStale = tp.Intn(2) == 0
		c.FWrite = tp.Intn(3) != 0
		c.FPanic = tp.Intn(4) == 0
		c.FNet = tp.Intn(2) == 0
		c.FLifecycle = tp.Intn(3) == 0
		c.FChurn = tp.Intn(3) == 0
		c.FEnqTO = tp.Intn(4) == 0
		if tp.Intn(3) == 0 {
			c.PlanTO = 40 * time.Millisecond
			c.FHold = true
		}
		if tp.Intn(4) == 0 {
			c.AckTTL = 2 * time.Second
		}
	}
	return c
}

type dsSession struct {
	uid   string
	node  uint64
	sid   uint64
	boot  uint64
	seq   uint64
	dev   string
	flag  uint8
	level uint8
	open  bool
}

func (s *dsSession) route() onlinedelivery.Route {
	return onlinedelivery.Route{UID: s.uid, OwnerNodeID: s.node, OwnerBootID: s.boot, OwnerSeq: s.seq, SessionID: s.sid,
		DeviceID: s.dev, DeviceFlag: s.flag, DeviceLevel: s.level}
}

func dsRouteKey(r onlinedelivery.Route) string {
	return fmt.Sprintf("%s@n%d/s%d/g%d.%d/%s.%d.%d", r.UID, r.OwnerNodeID, r.SessionID, r.OwnerBootID, r.OwnerSeq, r.DeviceID, r.DeviceFlag, r.DeviceLevel)
}

func dsRouteKeys(rs []onlinedelivery.Route) string {
	ks := make([]string, len(rs))
	for i, r := range rs {
		ks[i] = fmt.Sprintf("%s@s%d.%d", r.UID, r.SessionID, r.OwnerSeq)
	}
	return "[" + strings.Join(ks, ",") + "]"
}

type dsRouteAcct struct {
	route      onlinedelivery.Route
	mult       int // times presence resolved this exact route for the plan (not suppressed)
	suppressed bool
	attempts   int // source side: local session write calls, or appearances in owner pushes sent
	just       int // retryable / failed outcomes that justify one more attempt
	delivered  int // owner pushes carrying the route that reached the owner
	rwrites    int // session write calls at a remote owner
	accepted   int
	lostResp   int // delivered owner pushes whose outcome never reached the sender (a repeat is then legitimate)
	lastRetry  bool
	unknown    bool // never resolved by presence for this plan
}

type dsPlan struct {
	id      int
	chIdx   int
	src     uint64
	gen     int
	plan    onlinedelivery.RecipientDeliveryPlan
	durable bool
	seq     uint64
	msgID   uint64
	enq     int // 0 not issued, 1 in flight, 2 accepted, 3 rejected

	presCalls int
	answered  bool
	altered   bool
	routes    map[string]*dsRouteAcct
	expectOff map[string]bool
	offCalls  int
	offGot    map[string]int
	bad       map[string]bool

	ended         bool
	endedObserved bool
	deadline      bool
	relaxed       bool
	finalChecked  bool
}

type dsCall struct {
	kind   string
	node   uint64
	to     uint64
	plan   *dsPlan
	route  onlinedelivery.Route
	routes []onlinedelivery.Route
	answer []TargetPresenceResult
	local  bool
}

type dsOp struct {
	id      int
	kind    string // enq, stop, quiesce
	node    *dsNode
	plan    *dsPlan
	err     error
	timeout time.Duration
}

type dsNode struct {
	id        uint64
	rt        *Runtime
	gen       int
	state     int // 0 stopped, 1 open, 2 closing (stop), 3 quiescing
	lifeOp    *dsOp
	terminals int
	// acceptedTotal counts admitted plans over all generations; the runtime
	// emits exactly one terminal observation per admitted plan
	acceptedTotal int
	results       map[ObservationResult]int
	genRelax  bool
}

type dsChan struct {
	idx   int
	id    string
	src   *dsNode
	seq   uint64
	queue []*dsPlan // plans of the current message still to enqueue
	busy  bool
	msgs  int
}

type dsAck struct {
	node uint64
	uid  string
	sid  uint64
	mid  uint64
}

type dsWorld struct {
	r   *simkit.Run
	w   *simkit.World
	cfg dsCfg

	nodes    map[uint64]*dsNode
	nodeIDs  []uint64
	users    []string
	sessions []*dsSession
	chans    []*dsChan
	plans    []*dsPlan
	msgsLeft int
	nextMsg  uint64
	nextOp   int

	mu        sync.Mutex
	completed []*dsOp
	inflight  map[int]*dsOp
	orphans   map[string]bool // observations that fit no plan

	seen      map[*simkit.Parked]bool
	lastSeq   map[string]uint64
	unacked   []dsAck
	final     bool
	accepted  int
	overlap   bool
	closedAll bool
	// remaining fault budgets (a run stays mostly about delivering plans)
	lifeLeft  int
	churnLeft int
}

// ---- observer -----------------------------------------------------------------

type dsObserver struct {
	w *dsWorld
	n *dsNode
}

func (o *dsObserver) ObservePlanAdmission(PlanAdmissionEvent)    {}
func (o *dsObserver) SetRuntimePressure(RuntimePressureEvent)    {}
func (o *dsObserver) ObserveOwnerPush(OwnerPushEvent)            {}
func (o *dsObserver) ObservePlanTerminal(event PlanTerminalEvent) {
	o.w.mu.Lock()
	o.n.terminals++
	o.n.results[event.Result]++
	o.w.mu.Unlock()
}

// ---- plan lookup --------------------------------------------------------------

func (w *dsWorld) planByTag(tag string) *dsPlan {
	var id int
	if _, err := fmt.Sscanf(tag, "p%d", &id); err != nil || id < 0 || id >= len(w.plans) {
		return nil
	}
	return w.plans[id]
}

func (w *dsWorld) acct(p *dsPlan, r onlinedelivery.Route) *dsRouteAcct {
	k := dsRouteKey(r)
	a := p.routes[k]
	if a == nil {
		a = &dsRouteAcct{route: r, unknown: true}
		p.routes[k] = a
	}
	return a
}

func (w *dsWorld) justify(p *dsPlan, routes []onlinedelivery.Route) {
	if p == nil {
		return
	}
	w.mu.Lock()
	for _, r := range routes {
		a := w.acct(p, r)
		a.just++
		a.lastRetry = true
	}
	w.mu.Unlock()
}

func (w *dsWorld) settled(p *dsPlan, routes []onlinedelivery.Route) {
	if p == nil {
		return
	}
	w.mu.Lock()
	for _, r := range routes {
		w.acct(p, r).lastRetry = false
	}
	w.mu.Unlock()
}

func (w *dsWorld) orphan(format string, args ...any) {
	w.mu.Lock()
	w.orphans[fmt.Sprintf(format, args...)] = true
	w.mu.Unlock()
}

// ---- ports ----------------------------------------------------------------------

type dsPresence struct {
	w *dsWorld
	n *dsNode
}

func (s *dsPresence) EndpointsByTargets(ctx context.Context, targets []onlinedelivery.RecipientTargetBatch) []TargetPresenceResult {
	w := s.w
	fail := func() []TargetPresenceResult {
		out := make([]TargetPresenceResult, len(targets))
		for i := range out {
			out[i].Err = errDsPresence
		}
		return out
	}
	var p *dsPlan
	if len(targets) > 0 {
		id := int(targets[0].Target.AuthorityEpoch)
		if id >= 0 && id < len(w.plans) {
			p = w.plans[id]
		}
	}
	if p == nil {
		w.orphan("presence call on n%d with targets of no known plan", s.n.id)
		return fail()
	}
	w.mu.Lock()
	p.presCalls++
	if p.src != s.n.id {
		p.bad[fmt.Sprintf("presence for plan p%d resolved on n%d, admitted on n%d", p.id, s.n.id, p.src)] = true
	}
	if !reflect.DeepEqual(targets, p.plan.Targets) {
		p.altered = true
	}
	w.mu.Unlock()
	context.AfterFunc(ctx, func() {
		w.mu.Lock()
		p.ended = true
		if errors.Is(ctx.Err(), context.DeadlineExceeded) {
			p.deadline = true
		}
		w.mu.Unlock()
	})
	c := &dsCall{kind: "pres", node: s.n.id, plan: p}
	d := w.w.ParkCtx(ctx.Done(), fmt.Sprintf("PRES n%d p%d", s.n.id, p.id), c, dsCtx)
	switch d {
	case dsPresAnswer:
		return c.answer
	case dsPresPanic:
		panic("sim: presence resolver panic")
	}
	return fail()
}

type dsRemote struct {
	w *dsWorld
	n *dsNode
}

func (s *dsRemote) PushOwner(ctx context.Context, push onlinedelivery.OwnerPush) (onlinedelivery.OwnerPushResult, error) {
	w := s.w
	p := w.planByTag(push.Event.Topic)
	if p == nil {
		w.orphan("owner push from n%d to n%d for an unknown plan tag %q", s.n.id, push.OwnerNodeID, push.Event.Topic)
		return onlinedelivery.OwnerPushResult{}, errDsNet
	}
	routes := append([]onlinedelivery.Route(nil), push.Routes...)
	w.mu.Lock()
	if p.src != s.n.id {
		p.bad[fmt.Sprintf("owner push for plan p%d sent by n%d, admitted on n%d", p.id, s.n.id, p.src)] = true
	}
	if push.OwnerNodeID == s.n.id {
		p.bad[fmt.Sprintf("n%d sent a remote owner push to itself", s.n.id)] = true
	}
	if push.Event.MessageID != p.msgID || push.Event.MessageSeq != p.plan.Event.MessageSeq || push.Event.ChannelID != p.plan.Event.ChannelID {
		p.bad[fmt.Sprintf("owner push for plan p%d carries another event (msg %d seq %d)", p.id, push.Event.MessageID, push.Event.MessageSeq)] = true
	}
	for _, r := range routes {
		a := w.acct(p, r)
		a.attempts++
		if r.OwnerNodeID != push.OwnerNodeID {
			p.bad[fmt.Sprintf("route %s sent in an owner push to n%d", dsRouteKey(r), push.OwnerNodeID)] = true
		}
	}
	w.mu.Unlock()
	key := fmt.Sprintf("REQ n%d->n%d p%d %s", s.n.id, push.OwnerNodeID, p.id, dsRouteKeys(routes))
	c := &dsCall{kind: "req", node: s.n.id, to: push.OwnerNodeID, plan: p, routes: routes}
	switch d := w.w.ParkCtx(ctx.Done(), key, c, dsCtx); d {
	case dsReqDeliver:
	case dsReqHold:
		<-ctx.Done()
		w.justify(p, routes)
		return onlinedelivery.OwnerPushResult{}, ctx.Err()
	case dsReqPanic:
		w.justify(p, routes)
		panic("sim: remote owner pusher panic")
	default:
		w.justify(p, routes)
		return onlinedelivery.OwnerPushResult{}, errDsNet
	}
	tn := w.nodes[push.OwnerNodeID]
	if tn == nil {
		w.justify(p, routes)
		return onlinedelivery.OwnerPushResult{}, errDsNet
	}
	w.mu.Lock()
	for _, r := range routes {
		w.acct(p, r).delivered++
	}
	w.mu.Unlock()
	res, err := tn.rt.PushOwner(ctx, push)
	sum := "err"
	if err == nil {
		sum = fmt.Sprintf("acc=%s retry=%s drop=%s", dsRouteKeys(res.Accepted), dsRouteKeys(res.Retryable), dsRouteKeys(res.Dropped))
	}
	c2 := &dsCall{kind: "rsp", node: push.OwnerNodeID, to: s.n.id, plan: p, routes: routes}
	d2 := w.w.ParkCtx(ctx.Done(), fmt.Sprintf("RSP n%d->n%d p%d %s => %s", push.OwnerNodeID, s.n.id, p.id, dsRouteKeys(routes), sum), c2, dsCtx)
	if d2 != dsRspDeliver || err != nil {
		w.mu.Lock()
		for _, r := range routes {
			w.acct(p, r).lostResp++
		}
		w.mu.Unlock()
		w.justify(p, routes)
		if err != nil && d2 == dsRspDeliver {
			return res, err
		}
		return onlinedelivery.OwnerPushResult{}, errDsNet
	}
	w.settled(p, res.Accepted)
	w.settled(p, res.Dropped)
	w.justify(p, res.Retryable)
	return res, nil
}

type dsWriter struct {
	w *dsWorld
	n *dsNode
}

func (s *dsWriter) WriteSession(ctx context.Context, write LocalSessionWrite) SessionWriteResult {
	w := s.w
	p := w.planByTag(write.Event.Topic)
	r := write.Route
	if p == nil {
		w.orphan("session write on n%d for an unknown plan tag %q route %s", s.n.id, write.Event.Topic, dsRouteKey(r))
		return SessionWriteResult{Disposition: SessionWriteDropped, Err: errDsWrite}
	}
	local := p.src == s.n.id
	w.mu.Lock()
	a := w.acct(p, r)
	if local {
		a.attempts++
	} else {
		a.rwrites++
	}
	if r.OwnerNodeID != s.n.id {
		p.bad[fmt.Sprintf("route %s written on n%d", dsRouteKey(r), s.n.id)] = true
	}
	if write.Event.MessageID != p.msgID || write.Event.MessageSeq != p.plan.Event.MessageSeq || write.Event.ChannelID != p.plan.Event.ChannelID {
		p.bad[fmt.Sprintf("session write for plan p%d carries another event (msg %d seq %d)", p.id, write.Event.MessageID, write.Event.MessageSeq)] = true
	}
	w.mu.Unlock()
	one := []onlinedelivery.Route{r}
	key := fmt.Sprintf("WRITE n%d p%d m%d q%d %s", s.n.id, p.id, p.msgID, write.Event.MessageSeq, dsRouteKey(r))
	c := &dsCall{kind: "write", node: s.n.id, plan: p, route: r, local: local}
	switch d := w.w.ParkCtx(ctx.Done(), key, c, dsCtx); d {
	case dsWAccept:
		return SessionWriteResult{Disposition: SessionWriteAccepted}
	case dsWRetry:
		return SessionWriteResult{Disposition: SessionWriteRetryable, Err: errDsWrite}
	case dsWHold:
		<-ctx.Done()
		return SessionWriteResult{Disposition: SessionWriteRetryable, Err: ctx.Err()}
	case dsWPanic:
		panic("sim: session writer panic")
	case dsCtx:
		if local {
			w.justify(p, one)
		}
		return SessionWriteResult{Disposition: SessionWriteRetryable, Err: ctx.Err()}
	}
	if local {
		w.settled(p, one)
	}
	return SessionWriteResult{Disposition: SessionWriteDropped, Err: errDsWrite}
}

type dsOffline struct {
	w *dsWorld
	n *dsNode
}

func (s *dsOffline) ObserveOfflineRecipients(ctx context.Context, ev OfflineRecipientsEvent) {
	w := s.w
	p := w.planByTag(ev.Event.Topic)
	if p == nil {
		w.orphan("offline batch on n%d for an unknown plan tag %q", s.n.id, ev.Event.Topic)
		return
	}
	uids := append([]string(nil), ev.UIDs...)
	w.mu.Lock()
	p.offCalls++
	for _, u := range uids {
		p.offGot[u]++
	}
	if p.src != s.n.id {
		p.bad[fmt.Sprintf("offline batch for plan p%d reported on n%d, admitted on n%d", p.id, s.n.id, p.src)] = true
	}
	w.mu.Unlock()
	sort.Strings(uids)
	c := &dsCall{kind: "offl", node: s.n.id, plan: p}
	if d := w.w.ParkCtx(ctx.Done(), fmt.Sprintf("OFFL n%d p%d %v", s.n.id, p.id, uids), c, dsCtx); d == dsOffPanic {
		panic("sim: offline observer panic")
	}
}

// ---- world construction -----------------------------------------------------

func runDeliverSim(t *testing.T, r *simkit.Run) {
	c := dsDrawCfg(r)
	r.Config = map[string]any{"N": c.N, "workers": c.Workers, "queue": c.Queue, "users": c.Users, "chans": c.Chans, "msgs": c.Msgs,
		"batch": c.Batch, "owner_batch": c.OwnerBatch, "owner_conc": c.OwnerConc, "retry_max": c.RetryMax, "plan_to_ms": c.PlanTO.Milliseconds(),
		"nofaults": c.NoFaults, "pres_err": c.FPresErr, "stale": c.FStale, "write": c.FWrite, "hold": c.FHold, "panic": c.FPanic, "net": c.FNet,
		"lifecycle": c.FLifecycle, "churn": c.FChurn, "enq_to": c.FEnqTO, "offline_obs": c.OfflineObs, "ack_ttl_ms": c.AckTTL.Milliseconds()}
	simkit.Bubble(t, r, func() {
		w := &dsWorld{r: r, w: simkit.NewWorld(r), cfg: c, nodes: map[uint64]*dsNode{}, inflight: map[int]*dsOp{}, orphans: map[string]bool{},
			seen: map[*simkit.Parked]bool{}, lastSeq: map[string]uint64{}, msgsLeft: c.Msgs, nextMsg: 1000}
		defer w.teardown()
		w.lifeLeft = 1 + r.Tape.Intn(4)
		w.churnLeft = 1 + r.Tape.Intn(5)
		w.build()
		if r.InfraErr != "" {
			return
		}
		s := &simkit.Scheduler{R: r, MaxSteps: 150 + c.Msgs*90, Collect: w.collect, Invariant: w.sync,
			StepTime: func() time.Duration {
				if r.Tape.Chance(1, 8) {
					return 0
				}
				return 200 * time.Microsecond
			},
			Done: w.quiet,
			Idle: func() time.Duration {
				if w.quiet() {
					return 0
				}
				return 5 * time.Millisecond
			}}
		s.Run()
		if !r.Failed() && r.InfraErr == "" {
			w.finalPhase()
		}
		nf := 0
		for _, v := range r.Faults {
			nf += v
		}
		r.Nontrivial = w.accepted > 0 && (nf > 0 || w.overlap)
	})
}

func (w *dsWorld) build() {
	c := w.cfg
	tp := w.r.Tape
	for i := 1; i <= c.N; i++ {
		n := &dsNode{id: uint64(i), results: map[ObservationResult]int{}}
		opts := RuntimeOptions{
			LocalNodeID: n.id, Presence: &dsPresence{w, n}, RemoteOwnerPusher: &dsRemote{w, n}, SessionWriter: &dsWriter{w, n},
			QueueSize: c.Queue, Workers: c.Workers, PlanTimeout: c.PlanTO, OwnerPushBatchSize: c.OwnerBatch, OwnerConcurrency: c.OwnerConc,
			RetryMaxAttempts: c.RetryMax, RetryInitialBackoff: time.Millisecond, RetryMaxBackoff: 4 * time.Millisecond,
			PendingAckTTL: c.AckTTL, Observer: &dsObserver{w, n}, Goroutines: goruntimeregistry.New(),
		}
		if c.OfflineObs {
			opts.OfflineRecipientsObserver = &dsOffline{w, n}
		}
		n.rt = NewRuntime(opts)
		if err := n.rt.Start(context.Background()); err != nil {
			w.r.Infra("start n%d: %v", i, err)
			return
		}
		n.state, n.gen = 1, 1
		w.nodes[n.id] = n
		w.nodeIDs = append(w.nodeIDs, n.id)
	}
	sid := uint64(100)
	for u := 0; u < c.Users; u++ {
		uid := fmt.Sprintf("u%d", u)
		w.users = append(w.users, uid)
		ns := tp.Weighted([]int{4, 3, 1, 1}) // 1,2,3 sessions or none
		if ns == 3 {
			ns = -1
		}
		for k := 0; k <= ns; k++ {
			sid++
			w.sessions = append(w.sessions, &dsSession{uid: uid, node: w.nodeIDs[tp.Intn(len(w.nodeIDs))], sid: sid, boot: 7, seq: 2,
				dev: fmt.Sprintf("d%d", sid), flag: uint8(k), level: 1, open: true})
		}
	}
	for i := 0; i < c.Chans; i++ {
		src := w.nodes[1]
		if c.MultiSrc {
			src = w.nodes[w.nodeIDs[tp.Intn(len(w.nodeIDs))]]
		}
		w.chans = append(w.chans, &dsChan{idx: i, id: fmt.Sprintf("g%d", i), src: src})
	}
	parts := []string{}
	for _, s := range w.sessions {
		parts = append(parts, fmt.Sprintf("%s@n%d/s%d", s.uid, s.node, s.sid))
	}
	srcs := []string{}
	for _, ch := range w.chans {
		srcs = append(srcs, fmt.Sprintf("%s<-n%d(shard %d)", ch.id, ch.src.id, ch.src.rt.queue.shardIndex(onlinedelivery.RecipientDeliveryPlan{Event: channelappendcontract.CommittedEnvelope{ChannelID: ch.id, ChannelType: 2}})))
	}
	w.r.Logf("world: sessions=%v channels=%v", parts, srcs)
}

func (w *dsWorld) sessionsOf(uid string) []*dsSession {
	var out []*dsSession
	for _, s := range w.sessions {
		if s.uid == uid {
			out = append(out, s)
		}
	}
	return out
}

func (w *dsWorld) sessionCurrent(node uint64, r onlinedelivery.Route) bool {
	for _, s := range w.sessions {
		if s.node == node && s.sid == r.SessionID {
			return s.open && s.uid == r.UID && s.boot == r.OwnerBootID && s.seq == r.OwnerSeq
		}
	}
	return false
}

func (w *dsWorld) targetOf(user int, planID int) authority.Target {
	slot := uint16(user % 3)
	return authority.Target{HashSlot: slot, SlotID: uint32(slot) + 1, LeaderNodeID: uint64(1 + int(slot)%w.cfg.N), LeaderTerm: 3, ConfigEpoch: 2, RouteRevision: 9,
		AuthorityEpoch: uint64(planID)}
}

// newMessage draws one message for a channel and splits it into plans the way
// the producer does: recipients grouped by exact target in first-seen order,
// at most Batch recipient rows per plan.
func (w *dsWorld) newMessage(ch *dsChan) {
	tp := w.r.Tape
	c := w.cfg
	w.msgsLeft--
	ch.msgs++
	w.nextMsg++
	durable := !(c.Transient > 0 && tp.Chance(c.Transient, 8))
	ev := channelappendcontract.CommittedEnvelope{MessageID: w.nextMsg, ChannelID: ch.id, ChannelType: 2, ClientMsgNo: fmt.Sprintf("m%d", w.nextMsg), Payload: []byte("x")}
	mode := onlinedelivery.ModeTransient
	if durable {
		ch.seq++
		ev.MessageSeq = ch.seq
		mode = onlinedelivery.ModeDurable
	}
	from := tp.Intn(c.Users + 1)
	if from < c.Users {
		ev.FromUID = w.users[from]
		if ss := w.sessionsOf(ev.FromUID); len(ss) > 0 && tp.Intn(3) != 0 {
			s := ss[tp.Intn(len(ss))]
			ev.SenderNodeID, ev.SenderSessionID = s.node, s.sid
		}
	} else {
		ev.FromUID = "sys"
	}
	// recipient rows
	var rows []int
	for u := 0; u < c.Users; u++ {
		if tp.Intn(4) != 0 {
			rows = append(rows, u)
			if c.DupBias > 0 && tp.Chance(c.DupBias, 10) {
				rows = append(rows, u)
			}
		}
	}
	if len(rows) == 0 {
		rows = []int{tp.Intn(c.Users)}
	}
	// group by target slot in first-seen order
	var order []int
	groups := map[int][]int{}
	for _, u := range rows {
		slot := u % 3
		if _, ok := groups[slot]; !ok {
			order = append(order, slot)
		}
		groups[slot] = append(groups[slot], u)
	}
	var cur *dsPlan
	remaining := 0
	flush := func() {
		if cur != nil && cur.plan.RecipientCount() > 0 {
			ch.queue = append(ch.queue, cur)
		}
		cur = nil
	}
	for _, slot := range order {
		us := groups[slot]
		for len(us) > 0 {
			if cur == nil || remaining == 0 {
				flush()
				id := len(w.plans)
				e := ev
				e.Topic = fmt.Sprintf("p%d", id)
				cur = &dsPlan{id: id, chIdx: ch.idx, src: ch.src.id, durable: durable, seq: ev.MessageSeq, msgID: ev.MessageID,
					plan:   onlinedelivery.RecipientDeliveryPlan{Mode: mode, Event: e},
					routes: map[string]*dsRouteAcct{}, expectOff: map[string]bool{}, offGot: map[string]int{}, bad: map[string]bool{}}
				w.plans = append(w.plans, cur)
				remaining = c.Batch
			}
			n := remaining
			if n > len(us) {
				n = len(us)
			}
			rcs := make([]channelappendcontract.Recipient, 0, n)
			for _, u := range us[:n] {
				rcs = append(rcs, channelappendcontract.Recipient{UID: w.users[u], JoinSeq: 1})
			}
			cur.plan.Targets = append(cur.plan.Targets, onlinedelivery.RecipientTargetBatch{Target: w.targetOf(slot, cur.id), Recipients: rcs})
			us = us[n:]
			remaining -= n
		}
	}
	flush()
	ids := []string{}
	for _, p := range ch.queue {
		ids = append(ids, fmt.Sprintf("p%d%s", p.id, dsPlanRows(p)))
	}
	w.r.Logf("  message m%d on %s seq=%d durable=%v from=%s sender=n%d/s%d plans=%v", ev.MessageID, ch.id, ev.MessageSeq, durable, ev.FromUID, ev.SenderNodeID, ev.SenderSessionID, ids)
}

func dsPlanRows(p *dsPlan) string {
	parts := []string{}
	for _, tg := range p.plan.Targets {
		us := []string{}
		for _, rc := range tg.Recipients {
			us = append(us, rc.UID)
		}
		parts = append(parts, fmt.Sprintf("t%d%v", tg.Target.HashSlot, us))
	}
	return strings.Join(parts, "")
}

// ---- client operations --------------------------------------------------------

func (w *dsWorld) startOp(op *dsOp, run func() error) {
	w.nextOp++
	op.id = w.nextOp
	w.inflight[op.id] = op
	go func() {
		op.err = run()
		w.mu.Lock()
		w.completed = append(w.completed, op)
		w.mu.Unlock()
	}()
}

func (w *dsWorld) startEnqueue(ch *dsChan, timeout time.Duration) {
	p := ch.queue[0]
	ch.queue = ch.queue[1:]
	ch.busy = true
	p.enq = 1
	p.gen = ch.src.gen
	rt := ch.src.rt
	plan := p.plan
	w.r.Logf("  enqueue p%d on n%d (%s seq %d) timeout=%v", p.id, ch.src.id, ch.id, p.seq, timeout)
	w.startOp(&dsOp{kind: "enq", node: ch.src, plan: p, timeout: timeout}, func() error {
		ctx, cancel := context.WithTimeout(context.Background(), timeout)
		defer cancel()
		return rt.EnqueueRecipientDeliveryPlan(ctx, plan)
	})
}

func (w *dsWorld) startLife(n *dsNode, kind string, timeout time.Duration) {
	op := &dsOp{kind: kind, node: n, timeout: timeout}
	n.lifeOp = op
	if n.state == 1 {
		if kind == "stop" {
			n.state = 2
		} else {
			n.state = 3
		}
	}
	rt := n.rt
	w.startOp(op, func() error {
		ctx, cancel := context.WithTimeout(context.Background(), timeout)
		defer cancel()
		if kind == "stop" {
			return rt.Stop(ctx)
		}
		return rt.Quiesce(ctx)
	})
}

func (w *dsWorld) doStart(n *dsNode) {
	err := n.rt.Start(context.Background())
	w.r.Logf("  start n%d -> %v", n.id, err)
	switch {
	case err == nil:
		if n.state != 1 {
			n.gen++
			n.genRelax = false
		}
		n.state = 1
		w.dropAcksOf(n.id, 0, "")
	case errors.Is(err, ErrRuntimeClosed) && n.state != 0:
		w.r.Fault("start_while_closing")
	default:
		w.r.FailSig("lifecycle", "start", fmt.Sprintf("Start on n%d in harness state %d returned %v", n.id, n.state, err), nil)
	}
}

func (w *dsWorld) dropAcksOf(node uint64, sid uint64, uid string) {
	k := 0
	for _, a := range w.unacked {
		if a.node == node && (sid == 0 || (a.sid == sid && a.uid == uid)) {
			continue
		}
		w.unacked[k] = a
		k++
	}
	w.unacked = w.unacked[:k]
}

// ---- quiescent-state processing ----------------------------------------------

func (w *dsWorld) fail(class, sig, detail string) {
	w.r.FailSig(class, sig, detail, nil)
}

// sync runs at every quiescent state: completions, plan ends, arrivals, and
// all counter-based checks.
func (w *dsWorld) sync() {
	if w.r.Failed() {
		return
	}
	w.mu.Lock()
	defer w.mu.Unlock()
	done := w.completed
	w.completed = nil
	sort.Slice(done, func(i, j int) bool { return done[i].id < done[j].id })
	for _, op := range done {
		delete(w.inflight, op.id)
		w.onOpDone(op)
	}
	running := 0
	for _, p := range w.plans {
		if p.ended && !p.endedObserved {
			p.endedObserved = true
			w.r.Logf("  plan p%d ended deadline=%v", p.id, p.deadline)
			if p.deadline {
				w.r.Probe("plan_deadline_exceeded")
			}
		}
		if p.presCalls > 0 && !p.ended {
			running++
		}
	}
	if running >= 2 {
		w.overlap = true
		w.r.Probe("plans_in_flight_together")
	}
	// arrivals, canonical order
	pend := w.w.Pending()
	now := make(map[*simkit.Parked]bool, len(pend))
	for _, pk := range pend {
		now[pk] = true
		if !w.seen[pk] {
			w.r.Logf("  arrive %s", pk.Key)
		}
	}
	w.seen = now
	for _, k := range simkit.SortedKeys(w.orphans) {
		w.fail("push-to-unresolved-target", "unknown-plan", k)
		return
	}
	for _, p := range w.plans {
		w.checkPlanLocked(p)
		if w.r.Failed() {
			return
		}
	}
	for _, id := range w.nodeIDs {
		if n := w.nodes[id]; n.terminals > n.acceptedTotal {
			w.fail("plan-executed-twice", "terminals", fmt.Sprintf("n%d reported %d terminal plan outcomes for %d admitted plans", id, n.terminals, n.acceptedTotal))
			return
		}
	}
	if w.r.Steps%3 == 0 {
		st := []any{}
		for _, id := range w.nodeIDs {
			n := w.nodes[id]
			st = append(st, n.state, n.rt.queue.Depth(), int(n.rt.inflight.Load()))
		}
		kinds := map[string]int{}
		for _, pk := range pend {
			kinds[pk.Info.(*dsCall).kind]++
		}
		st = append(st, kinds["pres"], kinds["req"], kinds["rsp"], kinds["write"], kinds["offl"], running)
		w.r.State(st...)
	}
}

// checkPlanLocked evaluates the upper-bound ("never more than") oracles.
func (w *dsWorld) checkPlanLocked(p *dsPlan) {
	tag := fmt.Sprintf("p%d (m%d %s seq %d)", p.id, p.msgID, w.chans[p.chIdx].id, p.seq)
	for _, k := range simkit.SortedKeys(p.bad) {
		w.fail("push-to-unresolved-target", "misrouted", tag+": "+k)
		return
	}
	if p.presCalls > 1 {
		w.fail("plan-executed-twice", "", fmt.Sprintf("%s: presence was resolved %d times for one accepted plan", tag, p.presCalls))
		return
	}
	if p.altered {
		w.fail("presence-targets-altered", "", tag+": the target groups handed to presence differ from the admitted plan's exact targets")
		return
	}
	for _, k := range simkit.SortedKeys(p.routes) {
		a := p.routes[k]
		switch {
		case a.suppressed && a.mult == 0 && (a.attempts > 0 || a.rwrites > 0):
			w.fail("sender-echo-pushed", "", fmt.Sprintf("%s: route %s is the sender's own session but was pushed", tag, k))
		case a.unknown && !a.suppressed:
			w.fail("push-to-unresolved-target", "route", fmt.Sprintf("%s: push to %s which presence never resolved for this plan (attempts=%d writes=%d)", tag, k, a.attempts, a.rwrites))
		case a.attempts > a.mult+a.just:
			w.fail("unjustified-push", "", fmt.Sprintf("%s: route %s pushed %d times; resolved %d time(s) and only %d retryable/failed outcome(s) justify a retry", tag, k, a.attempts, a.mult, a.just))
		case a.accepted > a.mult+a.lostResp:
			w.fail("pushed-twice", "", fmt.Sprintf("%s: route %s accepted the message %d times; resolved %d time(s), %d owner push outcome(s) lost", tag, k, a.accepted, a.mult, a.lostResp))
		case a.rwrites > a.delivered:
			w.fail("write-without-push", "", fmt.Sprintf("%s: route %s written %d times at its owner but only %d owner push(es) carrying it were delivered", tag, k, a.rwrites, a.delivered))
		case a.attempts > a.mult*w.cfg.RetryMax:
			w.fail("retry-unbounded", "", fmt.Sprintf("%s: route %s pushed %d times, resolved %d time(s), attempt limit %d", tag, k, a.attempts, a.mult, w.cfg.RetryMax))
		}
		if w.r.Failed() {
			return
		}
	}
	if p.offCalls > 0 {
		if !p.durable {
			w.fail("offline-for-transient", "", tag+": a transient plan reported offline recipients")
			return
		}
		if p.offCalls > 1 {
			w.fail("offline-twice", "calls", fmt.Sprintf("%s: %d offline batches for one plan", tag, p.offCalls))
			return
		}
		for _, u := range simkit.SortedKeys(p.offGot) {
			if p.offGot[u] > 1 {
				w.fail("offline-twice", "uid", fmt.Sprintf("%s: %s reported offline %d times", tag, u, p.offGot[u]))
				return
			}
			if !p.expectOff[u] {
				w.fail("offline-unexpected", "", fmt.Sprintf("%s: %s reported offline although presence resolved an online route for it (or its target failed, or it is no recipient)", tag, u))
				return
			}
		}
	}
}

func (w *dsWorld) onOpDone(op *dsOp) {
	n := op.node
	switch op.kind {
	case "enq":
		p := op.plan
		w.chans[p.chIdx].busy = false
		w.r.Logf("  op%d enqueue p%d -> %v", op.id, p.id, op.err)
		switch {
		case op.err == nil:
			p.enq = 2
			n.acceptedTotal++
			w.r.Probe("plan_accepted")
		case errors.Is(op.err, ErrRuntimeClosed):
			p.enq = 3
			w.r.Probe("enqueue_rejected_closed")
		case errors.Is(op.err, context.DeadlineExceeded):
			p.enq = 3
			w.r.Probe("enqueue_timed_out_on_full_queue")
		default:
			p.enq = 3
			w.fail("lifecycle", "enqueue", fmt.Sprintf("enqueue of valid plan p%d returned %v", p.id, op.err))
		}
	case "stop":
		n.lifeOp = nil
		w.r.Logf("  op%d stop n%d -> %v", op.id, n.id, op.err)
		if op.err != nil {
			// graceful budget exhausted: the runtime cancels accepted work
			w.r.Probe("stop_timed_out")
			n.genRelax = true
			for _, p := range w.plans {
				if p.src == n.id && p.gen == n.gen && !p.endedObserved {
					p.relaxed = true
				}
			}
			return
		}
		w.r.Probe("stop_ok")
		for _, p := range w.plans {
			if p.src != n.id || p.gen != n.gen || p.enq != 2 || p.relaxed {
				continue
			}
			if p.presCalls == 0 || !p.ended {
				w.fail("stop-incomplete", "", fmt.Sprintf("Stop on n%d returned nil but accepted plan p%d (m%d) %s", n.id, p.id, p.msgID,
					map[bool]string{true: "never ran", false: "is still running"}[p.presCalls == 0]))
				return
			}
		}
		n.state = 0
		w.dropAcksOf(n.id, 0, "")
	case "quiesce":
		n.lifeOp = nil
		w.r.Logf("  op%d quiesce n%d -> %v", op.id, n.id, op.err)
		if op.err != nil {
			if errors.Is(op.err, ErrRuntimeClosed) {
				w.r.Probe("quiesce_rejected_closed")
			} else {
				w.r.Probe("quiesce_wait_timed_out")
			}
			return
		}
		w.r.Probe("quiesce_ok")
		for _, p := range w.plans {
			if p.src != n.id || p.gen != n.gen || p.enq != 2 || p.relaxed {
				continue
			}
			if p.presCalls == 0 || !p.ended {
				w.fail("quiesce-incomplete", "plan", fmt.Sprintf("Quiesce on n%d returned nil but accepted plan p%d (m%d) has not finished", n.id, p.id, p.msgID))
				return
			}
		}
		if c := n.rt.PendingAckCount(); c != 0 {
			w.fail("quiesce-incomplete", "acks", fmt.Sprintf("Quiesce on n%d returned nil with %d pending recvacks", n.id, c))
		}
	}
}

// ---- presence answers ---------------------------------------------------------

func (w *dsWorld) answerPresence(c *dsCall, faults bool) {
	p := c.plan
	tp := w.r.Tape
	cfg := w.cfg
	res := make([]TargetPresenceResult, len(p.plan.Targets))
	desc := []string{}
	for i, tg := range p.plan.Targets {
		if faults && cfg.FPresErr && tp.Chance(1, 8) {
			res[i].Err = errDsPresence
			w.r.Fault("presence_target_error")
			desc = append(desc, fmt.Sprintf("t%d:err", tg.Target.HashSlot))
			continue
		}
		var routes []onlinedelivery.Route
		seen := map[string]bool{}
		for _, rc := range tg.Recipients {
			if seen[rc.UID] && tp.Intn(2) == 0 {
				continue // the resolver answered once per distinct uid
			}
			seen[rc.UID] = true
			for _, s := range w.sessionsOf(rc.UID) {
				cur, stale := 0, 0
				if s.open {
					cur = 6
				}
				if faults && cfg.FStale {
					stale = 1
				}
				switch tp.Weighted([]int{cur, 2, stale}) {
				case 0:
					routes = append(routes, s.route())
				case 2:
					rt := s.route()
					if s.open {
						rt.OwnerSeq--
					}
					w.r.Fault("stale_route_resolved")
					routes = append(routes, rt)
				}
			}
		}
		res[i].Routes = routes
		desc = append(desc, fmt.Sprintf("t%d:%s", tg.Target.HashSlot, dsRouteKeys(routes)))
	}
	if faults && cfg.FPresErr && len(res) > 1 && tp.Chance(1, 12) {
		w.r.Fault("presence_short_result")
		res = res[:len(res)-1]
		desc = append(desc, "short")
	}
	c.answer = res
	w.mu.Lock()
	for i, tg := range p.plan.Targets {
		if i >= len(res) || res[i].Err != nil {
			continue
		}
		online := map[string]bool{}
		for _, rt := range res[i].Routes {
			online[rt.UID] = true
			a := w.acct(p, rt)
			a.unknown = false
			if suppressSenderEcho(p.plan.Event, rt) {
				a.suppressed = true
				w.r.Probe("sender_echo_suppressed")
			} else {
				a.mult++
			}
		}
		if p.durable && w.cfg.OfflineObs {
			for _, rc := range tg.Recipients {
				if !online[rc.UID] {
					p.expectOff[rc.UID] = true
				}
			}
		}
	}
	p.answered = true
	w.mu.Unlock()
	w.r.Logf("  answer p%d: %s", p.id, strings.Join(desc, " "))
}

// suppressSenderEcho is the documented echo rule: the sender's own connection
// (same uid, owner node and session) does not get its message back.
func suppressSenderEcho(ev channelappendcontract.CommittedEnvelope, rt onlinedelivery.Route) bool {
	return ev.FromUID != "" && ev.SenderNodeID != 0 && ev.SenderSessionID != 0 &&
		rt.UID == ev.FromUID && rt.OwnerNodeID == ev.SenderNodeID && rt.SessionID == ev.SenderSessionID
}

// deliverWrite is the instant a packet reaches the session: the order oracle.
func (w *dsWorld) deliverWrite(c *dsCall) {
	p := c.plan
	w.mu.Lock()
	defer w.mu.Unlock()
	a := w.acct(p, c.route)
	a.accepted++
	a.lastRetry = false
	w.accepted++
	w.r.Probe("write_accepted")
	if p.durable {
		k := fmt.Sprintf("n%d/s%d/%s", c.node, c.route.SessionID, w.chans[p.chIdx].id)
		if last := w.lastSeq[k]; p.seq < last {
			w.fail("order-inversion", "", fmt.Sprintf("session s%d on n%d received %s seq %d (plan p%d, m%d) after seq %d", c.route.SessionID, c.node, w.chans[p.chIdx].id, p.seq, p.id, p.msgID, last))
			return
		}
		w.lastSeq[k] = p.seq
	}
	ack := dsAck{node: c.node, uid: c.route.UID, sid: c.route.SessionID, mid: p.msgID}
	for _, u := range w.unacked {
		if u == ack {
			return
		}
	}
	w.unacked = append(w.unacked, ack)
}

// ---- scheduler actions ----------------------------------------------------------

// quiet: everything was produced and every accepted plan finished.
func (w *dsWorld) quiet() bool {
	if len(w.inflight) > 0 || w.w.NumPending() > 0 || w.msgsLeft > 0 {
		return false
	}
	w.mu.Lock()
	defer w.mu.Unlock()
	for _, p := range w.plans {
		if p.enq == 1 || (p.enq == 2 && !p.ended && !(p.relaxed && p.presCalls == 0)) {
			return false
		}
	}
	for _, ch := range w.chans {
		if len(ch.queue) > 0 {
			return false
		}
	}
	return true
}

func (w *dsWorld) collect() []simkit.Action {
	if w.r.Failed() {
		return nil
	}
	c := w.cfg
	faults := !c.NoFaults && !w.final
	var acts []simkit.Action
	add := func(prio int, key string, weight int, do func()) {
		acts = append(acts, simkit.Action{Prio: prio, Key: key, Weight: weight, Do: do})
	}
	pend := w.w.Pending()
	for _, pk := range pend {
		pk := pk
		call := pk.Info.(*dsCall)
		switch call.kind {
		case "pres":
			add(0, "answer "+pk.Key, 40, func() { w.answerPresence(call, faults); w.w.Release(pk, dsPresAnswer) })
			if faults && c.FPanic {
				add(5, "panic "+pk.Key, 1, func() { w.r.Fault("presence_panic"); w.w.Release(pk, dsPresPanic) })
			}
		case "offl":
			add(0, "return "+pk.Key, 40, func() { w.w.Release(pk, dsOffDone) })
			if faults && c.FPanic {
				add(5, "panic "+pk.Key, 1, func() { w.r.Fault("offline_observer_panic"); w.w.Release(pk, dsOffPanic) })
			}
		case "req":
			add(0, "deliver "+pk.Key, 40, func() { w.w.Release(pk, dsReqDeliver) })
			if faults && c.FNet {
				add(5, "drop "+pk.Key, 4, func() { w.r.Fault("owner_push_dropped"); w.w.Release(pk, dsReqDrop) })
			}
			if faults && c.FHold {
				add(5, "hold "+pk.Key, 2, func() { w.r.Fault("owner_push_held_past_deadline"); w.w.Release(pk, dsReqHold) })
			}
			if faults && c.FPanic {
				add(5, "panic "+pk.Key, 1, func() { w.r.Fault("remote_pusher_panic"); w.w.Release(pk, dsReqPanic) })
			}
		case "rsp":
			add(0, "deliver "+pk.Key, 40, func() { w.w.Release(pk, dsRspDeliver) })
			if faults && c.FNet {
				add(5, "lose "+pk.Key, 4, func() { w.r.Fault("owner_push_response_lost"); w.w.Release(pk, dsRspLose) })
			}
		case "write":
			if !w.sessionCurrent(call.node, call.route) {
				add(0, "stale-drop "+pk.Key, 40, func() { w.r.Probe("stale_route_dropped_by_owner"); w.w.Release(pk, dsWDrop) })
				continue
			}
			add(0, "accept "+pk.Key, 40, func() { w.deliverWrite(call); w.w.Release(pk, dsWAccept) })
			one := []onlinedelivery.Route{call.route}
			if faults && c.FWrite {
				add(5, "retryable "+pk.Key, 6, func() {
					w.r.Fault("write_retryable")
					if call.local {
						w.justify(call.plan, one)
					}
					w.w.Release(pk, dsWRetry)
				})
				add(5, "terminal "+pk.Key, 2, func() { w.r.Fault("write_dropped"); w.w.Release(pk, dsWDrop) })
			}
			if faults && c.FHold {
				add(5, "hold "+pk.Key, 2, func() {
					w.r.Fault("write_held_past_deadline")
					if call.local {
						w.justify(call.plan, one)
					}
					w.w.Release(pk, dsWHold)
				})
			}
			if faults && c.FPanic {
				add(5, "panic "+pk.Key, 1, func() {
					w.r.Fault("session_writer_panic")
					if call.local {
						w.justify(call.plan, one)
					}
					w.w.Release(pk, dsWPanic)
				})
			}
		}
	}
	if w.final {
		return acts
	}
	// producers: one enqueue in flight per channel, plans of a message in order
	for _, ch := range w.chans {
		ch := ch
		if ch.busy {
			continue
		}
		if len(ch.queue) == 0 {
			if w.msgsLeft > 0 && ch.src.state == 1 {
				add(1, fmt.Sprintf("produce %s", ch.id), 10, func() {
					w.newMessage(ch)
					w.startEnqueue(ch, 10*time.Second)
				})
			}
			continue
		}
		switch {
		case ch.src.state == 1:
			add(1, fmt.Sprintf("enqueue %s", ch.id), 14, func() { w.startEnqueue(ch, 10*time.Second) })
			if faults && c.FEnqTO {
				add(5, fmt.Sprintf("enqueue-short %s", ch.id), 2, func() { w.r.Fault("enqueue_short_deadline"); w.startEnqueue(ch, 2*time.Millisecond) })
			}
		case faults && c.FLifecycle:
			add(6, fmt.Sprintf("enqueue-closed %s", ch.id), 1, func() { w.r.Fault("enqueue_while_not_open"); w.startEnqueue(ch, 10*time.Second) })
		}
	}
	// lifecycle
	for _, id := range w.nodeIDs {
		n := w.nodes[id]
		if n.lifeOp != nil {
			continue
		}
		switch n.state {
		case 0:
			add(4, fmt.Sprintf("start n%d", id), 8, func() { w.doStart(n) })
		case 1:
			if faults && c.FLifecycle && w.lifeLeft > 0 {
				add(6, fmt.Sprintf("stop n%d", id), 2, func() { w.lifeLeft--; w.r.Fault("stop"); w.startLife(n, "stop", 20*time.Second) })
				add(6, fmt.Sprintf("stop-short n%d", id), 1, func() { w.lifeLeft--; w.r.Fault("stop_short_budget"); w.startLife(n, "stop", 3*time.Millisecond) })
				add(6, fmt.Sprintf("quiesce n%d", id), 1, func() { w.lifeLeft--; w.r.Fault("quiesce"); w.startLife(n, "quiesce", 20*time.Second) })
				add(6, fmt.Sprintf("quiesce-short n%d", id), 1, func() { w.lifeLeft--; w.r.Fault("quiesce_short_wait"); w.startLife(n, "quiesce", 3*time.Millisecond) })
			}
		case 2, 3:
			add(4, fmt.Sprintf("stop n%d", id), 4, func() { w.startLife(n, "stop", 20*time.Second) })
			if n.state == 3 {
				add(4, fmt.Sprintf("quiesce n%d", id), 2, func() { w.startLife(n, "quiesce", 50*time.Millisecond) })
			}
			if faults && w.lifeLeft > 0 {
				add(6, fmt.Sprintf("start n%d", id), 1, func() { w.lifeLeft--; w.doStart(n) })
			}
		}
	}
	// clients: RECVACK for delivered packets, session churn
	nack := len(w.unacked)
	if nack > 3 {
		nack = 3
	}
	for i := 0; i < nack; i++ {
		a := w.unacked[i]
		weight := 1
		if w.nodes[a.node].state == 3 {
			weight = 8
		}
		add(2, fmt.Sprintf("recvack n%d %s/s%d m%d", a.node, a.uid, a.sid, a.mid), weight, func() {
			_ = w.nodes[a.node].rt.Recvack(context.Background(), Recvack{UID: a.uid, SessionID: a.sid, MessageID: a.mid})
			k := 0
			for _, u := range w.unacked {
				if u != a {
					w.unacked[k] = u
					k++
				}
			}
			w.unacked = w.unacked[:k]
		})
	}
	if faults && c.FChurn {
		for _, s := range w.sessions {
			s := s
			if s.open && w.churnLeft <= 0 {
				continue
			}
			if s.open {
				add(6, fmt.Sprintf("session-close s%d", s.sid), 1, func() {
					w.churnLeft--
					w.r.Fault("session_closed")
					s.open = false
					_ = w.nodes[s.node].rt.SessionClosed(context.Background(), SessionClosed{UID: s.uid, SessionID: s.sid})
					w.dropAcksOf(s.node, s.sid, s.uid)
				})
				add(6, fmt.Sprintf("session-regen s%d", s.sid), 1, func() { w.churnLeft--; w.r.Fault("session_generation_bumped"); s.seq++ })
			} else {
				add(4, fmt.Sprintf("session-reopen s%d", s.sid), 2, func() { s.open = true; s.seq++ })
			}
		}
	}
	// time
	if len(acts) > 0 && (len(w.inflight) > 0 || len(pend) > 0) {
		add(3, "tick 1ms", 2, func() { time.Sleep(time.Millisecond) })
		add(3, "tick 10ms", 1, func() { time.Sleep(10 * time.Millisecond) })
		if faults && (c.AckTTL > 0 || c.FHold) {
			add(3, "tick 3s", 1, func() { w.r.Fault("clock_jump"); time.Sleep(3 * time.Second) })
		}
	}
	return acts
}

// ---- final phase ---------------------------------------------------------------

func (w *dsWorld) plansSettled() bool {
	w.mu.Lock()
	defer w.mu.Unlock()
	for _, p := range w.plans {
		if p.enq == 1 {
			return false
		}
		if p.enq == 2 && !p.ended {
			n := w.nodes[p.src]
			if p.presCalls == 0 && (p.relaxed || n.state == 0 || n.terminals >= n.acceptedTotal) {
				continue // cancelled before it ran, or reported below as never-ran
			}
			return false
		}
	}
	return len(w.inflight) == 0
}

func (w *dsWorld) finalPhase() {
	r := w.r
	w.final = true
	r.Logf("-- final phase: benign drain")
	settle := func(budget int) bool {
		for i := 0; i < budget; i++ {
			simkit.Wait()
			w.sync()
			if r.Failed() {
				return false
			}
			acts := w.collect()
			if len(acts) == 0 {
				if w.plansSettled() {
					return true
				}
				for _, id := range w.nodeIDs {
					// a quiesce or a stop-after-quiesce waits for client acks
					if n := w.nodes[id]; n.state == 3 {
						w.sweepAcks(n)
					}
				}
				time.Sleep(5 * time.Millisecond)
				continue
			}
			sort.SliceStable(acts, func(i, j int) bool {
				if acts[i].Prio != acts[j].Prio {
					return acts[i].Prio < acts[j].Prio
				}
				return acts[i].Key < acts[j].Key
			})
			r.Steps++
			r.Logf("f%d %s", r.Steps, acts[0].Key)
			acts[0].Do()
		}
		return w.plansSettled()
	}
	if !settle(4000) {
		if !r.Failed() {
			r.Probe("final_drain_budget_exhausted")
		}
		return
	}
	// finish lifecycle transitions that are under way so that Stop's own claim is checked
	for _, id := range w.nodeIDs {
		n := w.nodes[id]
		if n.state != 2 && n.state != 3 {
			continue
		}
		if n.state == 3 {
			w.sweepAcks(n)
		}
		w.startLife(n, "stop", 20*time.Second)
		if !settle(2000) || r.Failed() {
			return
		}
	}
	simkit.Wait()
	w.sync()
	if r.Failed() {
		return
	}
	w.mu.Lock()
	defer w.mu.Unlock()
	for _, p := range w.plans {
		w.finalCheckLocked(p)
		if r.Failed() {
			return
		}
	}
	for _, id := range w.nodeIDs {
		n := w.nodes[id]
		for _, k := range []ObservationResult{ObservationResultOK, ObservationResultRetryExhausted, ObservationResultTimeout, ObservationResultCanceled, ObservationResultPanic, ObservationResultError} {
			r.ProbeN("terminal_"+string(k), n.results[k])
		}
	}
}

func (w *dsWorld) sweepAcks(n *dsNode) {
	for _, s := range w.sessions {
		if s.node == n.id {
			_ = n.rt.SessionClosed(context.Background(), SessionClosed{UID: s.uid, SessionID: s.sid})
		}
	}
	w.dropAcksOf(n.id, 0, "")
}

// finalCheckLocked evaluates the lower-bound ("at least") oracles on a plan
// whose processing is over and was not cut short by a deadline or a forced stop.
func (w *dsWorld) finalCheckLocked(p *dsPlan) {
	if p.enq != 2 || p.relaxed {
		return
	}
	tag := fmt.Sprintf("p%d (m%d %s seq %d)", p.id, p.msgID, w.chans[p.chIdx].id, p.seq)
	n := w.nodes[p.src]
	if p.presCalls == 0 {
		if n.genRelax && p.gen == n.gen {
			return
		}
		w.fail("accepted-plan-never-ran", "", tag+": admission succeeded but the plan was never processed although its runtime drained or stopped")
		return
	}
	if !p.ended || p.deadline || !p.answered {
		return
	}
	w.r.Probe("plan_fully_checked")
	for _, k := range simkit.SortedKeys(p.routes) {
		a := p.routes[k]
		if a.mult == 0 {
			continue
		}
		if a.attempts < a.mult {
			w.fail("route-not-pushed", "", fmt.Sprintf("%s: presence resolved route %s %d time(s) but only %d push attempt(s) were made and the plan finished", tag, k, a.mult, a.attempts))
			return
		}
		if a.mult == 1 && a.lastRetry && a.attempts < w.cfg.RetryMax {
			w.fail("retry-abandoned", "", fmt.Sprintf("%s: route %s was left retryable after %d of %d attempts although the plan was neither cancelled nor timed out", tag, k, a.attempts, w.cfg.RetryMax))
			return
		}
	}
	if w.cfg.OfflineObs && p.durable {
		for _, u := range simkit.SortedKeys(p.expectOff) {
			if p.offGot[u] == 0 {
				w.fail("offline-missing", "", fmt.Sprintf("%s: recipient %s had no online route in its resolved target but was never reported offline", tag, u))
				return
			}
		}
	}
}

// ---- teardown ----------------------------------------------------------------------

func (w *dsWorld) teardown() {
	w.w.CloseAll(dsClosed)
	for round := 0; round < 40; round++ {
		simkit.Wait()
		open := false
		for _, id := range w.nodeIDs {
			n := w.nodes[id]
			if n == nil || n.rt == nil {
				continue
			}
			for _, s := range w.sessions {
				if s.node == id {
					_ = n.rt.SessionClosed(context.Background(), SessionClosed{UID: s.uid, SessionID: s.sid})
				}
			}
			ctx, cancel := context.WithTimeout(context.Background(), 2*time.Second)
			err := n.rt.Stop(ctx)
			cancel()
			if err != nil {
				open = true
			}
		}
		w.mu.Lock()
		for _, op := range w.completed {
			delete(w.inflight, op.id)
		}
		w.completed = nil
		busy := len(w.inflight)
		w.mu.Unlock()
		if !open && busy == 0 {
			return
		}
		time.Sleep(50 * time.Millisecond)
	}
	w.r.Infra("teardown: runtimes or client operations did not finish")
}
