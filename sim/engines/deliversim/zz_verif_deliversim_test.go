package channelappend

// deliversim: concurrent world for property C31 (online delivery preserves
// per-channel order and recipient coverage).
//
// One run = one synctest bubble with 1-3 real delivery.Runtime instances (one
// per simulated node, 1-4 plan workers, small queues). Messages are handed to
// the REAL recipient dispatch code of this package (recipient.go: direct
// recipient sets, paged large-channel subscribers, subscriber snapshots,
// message-scoped UIDs) with small recipient batch sizes, so one message is
// normalised, grouped by exact authority target and split into several
// Recipient Delivery Plans which the producer enqueues into the real runtime
// while its workers are busy or parked. Every port call parks at the scheduler:
//
//   SUBS  subscriber page read of the producer (page / error)
//   ENQ   the producer's enqueue of one plan (proceed / short admission deadline)
//   PRES  presence resolver (answer: online routes / none / stale routes /
//         target error / short result / panic)
//   REQ   owner push to another node (deliver / drop / hold past deadline / panic)
//   RSP   its response (deliver / lose after the owner applied the push)
//   WRITE owner-local session write (accepted / retryable / dropped / hold / panic;
//         a route whose (node, session, generation) fence is not current is dropped)
//   OFFL  offline-recipients observer (return / panic)
//
// A push "happens" when the scheduler releases a WRITE with "accepted"; the
// order oracle runs at that instant. All other accounting is by commutative
// counters that port goroutines bump under a lock and the scheduler checks at
// quiescence, so the trace does not depend on goroutine interleaving inside a
// step. Coverage is stated per committed message: the recipient rows of a
// message (after the producer's documented normalisation) must be exactly the
// rows Online Delivery resolves, and each of them is pushed to its resolved
// routes or reported offline once.

import (
	"context"
	"errors"
	"fmt"
	"os"
	"reflect"
	"sort"
	"strings"
	"sync"
	"testing"
	"time"

	"github.com/WuKongIM/WuKongIM/internal/contracts/authority"
	"github.com/WuKongIM/WuKongIM/internal/contracts/onlinedelivery"
	rd "github.com/WuKongIM/WuKongIM/internal/runtime/delivery"
	"github.com/WuKongIM/WuKongIM/internal/verifsim/simkit"
	goruntimeregistry "github.com/WuKongIM/WuKongIM/pkg/goroutine"
)

func TestVerifSimDeliver(t *testing.T) {
	simkit.Main(t, simkit.Engine{
		Name:  "deliversim",
		Props: map[string]simkit.PropFunc{"C31": runDeliverSim, "C41deliver": runDeliverSim},
		Real: []string{"channelappend recipient dispatch (recipient.go: normalisation, authority resolution and grouping, bounded plan packing, paged / snapshot / message-scoped recipient selection, plan enqueue)",
			"delivery.Runtime on every node (admission, channel-sharded ordered plan queue, plan workers, presence/offline/owner grouping, bounded owner concurrency, exact-route retry loop, PushOwner owner-local reserve-write-finish transaction, Stop/Quiesce/Start lifecycle)",
			"delivery.AckTracker behind the runtime", "goroutine registry", "timers via synctest fake clock"},
		Stub: []string{"post-commit caller (one sequential dispatcher per channel)", "subscriber source", "recipient authority resolver",
			"presence resolver", "node-to-node owner push transport (in-process call into the target runtime's PushOwner under the caller's context)", "session writer and session directory", "offline observer", "clients sending RECVACK / closing sessions"},
		Rule: "One run = 1-3 nodes, 1-4 channels each dispatched in sequence order by one source node, 3-12 messages whose recipient rows (1 to ~2.5 x the recipient batch size, duplicates included) are split by the real producer into plans, tape-chosen port outcomes and lifecycle actions. " +
			"Non-trivial = at least one accepted session write AND (at least one fault fired OR two plans were in flight at the same time OR a message was split into several plans). " +
			"For C41deliver the same world is biased to stop scenarios (queues of 1-2 plans, Stop with a generous or an expiring deadline and repeated Stop as ordinary actions, dispatches arriving after a stop began, restart); non-trivial = some Stop began while admitted plans were queued or running.",
		Assumptions: []string{"testing/synctest fake clock and quiescence semantics (go1.26.8)",
			"an owner push that the caller abandoned (deadline, cancellation) never reaches the owner later: late delivery of timed-out RPCs, which would legitimately reorder, is not modelled",
			"each channel has one dispatching node that handles its committed messages one after another",
			"a UID resolves to one authority target within a message",
			"events of a message observed at the ports are attributed to the plan of that message whose presence call came last (plans of one channel are processed one at a time)",
			"scheduling inside one simulator step is the Go runtime's"},
	})
}

const (
	dsClosed = -1
	dsCtx    = -2

	dsPresAnswer = 0
	dsPresPanic  = 1

	dsReqDeliver = 0
	dsReqDrop    = 1
	dsReqHold    = 2
	dsReqPanic   = 3

	dsRspDeliver = 0
	dsRspLose    = 1

	dsWAccept = 0
	dsWRetry  = 1
	dsWDrop   = 2
	dsWHold   = 3
	dsWPanic  = 4

	dsOffDone  = 0
	dsOffPanic = 1

	dsEnqGo    = 0
	dsEnqShort = 1

	dsSubsOK  = 0
	dsSubsErr = 1
)

// dsDumpTrace (DS_DUMP=1) prints the whole trace of every run: debugging aid
// for determinism divergences, never set by the driver.
var dsDumpTrace = os.Getenv("DS_DUMP") != ""

var (
	errDsNet      = errors.New("sim: owner push transport failure")
	errDsPresence = errors.New("sim: presence target failure")
	errDsWrite    = errors.New("sim: session write failure")
	errDsSubs     = errors.New("sim: subscriber page failure")
	errDsAuth     = errors.New("sim: recipient authority lookup failure")
)

type dsCfg struct {
	N          int
	Workers    int
	Queue      int
	Users      int
	Chans      int
	Msgs       int
	Batch      int
	PageSize   int
	OwnerBatch int
	OwnerConc  int
	RetryMax   int
	PlanTO     time.Duration
	AckTTL     time.Duration
	NoFaults   bool
	FPresErr   bool
	FStale     bool
	FWrite     bool
	FHold      bool
	FPanic     bool
	FNet       bool
	FLifecycle bool
	FChurn     bool
	FEnqTO     bool
	FProducer  bool
	OfflineObs bool
	Transient  int
	DupBias    int
	MultiSrc   bool
	BatchAuth  bool
}

func dsDrawCfg(r *simkit.Run) dsCfg {
	tp := r.Tape
	c := dsCfg{}
	c.N = 1 + tp.Weighted([]int{2, 3, 2})
	c.Workers = 1 + tp.Intn(4)
	c.Queue = 1 + tp.Intn(4)
	c.Users = 2 + tp.Intn(7)
	c.Chans = 1 + tp.Intn(4)
	c.Msgs = 3 + tp.Intn(10)
	c.Batch = 1 + tp.Intn(4)
	c.PageSize = 1 + tp.Intn(4)
	c.OwnerBatch = []int{256, 1, 2, 3}[tp.Intn(4)]
	c.OwnerConc = 1 + tp.Intn(3)
	c.RetryMax = 1 + tp.Intn(4)
	c.NoFaults = tp.Intn(4) == 0
	c.OfflineObs = tp.Intn(8) != 0
	c.Transient = tp.Intn(3)
	c.DupBias = tp.Intn(3)
	c.MultiSrc = tp.Intn(2) == 0
	c.BatchAuth = tp.Intn(2) == 0
	c.PlanTO = 5 * time.Second
	if !c.NoFaults {
		c.FPresErr = tp.Intn(2) == 0
		c.FStale = tp.Intn(2) == 0
		c.FWrite = tp.Intn(3) != 0
		c.FPanic = tp.Intn(4) == 0
		c.FNet = tp.Intn(2) == 0
		c.FLifecycle = tp.Intn(3) == 0
		c.FChurn = tp.Intn(3) == 0
		c.FEnqTO = tp.Intn(4) == 0
		c.FProducer = tp.Intn(4) == 0
		if tp.Intn(3) == 0 {
			c.PlanTO = 40 * time.Millisecond
			c.FHold = true
		}
		if tp.Intn(4) == 0 {
			c.AckTTL = 2 * time.Second
		}
	}
	if r.Property == "C41deliver" {
		// stop scenarios are the workload here: small queues so that plans are
		// queued and enqueues block when a stop begins, lifecycle always on
		c.Queue = 1 + tp.Intn(2)
		c.Workers = 1 + tp.Intn(2)
		c.FLifecycle = true
		c.FChurn = false
	}
	return c
}

type dsSession struct {
	uid   string
	node  uint64
	sid   uint64
	boot  uint64
	seq   uint64
	dev   string
	flag  uint8
	level uint8
	open  bool
}

func (s *dsSession) route() onlinedelivery.Route {
	return onlinedelivery.Route{UID: s.uid, OwnerNodeID: s.node, OwnerBootID: s.boot, OwnerSeq: s.seq, SessionID: s.sid,
		DeviceID: s.dev, DeviceFlag: s.flag, DeviceLevel: s.level}
}

func dsRouteKey(r onlinedelivery.Route) string {
	return fmt.Sprintf("%s@n%d/s%d/g%d.%d/%s.%d.%d", r.UID, r.OwnerNodeID, r.SessionID, r.OwnerBootID, r.OwnerSeq, r.DeviceID, r.DeviceFlag, r.DeviceLevel)
}

func dsRouteKeys(rs []onlinedelivery.Route) string {
	ks := make([]string, len(rs))
	for i, r := range rs {
		ks[i] = fmt.Sprintf("%s@s%d.%d", r.UID, r.SessionID, r.OwnerSeq)
	}
	return "[" + strings.Join(ks, ",") + "]"
}

func dsTargetRows(ts []onlinedelivery.RecipientTargetBatch) string {
	parts := []string{}
	for _, tg := range ts {
		us := []string{}
		for _, rc := range tg.Recipients {
			us = append(us, rc.UID)
		}
		parts = append(parts, fmt.Sprintf("t%d%v", tg.Target.HashSlot, us))
	}
	return strings.Join(parts, "")
}

func dsCloneTargets(ts []onlinedelivery.RecipientTargetBatch) []onlinedelivery.RecipientTargetBatch {
	out := make([]onlinedelivery.RecipientTargetBatch, len(ts))
	for i, tg := range ts {
		out[i] = tg.Clone()
	}
	return out
}

type dsRouteAcct struct {
	route      onlinedelivery.Route
	mult       int // times presence resolved this exact route for the plan (not suppressed)
	suppressed bool
	attempts   int // source side: local session write calls, or appearances in owner pushes sent
	just       int // retryable / failed outcomes that justify one more attempt
	delivered  int // owner pushes carrying the route that reached the owner
	rwrites    int // session write calls at a remote owner
	accepted   int
	lostResp   int // delivered owner pushes whose outcome never reached the sender (a repeat is then legitimate)
	lastRetry  bool
	unknown    bool // never resolved by presence for this plan
}

// dsMsg is one committed message handed to the real recipient dispatch.
type dsMsg struct {
	idx     int
	chIdx   int
	src     uint64
	ev      CommittedEnvelope
	durable bool
	seq     uint64
	msgID   uint64
	entry   int            // 0 direct set, 1 paged large channel, 2 subscriber snapshot, 3 message-scoped uids
	raw     []Recipient    // rows as the caller supplied them
	rows    map[string]int // normalised recipient rows the message must cover (uid -> multiplicity)
	authErr string         // uid whose authority lookup fails ("" = none)

	plans       []*dsPlan // in the order the producer submitted them
	cur         *dsPlan   // plan whose presence call came last
	dispatched  bool
	dispatchErr error
	presRows    map[string]int // rows Online Delivery resolved (presence arrival snapshots)
	bad         map[string]bool
	finalLogged bool
}

type dsPlan struct {
	msg  *dsMsg
	ord  int
	src  uint64
	gen  int
	snap []onlinedelivery.RecipientTargetBatch // deep copy taken when the producer submitted the plan
	mode onlinedelivery.Mode
	enq  int // 1 submitted, 2 accepted, 3 rejected
	err  error

	enqLogged bool
	presCalls int
	seen      []onlinedelivery.RecipientTargetBatch // deep copy of what presence was asked
	answered  bool
	altered   bool
	routes    map[string]*dsRouteAcct
	expectOff map[string]bool
	offCalls  int
	offGot    map[string]int
	bad       map[string]bool

	ended         bool
	endedObserved bool
	deadline      bool
	relaxed       bool
	// cancelSeen: a port call of this plan saw its context cancelled while waiting
	cancelSeen bool
	// invokedState: harness view of the node (0 stopped, 1 open, 2 closing, 3
	// quiescing) at the step the enqueue call was made; invokedGen its generation
	invokedState int
	invokedGen   int
}

func (p *dsPlan) name() string { return fmt.Sprintf("m%d#%d", p.msg.idx, p.ord) }

type dsCall struct {
	kind   string
	node   uint64
	to     uint64
	msg    *dsMsg
	plan   *dsPlan
	route  onlinedelivery.Route
	routes []onlinedelivery.Route
	answer []rd.TargetPresenceResult
	local  bool
}

type dsOp struct {
	id      int
	kind    string // dispatch, stop, quiesce
	node    *dsNode
	msg     *dsMsg
	err     error
	timeout time.Duration
}

type dsNode struct {
	id        uint64
	rt        *rd.Runtime
	gen       int
	state     int // 0 stopped, 1 open, 2 closing (stop), 3 quiescing
	lifeOp    *dsOp
	terminals int
	// acceptedTotal counts admitted plans over all generations; the runtime
	// emits exactly one terminal observation per admitted plan
	acceptedTotal int
	results       map[rd.ObservationResult]int
	genRelax      bool
	// expiredStop[gen]: a Stop call of that generation returned its caller's deadline error
	expiredStop map[int]bool
}

type dsChan struct {
	idx  int
	id   string
	src  *dsNode
	seq  uint64
	busy bool
}

type dsAck struct {
	node uint64
	uid  string
	sid  uint64
	mid  uint64
}

type dsWorld struct {
	r   *simkit.Run
	w   *simkit.World
	cfg dsCfg

	nodes    map[uint64]*dsNode
	nodeIDs  []uint64
	users    []string
	sessions []*dsSession
	chans    []*dsChan
	msgs     []*dsMsg
	msgsLeft int
	nextMsg  uint64
	nextOp   int

	mu        sync.Mutex
	completed []*dsOp
	inflight  map[int]*dsOp
	orphans   map[string]bool // observations that fit no plan

	seen     map[*simkit.Parked]bool
	lastSeq  map[string]uint64
	unacked  []dsAck
	final    bool
	accepted int
	overlap  bool
	split    bool
	// remaining fault budgets (a run stays mostly about delivering plans)
	lifeLeft  int
	churnLeft int
	// c41: the run checks C41deliver (stop semantics) instead of C31
	c41     bool
	foreign map[string]bool
	// stopOverWork: some Stop began while admitted plans were queued or running
	stopOverWork bool
}

// ---- observer -----------------------------------------------------------------

type dsObserver struct {
	w *dsWorld
	n *dsNode
}

func (o *dsObserver) ObservePlanAdmission(rd.PlanAdmissionEvent) {}
func (o *dsObserver) ObserveOwnerPush(rd.OwnerPushEvent)         {}
func (o *dsObserver) SetRuntimePressure(rd.RuntimePressureEvent) {}
func (o *dsObserver) ObservePlanTerminal(event rd.PlanTerminalEvent) {
	o.w.mu.Lock()
	o.n.terminals++
	o.n.results[event.Result]++
	o.w.mu.Unlock()
}

// ---- lookup and accounting ----------------------------------------------------

func (w *dsWorld) msgByTag(tag string) *dsMsg {
	var id int
	if _, err := fmt.Sscanf(tag, "m%d", &id); err != nil || id < 0 || id >= len(w.msgs) {
		return nil
	}
	return w.msgs[id]
}

// planOfEvent attributes a port observation to the plan of its message that
// is being processed (caller holds w.mu).
func (w *dsWorld) planOfEventLocked(ev CommittedEnvelope) *dsPlan {
	m := w.msgByTag(ev.Topic)
	if m == nil {
		return nil
	}
	return m.cur
}

func (w *dsWorld) acct(p *dsPlan, r onlinedelivery.Route) *dsRouteAcct {
	k := dsRouteKey(r)
	a := p.routes[k]
	if a == nil {
		a = &dsRouteAcct{route: r, unknown: true}
		p.routes[k] = a
	}
	return a
}

func (w *dsWorld) justify(p *dsPlan, routes []onlinedelivery.Route) {
	if p == nil {
		return
	}
	w.mu.Lock()
	for _, r := range routes {
		a := w.acct(p, r)
		a.just++
		a.lastRetry = true
	}
	w.mu.Unlock()
}

func (w *dsWorld) settled(p *dsPlan, routes []onlinedelivery.Route) {
	if p == nil {
		return
	}
	w.mu.Lock()
	for _, r := range routes {
		w.acct(p, r).lastRetry = false
	}
	w.mu.Unlock()
}

func (w *dsWorld) orphan(format string, args ...any) {
	w.mu.Lock()
	w.orphans[fmt.Sprintf(format, args...)] = true
	w.mu.Unlock()
}

func dsSameEvent(a, b CommittedEnvelope) bool {
	return a.MessageID == b.MessageID && a.MessageSeq == b.MessageSeq && a.ChannelID == b.ChannelID && a.ChannelType == b.ChannelType &&
		a.FromUID == b.FromUID && a.SenderNodeID == b.SenderNodeID && a.SenderSessionID == b.SenderSessionID && a.Topic == b.Topic
}

// ---- producer-side ports ---------------------------------------------------------

type dsAuthResolver struct {
	w *dsWorld
	m *dsMsg
}

func (a *dsAuthResolver) target(uid string) (RecipientAuthorityTarget, error) {
	if uid == a.m.authErr {
		return RecipientAuthorityTarget{}, errDsAuth
	}
	h := 0
	for i := 0; i < len(uid); i++ {
		h = h*31 + int(uid[i])
	}
	slot := uint16(h % 3)
	return authority.Target{HashSlot: slot, SlotID: uint32(slot) + 1, LeaderNodeID: uint64(1 + int(slot)%a.w.cfg.N), LeaderTerm: 3, ConfigEpoch: 2, RouteRevision: 9,
		AuthorityEpoch: uint64(a.m.idx + 1)}, nil
}

func (a *dsAuthResolver) ResolveRecipientAuthority(_ context.Context, uid string) (RecipientAuthorityTarget, error) {
	return a.target(uid)
}

type dsBatchAuthResolver struct{ *dsAuthResolver }

func (a dsBatchAuthResolver) ResolveRecipientAuthorities(_ context.Context, uids []string) ([]RecipientAuthorityResult, error) {
	out := make([]RecipientAuthorityResult, len(uids))
	for i, u := range uids {
		out[i].Target, out[i].Err = a.target(u)
	}
	return out, nil
}

type dsSubscribers struct {
	w *dsWorld
	n *dsNode
	m *dsMsg
}

func (s *dsSubscribers) NextSubscriberPage(ctx context.Context, req SubscriberPageRequest) (SubscriberPage, error) {
	start := 0
	if req.Cursor != "" {
		fmt.Sscanf(req.Cursor, "c%d", &start)
	}
	c := &dsCall{kind: "subs", node: s.n.id, msg: s.m}
	if d := s.w.w.ParkCtx(ctx.Done(), fmt.Sprintf("SUBS n%d m%d from=%d limit=%d", s.n.id, s.m.idx, start, req.Limit), c, dsCtx); d != dsSubsOK {
		return SubscriberPage{}, errDsSubs
	}
	end := start + req.Limit
	if req.Limit <= 0 || end > len(s.m.raw) || end < start {
		end = len(s.m.raw)
	}
	if start > len(s.m.raw) {
		start = len(s.m.raw)
	}
	page := SubscriberPage{Recipients: append([]Recipient(nil), s.m.raw[start:end]...), Done: end >= len(s.m.raw)}
	if !page.Done {
		page.Cursor = fmt.Sprintf("c%d", end)
	}
	return page, nil
}

// dsEnqueuer stands between the real producer and the real runtime: it keeps
// a private copy of every plan as submitted and lets the scheduler decide when
// the enqueue proceeds. The runtime receives the producer's own plan value.
type dsEnqueuer struct {
	w *dsWorld
	n *dsNode
	m *dsMsg
}

func (e *dsEnqueuer) EnqueueRecipientDeliveryPlan(ctx context.Context, plan onlinedelivery.RecipientDeliveryPlan) error {
	w, m := e.w, e.m
	p := &dsPlan{msg: m, src: e.n.id, snap: dsCloneTargets(plan.Targets), mode: plan.Mode, enq: 1,
		routes: map[string]*dsRouteAcct{}, expectOff: map[string]bool{}, offGot: map[string]int{}, bad: map[string]bool{}}
	w.mu.Lock()
	p.ord = len(m.plans)
	m.plans = append(m.plans, p)
	if !dsSameEvent(plan.Event, m.ev) {
		m.bad[fmt.Sprintf("plan %s carries another event (msg %d seq %d)", p.name(), plan.Event.MessageID, plan.Event.MessageSeq)] = true
	}
	if (plan.Mode == onlinedelivery.ModeDurable) != m.durable {
		m.bad[fmt.Sprintf("plan %s has mode %d for a message with durable=%v", p.name(), plan.Mode, m.durable)] = true
	}
	if n := plan.RecipientCount(); n == 0 || n > w.cfg.Batch {
		m.bad[fmt.Sprintf("plan %s carries %d recipient rows, batch bound %d", p.name(), n, w.cfg.Batch)] = true
	}
	w.mu.Unlock()
	c := &dsCall{kind: "enq", node: e.n.id, msg: m, plan: p}
	d := w.w.ParkCtx(ctx.Done(), fmt.Sprintf("ENQ n%d %s %s", e.n.id, p.name(), dsTargetRows(p.snap)), c, dsCtx)
	ectx := ctx
	switch d {
	case dsEnqGo:
	case dsEnqShort:
		var cancel context.CancelFunc
		ectx, cancel = context.WithTimeout(ctx, 2*time.Millisecond+time.Duration(501+m.idx*16+p.ord))
		defer cancel()
	default:
		err := ctx.Err()
		if err == nil {
			err = rd.ErrRuntimeClosed
		}
		w.mu.Lock()
		p.enq, p.err = 3, err
		w.mu.Unlock()
		return err
	}
	err := e.n.rt.EnqueueRecipientDeliveryPlan(ectx, plan)
	w.mu.Lock()
	if err == nil {
		p.enq = 2
		e.n.acceptedTotal++
	} else {
		p.enq, p.err = 3, err
	}
	w.mu.Unlock()
	return err
}

// ---- runtime-side ports ------------------------------------------------------------

type dsPresence struct {
	w *dsWorld
	n *dsNode
}

func (s *dsPresence) EndpointsByTargets(ctx context.Context, targets []onlinedelivery.RecipientTargetBatch) []rd.TargetPresenceResult {
	w := s.w
	fail := func() []rd.TargetPresenceResult {
		out := make([]rd.TargetPresenceResult, len(targets))
		for i := range out {
			out[i].Err = errDsPresence
		}
		return out
	}
	seen := dsCloneTargets(targets)
	var m *dsMsg
	if len(targets) > 0 {
		if id := int(targets[0].Target.AuthorityEpoch) - 1; id >= 0 && id < len(w.msgs) {
			m = w.msgs[id]
		}
	}
	if m == nil {
		w.orphan("presence call on n%d with targets %s of no known message", s.n.id, dsTargetRows(seen))
		return fail()
	}
	w.mu.Lock()
	// the plan: an admitted, not yet processed plan of this message, by content
	// first, else the oldest one (plans of one message are processed in order)
	// Only plans admitted by the node's CURRENT generation can still be
	// processed: a restart happens after the previous generation's workers have
	// exited, and a plan that generation cancelled before it ran (expired Stop)
	// never reaches presence. Without this, two plans of one message with equal
	// content (duplicate rows, batch size 1) admitted on either side of a
	// restart would be confused.
	var p *dsPlan
	gen := s.n.gen
	for _, sameGen := range []bool{true, false} {
		for _, q := range m.plans {
			if q.enq != 3 && q.presCalls == 0 && (!sameGen || q.gen == gen) && reflect.DeepEqual(q.snap, seen) {
				p = q
				break
			}
		}
		if p == nil {
			for _, q := range m.plans {
				if q.enq != 3 && q.presCalls == 0 && (!sameGen || q.gen == gen) {
					p = q
					break
				}
			}
		}
		if p != nil {
			break
		}
	}
	if p == nil {
		for _, q := range m.plans {
			if q.enq != 3 && reflect.DeepEqual(q.snap, seen) {
				p = q
				break
			}
		}
	}
	if p == nil {
		w.mu.Unlock()
		w.orphan("presence call on n%d for message m%d with targets %s although every admitted plan of the message was already processed", s.n.id, m.idx, dsTargetRows(seen))
		return fail()
	}
	p.presCalls++
	if p.presCalls == 1 {
		p.seen = seen
		m.cur = p
		for _, tg := range seen {
			for _, rc := range tg.Recipients {
				m.presRows[rc.UID]++
			}
		}
		if !reflect.DeepEqual(p.snap, seen) {
			p.altered = true
		}
	}
	if p.src != s.n.id {
		p.bad[fmt.Sprintf("presence for plan %s resolved on n%d, admitted on n%d", p.name(), s.n.id, p.src)] = true
	}
	w.mu.Unlock()
	context.AfterFunc(ctx, func() {
		w.mu.Lock()
		p.ended = true
		if errors.Is(ctx.Err(), context.DeadlineExceeded) {
			p.deadline = true
		}
		w.mu.Unlock()
	})
	c := &dsCall{kind: "pres", node: s.n.id, msg: m, plan: p}
	d := w.w.ParkCtx(ctx.Done(), fmt.Sprintf("PRES n%d %s %s", s.n.id, p.name(), dsTargetRows(seen)), c, dsCtx)
	switch d {
	case dsPresAnswer:
		return c.answer
	case dsPresPanic:
		panic("sim: presence resolver panic")
	case dsCtx:
		w.noteCtxEnd(p, ctx)
	}
	return fail()
}

type dsRemote struct {
	w *dsWorld
	n *dsNode
}

func (s *dsRemote) PushOwner(ctx context.Context, push onlinedelivery.OwnerPush) (onlinedelivery.OwnerPushResult, error) {
	w := s.w
	routes := append([]onlinedelivery.Route(nil), push.Routes...)
	w.mu.Lock()
	p := w.planOfEventLocked(push.Event)
	if p == nil {
		w.mu.Unlock()
		w.orphan("owner push from n%d to n%d %s for event tag %q that belongs to no plan in progress", s.n.id, push.OwnerNodeID, dsRouteKeys(routes), push.Event.Topic)
		return onlinedelivery.OwnerPushResult{}, errDsNet
	}
	if p.src != s.n.id {
		p.bad[fmt.Sprintf("owner push for plan %s sent by n%d, admitted on n%d", p.name(), s.n.id, p.src)] = true
	}
	if push.OwnerNodeID == s.n.id {
		p.bad[fmt.Sprintf("n%d sent a remote owner push to itself", s.n.id)] = true
	}
	if !dsSameEvent(push.Event, p.msg.ev) {
		p.bad[fmt.Sprintf("owner push for plan %s carries another event (msg %d seq %d)", p.name(), push.Event.MessageID, push.Event.MessageSeq)] = true
	}
	for _, r := range routes {
		a := w.acct(p, r)
		a.attempts++
		if r.OwnerNodeID != push.OwnerNodeID {
			p.bad[fmt.Sprintf("route %s sent in an owner push to n%d", dsRouteKey(r), push.OwnerNodeID)] = true
		}
	}
	w.mu.Unlock()
	key := fmt.Sprintf("REQ n%d->n%d %s %s", s.n.id, push.OwnerNodeID, p.name(), dsRouteKeys(routes))
	c := &dsCall{kind: "req", node: s.n.id, to: push.OwnerNodeID, plan: p, routes: routes}
	switch d := w.w.ParkCtx(ctx.Done(), key, c, dsCtx); d {
	case dsReqDeliver:
	case dsReqHold:
		<-ctx.Done()
		w.noteCtxEnd(p, ctx)
		w.justify(p, routes)
		return onlinedelivery.OwnerPushResult{}, ctx.Err()
	case dsReqPanic:
		w.justify(p, routes)
		panic("sim: remote owner pusher panic")
	default:
		if d == dsCtx {
			w.noteCtxEnd(p, ctx)
		}
		w.justify(p, routes)
		return onlinedelivery.OwnerPushResult{}, errDsNet
	}
	tn := w.nodes[push.OwnerNodeID]
	if tn == nil {
		w.justify(p, routes)
		return onlinedelivery.OwnerPushResult{}, errDsNet
	}
	w.mu.Lock()
	for _, r := range routes {
		w.acct(p, r).delivered++
	}
	w.mu.Unlock()
	res, err := tn.rt.PushOwner(ctx, push)
	sum := "err"
	if err == nil {
		sum = fmt.Sprintf("acc=%s retry=%s drop=%s", dsRouteKeys(res.Accepted), dsRouteKeys(res.Retryable), dsRouteKeys(res.Dropped))
	}
	c2 := &dsCall{kind: "rsp", node: push.OwnerNodeID, to: s.n.id, plan: p, routes: routes}
	d2 := w.w.ParkCtx(ctx.Done(), fmt.Sprintf("RSP n%d->n%d %s %s => %s", push.OwnerNodeID, s.n.id, p.name(), dsRouteKeys(routes), sum), c2, dsCtx)
	if d2 != dsRspDeliver || err != nil {
		if d2 == dsCtx {
			w.noteCtxEnd(p, ctx)
		}
		w.mu.Lock()
		for _, r := range routes {
			w.acct(p, r).lostResp++
		}
		w.mu.Unlock()
		w.justify(p, routes)
		if err != nil && d2 == dsRspDeliver {
			return res, err
		}
		return onlinedelivery.OwnerPushResult{}, errDsNet
	}
	w.settled(p, res.Accepted)
	w.settled(p, res.Dropped)
	w.justify(p, res.Retryable)
	return res, nil
}

type dsWriter struct {
	w *dsWorld
	n *dsNode
}

func (s *dsWriter) WriteSession(ctx context.Context, write rd.LocalSessionWrite) rd.SessionWriteResult {
	w := s.w
	r := write.Route
	w.mu.Lock()
	p := w.planOfEventLocked(write.Event)
	if p == nil {
		w.mu.Unlock()
		w.orphan("session write on n%d route %s for event tag %q that belongs to no plan in progress", s.n.id, dsRouteKey(r), write.Event.Topic)
		return rd.SessionWriteResult{Disposition: rd.SessionWriteDropped, Err: errDsWrite}
	}
	local := p.src == s.n.id
	a := w.acct(p, r)
	if local {
		a.attempts++
	} else {
		a.rwrites++
	}
	if r.OwnerNodeID != s.n.id {
		p.bad[fmt.Sprintf("route %s written on n%d", dsRouteKey(r), s.n.id)] = true
	}
	if !dsSameEvent(write.Event, p.msg.ev) {
		p.bad[fmt.Sprintf("session write for plan %s carries another event (msg %d seq %d)", p.name(), write.Event.MessageID, write.Event.MessageSeq)] = true
	}
	w.mu.Unlock()
	one := []onlinedelivery.Route{r}
	key := fmt.Sprintf("WRITE n%d %s id%d q%d %s", s.n.id, p.name(), p.msg.msgID, write.Event.MessageSeq, dsRouteKey(r))
	c := &dsCall{kind: "write", node: s.n.id, plan: p, route: r, local: local}
	switch d := w.w.ParkCtx(ctx.Done(), key, c, dsCtx); d {
	case dsWAccept:
		return rd.SessionWriteResult{Disposition: rd.SessionWriteAccepted}
	case dsWRetry:
		return rd.SessionWriteResult{Disposition: rd.SessionWriteRetryable, Err: errDsWrite}
	case dsWHold:
		<-ctx.Done()
		w.noteCtxEnd(p, ctx)
		return rd.SessionWriteResult{Disposition: rd.SessionWriteRetryable, Err: ctx.Err()}
	case dsWPanic:
		panic("sim: session writer panic")
	case dsCtx:
		w.noteCtxEnd(p, ctx)
		if local {
			w.justify(p, one)
		}
		return rd.SessionWriteResult{Disposition: rd.SessionWriteRetryable, Err: ctx.Err()}
	}
	if local {
		w.settled(p, one)
	}
	return rd.SessionWriteResult{Disposition: rd.SessionWriteDropped, Err: errDsWrite}
}

type dsOffline struct {
	w *dsWorld
	n *dsNode
}

func (s *dsOffline) ObserveOfflineRecipients(ctx context.Context, ev rd.OfflineRecipientsEvent) {
	w := s.w
	uids := append([]string(nil), ev.UIDs...)
	w.mu.Lock()
	p := w.planOfEventLocked(ev.Event)
	if p == nil {
		w.mu.Unlock()
		w.orphan("offline batch %v on n%d for event tag %q that belongs to no plan in progress", uids, s.n.id, ev.Event.Topic)
		return
	}
	p.offCalls++
	for _, u := range uids {
		p.offGot[u]++
	}
	if p.src != s.n.id {
		p.bad[fmt.Sprintf("offline batch for plan %s reported on n%d, admitted on n%d", p.name(), s.n.id, p.src)] = true
	}
	w.mu.Unlock()
	sort.Strings(uids)
	c := &dsCall{kind: "offl", node: s.n.id, plan: p}
	switch d := w.w.ParkCtx(ctx.Done(), fmt.Sprintf("OFFL n%d %s %v", s.n.id, p.name(), uids), c, dsCtx); d {
	case dsOffPanic:
		panic("sim: offline observer panic")
	case dsCtx:
		w.noteCtxEnd(p, ctx)
	}
}

// ---- world construction -----------------------------------------------------

func runDeliverSim(t *testing.T, r *simkit.Run) {
	c := dsDrawCfg(r)
	r.Config = map[string]any{"N": c.N, "workers": c.Workers, "queue": c.Queue, "users": c.Users, "chans": c.Chans, "msgs": c.Msgs,
		"batch": c.Batch, "page": c.PageSize, "owner_batch": c.OwnerBatch, "owner_conc": c.OwnerConc, "retry_max": c.RetryMax, "plan_to_ms": c.PlanTO.Milliseconds(),
		"nofaults": c.NoFaults, "pres_err": c.FPresErr, "stale": c.FStale, "write": c.FWrite, "hold": c.FHold, "panic": c.FPanic, "net": c.FNet,
		"lifecycle": c.FLifecycle, "churn": c.FChurn, "enq_to": c.FEnqTO, "producer": c.FProducer, "offline_obs": c.OfflineObs, "ack_ttl_ms": c.AckTTL.Milliseconds(), "batch_auth": c.BatchAuth}
	simkit.Bubble(t, r, func() {
		w := &dsWorld{r: r, w: simkit.NewWorld(r), cfg: c, nodes: map[uint64]*dsNode{}, inflight: map[int]*dsOp{}, orphans: map[string]bool{},
			seen: map[*simkit.Parked]bool{}, lastSeq: map[string]uint64{}, msgsLeft: c.Msgs, nextMsg: 1000}
		defer w.teardown()
		w.lifeLeft = 1 + r.Tape.Intn(4)
		w.churnLeft = 1 + r.Tape.Intn(5)
		w.foreign = map[string]bool{}
		if r.Property == "C41deliver" {
			w.c41 = true
			w.lifeLeft += 2
		}
		w.build()
		if r.InfraErr != "" {
			return
		}
		s := &simkit.Scheduler{R: r, MaxSteps: 150 + c.Msgs*120, Collect: w.collect, Invariant: w.sync,
			StepTime: func() time.Duration {
				if r.Tape.Chance(1, 8) {
					return 0
				}
				return 200 * time.Microsecond
			},
			Done: w.quiet,
			Idle: func() time.Duration {
				if w.quiet() {
					return 0
				}
				return 5 * time.Millisecond
			}}
		s.Run()
		if !r.Failed() && r.InfraErr == "" {
			w.finalPhase()
		}
		nf := 0
		for _, v := range r.Faults {
			nf += v
		}
		r.Nontrivial = w.accepted > 0 && (nf > 0 || w.overlap || w.split)
		if w.c41 {
			r.Nontrivial = w.stopOverWork
		}
		if dsDumpTrace {
			for _, l := range r.Trace() {
				fmt.Println(l)
			}
		}
	})
}

func (w *dsWorld) build() {
	c := w.cfg
	tp := w.r.Tape
	for i := 1; i <= c.N; i++ {
		n := &dsNode{id: uint64(i), results: map[rd.ObservationResult]int{}, expiredStop: map[int]bool{}}
		opts := rd.RuntimeOptions{
			LocalNodeID: n.id, Presence: &dsPresence{w, n}, RemoteOwnerPusher: &dsRemote{w, n}, SessionWriter: &dsWriter{w, n},
			// durations carry odd nanosecond offsets so that no two timers of the
			// world fall on the same fake instant (a tie is resolved by the Go
			// runtime, not by the tape)
			QueueSize: c.Queue, Workers: c.Workers, PlanTimeout: c.PlanTO + 777, OwnerPushBatchSize: c.OwnerBatch, OwnerConcurrency: c.OwnerConc,
			RetryMaxAttempts: c.RetryMax, RetryInitialBackoff: time.Millisecond + 3, RetryMaxBackoff: 4*time.Millisecond + 13,
			PendingAckTTL: c.AckTTL, Observer: &dsObserver{w, n}, Goroutines: goruntimeregistry.New(),
		}
		if c.OfflineObs {
			opts.OfflineRecipientsObserver = &dsOffline{w, n}
		}
		n.rt = rd.NewRuntime(opts)
		if err := n.rt.Start(context.Background()); err != nil {
			w.r.Infra("start n%d: %v", i, err)
			return
		}
		n.state, n.gen = 1, 1
		w.nodes[n.id] = n
		w.nodeIDs = append(w.nodeIDs, n.id)
	}
	sid := uint64(100)
	for u := 0; u < c.Users; u++ {
		uid := fmt.Sprintf("u%d", u)
		w.users = append(w.users, uid)
		ns := tp.Weighted([]int{4, 3, 1, 2}) // 1,2,3 sessions or none
		if ns == 3 {
			ns = -1
		}
		for k := 0; k <= ns; k++ {
			sid++
			w.sessions = append(w.sessions, &dsSession{uid: uid, node: w.nodeIDs[tp.Intn(len(w.nodeIDs))], sid: sid, boot: 7, seq: 2,
				dev: fmt.Sprintf("d%d", sid), flag: uint8(k), level: 1, open: true})
		}
	}
	for i := 0; i < c.Chans; i++ {
		src := w.nodes[1]
		if c.MultiSrc {
			src = w.nodes[w.nodeIDs[tp.Intn(len(w.nodeIDs))]]
		}
		w.chans = append(w.chans, &dsChan{idx: i, id: fmt.Sprintf("g%d", i), src: src})
	}
	parts := []string{}
	for _, s := range w.sessions {
		parts = append(parts, fmt.Sprintf("%s@n%d/s%d", s.uid, s.node, s.sid))
	}
	srcs := []string{}
	for _, ch := range w.chans {
		srcs = append(srcs, fmt.Sprintf("%s<-n%d", ch.id, ch.src.id))
	}
	w.r.Logf("world: sessions=%v channels=%v", parts, srcs)
}

func (w *dsWorld) sessionsOf(uid string) []*dsSession {
	var out []*dsSession
	for _, s := range w.sessions {
		if s.uid == uid {
			out = append(out, s)
		}
	}
	return out
}

func (w *dsWorld) sessionCurrent(node uint64, r onlinedelivery.Route) bool {
	for _, s := range w.sessions {
		if s.node == node && s.sid == r.SessionID {
			return s.open && s.uid == r.UID && s.boot == r.OwnerBootID && s.seq == r.OwnerSeq
		}
	}
	return false
}

// newMessage draws one committed message and its recipient rows: between one
// row and about 2.5 times the recipient batch size, duplicates included.
func (w *dsWorld) newMessage(ch *dsChan, faults bool) *dsMsg {
	tp := w.r.Tape
	c := w.cfg
	w.msgsLeft--
	w.nextMsg++
	m := &dsMsg{idx: len(w.msgs), chIdx: ch.idx, src: ch.src.id, msgID: w.nextMsg, rows: map[string]int{}, presRows: map[string]int{}, bad: map[string]bool{}}
	m.durable = !(c.Transient > 0 && tp.Chance(c.Transient, 8))
	m.ev = CommittedEnvelope{MessageID: w.nextMsg, ChannelID: ch.id, ChannelType: 2, ClientMsgNo: fmt.Sprintf("c%d", w.nextMsg), Payload: []byte("x"),
		Topic: fmt.Sprintf("m%d", m.idx)}
	if m.durable {
		ch.seq++
		m.ev.MessageSeq = ch.seq
		m.seq = ch.seq
	}
	from := tp.Intn(c.Users + 1)
	if from < c.Users {
		m.ev.FromUID = w.users[from]
		if ss := w.sessionsOf(m.ev.FromUID); len(ss) > 0 && tp.Intn(3) != 0 {
			s := ss[tp.Intn(len(ss))]
			m.ev.SenderNodeID, m.ev.SenderSessionID = s.node, s.sid
		}
	} else {
		m.ev.FromUID = "sys"
	}
	want := 1 + tp.Intn(2*c.Batch+c.Batch/2+1)
	for len(m.raw) < want {
		u := w.users[tp.Intn(c.Users)]
		if m.rows[u] > 0 && !(c.DupBias > 0 && tp.Chance(c.DupBias, 6)) {
			// a user already present: usually pick the next user not yet present
			found := false
			for _, o := range w.users {
				if m.rows[o] == 0 {
					u, found = o, true
					break
				}
			}
			if !found && c.DupBias == 0 {
				break
			}
		}
		m.rows[u]++
		uid := u
		if tp.Chance(1, 12) {
			uid = " " + u + " " // the producer trims recipient uids
			w.r.Probe("recipient_uid_needs_trim")
		}
		m.raw = append(m.raw, Recipient{UID: uid, JoinSeq: 1})
		if tp.Chance(1, 16) {
			m.raw = append(m.raw, Recipient{UID: " "}) // blank rows are dropped by the producer
			w.r.Probe("blank_recipient_row")
		}
	}
	m.entry = tp.Weighted([]int{4, 3, 2, 1})
	if m.entry == 3 {
		for _, rc := range m.raw {
			m.ev.MessageScopedUIDs = append(m.ev.MessageScopedUIDs, rc.UID)
		}
	}
	if faults && c.FProducer && tp.Chance(1, 6) {
		us := simkit.SortedKeys(m.rows)
		m.authErr = us[tp.Intn(len(us))]
		w.r.Fault("recipient_authority_lookup_error")
	}
	w.msgs = append(w.msgs, m)
	rows := []string{}
	for _, rc := range m.raw {
		rows = append(rows, fmt.Sprintf("%q", rc.UID))
	}
	w.r.Logf("  message m%d id=%d on %s seq=%d durable=%v from=%s sender=n%d/s%d entry=%d rows=%v autherr=%q", m.idx, m.msgID, ch.id, m.seq, m.durable,
		m.ev.FromUID, m.ev.SenderNodeID, m.ev.SenderSessionID, m.entry, rows, m.authErr)
	return m
}

// ---- client operations --------------------------------------------------------

func (w *dsWorld) startOp(op *dsOp, run func() error) {
	w.nextOp++
	op.id = w.nextOp
	op.timeout += time.Duration(op.id*37 + 11) // unique sub-microsecond skew per operation deadline
	w.inflight[op.id] = op
	go func() {
		op.err = run()
		w.mu.Lock()
		w.completed = append(w.completed, op)
		w.mu.Unlock()
	}()
}

// startDispatch hands one committed message to the real recipient dispatch.
func (w *dsWorld) startDispatch(ch *dsChan, m *dsMsg) {
	ch.busy = true
	n := ch.src
	c := w.cfg
	base := &dsAuthResolver{w: w, m: m}
	var resolver RecipientAuthorityResolver = base
	if c.BatchAuth {
		resolver = dsBatchAuthResolver{base}
	}
	ports := commitPorts{
		subscribers:                &dsSubscribers{w: w, n: n, m: m},
		recipientAuthorityResolver: resolver,
		deliveryEnqueuer:           &dsEnqueuer{w: w, n: n, m: m},
		subscriberPageSize:         c.PageSize,
		recipientBatchSize:         c.Batch,
	}
	mode := onlinedelivery.ModeTransient
	if m.durable {
		mode = onlinedelivery.ModeDurable
	}
	ev := m.ev
	raw := append([]Recipient(nil), m.raw...)
	target := AuthorityTarget{ChannelID: ChannelID{ID: ev.ChannelID, Type: ev.ChannelType}, LeaderNodeID: n.id, Epoch: 1, LeaderEpoch: 1, SubscriberMutationVersion: uint64(m.idx + 1)}
	op := &dsOp{kind: "dispatch", node: n, msg: m, timeout: 10 * time.Second}
	w.startOp(op, func() error {
		ctx, cancel := context.WithTimeout(context.Background(), op.timeout)
		defer cancel()
		switch m.entry {
		case 0:
			_, err := dispatchRecipientSetResultForMode(ctx, mode, ev, raw, ports)
			return err
		case 1:
			target.Large = true
		}
		_, err := dispatchRecipientsForTarget(ctx, mode, target, ev, subscriberCache{}, ports)
		return err
	})
}

func (w *dsWorld) startLife(n *dsNode, kind string, timeout time.Duration) {
	op := &dsOp{kind: kind, node: n, timeout: timeout}
	n.lifeOp = op
	if kind == "stop" {
		w.mu.Lock()
		for _, p := range w.allPlans() {
			if p.src == n.id && p.gen == n.gen && p.enq == 2 && !p.ended {
				w.stopOverWork = true
			}
		}
		w.mu.Unlock()
		if w.stopOverWork {
			w.r.Probe("c41.stop_began_with_admitted_work_pending")
		}
	}
	if n.state == 1 {
		if kind == "stop" {
			n.state = 2
		} else {
			n.state = 3
		}
	}
	rt := n.rt
	w.startOp(op, func() error {
		ctx, cancel := context.WithTimeout(context.Background(), op.timeout)
		defer cancel()
		if kind == "stop" {
			return rt.Stop(ctx)
		}
		return rt.Quiesce(ctx)
	})
}

func (w *dsWorld) doStart(n *dsNode) {
	err := n.rt.Start(context.Background())
	w.r.Logf("  start n%d -> %v", n.id, err)
	switch {
	case err == nil:
		if n.state != 1 {
			w.mu.Lock()
			n.gen++
			n.genRelax = false
			w.mu.Unlock()
		}
		n.state = 1
		w.dropAcksOf(n.id, 0, "")
	case errors.Is(err, rd.ErrRuntimeClosed) && n.state != 0:
		w.r.Fault("start_while_closing")
	default:
		w.r.FailSig("lifecycle", "start", fmt.Sprintf("Start on n%d in harness state %d returned %v", n.id, n.state, err), nil)
	}
}

func (w *dsWorld) dropAcksOf(node uint64, sid uint64, uid string) {
	k := 0
	for _, a := range w.unacked {
		if a.node == node && (sid == 0 || (a.sid == sid && a.uid == uid)) {
			continue
		}
		w.unacked[k] = a
		k++
	}
	w.unacked = w.unacked[:k]
}

// ---- quiescent-state processing ----------------------------------------------

// dsC41Classes are the violation classes of C41deliver (the delivery-runtime
// part of "stopping the send pipeline never drops accepted sends").
var dsC41Classes = map[string]bool{
	"admitted-after-stop": true, "admitted-without-terminal": true,
	"work-cancelled-by-expired-stop": true, "work-discarded-by-expired-stop": true, "work-cancelled": true,
	"stop-wrong-error": true,
}

// dsSharedClasses are lifecycle claims reported under both properties.
var dsSharedClasses = map[string]bool{"stop-incomplete": true, "quiesce-incomplete": true, "lifecycle": true, "plan-executed-twice": true}

// fail reports a violation of the property being checked. Classes of the other
// property served by this engine are only counted (they are reported by that
// property's own check) and do not end the run.
func (w *dsWorld) fail(class, sig, detail string) {
	if !dsSharedClasses[class] && w.c41 != dsC41Classes[class] {
		if !w.foreign[class] {
			w.foreign[class] = true
			w.r.Probe("other_property_class:" + class)
		}
		return
	}
	w.r.FailSig(class, sig, detail, nil)
}

func (w *dsWorld) over() bool { return w.r.Failed() }

// noteCtxEnd records that a context handed to a port call ended while the call
// was waiting: by cancellation (nobody but the runtime's generation cancel can
// do that while the plan is in flight) or by the plan's own deadline.
func (w *dsWorld) noteCtxEnd(p *dsPlan, ctx context.Context) {
	if p == nil || !errors.Is(ctx.Err(), context.Canceled) {
		return
	}
	w.mu.Lock()
	p.cancelSeen = true
	w.mu.Unlock()
}

// c41Stuck: the benign drain did not bring every admitted plan to a terminal
// outcome although no port call is parked any more (bounded liveness).
func (w *dsWorld) c41Stuck() {
	if !w.c41 || w.w.NumPending() > 0 {
		return
	}
	w.mu.Lock()
	defer w.mu.Unlock()
	for _, p := range w.allPlans() {
		if w.planPendingLocked(p) && p.enq == 2 {
			w.fail("admitted-without-terminal", "stuck", fmt.Sprintf("plan %s was admitted on n%d but neither finished nor was reported failed after every port call had been released and 20 s of drain", p.name(), p.src))
			return
		}
	}
}

// c41FinalLocked evaluates clauses (b) and (c) of C41 at the delivery runtime
// once everything has drained.
func (w *dsWorld) c41FinalLocked() {
	if !w.c41 {
		return
	}
	// (b) exactly one terminal observation per admitted plan
	for _, id := range w.nodeIDs {
		n := w.nodes[id]
		if n.terminals < n.acceptedTotal {
			missing := []string{}
			for _, p := range w.allPlans() {
				if p.src == id && p.enq == 2 && p.presCalls == 0 {
					missing = append(missing, p.name())
				}
			}
			w.fail("admitted-without-terminal", "count", fmt.Sprintf("n%d admitted %d plans but reported only %d terminal outcomes after the drain; admitted plans that never reached presence: %v", id, n.acceptedTotal, n.terminals, missing))
			return
		}
		w.r.Probe("c41.terminals_match_admitted")
	}
	// (c) a Stop whose deadline expired neither cancels nor discards admitted work
	for _, p := range w.allPlans() {
		if p.enq != 2 {
			continue
		}
		n := w.nodes[p.src]
		expired := n.expiredStop[p.gen]
		switch {
		case p.cancelSeen && expired:
			w.fail("work-cancelled-by-expired-stop", "run-context-cancelled", fmt.Sprintf("plan %s (admitted on n%d, generation %d) had the context of an in-flight port call cancelled after a Stop whose deadline expired", p.name(), p.src, p.gen))
		case p.cancelSeen:
			w.fail("work-cancelled", "no-expired-stop", fmt.Sprintf("plan %s (admitted on n%d) had the context of an in-flight port call cancelled although no Stop deadline expired in its generation", p.name(), p.src))
		case p.presCalls == 0 && expired:
			w.fail("work-discarded-by-expired-stop", "queued-plan-not-processed", fmt.Sprintf("plan %s was admitted on n%d (generation %d) and still queued when a Stop deadline expired; it was never processed (terminal outcome without any delivery work)", p.name(), p.src, p.gen))
		case p.presCalls == 0:
			w.fail("admitted-without-terminal", "never-ran", fmt.Sprintf("plan %s was admitted on n%d but never processed", p.name(), p.src))
		default:
			continue
		}
		return
	}
	w.r.Probe("c41.final_checked")
}

func (w *dsWorld) allPlans() []*dsPlan {
	var out []*dsPlan
	for _, m := range w.msgs {
		out = append(out, m.plans...)
	}
	return out
}

// sync runs at every quiescent state: completions, plan ends, arrivals, and
// all counter-based checks.
func (w *dsWorld) sync() {
	if w.over() {
		return
	}
	w.mu.Lock()
	defer w.mu.Unlock()
	done := w.completed
	w.completed = nil
	sort.Slice(done, func(i, j int) bool { return done[i].id < done[j].id })
	for _, op := range done {
		delete(w.inflight, op.id)
		w.onOpDone(op)
	}
	running := 0
	plans := w.allPlans()
	for _, p := range plans {
		if p.enq != 1 && !p.enqLogged {
			p.enqLogged = true
			w.r.Logf("  enqueue %s -> %v", p.name(), p.err)
			switch {
			case p.err == nil && p.invokedState != 1:
				w.fail("admitted-after-stop", map[int]string{0: "stopped", 2: "stopping", 3: "quiescing"}[p.invokedState],
					fmt.Sprintf("EnqueueRecipientDeliveryPlan of %s on n%d returned nil although the call was made after %s (generation %d, not restarted since)",
						p.name(), p.src, map[int]string{0: "Stop had completed", 2: "Stop had begun", 3: "Quiesce had begun"}[p.invokedState], p.invokedGen))
				if w.over() {
					return
				}
			case p.err == nil:
				w.r.Probe("plan_accepted")
			case errors.Is(p.err, rd.ErrRuntimeClosed):
				w.r.Probe("enqueue_rejected_closed")
				if p.invokedState == 1 {
					w.r.Probe("c41.enqueue_in_flight_when_stop_began_rejected")
				} else {
					w.r.Probe("c41.enqueue_after_stop_rejected")
				}
			case errors.Is(p.err, context.DeadlineExceeded), errors.Is(p.err, context.Canceled):
				w.r.Probe("enqueue_timed_out_on_full_queue")
			default:
				w.fail("lifecycle", "enqueue", fmt.Sprintf("enqueue of valid plan %s returned %v", p.name(), p.err))
				return
			}
		}
		if p.ended && !p.endedObserved {
			p.endedObserved = true
			w.r.Logf("  plan %s ended deadline=%v", p.name(), p.deadline)
			if p.deadline {
				w.r.Probe("plan_deadline_exceeded")
			}
		}
		if p.presCalls > 0 && !p.ended {
			running++
		}
	}
	if running >= 2 {
		w.overlap = true
		w.r.Probe("plans_in_flight_together")
	}
	// arrivals, canonical order
	pend := w.w.Pending()
	now := make(map[*simkit.Parked]bool, len(pend))
	queuedBehind := false
	for _, pk := range pend {
		now[pk] = true
		if !w.seen[pk] {
			w.r.Logf("  arrive %s", pk.Key)
		}
		if c := pk.Info.(*dsCall); c.kind == "enq" && c.plan.ord > 0 {
			if prev := c.msg.plans[c.plan.ord-1]; prev.enq == 2 && !prev.answered {
				queuedBehind = true
			}
		}
	}
	if queuedBehind {
		w.r.Probe("producer_builds_next_plan_while_previous_unprocessed")
	}
	w.seen = now
	for _, k := range simkit.SortedKeys(w.orphans) {
		w.fail("push-to-unresolved-target", "unknown-plan", k)
		return
	}
	for _, m := range w.msgs {
		w.checkMsgLocked(m)
		if w.over() {
			return
		}
	}
	for _, id := range w.nodeIDs {
		if n := w.nodes[id]; n.terminals > n.acceptedTotal {
			w.fail("plan-executed-twice", "terminals", fmt.Sprintf("n%d reported %d terminal plan outcomes for %d admitted plans", id, n.terminals, n.acceptedTotal))
			return
		}
	}
	if w.r.Steps%3 == 0 {
		st := []any{}
		for _, id := range w.nodeIDs {
			n := w.nodes[id]
			queued, active := 0, 0
			for _, p := range plans {
				if p.src != id || p.enq != 2 || p.ended {
					continue
				}
				if p.presCalls == 0 {
					queued++
				} else {
					active++
				}
			}
			st = append(st, n.state, queued, active)
		}
		kinds := map[string]int{}
		for _, pk := range pend {
			kinds[pk.Info.(*dsCall).kind]++
		}
		st = append(st, kinds["enq"], kinds["subs"], kinds["pres"], kinds["req"], kinds["rsp"], kinds["write"], kinds["offl"], running)
		w.r.State(st...)
	}
}

// checkMsgLocked evaluates the upper-bound ("never more than") oracles of a
// message and of its plans.
func (w *dsWorld) checkMsgLocked(m *dsMsg) {
	mtag := fmt.Sprintf("m%d (id %d %s seq %d)", m.idx, m.msgID, w.chans[m.chIdx].id, m.seq)
	for _, k := range simkit.SortedKeys(m.bad) {
		w.fail("producer-plan-malformed", "", mtag+": "+k)
		return
	}
	for _, u := range simkit.SortedKeys(m.presRows) {
		if m.presRows[u] > m.rows[u] {
			sig := "extra-row"
			if m.rows[u] == 0 {
				sig = "not-a-recipient"
			}
			w.fail("recipient-covered-twice", sig, fmt.Sprintf("%s: Online Delivery resolved recipient %q %d time(s) but the message has %d row(s) for it; plans as submitted %s, as processed %s",
				mtag, u, m.presRows[u], m.rows[u], dsPlansRows(m, false), dsPlansRows(m, true)))
			return
		}
	}
	for _, p := range m.plans {
		w.checkPlanLocked(p, mtag)
		if w.over() {
			return
		}
	}
}

func dsPlansRows(m *dsMsg, seen bool) string {
	parts := []string{}
	for _, p := range m.plans {
		switch {
		case !seen:
			parts = append(parts, "["+dsTargetRows(p.snap)+"]")
		case p.presCalls > 0:
			parts = append(parts, "["+dsTargetRows(p.seen)+"]")
		default:
			parts = append(parts, "[-]")
		}
	}
	return strings.Join(parts, "")
}

func (w *dsWorld) checkPlanLocked(p *dsPlan, mtag string) {
	tag := fmt.Sprintf("%s of %s", p.name(), mtag)
	for _, k := range simkit.SortedKeys(p.bad) {
		w.fail("push-to-unresolved-target", "misrouted", tag+": "+k)
		return
	}
	if p.presCalls > 1 {
		w.fail("plan-executed-twice", "", fmt.Sprintf("%s: presence was resolved %d times for one accepted plan", tag, p.presCalls))
		return
	}
	if p.altered {
		w.fail("presence-targets-altered", "", fmt.Sprintf("%s: the plan was admitted with %s but Online Delivery processed %s", tag, dsTargetRows(p.snap), dsTargetRows(p.seen)))
		return
	}
	for _, k := range simkit.SortedKeys(p.routes) {
		a := p.routes[k]
		switch {
		case a.suppressed && a.mult == 0 && (a.attempts > 0 || a.rwrites > 0):
			w.fail("sender-echo-pushed", "", fmt.Sprintf("%s: route %s is the sender's own session but was pushed", tag, k))
		case a.unknown && !a.suppressed:
			w.fail("push-to-unresolved-target", "route", fmt.Sprintf("%s: push to %s which presence never resolved for this plan (attempts=%d writes=%d)", tag, k, a.attempts, a.rwrites))
		case a.attempts > a.mult+a.just:
			w.fail("unjustified-push", "", fmt.Sprintf("%s: route %s pushed %d times; resolved %d time(s) and only %d retryable/failed outcome(s) justify a retry", tag, k, a.attempts, a.mult, a.just))
		case a.accepted > a.mult+a.lostResp:
			w.fail("pushed-twice", "", fmt.Sprintf("%s: route %s accepted the message %d times; resolved %d time(s), %d owner push outcome(s) lost", tag, k, a.accepted, a.mult, a.lostResp))
		case a.rwrites > a.delivered:
			w.fail("write-without-push", "", fmt.Sprintf("%s: route %s written %d times at its owner but only %d owner push(es) carrying it were delivered", tag, k, a.rwrites, a.delivered))
		case a.attempts > a.mult*w.cfg.RetryMax:
			w.fail("retry-unbounded", "", fmt.Sprintf("%s: route %s pushed %d times, resolved %d time(s), attempt limit %d", tag, k, a.attempts, a.mult, w.cfg.RetryMax))
		}
		if w.over() {
			return
		}
	}
	if p.offCalls > 0 {
		if !p.msg.durable {
			w.fail("offline-for-transient", "", tag+": a transient plan reported offline recipients")
			return
		}
		if p.offCalls > 1 {
			w.fail("offline-twice", "calls", fmt.Sprintf("%s: %d offline batches for one plan", tag, p.offCalls))
			return
		}
		for _, u := range simkit.SortedKeys(p.offGot) {
			if p.offGot[u] > 1 {
				w.fail("offline-twice", "uid", fmt.Sprintf("%s: %s reported offline %d times", tag, u, p.offGot[u]))
				return
			}
			if !p.expectOff[u] {
				w.fail("offline-unexpected", "", fmt.Sprintf("%s: %s reported offline although presence resolved an online route for it (or its target failed, or it is no recipient of the admitted plan %s)", tag, u, dsTargetRows(p.snap)))
				return
			}
		}
	}
}

func (w *dsWorld) onOpDone(op *dsOp) {
	n := op.node
	switch op.kind {
	case "dispatch":
		m := op.msg
		w.chans[m.chIdx].busy = false
		m.dispatched, m.dispatchErr = true, op.err
		w.r.Logf("  op%d dispatch m%d -> %v plans=%s", op.id, m.idx, op.err, dsPlansRows(m, false))
		if op.err != nil {
			w.r.Probe("dispatch_failed")
		} else if len(m.plans) > 1 {
			w.split = true
			w.r.Probe("message_split_into_several_plans")
		}
	case "stop":
		n.lifeOp = nil
		w.r.Logf("  op%d stop n%d -> %v", op.id, n.id, op.err)
		if op.err != nil {
			// graceful budget exhausted: the runtime cancels accepted work
			w.r.Probe("stop_timed_out")
			if !errors.Is(op.err, context.DeadlineExceeded) {
				w.fail("stop-wrong-error", "", fmt.Sprintf("Stop on n%d failed with %v, which is not its caller's deadline error", n.id, op.err))
			}
			n.expiredStop[n.gen] = true
			inFlight := false
			for _, p := range w.allPlans() {
				if p.src == n.id && p.gen == n.gen && p.enq == 2 && !p.ended {
					inFlight = true
				}
			}
			if inFlight {
				w.r.Probe("c41.stop_expired_with_admitted_work_pending")
			}
			n.genRelax = true
			for _, p := range w.allPlans() {
				if p.src == n.id && p.gen == n.gen && !p.endedObserved {
					p.relaxed = true
				}
			}
			return
		}
		w.r.Probe("stop_ok")
		for _, p := range w.allPlans() {
			if p.src != n.id || p.gen != n.gen || p.enq != 2 || p.relaxed {
				continue
			}
			if p.presCalls == 0 || !p.ended {
				w.fail("stop-incomplete", "", fmt.Sprintf("Stop on n%d returned nil but accepted plan %s (id %d) %s", n.id, p.name(), p.msg.msgID,
					map[bool]string{true: "never ran", false: "is still running"}[p.presCalls == 0]))
				return
			}
		}
		n.state = 0
		w.dropAcksOf(n.id, 0, "")
	case "quiesce":
		n.lifeOp = nil
		w.r.Logf("  op%d quiesce n%d -> %v", op.id, n.id, op.err)
		if op.err != nil {
			if errors.Is(op.err, rd.ErrRuntimeClosed) {
				w.r.Probe("quiesce_rejected_closed")
			} else {
				w.r.Probe("quiesce_wait_timed_out")
			}
			return
		}
		w.r.Probe("quiesce_ok")
		for _, p := range w.allPlans() {
			if p.src != n.id || p.gen != n.gen || p.enq != 2 || p.relaxed {
				continue
			}
			if p.presCalls == 0 || !p.ended {
				w.fail("quiesce-incomplete", "plan", fmt.Sprintf("Quiesce on n%d returned nil but accepted plan %s (id %d) has not finished", n.id, p.name(), p.msg.msgID))
				return
			}
		}
		if c := n.rt.PendingAckCount(); c != 0 {
			w.fail("quiesce-incomplete", "acks", fmt.Sprintf("Quiesce on n%d returned nil with %d pending recvacks", n.id, c))
		}
	}
}

// ---- presence answers ---------------------------------------------------------

func (w *dsWorld) answerPresence(c *dsCall, faults bool) {
	p := c.plan
	tp := w.r.Tape
	cfg := w.cfg
	targets := p.seen
	res := make([]rd.TargetPresenceResult, len(targets))
	desc := []string{}
	for i, tg := range targets {
		if faults && cfg.FPresErr && tp.Chance(1, 8) {
			res[i].Err = errDsPresence
			w.r.Fault("presence_target_error")
			desc = append(desc, fmt.Sprintf("t%d:err", tg.Target.HashSlot))
			continue
		}
		var routes []onlinedelivery.Route
		seen := map[string]bool{}
		for _, rc := range tg.Recipients {
			if seen[rc.UID] && tp.Intn(2) == 0 {
				continue // the resolver answered once per distinct uid
			}
			seen[rc.UID] = true
			for _, s := range w.sessionsOf(rc.UID) {
				cur, stale := 0, 0
				if s.open {
					cur = 6
				}
				if faults && cfg.FStale {
					stale = 1
				}
				switch tp.Weighted([]int{cur, 2, stale}) {
				case 0:
					routes = append(routes, s.route())
				case 2:
					rt := s.route()
					if s.open {
						rt.OwnerSeq--
					}
					w.r.Fault("stale_route_resolved")
					routes = append(routes, rt)
				}
			}
		}
		res[i].Routes = routes
		desc = append(desc, fmt.Sprintf("t%d:%s", tg.Target.HashSlot, dsRouteKeys(routes)))
	}
	if faults && cfg.FPresErr && len(res) > 1 && tp.Chance(1, 12) {
		w.r.Fault("presence_short_result")
		res = res[:len(res)-1]
		desc = append(desc, "short")
	}
	c.answer = res
	w.mu.Lock()
	for i, tg := range targets {
		if i >= len(res) || res[i].Err != nil {
			continue
		}
		online := map[string]bool{}
		for _, rt := range res[i].Routes {
			online[rt.UID] = true
			a := w.acct(p, rt)
			a.unknown = false
			if suppressSenderEcho(p.msg.ev, rt) {
				a.suppressed = true
				w.r.Probe("sender_echo_suppressed")
			} else {
				a.mult++
			}
		}
		if p.msg.durable && w.cfg.OfflineObs {
			for _, rc := range tg.Recipients {
				if !online[rc.UID] {
					p.expectOff[rc.UID] = true
				}
			}
		}
	}
	p.answered = true
	w.mu.Unlock()
	w.r.Logf("  answer %s: %s", p.name(), strings.Join(desc, " "))
}

// suppressSenderEcho is the documented echo rule: the sender's own connection
// (same uid, owner node and session) does not get its message back.
func suppressSenderEcho(ev CommittedEnvelope, rt onlinedelivery.Route) bool {
	return ev.FromUID != "" && ev.SenderNodeID != 0 && ev.SenderSessionID != 0 &&
		rt.UID == ev.FromUID && rt.OwnerNodeID == ev.SenderNodeID && rt.SessionID == ev.SenderSessionID
}

// deliverWrite is the instant a packet reaches the session: the order oracle.
func (w *dsWorld) deliverWrite(c *dsCall) {
	p := c.plan
	m := p.msg
	w.mu.Lock()
	defer w.mu.Unlock()
	a := w.acct(p, c.route)
	a.accepted++
	a.lastRetry = false
	w.accepted++
	w.r.Probe("write_accepted")
	if m.durable {
		k := fmt.Sprintf("n%d/s%d/%s", c.node, c.route.SessionID, w.chans[m.chIdx].id)
		if last := w.lastSeq[k]; m.seq < last {
			w.fail("order-inversion", "", fmt.Sprintf("session s%d on n%d received %s seq %d (plan %s, id %d) after seq %d", c.route.SessionID, c.node, w.chans[m.chIdx].id, m.seq, p.name(), m.msgID, last))
			return
		}
		w.lastSeq[k] = m.seq
	}
	ack := dsAck{node: c.node, uid: c.route.UID, sid: c.route.SessionID, mid: m.msgID}
	for _, u := range w.unacked {
		if u == ack {
			return
		}
	}
	w.unacked = append(w.unacked, ack)
}

// ---- scheduler actions ----------------------------------------------------------

// planPendingLocked: an admitted plan the runtime still has to finish.
func (w *dsWorld) planPendingLocked(p *dsPlan) bool {
	if p.enq == 1 {
		return true
	}
	if p.enq != 2 || p.ended {
		return false
	}
	n := w.nodes[p.src]
	if p.presCalls == 0 && (p.relaxed || n.terminals >= n.acceptedTotal) {
		return false // cancelled before it ran, or reported at the end as never-ran
	}
	return true
}

// quiet: everything was produced and every accepted plan finished.
func (w *dsWorld) quiet() bool {
	if len(w.inflight) > 0 || w.w.NumPending() > 0 || w.msgsLeft > 0 {
		return false
	}
	w.mu.Lock()
	defer w.mu.Unlock()
	for _, p := range w.allPlans() {
		if w.planPendingLocked(p) {
			return false
		}
	}
	return true
}

func (w *dsWorld) collect() []simkit.Action {
	if w.over() {
		return nil
	}
	c := w.cfg
	faults := !c.NoFaults && !w.final
	var acts []simkit.Action
	add := func(prio int, key string, weight int, do func()) {
		acts = append(acts, simkit.Action{Prio: prio, Key: key, Weight: weight, Do: do})
	}
	pend := w.w.Pending()
	for _, pk := range pend {
		pk := pk
		call := pk.Info.(*dsCall)
		switch call.kind {
		case "subs":
			add(0, "page "+pk.Key, 30, func() { w.w.Release(pk, dsSubsOK) })
			if faults && c.FProducer {
				add(5, "fail "+pk.Key, 2, func() { w.r.Fault("subscriber_page_error"); w.w.Release(pk, dsSubsErr) })
			}
		case "enq":
			n := w.nodes[call.node]
			invoke := func() {
				call.plan.gen, call.plan.invokedGen, call.plan.invokedState = n.gen, n.gen, n.state
				if n.state != 1 {
					w.r.Probe("c41.enqueue_invoked_after_stop_began")
				}
			}
			add(0, "enqueue "+pk.Key, 20, func() { invoke(); w.w.Release(pk, dsEnqGo) })
			if faults && c.FEnqTO {
				add(5, "enqueue-short "+pk.Key, 2, func() { invoke(); w.r.Fault("enqueue_short_deadline"); w.w.Release(pk, dsEnqShort) })
			}
		case "pres":
			add(0, "answer "+pk.Key, 40, func() { w.answerPresence(call, faults); w.w.Release(pk, dsPresAnswer) })
			if faults && c.FPanic {
				add(5, "panic "+pk.Key, 1, func() { w.r.Fault("presence_panic"); w.w.Release(pk, dsPresPanic) })
			}
		case "offl":
			add(0, "return "+pk.Key, 40, func() { w.w.Release(pk, dsOffDone) })
			if faults && c.FPanic {
				add(5, "panic "+pk.Key, 1, func() { w.r.Fault("offline_observer_panic"); w.w.Release(pk, dsOffPanic) })
			}
		case "req":
			add(0, "deliver "+pk.Key, 40, func() { w.w.Release(pk, dsReqDeliver) })
			if faults && c.FNet {
				add(5, "drop "+pk.Key, 4, func() { w.r.Fault("owner_push_dropped"); w.w.Release(pk, dsReqDrop) })
			}
			if faults && c.FHold {
				add(5, "hold "+pk.Key, 2, func() { w.r.Fault("owner_push_held_past_deadline"); w.w.Release(pk, dsReqHold) })
			}
			if faults && c.FPanic {
				add(5, "panic "+pk.Key, 1, func() { w.r.Fault("remote_pusher_panic"); w.w.Release(pk, dsReqPanic) })
			}
		case "rsp":
			add(0, "deliver "+pk.Key, 40, func() { w.w.Release(pk, dsRspDeliver) })
			if faults && c.FNet {
				add(5, "lose "+pk.Key, 4, func() { w.r.Fault("owner_push_response_lost"); w.w.Release(pk, dsRspLose) })
			}
		case "write":
			if !w.sessionCurrent(call.node, call.route) {
				add(0, "stale-drop "+pk.Key, 40, func() { w.r.Probe("stale_route_dropped_by_owner"); w.w.Release(pk, dsWDrop) })
				continue
			}
			add(0, "accept "+pk.Key, 40, func() { w.deliverWrite(call); w.w.Release(pk, dsWAccept) })
			one := []onlinedelivery.Route{call.route}
			if faults && c.FWrite {
				add(5, "retryable "+pk.Key, 6, func() {
					w.r.Fault("write_retryable")
					if call.local {
						w.justify(call.plan, one)
					}
					w.w.Release(pk, dsWRetry)
				})
				add(5, "terminal "+pk.Key, 2, func() { w.r.Fault("write_dropped"); w.w.Release(pk, dsWDrop) })
			}
			if faults && c.FHold {
				add(5, "hold "+pk.Key, 2, func() {
					w.r.Fault("write_held_past_deadline")
					if call.local {
						w.justify(call.plan, one)
					}
					w.w.Release(pk, dsWHold)
				})
			}
			if faults && c.FPanic {
				add(5, "panic "+pk.Key, 1, func() {
					w.r.Fault("session_writer_panic")
					if call.local {
						w.justify(call.plan, one)
					}
					w.w.Release(pk, dsWPanic)
				})
			}
		}
	}
	if w.final {
		return acts
	}
	// post-commit callers: one dispatch in flight per channel, messages in sequence order
	if w.msgsLeft > 0 {
		for _, ch := range w.chans {
			ch := ch
			if ch.busy {
				continue
			}
			switch {
			case ch.src.state == 1:
				add(1, fmt.Sprintf("dispatch %s", ch.id), 12, func() { w.startDispatch(ch, w.newMessage(ch, faults)) })
			case w.c41:
				// clause (a) workload: sends arriving after the stop began
				add(2, fmt.Sprintf("dispatch-closed %s", ch.id), 4, func() { w.r.Probe("c41.dispatch_while_not_open"); w.startDispatch(ch, w.newMessage(ch, faults)) })
			case faults && c.FLifecycle:
				add(6, fmt.Sprintf("dispatch-closed %s", ch.id), 1, func() { w.r.Fault("dispatch_while_not_open"); w.startDispatch(ch, w.newMessage(ch, faults)) })
			}
		}
	}
	// lifecycle
	for _, id := range w.nodeIDs {
		n := w.nodes[id]
		if n.lifeOp != nil {
			continue
		}
		switch n.state {
		case 0:
			add(4, fmt.Sprintf("start n%d", id), 8, func() { w.doStart(n) })
		case 1:
			if w.c41 && w.lifeLeft > 0 {
				// stopping is the workload of C41deliver, the expiring deadline its fault
				add(2, fmt.Sprintf("stop n%d", id), 5, func() { w.lifeLeft--; w.r.Probe("c41.stop_generous"); w.startLife(n, "stop", 20*time.Second) })
				if faults {
					add(5, fmt.Sprintf("stop-short n%d", id), 5, func() { w.lifeLeft--; w.r.Fault("stop_short_budget"); w.startLife(n, "stop", 3*time.Millisecond) })
					add(6, fmt.Sprintf("quiesce n%d", id), 1, func() { w.lifeLeft--; w.r.Fault("quiesce"); w.startLife(n, "quiesce", 20*time.Second) })
				}
			} else if faults && c.FLifecycle && w.lifeLeft > 0 {
				add(6, fmt.Sprintf("stop n%d", id), 2, func() { w.lifeLeft--; w.r.Fault("stop"); w.startLife(n, "stop", 20*time.Second) })
				add(6, fmt.Sprintf("stop-short n%d", id), 1, func() { w.lifeLeft--; w.r.Fault("stop_short_budget"); w.startLife(n, "stop", 3*time.Millisecond) })
				add(6, fmt.Sprintf("quiesce n%d", id), 1, func() { w.lifeLeft--; w.r.Fault("quiesce"); w.startLife(n, "quiesce", 20*time.Second) })
				add(6, fmt.Sprintf("quiesce-short n%d", id), 1, func() { w.lifeLeft--; w.r.Fault("quiesce_short_wait"); w.startLife(n, "quiesce", 3*time.Millisecond) })
			}
		case 2, 3:
			add(4, fmt.Sprintf("stop n%d", id), 4, func() { w.startLife(n, "stop", 20*time.Second) })
			if n.state == 3 {
				add(4, fmt.Sprintf("quiesce n%d", id), 2, func() { w.startLife(n, "quiesce", 50*time.Millisecond) })
			}
			if w.c41 && faults && n.state == 2 && w.lifeLeft > 0 {
				add(5, fmt.Sprintf("stop-short n%d", id), 2, func() { w.lifeLeft--; w.r.Fault("stop_short_budget_repeated"); w.startLife(n, "stop", 3*time.Millisecond) })
			}
			if faults && w.lifeLeft > 0 {
				add(6, fmt.Sprintf("start n%d", id), 1, func() { w.lifeLeft--; w.doStart(n) })
			}
		}
	}
	// clients: RECVACK for delivered packets, session churn
	nack := len(w.unacked)
	if nack > 3 {
		nack = 3
	}
	for i := 0; i < nack; i++ {
		a := w.unacked[i]
		weight := 1
		if w.nodes[a.node].state == 3 {
			weight = 8
		}
		add(2, fmt.Sprintf("recvack n%d %s/s%d id%d", a.node, a.uid, a.sid, a.mid), weight, func() {
			_ = w.nodes[a.node].rt.Recvack(context.Background(), rd.Recvack{UID: a.uid, SessionID: a.sid, MessageID: a.mid})
			k := 0
			for _, u := range w.unacked {
				if u != a {
					w.unacked[k] = u
					k++
				}
			}
			w.unacked = w.unacked[:k]
		})
	}
	if faults && c.FChurn {
		for _, s := range w.sessions {
			s := s
			if s.open && w.churnLeft <= 0 {
				continue
			}
			if s.open {
				add(6, fmt.Sprintf("session-close s%d", s.sid), 1, func() {
					w.churnLeft--
					w.r.Fault("session_closed")
					s.open = false
					_ = w.nodes[s.node].rt.SessionClosed(context.Background(), rd.SessionClosed{UID: s.uid, SessionID: s.sid})
					w.dropAcksOf(s.node, s.sid, s.uid)
				})
				add(6, fmt.Sprintf("session-regen s%d", s.sid), 1, func() { w.churnLeft--; w.r.Fault("session_generation_bumped"); s.seq++ })
			} else {
				add(4, fmt.Sprintf("session-reopen s%d", s.sid), 2, func() { s.open = true; s.seq++ })
			}
		}
	}
	// time
	if len(acts) > 0 && (len(w.inflight) > 0 || len(pend) > 0) {
		add(3, "tick 1ms", 2, func() { time.Sleep(time.Millisecond) })
		add(3, "tick 10ms", 1, func() { time.Sleep(10 * time.Millisecond) })
		if faults && (c.AckTTL > 0 || c.FHold) {
			add(3, "tick 3s", 1, func() { w.r.Fault("clock_jump"); time.Sleep(3 * time.Second) })
		}
	}
	return acts
}

// ---- final phase ---------------------------------------------------------------

func (w *dsWorld) plansSettled() bool {
	w.mu.Lock()
	defer w.mu.Unlock()
	for _, p := range w.allPlans() {
		if w.planPendingLocked(p) {
			return false
		}
	}
	return len(w.inflight) == 0
}

func (w *dsWorld) finalPhase() {
	r := w.r
	w.final = true
	r.Logf("-- final phase: benign drain")
	settle := func(budget int) bool {
		for i := 0; i < budget; i++ {
			simkit.Wait()
			w.sync()
			if w.over() {
				return false
			}
			acts := w.collect()
			if len(acts) == 0 {
				if w.plansSettled() {
					return true
				}
				for _, id := range w.nodeIDs {
					// a quiesce or a stop-after-quiesce waits for client acks
					if n := w.nodes[id]; n.state == 3 {
						w.sweepAcks(n)
					}
				}
				time.Sleep(5 * time.Millisecond)
				continue
			}
			sort.SliceStable(acts, func(i, j int) bool {
				if acts[i].Prio != acts[j].Prio {
					return acts[i].Prio < acts[j].Prio
				}
				return acts[i].Key < acts[j].Key
			})
			r.Steps++
			r.Logf("f%d %s", r.Steps, acts[0].Key)
			acts[0].Do()
		}
		return w.plansSettled()
	}
	if !settle(4000) {
		if !w.over() {
			r.Probe("final_drain_budget_exhausted")
			w.c41Stuck()
		}
		return
	}
	// finish lifecycle transitions that are under way so that Stop's own claim is checked
	for _, id := range w.nodeIDs {
		n := w.nodes[id]
		if n.state != 2 && n.state != 3 {
			continue
		}
		if n.state == 3 {
			w.sweepAcks(n)
		}
		w.startLife(n, "stop", 20*time.Second)
		if !settle(2000) || w.over() {
			if !w.over() {
				w.c41Stuck()
			}
			return
		}
	}
	simkit.Wait()
	w.sync()
	if w.over() {
		return
	}
	w.mu.Lock()
	defer w.mu.Unlock()
	for _, m := range w.msgs {
		w.finalCheckLocked(m)
		if w.over() {
			return
		}
	}
	w.c41FinalLocked()
	if w.over() {
		return
	}
	for _, id := range w.nodeIDs {
		n := w.nodes[id]
		for _, k := range []rd.ObservationResult{rd.ObservationResultOK, rd.ObservationResultRetryExhausted, rd.ObservationResultTimeout, rd.ObservationResultCanceled, rd.ObservationResultPanic, rd.ObservationResultError} {
			r.ProbeN("terminal_"+string(k), n.results[k])
		}
	}
}

func (w *dsWorld) sweepAcks(n *dsNode) {
	for _, s := range w.sessions {
		if s.node == n.id {
			_ = n.rt.SessionClosed(context.Background(), rd.SessionClosed{UID: s.uid, SessionID: s.sid})
		}
	}
	w.dropAcksOf(n.id, 0, "")
}

// finalCheckLocked evaluates the lower-bound ("at least") oracles: per plan
// whose processing was not cut short by a deadline or a forced stop, and per
// message whose dispatch succeeded and all of whose plans were processed.
func (w *dsWorld) finalCheckLocked(m *dsMsg) {
	mtag := fmt.Sprintf("m%d (id %d %s seq %d)", m.idx, m.msgID, w.chans[m.chIdx].id, m.seq)
	whole := m.dispatched && m.dispatchErr == nil
	for _, p := range m.plans {
		if p.enq != 2 {
			whole = false
			continue
		}
		if p.relaxed {
			whole = false
			continue
		}
		tag := fmt.Sprintf("%s of %s", p.name(), mtag)
		n := w.nodes[p.src]
		if p.presCalls == 0 {
			whole = false
			if n.genRelax && p.gen == n.gen {
				continue
			}
			w.fail("accepted-plan-never-ran", "", tag+": admission succeeded but the plan was never processed although its runtime drained or stopped")
			return
		}
		if !p.ended {
			whole = false
			continue
		}
		if p.deadline || !p.answered {
			// every row reached presence; what happened afterwards is excused
			continue
		}
		w.r.Probe("plan_fully_checked")
		for _, k := range simkit.SortedKeys(p.routes) {
			a := p.routes[k]
			if a.mult == 0 {
				continue
			}
			if a.attempts < a.mult {
				w.fail("route-not-pushed", "", fmt.Sprintf("%s: presence resolved route %s %d time(s) but only %d push attempt(s) were made and the plan finished", tag, k, a.mult, a.attempts))
				return
			}
			if a.mult == 1 && a.lastRetry && a.attempts < w.cfg.RetryMax {
				w.fail("retry-abandoned", "", fmt.Sprintf("%s: route %s was left retryable after %d of %d attempts although the plan was neither cancelled nor timed out", tag, k, a.attempts, w.cfg.RetryMax))
				return
			}
		}
		if w.cfg.OfflineObs && m.durable {
			for _, u := range simkit.SortedKeys(p.expectOff) {
				if p.offGot[u] == 0 {
					w.fail("offline-missing", "", fmt.Sprintf("%s: recipient %s had no online route in its resolved target but was never reported offline", tag, u))
					return
				}
			}
		}
	}
	if !whole {
		return
	}
	// message-level coverage: the rows of the committed message are exactly the
	// rows Online Delivery resolved (each then pushed or reported offline above)
	w.r.Probe("message_coverage_checked")
	for _, u := range simkit.SortedKeys(m.rows) {
		if m.presRows[u] < m.rows[u] {
			w.fail("recipient-not-covered", "", fmt.Sprintf("%s: recipient %q has %d row(s) in the committed message but Online Delivery resolved it %d time(s): it was neither pushed nor reported offline; plans as submitted %s, as processed %s",
				mtag, u, m.rows[u], m.presRows[u], dsPlansRows(m, false), dsPlansRows(m, true)))
			return
		}
	}
}

// ---- teardown ----------------------------------------------------------------------

func (w *dsWorld) teardown() {
	w.w.CloseAll(dsClosed)
	for round := 0; round < 40; round++ {
		simkit.Wait()
		open := false
		for _, id := range w.nodeIDs {
			n := w.nodes[id]
			if n == nil || n.rt == nil {
				continue
			}
			for _, s := range w.sessions {
				if s.node == id {
					_ = n.rt.SessionClosed(context.Background(), rd.SessionClosed{UID: s.uid, SessionID: s.sid})
				}
			}
			ctx, cancel := context.WithTimeout(context.Background(), 2*time.Second)
			err := n.rt.Stop(ctx)
			cancel()
			if err != nil {
				open = true
			}
		}
		w.mu.Lock()
		for _, op := range w.completed {
			delete(w.inflight, op.id)
		}
		w.completed = nil
		busy := len(w.inflight)
		w.mu.Unlock()
		if !open && busy == 0 {
			return
		}
		time.Sleep(50 * time.Millisecond)
	}
	w.r.Infra("teardown: runtimes or client operations did not finish")
}
