package cluster

// White-box deterministic-simulation engine for the cache / finish part of C40
// ("a finish that would drop cached non-durable deltas fails instead of writing a
// completed projection"), built into pkg/cluster by overlay.
//
// World: two partially initialised cluster Nodes (1 and 2) that compete for the
// leadership of one slot. Each has its own real messageEventStreamCache and a
// real routing table; the entry point under test is the leader-side
// Node.appendMessageEventLocal (dispatch to cache-only append, terminal merge +
// durable append + mark persisted, and the finish decision
// appendMessageEventFinishLocal). The durable append (Node.proposer) is owned
// by the simulator: it applies the encoded command to a real slot state machine
// over a real metadata DB (one Pebble directory per worker process, fresh
// channel ids per run) and may fail before or after the commit.
// Leadership moves through the real updateRouteAuthorityTable path, which
// clears the cache of the node that lost authority; restore maintenance uses the
// real pause / resume hooks.

import (
	"context"
	"encoding/json"
	"errors"
	"fmt"
	"os"
	"sort"
	"strings"
	"sync"
	"testing"
	"time"

	"github.com/WuKongIM/WuKongIM/internal/verifsim/simkit"
	"github.com/WuKongIM/WuKongIM/pkg/cluster/propose"
	"github.com/WuKongIM/WuKongIM/pkg/cluster/routing"
	metadb "github.com/WuKongIM/WuKongIM/pkg/db/meta"
	"github.com/WuKongIM/WuKongIM/pkg/protocol/channelid"
	metafsm "github.com/WuKongIM/WuKongIM/pkg/slot/fsm"
	"github.com/WuKongIM/WuKongIM/pkg/slot/multiraft"
)

func TestVerifSimEventCache(t *testing.T) {
	defer ecsCleanup()
	simkit.Main(t, simkit.Engine{
		Name: "eventcachesim",
		Props: map[string]simkit.PropFunc{
			"C40cache": func(t *testing.T, r *simkit.Run) { runEventCache(r, false) },
			// the same world with the real message use case and production adapter in front
			"C40usecase": func(t *testing.T, r *simkit.Run) { runEventCache(r, true) },
		},
		Real: []string{
			"cluster.messageEventStreamCache (append, dedupe, terminal merge, mark persisted, open states for finish, eviction, restore pause/resume, authority-loss clearing)",
			"cluster.Node.appendMessageEventLocal / appendMessageEventFinishLocal / appendMessageEventDurable on a partially initialised Node (routing table, cache, proposer)",
			"routing.Router and Node.updateRouteAuthorityTable (leader change path)",
			"pkg/slot/fsm state machine + pkg/db/meta event reducer behind the proposer (Pebble on a real temporary directory)",
			"C40usecase only: internal/usecase/message.App.AppendMessageEvent over the production adapter internal/infra/cluster.MessageEventStore (error mapping) over Node.AppendMessageEvent on the entry node",
		},
		Stub: []string{
			"Node.proposer (the simulator applies the command to the slot state machine; may fail before or after the commit)",
			"everything else of cluster.Node (transport, controller, slot runtime, finish coalescer disabled)",
			"clients / two leaders taking turns",
			"C40usecase only: the forward RPC from a non-leader entry node to the leader (the simulator calls the leader's handler path appendMessageEventLocal; it may fail before delivery or lose the response)",
		},
		Rule: "One run = one tape-driven stream history (open, delta, snapshot, close, error, cancel, finish, retries) for 1-3 messages sent to whichever of two nodes the client believes is leader, " +
			"with leader changes, restore pause/resume, proposal failures and small cache capacities. Non-trivial = at least one finish was decided AND (a cache loss, a proposal fault, a forward fault, a cancelled caller or a capacity rejection happened). " +
			"C40usecase sends the same histories through the message use case on either node (group or person conversation addressed from both peers, untrimmed fields, zero UpdatedAt, malformed requests, cancelled contexts) and additionally judges what the caller is told.",
		Assumptions: []string{
			"a partially initialised cluster.Node is enough for the message-event leader path (fields used: cfg.NodeID, router, messageEventStreamCache, proposer, started)",
			"the finish coalescer is disabled (direct path); the slot Raft group is replaced by a single state machine",
			"Pebble runs on a real directory under /root/scratch/metasimb (removed when the worker exits)",
		},
	})
}

// ---- durable side shared by all runs of one worker process ----

var (
	ecsOnce  sync.Once
	ecsDir   string
	ecsDB    *metadb.DB
	ecsSM    multiraft.BatchStateMachine
	ecsIndex uint64
	ecsExec  uint64
	ecsErr   error
)

func ecsOpen() error {
	ecsOnce.Do(func() {
		base := os.Getenv("VERIF_SCRATCH")
		if base == "" {
			base = "/root/scratch/metasimb"
		}
		if err := os.MkdirAll(base, 0o755); err != nil {
			ecsErr = err
			return
		}
		dir, err := os.MkdirTemp(base, "ecs-")
		if err != nil {
			ecsErr = err
			return
		}
		ecsDir = dir
		db, err := metadb.Open(dir + "/meta")
		if err != nil {
			ecsErr = err
			return
		}
		ecsDB = db
		sm, err := metafsm.NewStateMachineWithHashSlots(db, 1, []uint16{0, 1})
		if err != nil {
			ecsErr = err
			return
		}
		ecsSM = sm.(multiraft.BatchStateMachine)
	})
	return ecsErr
}

func ecsCleanup() {
	if ecsDB != nil {
		_ = ecsDB.Close()
		ecsDB = nil
	}
	if ecsDir != "" {
		_ = os.RemoveAll(ecsDir)
	}
}

// ---- the simulated proposer ----

type ecsProposer struct {
	w    *ecsWorld
	node uint64
}

func (p *ecsProposer) Propose(ctx context.Context, req propose.Request) error {
	_, err := p.ProposeResult(ctx, req)
	return err
}

var errSimProposal = errors.New("sim: proposal failed")

func (p *ecsProposer) ProposeResult(ctx context.Context, req propose.Request) ([]byte, error) {
	w := p.w
	w.proposals++
	fault := 0
	if w.faults {
		fault = w.r.Tape.Weighted([]int{10, 1, 1})
	}
	if fault == 1 {
		w.r.Fault("proposal_failed_before_commit")
		w.r.Logf("  propose node%d -> fails before commit", p.node)
		return nil, errSimProposal
	}
	ecsIndex++
	hs := routing.HashSlotForKey(req.Key, 2)
	res, err := ecsSM.ApplyBatch(ctx, []multiraft.Command{{SlotID: 1, HashSlot: hs, Index: ecsIndex, Term: 1, Data: req.Command}})
	if err != nil {
		w.r.Infra("durable ApplyBatch: %v", err)
		return nil, err
	}
	w.commits++
	if fault == 2 {
		w.r.Fault("proposal_outcome_lost_after_commit")
		w.r.Logf("  propose node%d -> committed, response lost", p.node)
		return nil, errSimProposal
	}
	return res[0], nil
}

// ---- world ----

type ecsLane struct {
	text    string
	hasPay  bool
	status  string
	touched bool
}

type ecsSession struct {
	lanes map[string]*ecsLane
	seen  map[string]bool
}

type ecsWorld struct {
	r       *simkit.Run
	faults  bool
	nodes   map[uint64]*Node
	leader  uint64
	term    uint64
	paused  map[uint64]bool
	channel string
	msgs    []string
	// reference of each node's cache: msg -> session
	cache map[uint64]map[string]*ecsSession
	max   int
	// what leaders acknowledged to the client: msg -> lane
	client map[string]map[string]*ecsClientLane
	// client side
	evCount   int
	sent      []metadb.MessageEventAppend
	proposals int
	commits   int
	finishes  int
	losses    int
	rejected  int
	clock     int64
	chanType  int64

	// ---- C40usecase: the message use case (internal/usecase/message) in front of the nodes ----
	usecase   bool
	uidA      string // person-channel runs: the two peers; group runs: the sender
	uidB      string
	callers   map[uint64]func(context.Context, VerifUsecaseEvent) (VerifUsecaseResult, error) // one App per entry node
	entry     uint64
	nowMs     int64
	portCalls int
	portFault string // "", "before" (forward failed, nothing happened), "after" (leader processed it, response lost)
	innerRes  metadb.MessageEventAppendResult
	innerErr  error
	portSeen  metadb.MessageEventAppend
	first     map[string][3]string // msg|event id -> lane, seq, status of the first durable success
}

func (w *ecsWorld) msgKey(msg string) metadb.MessageEventMessageKey {
	return metadb.MessageEventMessageKey{ChannelID: w.channel, ChannelType: w.chanType, ClientMsgNo: msg}
}

// ---- hooks for the external half of the engine (package cluster_test), which may
// import internal/usecase/message and the production adapter internal/infra/cluster ----

// VerifUsecaseEvent is one caller request to the message use case.
type VerifUsecaseEvent struct {
	Ev        metadb.MessageEventAppend
	FromUID   string
	MessageID uint64
}

// VerifUsecaseResult is what the caller got back.
type VerifUsecaseResult struct {
	Res       metadb.MessageEventAppendResult
	FromUID   string
	MessageID uint64
}

// VerifEventNodePort is the shape of the cluster facade the production adapter expects.
type VerifEventNodePort interface {
	AppendMessageEvent(context.Context, metadb.MessageEventAppend) (metadb.MessageEventAppendResult, error)
	GetMessageEventStatesBatch(context.Context, []metadb.MessageEventMessageKey, int) (map[metadb.MessageEventMessageKey][]metadb.MessageEventState, error)
}

// VerifUsecaseFactory is set by the external test package: it builds the real
// message.App over the real infra adapter over the given node port.
var VerifUsecaseFactory func(port VerifEventNodePort, now func() time.Time) func(context.Context, VerifUsecaseEvent) (VerifUsecaseResult, error)

// ecsPort is "the cluster as seen from entry node X": the local path is the real
// Node.AppendMessageEvent; the forward to the leader is the simulated network.
type ecsPort struct {
	w     *ecsWorld
	entry uint64
}

var errSimForward = errors.New("sim: forward to slot leader failed")

func (p *ecsPort) AppendMessageEvent(ctx context.Context, ev metadb.MessageEventAppend) (metadb.MessageEventAppendResult, error) {
	w := p.w
	w.portCalls++
	w.portSeen = ev
	if p.entry == w.leader {
		res, err := w.nodes[p.entry].AppendMessageEvent(ctx, ev)
		w.innerRes, w.innerErr = res, err
		return res, err
	}
	// what Node.AppendMessageEvent does before forwarding, then the leader's RPC handler
	if err := ctx.Err(); err != nil {
		w.innerErr = err
		return metadb.MessageEventAppendResult{}, err
	}
	nev, err := normalizeClusterMessageEventAppend(ev)
	if err != nil {
		w.innerErr = err
		return metadb.MessageEventAppendResult{}, err
	}
	fault := 0
	if w.faults {
		fault = w.r.Tape.Weighted([]int{10, 1, 1})
	}
	if fault == 1 {
		w.r.Fault("forward_failed_before_delivery")
		w.portFault = "before"
		w.innerErr = errSimForward
		return metadb.MessageEventAppendResult{}, errSimForward
	}
	w.r.Probe("forwarded_to_leader")
	res, err := w.nodes[w.leader].appendMessageEventLocal(ctx, nev)
	w.innerRes, w.innerErr = res, err
	if fault == 2 {
		w.r.Fault("forward_response_lost")
		w.portFault = "after"
		return metadb.MessageEventAppendResult{}, errSimForward
	}
	return res, err
}

func (p *ecsPort) GetMessageEventStatesBatch(context.Context, []metadb.MessageEventMessageKey, int) (map[metadb.MessageEventMessageKey][]metadb.MessageEventState, error) {
	return nil, errors.New("sim: reads are not part of this engine")
}

func ecsNewNode(w *ecsWorld, id uint64, maxSessions int) *Node {
	n := &Node{cfg: Config{NodeID: id}, router: routing.NewRouter(), routeAuthorityEpochs: map[uint16]uint64{},
		routeAuthorityPublished: map[uint16]routeAuthorityKey{}, messageEventStreamCache: newMessageEventStreamCache(maxSessions)}
	n.proposer = &ecsProposer{w: w, node: id}
	if err := n.router.UpdateControlSnapshot(routeAuthoritySnapshot(1)); err != nil {
		w.r.Infra("UpdateControlSnapshot: %v", err)
	}
	n.started.Store(true)
	return n
}

func (w *ecsWorld) setLeader(id uint64) {
	w.term++
	w.leader = id
	for _, nid := range []uint64{1, 2} {
		n := w.nodes[nid]
		before := n.messageEventStreamCache.observation().Sessions
		term := w.term
		_ = n.updateRouteAuthorityTable(func() error {
			n.router.UpdateSlotLeaders([]routing.SlotStatus{{SlotID: 1, Leader: id, LeaderTerm: term}})
			return nil
		})
		if nid != id {
			// the node that is not the leader must have dropped its in-flight projections
			if before > 0 {
				w.losses++
				w.r.Fault("cache_lost_leader_change")
			}
			w.cache[nid] = map[string]*ecsSession{}
		}
	}
}

func ecsText(payload []byte) (string, bool) {
	var t struct {
		Kind string `json:"kind"`
		Text string `json:"text"`
	}
	if len(payload) == 0 {
		return "", false
	}
	if json.Unmarshal(payload, &t) != nil || t.Kind != "text" {
		return string(payload), true
	}
	return t.Text, true
}

func ecsTerminal(s string) bool {
	return s == metadb.EventStatusClosed || s == metadb.EventStatusError || s == metadb.EventStatusCancelled
}

// sessionFor returns the reference session of node id, creating it like the cache does.
func (w *ecsWorld) sessionFor(id uint64, msg string, create bool) *ecsSession {
	s := w.cache[id][msg]
	if s == nil && create {
		s = &ecsSession{lanes: map[string]*ecsLane{}, seen: map[string]bool{}}
		w.cache[id][msg] = s
	}
	return s
}

func (s *ecsSession) allTerminal() bool {
	for _, l := range s.lanes {
		if !ecsTerminal(l.status) {
			return false
		}
	}
	return true
}

// capacityAllows mirrors the statement of the bounded cache: a new session fits
// if there is room or a fully terminal session can make room (the oldest one).
func (w *ecsWorld) capacityAllows(id uint64) (bool, bool) {
	if len(w.cache[id]) < w.max {
		return true, false
	}
	for _, s := range w.cache[id] {
		if s.allTerminal() {
			return true, true
		}
	}
	return false, false
}

func (w *ecsWorld) durableStates(msg string) map[string]metadb.MessageEventState {
	hs := routing.HashSlotForKey(w.channel, 2)
	states, err := ecsDB.ForHashSlot(hs).ListMessageEventStates(context.Background(), w.channel, w.chanType, msg, 100)
	if err != nil {
		w.r.Infra("ListMessageEventStates: %v", err)
		return nil
	}
	out := map[string]metadb.MessageEventState{}
	for _, st := range states {
		out[st.EventKey] = st
	}
	return out
}

// checkCache compares the real cache of node id with its reference.
func (w *ecsWorld) checkCache(id uint64, when string) {
	r := w.r
	n := w.nodes[id]
	obs := n.messageEventStreamCache.observation()
	for _, msg := range w.msgs {
		states := n.messageEventStreamCache.states(w.msgKey(msg))
		ref := w.cache[id][msg]
		if ref == nil {
			if len(states) != 0 {
				// an evicted-by-capacity terminal session may linger in the reference only; the
				// reverse (cache holds lanes the reference dropped) matters only for open lanes
				for _, st := range states {
					if !ecsTerminal(st.Status) {
						r.Fail("cache-state-mismatch", fmt.Sprintf("%s: node%d cache holds open lane %q of %s that the reference does not have", when, id, st.EventKey, msg), nil)
						return
					}
				}
			}
			continue
		}
		got := map[string]metadb.MessageEventState{}
		for _, st := range states {
			got[st.EventKey] = st
		}
		for _, lk := range simkit.SortedKeys(ref.lanes) {
			rl := ref.lanes[lk]
			st, ok := got[lk]
			if !ok {
				if ecsTerminal(rl.status) && ref.allTerminal() {
					continue // the whole terminal session may have been evicted to make room
				}
				r.FailSig("cache-open-lane-lost", "missing", fmt.Sprintf("%s: node%d cache lost lane %q of %s (reference status %s, text %q) without a leader change, restore or finish", when, id, lk, msg, rl.status, rl.text), nil)
				return
			}
			if ecsTerminal(rl.status) != ecsTerminal(st.Status) {
				r.Fail("cache-state-mismatch", fmt.Sprintf("%s: node%d lane %q of %s has status %s, reference %s", when, id, lk, msg, st.Status, rl.status), nil)
				return
			}
			if !ecsTerminal(rl.status) {
				txt, has := ecsText(st.SnapshotPayload)
				if has != rl.hasPay || txt != rl.text {
					r.FailSig("cache-open-lane-lost", "text", fmt.Sprintf("%s: node%d lane %q of %s caches %q, acknowledged events add up to %q", when, id, lk, msg, txt, rl.text), nil)
					return
				}
			}
		}
	}
	if obs.Sessions > w.max {
		r.Fail("cache-over-capacity", fmt.Sprintf("%s: node%d holds %d sessions, capacity %d", when, id, obs.Sessions, w.max), nil)
	}
}

func (w *ecsWorld) genEvent() (metadb.MessageEventAppend, string) {
	t := w.r.Tape
	if len(w.sent) > 0 && t.Chance(1, 5) {
		ev := w.sent[t.Intn(len(w.sent))]
		if !t.Chance(1, 3) || ev.EventType == metadb.EventTypeStreamFinish {
			w.r.Fault("event_retry")
			return ev, "retry"
		}
		// a retry of a known event id that names another lane (or none: the default lane):
		// half of the time the id of a durable terminal event
		if t.Chance(1, 2) {
			var term []metadb.MessageEventAppend
			for _, old := range w.sent {
				if isMessageEventTerminalEvent(old.EventType) && old.EventType != metadb.EventTypeStreamFinish {
					term = append(term, old)
				}
			}
			if len(term) > 0 {
				ev = term[t.Intn(len(term))]
			}
		}
		if ev.EventType != metadb.EventTypeStreamFinish {
			var others []string
			for _, k := range ecsLaneKeys {
				if k != ev.EventKey {
					others = append(others, k)
				}
			}
			ev.EventKey = others[t.Intn(len(others))]
		}
		w.r.Fault("event_retry_other_lane")
		return ev, "retry-rekeyed"
	}
	w.evCount++
	w.clock++
	types := []string{metadb.EventTypeStreamDelta, metadb.EventTypeStreamOpen, metadb.EventTypeStreamSnapshot,
		metadb.EventTypeStreamFinish, metadb.EventTypeStreamClose, metadb.EventTypeStreamError, metadb.EventTypeStreamCancel}
	typ := types[t.Weighted([]int{12, 2, 2, 4, 2, 1, 1})]
	ev := metadb.MessageEventAppend{ChannelID: w.channel, ChannelType: w.chanType, ClientMsgNo: w.msgs[t.Intn(len(w.msgs))],
		EventID: fmt.Sprintf("e%d", w.evCount), EventKey: ecsLaneKeys[t.Weighted([]int{3, 1, 1, 1})], EventType: typ,
		Visibility: metadb.VisibilityPublic, OccurredAt: w.clock, UpdatedAt: w.clock}
	switch typ {
	case metadb.EventTypeStreamDelta:
		ev.Payload = []byte(fmt.Sprintf(`{"kind":"text","delta":"%c"}`, 'a'+rune(w.evCount%26)))
	case metadb.EventTypeStreamSnapshot:
		ev.Payload = []byte(fmt.Sprintf(`{"kind":"text","text":"S%d"}`, w.evCount))
	case metadb.EventTypeStreamFinish:
		ev.EventKey = metadb.EventKeyFinish
		switch t.Weighted([]int{6, 2, 1}) {
		case 1:
			ev.Payload = []byte(`{"end_reason":3}`)
		case 2:
			ev.Payload = []byte(fmt.Sprintf(`{"end_reason":1,"snapshot":{"kind":"text","text":"F%d"}}`, w.evCount))
		}
	case metadb.EventTypeStreamClose, metadb.EventTypeStreamError, metadb.EventTypeStreamCancel:
		if t.Chance(1, 2) {
			ev.Payload = []byte(`{"end_reason":2,"error":"x"}`)
		}
	}
	w.sent = append(w.sent, ev)
	return ev, "new"
}

// lanes a client may name; the empty key means the default lane
var ecsLaneKeys = []string{"main", "aux", "tool", ""}

func ecsLaneOf(ev metadb.MessageEventAppend) string {
	if ev.EventType == metadb.EventTypeStreamFinish {
		return metadb.EventKeyFinish
	}
	if ev.EventKey == "" {
		return metadb.EventKeyDefault
	}
	return ev.EventKey
}

func ecsStateMap(states []metadb.MessageEventState) map[string]metadb.MessageEventState {
	out := map[string]metadb.MessageEventState{}
	for _, st := range states {
		out[st.EventKey] = st
	}
	return out
}

func ecsSameState(a, b metadb.MessageEventState) bool {
	return a.Status == b.Status && a.LastMsgEventSeq == b.LastMsgEventSeq && a.LastEventID == b.LastEventID &&
		string(a.SnapshotPayload) == string(b.SnapshotPayload) && a.EndReason == b.EndReason && a.Error == b.Error
}

func payloadHasSnapshot(p []byte) bool {
	var body map[string]json.RawMessage
	if len(p) == 0 || json.Unmarshal(p, &body) != nil {
		return false
	}
	raw, ok := body["snapshot"]
	return ok && len(raw) > 0 && string(raw) != "null"
}

func payloadSnapshot(p []byte) []byte {
	var body map[string]json.RawMessage
	if json.Unmarshal(p, &body) != nil {
		return nil
	}
	return body["snapshot"]
}

// send delivers one event to node id through the leader entry point and checks the outcome.
func (w *ecsWorld) send(id uint64, ev metadb.MessageEventAppend, kind string) {
	r := w.r
	n := w.nodes[id]
	msg := ev.ClientMsgNo
	isLeader := id == w.leader
	before := w.durableStates(msg)
	commitsBefore := w.commits
	// what the node's cache holds for this message right now (white box)
	var openBefore []metadb.MessageEventState
	if ev.EventType == metadb.EventTypeStreamFinish {
		openBefore = n.messageEventStreamCache.openStatesForFinish(ev)
	}
	lane := ecsLaneOf(ev) // the lane this request names after normalisation
	evN := ev
	evN.EventKey = lane
	cacheBefore := ecsStateMap(n.messageEventStreamCache.states(w.msgKey(msg)))
	// what the reference says this leader has acknowledged into its cache and not yet made durable
	type refOpenLane struct {
		key, text string
		hasPay    bool
	}
	var refOpen []refOpenLane
	if s := w.sessionFor(id, msg, false); s != nil && ev.EventType == metadb.EventTypeStreamFinish && id == w.leader {
		for _, k := range simkit.SortedKeys(s.lanes) {
			if l := s.lanes[k]; k != metadb.EventKeyFinish && !ecsTerminal(l.status) {
				refOpen = append(refOpen, refOpenLane{key: k, text: l.text, hasPay: l.hasPay})
			}
		}
	}
	var res metadb.MessageEventAppendResult
	var err error
	if w.usecase {
		// the caller goes through the real use case and adapter; the oracles below then
		// judge what the leader did, the use-case oracles what the caller was told
		var proceed bool
		res, err, proceed = w.invokeUsecase(ev, kind, before, cacheBefore)
		r.Steps++
		if !proceed || r.Failed() {
			return
		}
	} else {
		res, err = n.appendMessageEventLocal(context.Background(), ev)
		r.Logf("send node%d %s %s id=%s msg=%s lane=%q pay=%s -> seq=%d status=%s err=%v", id, kind, ev.EventType, ev.EventID, msg, ev.EventKey, ev.Payload, res.MsgEventSeq, res.Status, err)
		r.Steps++
	}
	if !isLeader {
		if !errors.Is(err, ErrNotLeader) {
			r.Fail("not-leader-accepted-event", fmt.Sprintf("node%d is not the leader (leader is node%d) but answered %v", id, w.leader, err), nil)
		}
		return
	}
	after := w.durableStates(msg)
	switch {
	case isMessageEventCacheOnlyEvent(ev.EventType):
		if w.paused[id] {
			if !errors.Is(err, ErrMaintenance) {
				r.Fail("cache-accepted-during-restore", fmt.Sprintf("node%d accepted %s during restore maintenance: %v", id, ev.EventType, err), nil)
			}
			return
		}
		if w.commits != commitsBefore {
			r.Fail("cache-only-event-proposed", fmt.Sprintf("%s caused a durable proposal", ev.EventType), nil)
			return
		}
		s := w.sessionFor(id, msg, false)
		if s == nil {
			fits, evict := w.capacityAllows(id)
			if !fits {
				if !errors.Is(err, ErrBackpressured) {
					r.FailSig("cache-open-lane-lost", "evicted", fmt.Sprintf("node%d cache is full of open sessions (capacity %d) but accepted a new session: err=%v", id, w.max, err), nil)
				}
				w.rejected++
				r.Probe("capacity_backpressure")
				return
			}
			if evict {
				// one fully terminal session leaves; the reference does not know which one the
				// cache picks (oldest by wall clock), so forget all terminal sessions that the
				// real cache no longer holds
				r.Probe("terminal_session_evicted")
			}
			s = w.sessionFor(id, msg, true)
		}
		if err != nil {
			r.Fail("cache-append-error", fmt.Sprintf("node%d refused %s with %v although it is leader, not in restore and has room", id, ev.EventType, err), nil)
			return
		}
		w.clientAck(evN)
		if !s.seen[ev.EventID] {
			s.seen[ev.EventID] = true
			rl := s.lanes[lane]
			if rl == nil {
				rl = &ecsLane{status: metadb.EventStatusOpen}
				s.lanes[lane] = rl
			}
			if !ecsTerminal(rl.status) {
				rl.touched = true
				switch ev.EventType {
				case metadb.EventTypeStreamDelta:
					var d struct {
						Delta string `json:"delta"`
					}
					_ = json.Unmarshal(ev.Payload, &d)
					rl.text += d.Delta
					rl.hasPay = true
				case metadb.EventTypeStreamSnapshot:
					rl.text, rl.hasPay = ecsText(ev.Payload)
				}
			}
		}
		w.syncEvicted(id)
	case ev.EventType == metadb.EventTypeStreamFinish:
		w.finishes++
		hasSnap := payloadHasSnapshot(ev.Payload)
		_, finishedBefore := before[metadb.EventKeyFinish]
		finishAfter, finishedAfter := after[metadb.EventKeyFinish]
		if len(openBefore) == 0 && !hasSnap {
			// fail closed: nothing cached to flush and no snapshot supplied
			r.Probe("finish_with_empty_cache")
			if err == nil || (!finishedBefore && finishedAfter) {
				r.FailSig("finish-completed-without-cache", "total-loss", fmt.Sprintf("node%d had no open cached lane for %s and the finish %s carries no snapshot, yet it answered err=%v and the durable finish marker present=%v (before %v)",
					id, msg, ev.EventID, err, finishedAfter, finishedBefore), nil)
				return
			}
			if !errors.Is(err, ErrMessageEventStreamCacheMiss) {
				r.Fail("finish-wrong-error", fmt.Sprintf("finish with empty cache answered %v, want the cache-miss error", err), nil)
			}
			return
		}
		if err != nil {
			// a failed finish must not have removed the cached lanes unless the commit happened
			r.Probe("finish_failed")
			if w.commits == commitsBefore {
				for k, st := range after {
					if b, ok := before[k]; !ok || b.LastMsgEventSeq != st.LastMsgEventSeq {
						r.Fail("finish-failed-but-wrote", fmt.Sprintf("finish %s failed with %v before any commit but lane %q changed", ev.EventID, err, k), nil)
						return
					}
				}
			}
			return
		}
		r.Probe("finish_completed")
		if !finishedAfter || !ecsTerminal(finishAfter.Status) {
			r.Fail("finish-not-durable", fmt.Sprintf("finish %s answered success but the durable finish marker is %+v", ev.EventID, finishAfter), nil)
			return
		}
		// every lane that was open in the cache must now be durable, final and complete
		for _, st := range openBefore {
			d, ok := after[st.EventKey]
			if !ok || !ecsTerminal(d.Status) {
				r.FailSig("finish-dropped-cached-lane", "missing", fmt.Sprintf("finish %s completed but cached open lane %q of %s (text %q) is not final in the durable projection: %+v", ev.EventID, st.EventKey, msg, st.SnapshotPayload, d), nil)
				return
			}
			if b, was := before[st.EventKey]; was && ecsTerminal(b.Status) {
				continue // finalised earlier by somebody else: final lanes never change
			}
			want, has := ecsText(st.SnapshotPayload)
			if hasSnap {
				// a snapshot supplied with the finish is the client's final word for every flushed lane
				want, has = ecsText(payloadSnapshot(ev.Payload))
			}
			got, _ := ecsText(d.SnapshotPayload)
			if has && got != want {
				r.FailSig("finish-dropped-cached-lane", "text", fmt.Sprintf("finish %s completed; cached lane %q of %s held %q, the durable projection holds %q", ev.EventID, st.EventKey, msg, want, got), nil)
				return
			}
		}
		// the same from the client's side of this leader: text it acknowledged into its cache
		// and never made durable must not be missing from a projection it completes
		for _, ro := range refOpen {
			d, ok := after[ro.key]
			if !ok || !ecsTerminal(d.Status) {
				r.FailSig("finish-dropped-cached-lane", "acknowledged-missing", fmt.Sprintf("finish %s completed but lane %q of %s, which this leader acknowledged (text %q) and never finalised, is not final in the durable projection: %+v", ev.EventID, ro.key, msg, ro.text, d), nil)
				return
			}
			if b, was := before[ro.key]; was && ecsTerminal(b.Status) {
				continue
			}
			want, has := ro.text, ro.hasPay
			if hasSnap {
				want, has = ecsText(payloadSnapshot(ev.Payload))
			}
			if got, _ := ecsText(d.SnapshotPayload); has && got != want {
				r.FailSig("finish-dropped-cached-lane", "acknowledged-text", fmt.Sprintf("finish %s completed; this leader acknowledged %q on lane %q of %s, the durable projection holds %q", ev.EventID, want, ro.key, msg, got), nil)
				return
			}
		}
		if len(openBefore) > 0 {
			r.Probe("finish_flushed_open_lanes")
		}
		// client view (not part of the verdict): acknowledged text that only lived in a lost cache
		if !hasSnap {
			w.noteClientLoss(msg, after)
		} else {
			delete(w.client, msg)
		}
		delete(w.cache[id], msg)
	default: // close / error / cancel: durable, merged with the cached snapshot
		if err != nil {
			return
		}
		// the lane the durable reducer attributes this event id to: the named lane, or, for
		// a replayed id, the lane of its first application
		durLane := res.EventKey
		d, ok := after[durLane]
		if !ok || !ecsTerminal(d.Status) {
			r.Fail("terminal-not-durable", fmt.Sprintf("%s %s answered success for lane %q but that durable lane is %+v", ev.EventType, ev.EventID, durLane, d), nil)
			return
		}
		s := w.sessionFor(id, msg, false)
		if durLane != lane {
			// a replayed event id that names another lane: it is not applied again, so neither
			// the durable projection nor the cached state of the lane it names may change
			r.Probe("replay_names_other_lane")
			for _, k := range simkit.SortedKeys(after) {
				if b, was := before[k]; !was || !ecsSameState(b, after[k]) {
					r.FailSig("replay-applied-twice", "durable", fmt.Sprintf("%s %s is a replay (first applied on lane %q) naming lane %q; durable lane %q changed from %+v to %+v", ev.EventType, ev.EventID, durLane, lane, k, b, after[k]), nil)
					return
				}
			}
			cacheAfter := ecsStateMap(n.messageEventStreamCache.states(w.msgKey(msg)))
			cb, hadB := cacheBefore[lane]
			ca, hadA := cacheAfter[lane]
			if hadB != hadA || (hadB && (cb.Status != ca.Status || string(cb.SnapshotPayload) != string(ca.SnapshotPayload))) {
				r.FailSig("replay-applied-twice", "cache", fmt.Sprintf("%s %s is a replay (first applied on lane %q) naming lane %q; node%d's cached lane %q went from present=%v status=%q text=%q to present=%v status=%q text=%q",
					ev.EventType, ev.EventID, durLane, lane, id, lane, hadB, cb.Status, cb.SnapshotPayload, hadA, ca.Status, ca.SnapshotPayload), nil)
				return
			}
			if hadB && !ecsTerminal(cb.Status) && len(cb.SnapshotPayload) > 0 {
				r.Probe("replay_names_open_cached_lane")
			}
			if s != nil {
				// the lane of the first application is final in the durable projection
				if rl := s.lanes[durLane]; rl != nil {
					rl.status = d.Status
				} else {
					s.lanes[durLane] = &ecsLane{status: d.Status}
				}
				s.seen[ev.EventID] = true
			}
			return
		}
		if s != nil {
			if rl := s.lanes[lane]; rl != nil && !ecsTerminal(rl.status) {
				if b, was := before[lane]; !(was && ecsTerminal(b.Status)) && rl.hasPay && !payloadHasSnapshot(ev.Payload) {
					got, _ := ecsText(d.SnapshotPayload)
					if got != rl.text {
						r.FailSig("finish-dropped-cached-lane", "terminal-merge", fmt.Sprintf("%s %s finalised lane %q of %s; the cache held %q, the durable projection holds %q", ev.EventType, ev.EventID, lane, msg, rl.text, got), nil)
						return
					}
					r.Probe("terminal_merged_cached_snapshot")
				}
				rl.status = d.Status
			} else if rl == nil {
				s.lanes[lane] = &ecsLane{status: d.Status}
			}
			s.seen[ev.EventID] = true
		}
	}
}

// syncEvicted drops reference sessions that are fully terminal and no longer in the real cache.
func (w *ecsWorld) syncEvicted(id uint64) {
	n := w.nodes[id]
	for _, msg := range w.msgs {
		s := w.cache[id][msg]
		if s == nil || !s.allTerminal() {
			continue
		}
		if len(n.messageEventStreamCache.states(w.msgKey(msg))) == 0 {
			delete(w.cache[id], msg)
		}
	}
}

// client-side bookkeeping of acknowledged cache-only events per lane, across leaders
type ecsClientLane struct {
	text string
	has  bool
	seen map[string]bool
}

func (w *ecsWorld) clientAck(ev metadb.MessageEventAppend) {
	m := w.client[ev.ClientMsgNo]
	if m == nil {
		m = map[string]*ecsClientLane{}
		w.client[ev.ClientMsgNo] = m
	}
	l := m[ev.EventKey]
	if l == nil {
		l = &ecsClientLane{seen: map[string]bool{}}
		m[ev.EventKey] = l
	}
	if l.seen[ev.EventID] {
		return
	}
	l.seen[ev.EventID] = true
	switch ev.EventType {
	case metadb.EventTypeStreamDelta:
		var d struct {
			Delta string `json:"delta"`
		}
		_ = json.Unmarshal(ev.Payload, &d)
		l.text += d.Delta
		l.has = true
	case metadb.EventTypeStreamSnapshot:
		l.text, l.has = ecsText(ev.Payload)
	}
}

// noteClientLoss only counts (it is not part of the verdict): a completed
// projection whose lane text differs from what leaders acknowledged to the
// client, because part of it lived only in a cache that was lost before the
// finish. The guard under test sees the cache, not the client's history.
func (w *ecsWorld) noteClientLoss(msg string, after map[string]metadb.MessageEventState) {
	lanes := w.client[msg]
	keys := make([]string, 0, len(lanes))
	for k := range lanes {
		keys = append(keys, k)
	}
	sort.Strings(keys)
	for _, k := range keys {
		l := lanes[k]
		if !l.has {
			continue
		}
		got, _ := ecsText(after[k].SnapshotPayload)
		if got != l.text {
			w.r.Probe("client_acked_text_missing_after_finish")
			w.r.Logf("  note: lane %q of %s completed with %q, leaders acknowledged %q", k, msg, got, l.text)
		}
	}
	delete(w.client, msg)
}

// ---- C40usecase: what the CALLER of message.App.AppendMessageEvent observes ----

func ucZero(c VerifUsecaseResult) bool {
	return c.FromUID == "" && c.MessageID == 0 && c.Res.ChannelID == "" && c.Res.ChannelType == 0 && c.Res.ClientMsgNo == "" && c.Res.EventID == "" &&
		c.Res.EventKey == "" && c.Res.MsgEventSeq == 0 && c.Res.Status == "" && c.Res.State.EventKey == "" && len(c.Res.State.SnapshotPayload) == 0
}

// unchanged verifies that neither the durable projection nor the leader's cache moved.
func (w *ecsWorld) unchanged(why string, msg string, before, cacheBefore map[string]metadb.MessageEventState) {
	after := w.durableStates(msg)
	if len(after) != len(before) {
		w.r.FailSig("usecase-refused-but-wrote", "durable", fmt.Sprintf("%s: the durable projection of %s went from %d to %d lanes", why, msg, len(before), len(after)), nil)
		return
	}
	for _, k := range simkit.SortedKeys(after) {
		if b, ok := before[k]; !ok || !ecsSameState(b, after[k]) {
			w.r.FailSig("usecase-refused-but-wrote", "durable", fmt.Sprintf("%s: durable lane %q of %s changed from %+v to %+v", why, k, msg, b, after[k]), nil)
			return
		}
	}
	cacheAfter := ecsStateMap(w.nodes[w.leader].messageEventStreamCache.states(w.msgKey(msg)))
	if len(cacheAfter) != len(cacheBefore) {
		w.r.FailSig("usecase-refused-but-wrote", "cache", fmt.Sprintf("%s: the leader's cache of %s went from %d to %d lanes", why, msg, len(cacheBefore), len(cacheAfter)), nil)
		return
	}
	for _, k := range simkit.SortedKeys(cacheAfter) {
		b, a := cacheBefore[k], cacheAfter[k]
		if b.Status != a.Status || string(b.SnapshotPayload) != string(a.SnapshotPayload) || b.LastEventID != a.LastEventID {
			w.r.FailSig("usecase-refused-but-wrote", "cache", fmt.Sprintf("%s: cached lane %q of %s changed", why, k, msg), nil)
			return
		}
	}
}

// clientForm dresses the canonical event the way a caller may send it.
func (w *ecsWorld) clientForm(ev metadb.MessageEventAppend) (VerifUsecaseEvent, bool) {
	t := w.r.Tape
	u := VerifUsecaseEvent{Ev: ev, FromUID: w.uidA, MessageID: uint64(1000 + w.evCount)}
	if w.chanType == 1 {
		switch t.Intn(3) {
		case 0: // the sender names its peer
			u.Ev.ChannelID = w.uidB
		case 1: // the peer answers on the same conversation
			u.FromUID, u.Ev.ChannelID = w.uidB, w.uidA
		case 2: // already canonical
		}
	}
	if t.Chance(1, 4) {
		// untrimmed / differently cased fields, as entry adapters may pass them
		u.Ev.EventID = " " + u.Ev.EventID + " "
		u.Ev.ClientMsgNo = u.Ev.ClientMsgNo + " "
		u.Ev.EventType = " " + strings.ToUpper(u.Ev.EventType[:1]) + u.Ev.EventType[1:] + " "
		if u.Ev.EventKey != "" {
			u.Ev.EventKey = " " + u.Ev.EventKey
		}
		u.FromUID = " " + u.FromUID + " "
		w.r.Probe("untrimmed_request")
	}
	zeroUpdated := t.Chance(1, 4)
	if zeroUpdated {
		u.Ev.UpdatedAt = 0
	}
	return u, zeroUpdated
}

// invokeUsecase sends ev through message.App on the current entry node. It returns what
// the LEADER answered (for the cache / finish oracles) and whether those oracles apply.
func (w *ecsWorld) invokeUsecase(ev metadb.MessageEventAppend, kind string, before, cacheBefore map[string]metadb.MessageEventState) (metadb.MessageEventAppendResult, error, bool) {
	r, t := w.r, w.r.Tape
	msg := ev.ClientMsgNo
	u, zeroUpdated := w.clientForm(ev)
	w.nowMs = 5000 + w.clock
	ctx := context.Background()
	cancelled := false
	if w.faults && t.Chance(1, 14) {
		c, cancel := context.WithCancel(ctx)
		cancel()
		ctx, cancelled = c, true
		r.Fault("caller_context_cancelled")
	}
	callsBefore := w.portCalls
	w.portFault, w.innerRes, w.innerErr = "", metadb.MessageEventAppendResult{}, nil
	cres, cerr := w.callers[w.entry](ctx, u)
	r.Logf("call entry=node%d leader=node%d %s %s id=%q msg=%q lane=%q from=%s canonical-channel=%v pay=%s -> seq=%d status=%s err=%v (leader: seq=%d status=%s err=%v fault=%q)", w.entry, w.leader, kind, ev.EventType,
		u.Ev.EventID, u.Ev.ClientMsgNo, u.Ev.EventKey, map[bool]string{true: "A", false: "B"}[strings.TrimSpace(u.FromUID) == w.uidA], u.Ev.ChannelID == w.channel, ev.Payload, cres.Res.MsgEventSeq, cres.Res.Status, cerr, w.innerRes.MsgEventSeq, w.innerRes.Status, w.innerErr, w.portFault)
	if cerr != nil && !ucZero(cres) {
		r.Fail("usecase-result-on-error", fmt.Sprintf("the caller got error %v together with a non-empty result %+v", cerr, cres), nil)
		return cres.Res, cerr, false
	}
	if w.portCalls != callsBefore+1 {
		r.Fail("usecase-port-calls", fmt.Sprintf("a well-formed %s made %d calls to the event store, want 1 (err %v)", ev.EventType, w.portCalls-callsBefore, cerr), nil)
		return cres.Res, cerr, false
	}
	// the request as the store received it: one canonical message identity and idempotency key
	seen := w.portSeen
	if seen.ChannelID != w.channel || seen.ChannelType != w.chanType {
		r.Fail("usecase-channel-not-canonical", fmt.Sprintf("the store was asked for channel %q/%d, the canonical channel of this conversation is %q/%d (from %q, given %q)", seen.ChannelID, seen.ChannelType, w.channel, w.chanType, u.FromUID, u.Ev.ChannelID), nil)
		return cres.Res, cerr, false
	}
	if seen.EventID != ev.EventID || seen.ClientMsgNo != ev.ClientMsgNo {
		r.Fail("usecase-identity-changed", fmt.Sprintf("the store was asked for message %q event id %q, the caller sent %q / %q", seen.ClientMsgNo, seen.EventID, u.Ev.ClientMsgNo, u.Ev.EventID), nil)
		return cres.Res, cerr, false
	}
	if zeroUpdated && seen.UpdatedAt != w.nowMs {
		r.Fail("usecase-updated-at", fmt.Sprintf("UpdatedAt %d reached the store, want the use case clock %d", seen.UpdatedAt, w.nowMs), nil)
		return cres.Res, cerr, false
	}
	if cancelled {
		if !errors.Is(cerr, context.Canceled) {
			r.FailSig("usecase-swallowed-error", "context", fmt.Sprintf("caller context was cancelled, the call answered %v", cerr), nil)
			return cres.Res, cerr, false
		}
		w.unchanged("cancelled call", msg, before, cacheBefore)
		return cres.Res, cerr, false
	}
	if w.portFault == "before" {
		if cerr == nil {
			r.FailSig("usecase-swallowed-error", "forward", "the forward to the leader failed, the caller was told success", nil)
			return cres.Res, cerr, false
		}
		w.unchanged("failed forward", msg, before, cacheBefore)
		return cres.Res, cerr, false
	}
	if w.innerErr != nil || w.portFault == "after" {
		// fail closed: an error below must reach the caller as an error
		if cerr == nil {
			sig := "other"
			if errors.Is(w.innerErr, ErrMessageEventStreamCacheMiss) {
				sig = "cache-miss"
			} else if w.portFault == "after" {
				sig = "forward"
			}
			r.FailSig("usecase-swallowed-error", sig, fmt.Sprintf("the event store answered %v (fault %q) for %s %s, the caller was told success: %+v", w.innerErr, w.portFault, ev.EventType, ev.EventID, cres.Res), nil)
			return cres.Res, cerr, false
		}
		if w.portFault == "" && !errors.Is(cerr, w.innerErr) {
			r.Fail("usecase-error-replaced", fmt.Sprintf("the event store answered %v, the caller got %v which does not wrap it", w.innerErr, cerr), nil)
			return cres.Res, cerr, false
		}
	} else {
		if cerr != nil {
			r.Fail("usecase-spurious-error", fmt.Sprintf("the event store accepted %s %s, the caller got %v", ev.EventType, ev.EventID, cerr), nil)
			return cres.Res, cerr, false
		}
		in, got := w.innerRes, cres.Res
		if got.ChannelID != w.channel || got.ClientMsgNo != ev.ClientMsgNo || got.EventID != ev.EventID || got.EventKey != in.EventKey || got.MsgEventSeq != in.MsgEventSeq || got.Status != in.Status ||
			string(got.State.SnapshotPayload) != string(in.State.SnapshotPayload) || got.State.Status != in.State.Status {
			r.Fail("usecase-result-mismatch", fmt.Sprintf("the caller got lane %q seq %d status %s payload %q, the event store answered lane %q seq %d status %s payload %q", got.EventKey, got.MsgEventSeq, got.Status, got.State.SnapshotPayload,
				in.EventKey, in.MsgEventSeq, in.Status, in.State.SnapshotPayload), nil)
			return cres.Res, cerr, false
		}
		if cres.FromUID != strings.TrimSpace(u.FromUID) || cres.MessageID != u.MessageID {
			r.Fail("usecase-result-mismatch", fmt.Sprintf("the caller's FromUID/MessageID were %q/%d, the result echoes %q/%d", u.FromUID, u.MessageID, cres.FromUID, cres.MessageID), nil)
			return cres.Res, cerr, false
		}
	}
	// a caller retry with the same event id is answered with the first durable outcome
	if w.innerErr == nil && !isMessageEventCacheOnlyEvent(ev.EventType) {
		key := msg + "|" + ev.EventID
		now := [3]string{w.innerRes.EventKey, fmt.Sprint(w.innerRes.MsgEventSeq), w.innerRes.Status}
		if old, ok := w.first[key]; ok {
			r.Probe("caller_retry_of_durable_event")
			if old != now {
				r.Fail("usecase-replay-result-differs", fmt.Sprintf("event id %s of %s was first answered lane %q seq %s status %s and now lane %q seq %s status %s", ev.EventID, msg, old[0], old[1], old[2], now[0], now[1], now[2]), nil)
				return cres.Res, cerr, false
			}
		} else if w.innerRes.State.LastEventID == ev.EventID {
			// remembered only when the reducer applied it: an id that met an already final
			// lane is not recorded by the projection and is answered with that lane's state
			w.first[key] = now
		}
	}
	return w.innerRes, w.innerErr, true
}

// sendMalformed sends a request the use case must refuse before it reaches the store.
func (w *ecsWorld) sendMalformed() {
	r, t := w.r, w.r.Tape
	msg := w.msgs[t.Intn(len(w.msgs))]
	w.evCount++
	u := VerifUsecaseEvent{FromUID: w.uidA, MessageID: 7, Ev: metadb.MessageEventAppend{ChannelID: w.channel, ChannelType: w.chanType, ClientMsgNo: msg,
		EventID: fmt.Sprintf("bad%d", w.evCount), EventKey: "main", EventType: metadb.EventTypeStreamDelta, Payload: []byte(`{"kind":"text","delta":"!"}`), UpdatedAt: 1}}
	what := []string{"no event id", "no client msg no", "no event type", "no channel id", "no channel type", "stranger on a person channel"}
	k := t.Intn(len(what))
	switch k {
	case 0:
		u.Ev.EventID = "  "
	case 1:
		u.Ev.ClientMsgNo = ""
	case 2:
		u.Ev.EventType = " "
	case 3:
		u.Ev.ChannelID = ""
	case 4:
		u.Ev.ChannelType = 0
	case 5:
		if w.chanType != 1 {
			u.Ev.EventID = ""
		} else {
			u.FromUID = "stranger"
		}
	}
	before := w.durableStates(msg)
	cacheBefore := ecsStateMap(w.nodes[w.leader].messageEventStreamCache.states(w.msgKey(msg)))
	calls := w.portCalls
	cres, cerr := w.callers[w.entry](context.Background(), u)
	r.Logf("call entry=node%d malformed (%s) -> err=%v", w.entry, what[k], cerr)
	r.Steps++
	r.Probe("malformed_request")
	if cerr == nil || !ucZero(cres) {
		r.Fail("usecase-accepted-malformed", fmt.Sprintf("a request with %s was answered err=%v result=%+v", what[k], cerr, cres), nil)
		return
	}
	if w.portCalls != calls {
		r.Fail("usecase-accepted-malformed", fmt.Sprintf("a request with %s reached the event store", what[k]), nil)
		return
	}
	w.unchanged("malformed request", msg, before, cacheBefore)
}

func runEventCache(r *simkit.Run, usecase bool) {
	if err := ecsOpen(); err != nil {
		r.Infra("open durable side: %v", err)
		return
	}
	t := r.Tape
	ecsExec++
	w := &ecsWorld{r: r, nodes: map[uint64]*Node{}, paused: map[uint64]bool{}, cache: map[uint64]map[string]*ecsSession{1: {}, 2: {}}, client: map[string]map[string]*ecsClientLane{},
		channel: fmt.Sprintf("ecs-%d-%d", os.Getpid(), ecsExec), chanType: 2, usecase: usecase, first: map[string][3]string{}}
	if usecase {
		if VerifUsecaseFactory == nil {
			r.Infra("the external half of the engine did not register the use case factory")
			return
		}
		w.uidA = fmt.Sprintf("ua%d-%d", os.Getpid(), ecsExec)
		if t.Chance(1, 2) {
			// a person conversation: both peers address it, each by the other's uid
			w.uidB = fmt.Sprintf("ub%d-%d", os.Getpid(), ecsExec)
			w.chanType = 1
			w.channel = channelid.EncodePersonChannel(w.uidA, w.uidB)
		}
		r.Config["person_channel"] = w.chanType == 1
		w.callers = map[uint64]func(context.Context, VerifUsecaseEvent) (VerifUsecaseResult, error){}
		for _, id := range []uint64{1, 2} {
			w.callers[id] = VerifUsecaseFactory(&ecsPort{w: w, entry: id}, func() time.Time { return time.UnixMilli(w.nowMs) })
		}
	}
	w.faults = !t.Chance(1, 4)
	w.max = []int{4, 1, 2}[t.Intn(3)]
	nMsgs := 1 + t.Intn(3)
	for i := 0; i < nMsgs; i++ {
		w.msgs = append(w.msgs, fmt.Sprintf("m%d", i))
	}
	steps := 8 + t.Intn(25)
	r.Config["faults"], r.Config["max_sessions"], r.Config["msgs"], r.Config["steps"] = w.faults, w.max, nMsgs, steps
	w.nodes[1] = ecsNewNode(w, 1, w.max)
	w.nodes[2] = ecsNewNode(w, 2, w.max)
	if r.InfraErr != "" {
		return
	}
	w.setLeader(1)
	for step := 0; step < steps && !r.Failed() && r.InfraErr == ""; step++ {
		weights := []int{14, 0, 0, 0}
		if w.faults {
			weights = []int{14, 2, 1, 1}
		}
		switch t.Weighted(weights) {
		case 0:
			if w.usecase {
				// the caller talks to either node; a non-leader entry forwards to the leader
				w.entry = w.leader
				if t.Chance(1, 3) {
					w.entry = 3 - w.leader
				}
				if t.Chance(1, 12) {
					w.sendMalformed()
					break
				}
				ev, kind := w.genEvent()
				w.send(w.leader, ev, kind)
				break
			}
			ev, kind := w.genEvent()
			target := w.leader
			if w.faults && t.Chance(1, 10) {
				target = 3 - w.leader // a client with a stale view of the leader
				r.Fault("sent_to_deposed_leader")
			}
			w.send(target, ev, kind)
		case 1:
			next := uint64(1 + t.Intn(2))
			r.Logf("LEADER -> node%d", next)
			w.setLeader(next)
		case 2:
			id := w.leader
			if !w.paused[id] {
				r.Logf("RESTORE pause node%d", id)
				if w.nodes[id].messageEventStreamCache.observation().Sessions > 0 {
					w.losses++
					r.Fault("cache_lost_restore")
				}
				w.nodes[id].messageEventStreamCache.pauseForRestore()
				w.paused[id] = true
				w.cache[id] = map[string]*ecsSession{}
			} else {
				r.Logf("RESTORE resume node%d", id)
				w.nodes[id].messageEventStreamCache.resumeAfterRestore()
				w.paused[id] = false
				w.cache[id] = map[string]*ecsSession{}
			}
		case 3:
			id := w.leader
			r.Logf("RESTORE reset caches node%d", id)
			if w.nodes[id].messageEventStreamCache.observation().Sessions > 0 {
				w.losses++
				r.Fault("cache_lost_restore")
			}
			w.nodes[id].ResetLocalRestoreCaches()
			w.cache[id] = map[string]*ecsSession{}
		}
		if r.Failed() || r.InfraErr != "" {
			break
		}
		for _, id := range []uint64{1, 2} {
			w.checkCache(id, fmt.Sprintf("after step %d", step))
		}
		obs := w.nodes[w.leader].messageEventStreamCache.observation()
		r.State("ecs", obs.Sessions, obs.OpenLanes > 0, w.paused[w.leader], w.leader)
	}
	r.Nontrivial = w.finishes > 0 && (w.losses > 0 || w.rejected > 0 || r.Faults["proposal_failed_before_commit"]+r.Faults["proposal_outcome_lost_after_commit"] > 0 ||
		r.Faults["forward_failed_before_delivery"]+r.Faults["forward_response_lost"]+r.Faults["caller_context_cancelled"] > 0)
}
