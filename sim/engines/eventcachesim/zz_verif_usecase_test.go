package cluster_test

// External half of the eventcachesim engine (part C40usecase). The white-box half
// lives in package cluster and cannot import internal/infra/cluster (it imports
// pkg/cluster); this half can. It builds the REAL message use case
// (internal/usecase/message.App) over the REAL production adapter
// (internal/infra/cluster.MessageEventStore) over the node port the white-box
// world hands in, and registers that constructor with the world.

import (
	"context"
	"time"

	infracluster "github.com/WuKongIM/WuKongIM/internal/infra/cluster"
	"github.com/WuKongIM/WuKongIM/internal/usecase/message"
	"github.com/WuKongIM/WuKongIM/pkg/cluster"
	metadb "github.com/WuKongIM/WuKongIM/pkg/db/meta"
)

func init() {
	cluster.VerifUsecaseFactory = func(port cluster.VerifEventNodePort, now func() time.Time) func(context.Context, cluster.VerifUsecaseEvent) (cluster.VerifUsecaseResult, error) {
		app := message.New(message.Options{EventStore: infracluster.NewMessageEventStore(port), Now: now})
		return func(ctx context.Context, u cluster.VerifUsecaseEvent) (cluster.VerifUsecaseResult, error) {
			res, err := app.AppendMessageEvent(ctx, message.MessageEventAppend{
				ChannelID: u.Ev.ChannelID, ChannelType: u.Ev.ChannelType, FromUID: u.FromUID, MessageID: u.MessageID,
				ClientMsgNo: u.Ev.ClientMsgNo, EventID: u.Ev.EventID, EventKey: u.Ev.EventKey, EventType: u.Ev.EventType,
				Visibility: u.Ev.Visibility, OccurredAt: u.Ev.OccurredAt, Payload: u.Ev.Payload, UpdatedAt: u.Ev.UpdatedAt,
			})
			out := cluster.VerifUsecaseResult{FromUID: res.FromUID, MessageID: res.MessageID}
			out.Res = metadb.MessageEventAppendResult{
				ChannelID: res.ChannelID, ChannelType: res.ChannelType, ClientMsgNo: res.ClientMsgNo, EventID: res.EventID,
				EventKey: res.EventKey, MsgEventSeq: res.MsgEventSeq, Status: res.Status,
				State: metadb.MessageEventState{
					ChannelID: res.State.ChannelID, ChannelType: res.State.ChannelType, ClientMsgNo: res.State.ClientMsgNo, EventKey: res.State.EventKey,
					Status: res.State.Status, LastMsgEventSeq: res.State.LastMsgEventSeq, LastEventID: res.State.LastEventID, LastEventType: res.State.LastEventType,
					LastVisibility: res.State.LastVisibility, LastOccurredAt: res.State.LastOccurredAt, SnapshotPayload: res.State.SnapshotPayload,
					EndReason: res.State.EndReason, Error: res.State.Error, UpdatedAt: res.State.UpdatedAt,
				},
			}
			return out, err
		}
	}
}
