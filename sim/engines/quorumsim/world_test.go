package quorumsim

import (
	"context"
	"errors"
	"fmt"
	"math/rand/v2"
	"sort"
	"strings"
	"sync"
	"time"

	"github.com/WuKongIM/WuKongIM/internal/verifsim/simkit"
	ch "github.com/WuKongIM/WuKongIM/pkg/channel"
	"github.com/WuKongIM/WuKongIM/pkg/channel/replication"
	channelstore "github.com/WuKongIM/WuKongIM/pkg/channel/store"
	"github.com/WuKongIM/WuKongIM/pkg/db/verifhook"
	goruntimeregistry "github.com/WuKongIM/WuKongIM/pkg/goroutine"
	"github.com/cockroachdb/pebble/v2"
	"github.com/cockroachdb/pebble/v2/vfs"
)

// decisions returned by World.Park at the seams of this engine
const (
	decDeliver = 0
	decDrop    = 1 // fail fast (connection refused / reset)
	decHold    = 2 // never answered: caller runs into its own deadline
	decDup     = 3 // request applied twice at the target
	decClosed  = -1

	decRespDeliver = 0
	decRespLose    = 1 // request was applied, response lost (fast error)
	decRespHold    = 2 // request was applied, response never arrives

	decSyncOK      = 0
	decSyncFail    = 1 // fails before writing (definitely not written)
	decSyncUnknown = 2 // writes, then reports unknown outcome
)

var errSim = errors.New("sim: injected transport failure")
var errSimDisk = errors.New("sim: injected disk failure")

type cfg struct {
	N, Q          int
	Channels      int
	Ops           int
	NoFaults      bool
	FDrop         bool
	FRespLoss     bool
	FDup          bool
	FHold         bool
	FPartition    bool
	FCrash        bool
	FSync         bool
	FAllAnswer    bool // installs only attempted while every voter is reachable
	Regime        int  // 0 disciplined+all-answer, 1 disciplined, 2 adversarial control plane
	StoreMode     int  // 0 memory channel store, 1 real MessageDB (commit coordinator, Pebble) on a simulated disk
	MemTable      int  // Pebble memtable size in MessageDB mode
	Retained      int
	PageBytes     int
	BatchItems    int
	ExchangeTO    time.Duration
	Hedge         time.Duration
	Trailing      time.Duration
	RetryBias     int
	ConflictBias  int
	InstallBias   int
	StaleBias     int
	Epoch0        int
	RecsPerCmdMax int
}

type simNode struct {
	id      ch.NodeID
	factory channelstore.Factory
	// MessageDB store mode: the node's disk and the open factory over it
	fs  *vfs.MemFS
	mdb *channelstore.MessageDBFactory
	reader  replication.ReplicaStore // scheduler-side reads of durable state (no seams)
	store   *simStore
	rt      *replication.Runtime
	up      bool
	inc     int
	cancel  context.CancelFunc
	ctx     context.Context
}

type parkInfo struct {
	kind     string // "req", "resp", "sync"
	from, to ch.NodeID
	node     ch.NodeID
	hasProbe bool
}

// simLink is the PeerLink of one node incarnation.
type simLink struct {
	w    *qworld
	from *simNode
	inc  int
}

func batchSummary(b replication.ExchangeBatch) (string, bool) {
	parts := make([]string, 0, len(b.Items))
	probe := false
	for _, it := range b.Items {
		switch it.Kind {
		case replication.ExchangeReplicate:
			if it.Replicate != nil {
				m := it.Replicate.Manifest
				parts = append(parts, fmt.Sprintf("R[%s t%d.%d.%d %d-%d c%d cmd%x]", it.Replicate.ChannelKey, m.ChannelEpoch, m.LeaderTerm, m.FenceVersion, m.BaseOffset, m.LastOffset, it.Replicate.Committed, m.CommandID[:3]))
			}
		case replication.ExchangeProbe:
			probe = true
			if it.Probe != nil {
				parts = append(parts, fmt.Sprintf("P[%s %v]", it.Probe.ChannelKey, idxSummary(it.Probe.Indexes)))
			}
		case replication.ExchangeFetch:
			if it.Fetch != nil {
				parts = append(parts, fmt.Sprintf("F[%s %d-%d]", it.Fetch.ChannelKey, it.Fetch.From, it.Fetch.Through))
			}
		}
	}
	pr := "fg"
	if b.Priority == replication.ExchangePriorityBackground {
		pr = "bg"
	}
	return pr + strings.Join(parts, ","), probe
}

func resultSummary(res replication.ExchangeBatchResult, err error) string {
	if err != nil {
		return "err"
	}
	parts := make([]string, 0, len(res.Items))
	for _, it := range res.Items {
		switch {
		case it.Replicate.Status != 0:
			parts = append(parts, fmt.Sprintf("st%d last%d need%d", it.Replicate.Status, it.Replicate.LastOffset, it.Replicate.NeedFrom))
		case it.Probe.Proof.ChannelKey != "":
			parts = append(parts, fmt.Sprintf("leo%d c%d t%d", it.Probe.State.LEO, it.Probe.State.Committed, it.Probe.State.TailIdentity.LeaderTerm))
		case it.Fetch.Proof.ChannelKey != "":
			parts = append(parts, fmt.Sprintf("leo%d props%d", it.Fetch.State.LEO, len(it.Fetch.Proposals)))
		default:
			parts = append(parts, "empty")
		}
	}
	return strings.Join(parts, ",")
}

func idxSummary(ix []uint64) string {
	if len(ix) == 0 {
		return "-"
	}
	return fmt.Sprintf("%d..%d", ix[0], ix[len(ix)-1])
}

func (l *simLink) Exchange(ctx context.Context, target ch.NodeID, batch replication.ExchangeBatch) (replication.ExchangeBatchResult, error) {
	w := l.w
	sum, probe := batchSummary(batch)
	if !l.from.up || l.from.inc != l.inc {
		return replication.ExchangeBatchResult{}, errSim
	}
	if probe {
		w.noteProbe(l.from.id, target, batch, true)
	}
	d := w.parkCtx(ctx, fmt.Sprintf("REQ n%d->n%d %s", l.from.id, target, sum), parkInfo{kind: "req", from: l.from.id, to: target, hasProbe: probe})
	switch d {
	case decDrop, decClosed:
		return replication.ExchangeBatchResult{}, errSim
	case decHold:
		<-ctx.Done()
		return replication.ExchangeBatchResult{}, ctx.Err()
	}
	tn := w.nodes[target]
	if tn == nil || !tn.up {
		return replication.ExchangeBatchResult{}, errSim
	}
	tinc := tn.inc
	res, err := tn.rt.ExchangeServer().Handle(ctx, l.from.id, batch)
	if d == decDup && tn.up && tn.inc == tinc {
		res, err = tn.rt.ExchangeServer().Handle(ctx, l.from.id, batch)
	}
	if !l.from.up || l.from.inc != l.inc {
		return replication.ExchangeBatchResult{}, errSim
	}
	d2 := w.parkCtx(ctx, fmt.Sprintf("RSP n%d->n%d %s => %s", target, l.from.id, sum, resultSummary(res, err)), parkInfo{kind: "resp", from: target, to: l.from.id, hasProbe: probe})
	switch d2 {
	case decRespLose, decClosed:
		return replication.ExchangeBatchResult{}, errSim
	case decRespHold:
		<-ctx.Done()
		return replication.ExchangeBatchResult{}, ctx.Err()
	}
	if probe && err == nil {
		w.noteProbeAnswered(l.from.id, target, batch)
	}
	return res, err
}

// simStore wraps the node's real ReplicaStore; Sync is a seam so that the
// scheduler orders local and follower durability completions and injects
// disk failures. Everything else passes straight through.
type simStore struct {
	w     *qworld
	node  *simNode
	inc   int
	inner replication.ReplicaStore
}

type commandLookuper interface {
	LookupCommands(context.Context, []replication.CommandLookup) []replication.CommandLookupResult
}

func (s *simStore) Load(ctx context.Context, b replication.LoadBatch) (replication.LoadBatchResult, error) {
	return s.inner.Load(ctx, b)
}
func (s *simStore) Replace(ctx context.Context, r []replication.RecoveryReplacement) []replication.RecoveryReplacementResult {
	if s.w.replaceHook != nil {
		s.w.replaceHook(s.node.id, r)
	}
	return s.inner.Replace(ctx, r)
}
func (s *simStore) Fetch(ctx context.Context, r []replication.FetchRange) []replication.FetchRangeResult {
	return s.inner.Fetch(ctx, r)
}
func (s *simStore) LookupCommands(ctx context.Context, l []replication.CommandLookup) []replication.CommandLookupResult {
	return s.inner.(commandLookuper).LookupCommands(ctx, l)
}
func (s *simStore) Sync(ctx context.Context, ms []replication.Mutation) []replication.MutationResult {
	parts := make([]string, 0, len(ms))
	for _, m := range ms {
		parts = append(parts, fmt.Sprintf("%s %d-%d k%d", m.ChannelKey, m.Manifest.BaseOffset, m.Manifest.LastOffset, m.Class))
	}
	d := decSyncOK
	if s.w.cfg.FSync {
		d = s.w.parkCtx(ctx, fmt.Sprintf("SYNC n%d %s", s.node.id, strings.Join(parts, ",")), parkInfo{kind: "sync", node: s.node.id})
	}
	if !s.node.up || s.node.inc != s.inc {
		d = decSyncFail
	}
	switch d {
	case decSyncFail, decClosed:
		out := make([]replication.MutationResult, len(ms))
		for i := range out {
			out[i] = replication.MutationResult{Outcome: ch.AppendOutcomeDefinitelyNotWritten, Err: errSimDisk}
		}
		return out
	case decSyncUnknown:
		res := s.inner.Sync(ctx, ms)
		for i := range res {
			res[i] = replication.MutationResult{Outcome: ch.AppendOutcomeUnknown, Err: errSimDisk}
		}
		return res
	}
	return s.inner.Sync(ctx, ms)
}

// ---- client operations -------------------------------------------------

type opKind int

const (
	opCommit opKind = iota
	opInstall
)

type command struct {
	id      ch.CommandID
	n       int
	records []ch.Record
	channel int
	// acked range (first ack)
	acked       bool
	first, last uint64
	ackAuth     replication.AuthorityID
	conflictOf  int // index of the command this one deliberately collides with (-1 none)
	// ackedVariant: 0 never acknowledged, 1 acknowledged with the original
	// content, 2 acknowledged with the deliberately different content
	ackedVariant int
	attempted    [2]bool // content variant (original / conflicting) submitted at least once
}

type opResult struct {
	opID     int
	kind     opKind
	node     ch.NodeID
	nodeInc  int
	channel  int
	auth     replication.Authority
	cmd      *command
	invoked  int // scheduler step of invocation
	doneStep int // scheduler step at which completion was observed (0 = still in flight)
	// filled on completion
	receipt   replication.Receipt
	installed replication.Installed
	err       error
	leoBefore uint64
	// install bookkeeping
	answered    map[ch.NodeID]bool
	probeSent     map[ch.NodeID]int
	probeAnswered map[ch.NodeID]int
	holdAtStart map[ch.NodeID]map[uint64]bool
	// viewsAtStart is every voter's durable state when the install was invoked
	viewsAtStart map[ch.NodeID]replicaView
	exactRetry  bool
	conflicting bool
	firstAttempt bool // first submission of this (command, content variant) anywhere
	// heldAcked: an exact retry of a command acknowledged with this content, invoked
	// on an owner whose durable log held the acknowledged range at that moment
	heldAcked bool
}

type chanState struct {
	key  ch.ChannelKey
	id   ch.ChannelID
	auth replication.AuthorityID // latest authority issued by the control plane
	// per node: the authority the node last installed successfully
	installedOK map[ch.NodeID]replication.Authority
	// per node: highest authority passed to an Install that returned nil
	cmds []*command
	// ledger: seq -> acknowledged identity
	ledger     map[uint64]ledgerEntry
	fenceToken map[ch.NodeID]bool
	installs   []*opResult // every Install issued for this channel, in invocation order
	ops        []*opResult // every operation issued for this channel, in invocation order
	poisoned   bool        // authorities have overlapped in this channel's history (adversarial regime only)
	owners     map[string]*ownerModel // C04 owner model per node incarnation
}

type ledgerEntry struct {
	identity ch.EntryIdentity
	payload  string
	cmd      int
	ackStep  int // scheduler step at which the acknowledgement was observed
	invoked  int // scheduler step at which the acknowledged commit was invoked
}

type qworld struct {
	r     *simkit.Run
	w     *simkit.World
	cfg   cfg
	nodes map[ch.NodeID]*simNode
	ids   []ch.NodeID
	chans []*chanState

	mu        sync.Mutex
	completed []*opResult
	busy      map[string]*opResult // node/channel -> in-flight op
	nextOp    int
	opsLeft   int
	nextMsgID uint64
	cut       map[[2]ch.NodeID]bool // directed reachability cuts
	parkSeq   int

	lastCommitted map[string]uint64 // node/channel -> persisted committed watermark seen last
	replaceHook   func(ch.NodeID, []replication.RecoveryReplacement)
	phaseFinal    bool
	tainted       bool // a violation of another property's class ended this run
	acks          int
	overlaps      int
}

func okey(n ch.NodeID, c int) string { return fmt.Sprintf("%d/%d", n, c) }

// parkCtx parks like World.Park but also returns decHold-style timeout when the
// caller's context ends first (so that a message nobody schedules cannot wedge
// a real component past its own deadline).
func (q *qworld) parkCtx(ctx context.Context, key string, info parkInfo) int {
	return q.w.ParkCtx(ctx.Done(), key, info, decDrop)
}

func (q *qworld) noteProbeAnswered(from, target ch.NodeID, batch replication.ExchangeBatch) {
	q.noteProbe(from, target, batch, false)
}

// noteProbe counts, per in-flight install, the probe requests sent to each
// voter and the probe answers that reached the installer. A voter "answered"
// an install only if it answered every probe round of it.
func (q *qworld) noteProbe(from, target ch.NodeID, batch replication.ExchangeBatch, sent bool) {
	q.mu.Lock()
	defer q.mu.Unlock()
	for _, it := range batch.Items {
		if it.Kind != replication.ExchangeProbe || it.Probe == nil {
			continue
		}
		for ci, cs := range q.chans {
			if cs.key == it.Probe.ChannelKey {
				if op := q.busy[okey(from, ci)]; op != nil && op.kind == opInstall && op.answered != nil {
					if sent {
						op.probeSent[target]++
					} else {
						op.probeAnswered[target]++
					}
					op.answered[target] = op.probeSent[target] > 0 && op.probeSent[target] == op.probeAnswered[target]
				}
			}
		}
	}
}

// openDisk (re)opens the node's durable store: the memory factory is created
// once and survives restarts as it is; in MessageDB mode a real MessageDB
// (commit coordinator, Pebble) is opened on the node's simulated disk.
func (q *qworld) openDisk(n *simNode) error {
	if q.cfg.StoreMode == 0 {
		if n.factory == nil {
			n.factory = channelstore.NewMemoryFactory()
		}
	} else {
		if n.fs == nil {
			n.fs = vfs.NewCrashableMem()
		}
		fs := n.fs
		verifhook.SetPebbleHook(func(o *pebble.Options) {
			o.FS = fs
			o.MemTableSize = uint64(q.cfg.MemTable)
			o.CacheSize = 1 << 20
			o.Logger = verifhook.QuietLogger{}
		})
		mdb := channelstore.NewMessageDBFactoryWithOptions(fmt.Sprintf("/n%d", n.id), channelstore.MessageDBFactoryOptions{
			// The commit coordinator holds the channel store's lock while it waits for
			// its flush window. Any timer there can hang a bubble: a second goroutine of
			// the repo (e.g. the repair worker's Load) that blocks on that sync.Mutex is
			// not durably blocked, so the fake clock never reaches the timer (seen as a
			// watchdog kill, 1 run in ~10^4, with the former 1 ns window). A negative
			// window makes the coordinator collect without a timer.
			CommitShards: 1, CommitFlushWindow: -1})
		verifhook.SetPebbleHook(nil)
		if _, err := mdb.ChannelStore("1:probe", ch.ChannelID{ID: "probe", Type: 1}); err != nil {
			return fmt.Errorf("open MessageDB on simulated disk: %w", err)
		}
		n.mdb = mdb
		n.factory = mdb
	}
	rd, err := replication.NewStoreAdapter(replication.StoreAdapterConfig{Factory: n.factory, MaxBatchItems: 256, MaxBatchBytes: 4 << 20})
	if err != nil {
		return err
	}
	n.reader = rd
	return nil
}

// crashDisk captures what survives a crash right now and closes the abandoned
// incarnation against the old disk object, so that nothing it writes while
// shutting down reaches the surviving disk. pct=100 is a process kill, 0 a power
// loss (only synced data), anything between keeps a tape-chosen subset of the
// unsynced blocks and directory entries (torn and lost writes).
func (q *qworld) cloneDisk(n *simNode, pct int, seed uint64) *vfs.MemFS {
	if q.cfg.StoreMode == 0 || n.fs == nil {
		return nil
	}
	return n.fs.CrashClone(vfs.CrashCloneCfg{UnsyncedDataPercent: pct, RNG: rand.New(rand.NewPCG(seed, 0x9e3779b97f4a7c15))})
}

// swapDisk closes the dead incarnation's store against the abandoned disk and
// reopens the node's store on the clone taken at the crash instant.
func (q *qworld) swapDisk(n *simNode, clone *vfs.MemFS, pct int) {
	if clone == nil {
		return
	}
	if n.mdb != nil {
		_ = n.mdb.Close()
		n.mdb = nil
	}
	n.fs = clone
	n.factory = nil
	n.reader = nil
	// reopen on the surviving disk at once: the oracles read a down node's
	// durable state, and recovery of the store itself is part of what is tested
	if err := q.openDisk(n); err != nil {
		q.fail("replica-unreadable", "reopen", fmt.Sprintf("n%d: store does not reopen on the disk that survived a crash (unsynced kept %d%%): %v", n.id, pct, err), nil)
		q.tainted = true
	}
}

func (q *qworld) newNodeRuntime(n *simNode) error {
	if n.reader == nil {
		if err := q.openDisk(n); err != nil {
			return err
		}
	}
	inner, err := replication.NewStoreAdapter(replication.StoreAdapterConfig{
		Factory: n.factory, MaxBatchItems: replication.MaxExchangeBatchItems, MaxBatchBytes: replication.MaxExchangeBatchBytes,
	})
	if err != nil {
		return err
	}
	n.inc++
	n.store = &simStore{w: q, node: n, inc: n.inc, inner: inner}
	n.ctx, n.cancel = context.WithCancel(context.Background())
	rt, err := replication.NewRuntime(replication.RuntimeConfig{
		LocalNode: n.id, Store: n.store, Link: &simLink{w: q, from: n, inc: n.inc}, Goroutines: goruntimeregistry.New(),
		// PeerTargetFlight must stay 1 inside a bubble: with more flights the
		// peer batcher re-schedules an idle drain worker in a tight loop while a
		// same-channel exchange is in flight (finishTargetWorker ->
		// ensureTargetWorkersLocked -> takeBatch finds only blocked items), which
		// never lets the bubble become quiescent. See DESIGN.md §10.
		LocalWorkers: 8, PeerWorkers: 32, PeerTargetFlight: 1, RepairWorkers: 2,
		MaxVoters: q.cfg.N, MaxRetainedCommands: q.cfg.Retained, RecoveryPageBytes: q.cfg.PageBytes,
		BatchItems: q.cfg.BatchItems, ExchangeTimeout: q.cfg.ExchangeTO, ReplicaHedgeDelay: q.cfg.Hedge,
		TrailingFlushInterval: q.cfg.Trailing, RecoveryTimeout: 3 * q.cfg.ExchangeTO, LocalTimeout: q.cfg.ExchangeTO,
		CloseTimeout: 2 * time.Second, MaxChannels: 64,
		// small admission queues (the defaults allocate 8192-slot channels per pool per node)
		QueueItems: 4 * q.cfg.BatchItems, TargetItems: 2 * q.cfg.BatchItems,
	})
	if err != nil {
		return err
	}
	n.rt = rt
	n.up = true
	return nil
}

func (q *qworld) reachable(a, b ch.NodeID) bool {
	return !q.cut[[2]ch.NodeID{a, b}]
}

// ---- durable-state reads used by the oracles ---------------------------

type replicaView struct {
	leo, committed uint64
	ids            []ch.EntryIdentity // index i-1 -> identity of entry i
	err            error
}

func (q *qworld) view(n *simNode, cs *chanState) replicaView {
	ctx := context.Background()
	if n.reader == nil {
		return replicaView{err: errors.New("store not open")}
	}
	res, err := n.reader.Load(ctx, replication.LoadBatch{Items: []replication.LoadRequest{{ChannelKey: cs.key, ChannelID: cs.id}}})
	if err != nil || len(res.Items) != 1 || res.Items[0].Err != nil {
		if err == nil && len(res.Items) == 1 {
			err = res.Items[0].Err
		}
		return replicaView{err: err}
	}
	st := res.Items[0].State
	v := replicaView{leo: st.LEO, committed: st.Committed}
	if st.LEO == 0 {
		return v
	}
	v.ids = make([]ch.EntryIdentity, 0, st.LEO)
	for from := uint64(1); from <= st.LEO; from += 200 {
		to := from + 199
		if to > st.LEO {
			to = st.LEO
		}
		ix := make([]uint64, 0, to-from+1)
		for i := from; i <= to; i++ {
			ix = append(ix, i)
		}
		r2, err := n.reader.Load(ctx, replication.LoadBatch{Items: []replication.LoadRequest{{ChannelKey: cs.key, ChannelID: cs.id, ProbeIndexes: ix}}})
		if err != nil || len(r2.Items) != 1 || r2.Items[0].Err != nil {
			v.err = fmt.Errorf("probe load: %v", err)
			return v
		}
		for _, e := range r2.Items[0].Entries {
			if !e.Present {
				v.err = fmt.Errorf("entry %d missing below LEO %d", e.Index, st.LEO)
				return v
			}
			v.ids = append(v.ids, e.Identity)
		}
	}
	return v
}

func (q *qworld) holds(v replicaView, seq uint64, id ch.EntryIdentity) bool {
	return v.err == nil && seq >= 1 && seq <= v.leo && int(seq) <= len(v.ids) && v.ids[seq-1] == id
}

// holdsCommand: v holds every acknowledged sequence of cmd with the acknowledged identity.
func (q *qworld) holdsCommand(v replicaView, cs *chanState, cmd *command) bool {
	if !cmd.acked {
		return false
	}
	for seq := cmd.first; seq <= cmd.last; seq++ {
		le, ok := cs.ledger[seq]
		if !ok || !q.holds(v, seq, le.identity) {
			return false
		}
	}
	return true
}

func sortedNodeIDs(m map[ch.NodeID]bool) []ch.NodeID {
	out := make([]ch.NodeID, 0, len(m))
	for k, v := range m {
		if v {
			out = append(out, k)
		}
	}
	sort.Slice(out, func(i, j int) bool { return out[i] < out[j] })
	return out
}
