package quorumsim

import (
	"context"
	"errors"
	"fmt"
	"os"
	"sort"
	"testing"
	"time"

	"github.com/WuKongIM/WuKongIM/internal/verifsim/simkit"
	ch "github.com/WuKongIM/WuKongIM/pkg/channel"
	"github.com/WuKongIM/WuKongIM/pkg/channel/replication"
	"github.com/cockroachdb/pebble/v2/vfs"
)

func TestVerifSim(t *testing.T) {
	simkit.Main(t, simkit.Engine{
		Name: "quorumsim",
		Props: map[string]simkit.PropFunc{
			"C01": func(t *testing.T, r *simkit.Run) { runWorld(t, r) },
			"C02": func(t *testing.T, r *simkit.Run) { runWorld(t, r) },
			"C03": func(t *testing.T, r *simkit.Run) { runWorld(t, r) },
			"C04": func(t *testing.T, r *simkit.Run) { runWorld(t, r) },
		},
		Real: []string{"replication.Runtime (quorum log, durable round, recovery owner/selection/repair/barrier, peer batcher, repair owner, durability dispatcher)",
			"replication.ExchangeServer", "replication.StoreAdapter", "channel/store memory factory", "workqueue pools", "timers via synctest fake clock"},
		Stub: []string{"PeerLink (simulated network: drop, response loss, hold past deadline, duplicate, partition)",
			"ReplicaStore.Sync gate (disk failure / unknown outcome injection)", "control plane issuing authorities", "clients"},
		Rule: "One run = one synctest bubble with N real replication runtimes, 1-3 channels, a tape-driven control plane and committers. " +
			"Non-trivial = at least one acknowledged commit AND (at least one fault fired OR an authority change happened after an acknowledged commit).",
		Assumptions: []string{"testing/synctest fake clock and quiescence semantics (go1.26.8)",
			"memory channel store: every completed write is durable (crash = process kill with intact disk)",
			"calls on one (node, channel) owner are issued one at a time because the owner serialises them on a sync.Mutex held across the durable round (not durably blocking in a bubble)",
			"scheduling inside one simulator step is the Go runtime's at GOMAXPROCS=1"},
	})
}

// classes per property; a violation of another property's class is counted as
// a probe (it is reported by that property's own check).
var classProp = map[string]string{
	"ack-not-quorum": "C01", "ack-lost-at-install": "C01", "ack-replaced": "C01", "ack-lost-final": "C01",
	"committed-divergence": "C02", "committed-entry-dropped-at-install": "C02", "chain-broken": "C02", "committed-above-leo": "C02", "committed-regressed": "C02", "replica-unreadable": "C02",
	"range-overlap": "C03", "retry-range-changed": "C03", "range-shape": "C03", "retry-stored-again": "C03", "conflicting-retry-acked": "C03", "range-not-contiguous": "C03", "exact-retry-refused": "C03",
	"stale-authority-acked": "C04", "older-authority-installed": "C04", "fenced-append-acked": "C04", "stale-authority-acked-after-barrier": "C04",
}

func (q *qworld) fail(class, sig, detail string, facts map[string]any) {
	if classProp[class] != q.r.Property {
		// The first violation ends a run whichever property it belongs to:
		// everything observed afterwards would be a consequence of it (e.g. an
		// acknowledged entry lost through a C01 finding later shows up as
		// overlapping receipts). It is reported only by its own property's check.
		q.r.Probe("run_ended_by_other_property:" + class + "/" + sig)
		if !q.tainted {
			q.r.Logf("run ends: violation of another property's class %s/%s: %s", class, sig, detail)
		}
		q.tainted = true
		return
	}
	q.r.FailSig(class, sig, detail, facts)
}

func drawCfg(r *simkit.Run) cfg {
	tp := r.Tape
	c := cfg{}
	if tp.Intn(10) < 7 {
		c.N = 3
		c.Q = 2 + tp.Weighted([]int{4, 1})
	} else {
		c.N = 5
		c.Q = 3 + tp.Weighted([]int{4, 1, 1})
	}
	if tp.Intn(8) == 7 {
		// even voter sets and arbitrary write quorums, including ones whose quorums do
		// not intersect (2Q <= N): such an authority must never become writable
		c.N = 2 + 2*tp.Intn(2)
		c.Q = 1 + tp.Intn(c.N)
	}
	c.Channels = 1 + tp.Weighted([]int{3, 2, 1})
	c.Ops = 6 + tp.Intn(30)
	c.NoFaults = tp.Intn(4) == 0
	if !c.NoFaults {
		c.FDrop = tp.Intn(2) == 0
		c.FRespLoss = tp.Intn(2) == 0
		c.FDup = tp.Intn(3) == 0
		c.FHold = tp.Intn(3) == 0
		c.FPartition = tp.Intn(2) == 0
		c.FCrash = tp.Intn(2) == 0
		c.FSync = tp.Intn(3) == 0
	}
	// control-plane regime: 0 = disciplined and every voter reachable during
	// installs (the regime in which the implemented recovery rule is sound),
	// 1 = disciplined (the previous leader is stopped before a new authority is
	// issued; installs may see only a quorum), 2 = adversarial (authorities
	// are issued while older leaders still commit).
	c.Regime = tp.Weighted([]int{4, 3, 3})
	c.FAllAnswer = c.Regime == 0
	c.Retained = 1 + tp.Intn(8)
	c.PageBytes = []int{300, 700, 4096, 1 << 20}[tp.Intn(4)]
	c.BatchItems = []int{256, 4, 16}[tp.Intn(3)]
	c.ExchangeTO = []time.Duration{2 * time.Second, 200 * time.Millisecond, 5 * time.Second}[tp.Intn(3)]
	c.Hedge = []time.Duration{25 * time.Millisecond, time.Millisecond, 500 * time.Millisecond}[tp.Intn(3)]
	c.Trailing = []time.Duration{100 * time.Millisecond, 5 * time.Millisecond}[tp.Intn(2)]
	c.RetryBias = 1 + tp.Intn(4)
	c.ConflictBias = tp.Intn(3)
	c.InstallBias = 1 + tp.Intn(3)
	c.StaleBias = tp.Intn(3)
	c.RecsPerCmdMax = 1 + tp.Intn(3)
	// one run in five uses the real MessageDB (commit coordinator + Pebble) on a
	// simulated disk so that a crash keeps only what was really made durable
	if tp.Intn(5) == 4 {
		c.StoreMode = 1
		c.MemTable = []int{4 << 20, 64 << 10, 256 << 10}[tp.Intn(3)]
	}
	switch r.Property {
	case "C03":
		c.Retained = 1 + tp.Intn(3)
		c.RetryBias += 3
		c.ConflictBias++
	case "C04":
		c.InstallBias += 2
		c.StaleBias += 2
	}
	// channels that have lived through earlier incarnations start at a higher epoch
	// (room for "older epoch, higher term" authorities)
	c.Epoch0 = 1 + tp.Intn(3)
	if r.Tier == "thorough" {
		// deeper worlds: longer histories, a seven-voter topology, more runs on the real
		// MessageDB (quick-tier tapes and witnesses are unaffected: these draws only exist here)
		c.Ops += tp.Intn(60)
		if c.N == 5 && tp.Intn(4) == 3 {
			c.N = 7
			c.Q = 4 + tp.Weighted([]int{4, 1, 1})
		}
		if c.StoreMode == 0 && tp.Intn(3) == 2 {
			c.StoreMode = 1
			c.MemTable = []int{4 << 20, 64 << 10, 256 << 10}[tp.Intn(3)]
		}
	}
	return c
}

func runWorld(t *testing.T, r *simkit.Run) {
	c := drawCfg(r)
	r.Config = map[string]any{"N": c.N, "Q": c.Q, "channels": c.Channels, "ops": c.Ops, "nofaults": c.NoFaults,
		"drop": c.FDrop, "resploss": c.FRespLoss, "dup": c.FDup, "hold": c.FHold, "partition": c.FPartition, "crash": c.FCrash, "sync": c.FSync,
		"all_answer": c.FAllAnswer, "regime": c.Regime, "store_mode": c.StoreMode, "memtable": c.MemTable, "retained": c.Retained, "page": c.PageBytes, "batch": c.BatchItems, "xto_ms": c.ExchangeTO.Milliseconds()}
	simkit.Bubble(t, r, func() {
		q := &qworld{r: r, w: simkit.NewWorld(r), cfg: c, nodes: map[ch.NodeID]*simNode{}, busy: map[string]*opResult{},
			cut: map[[2]ch.NodeID]bool{}, lastCommitted: map[string]uint64{}, opsLeft: c.Ops, nextMsgID: 1000}
		defer q.teardown()
		for i := 1; i <= c.N; i++ {
			n := &simNode{id: ch.NodeID(i)}
			q.nodes[n.id] = n
			q.ids = append(q.ids, n.id)
			if err := q.newNodeRuntime(n); err != nil {
				r.Infra("runtime: %v", err)
				return
			}
		}
		for i := 0; i < c.Channels; i++ {
			name := fmt.Sprintf("c%d", i)
			q.chans = append(q.chans, &chanState{key: ch.ChannelKey("1:" + name), id: ch.ChannelID{ID: name, Type: 1},
				auth:        replication.AuthorityID{ChannelEpoch: uint64(c.Epoch0), LeaderTerm: 0, FenceVersion: 1},
				installedOK: map[ch.NodeID]replication.Authority{}, ledger: map[uint64]ledgerEntry{}})
		}
		s := &simkit.Scheduler{R: r, MaxSteps: 60 + c.Ops*40, Collect: q.collect, Invariant: q.invariant,
			StepTime: func() time.Duration {
				// things take time; occasionally the tape freezes the clock for a step
				if c.StoreMode == 0 && r.Tape.Chance(1, 8) {
					return 0
				}
				return 200 * time.Microsecond
			},
			Done:    func() bool { return q.tainted },
			Verbose: os.Getenv("VERIF_SCHED_VERBOSE") == "1",
			Idle: func() time.Duration {
				if q.opsLeft <= 0 && len(q.busy) == 0 && q.w.NumPending() == 0 {
					return 0
				}
				return q.idleSleep()
			}}
		s.Run()
		if !r.Failed() && r.InfraErr == "" && !q.tainted {
			q.finalPhase()
		}
		r.Nontrivial = q.acks > 0 && (totalFaults(r) > 0 || q.overlaps > 0)
	})
}

func totalFaults(r *simkit.Run) int {
	n := 0
	for _, v := range r.Faults {
		n += v
	}
	return n
}

func (q *qworld) idleSleep() time.Duration {
	// something is in flight but nothing is schedulable: let the real timers run
	return 50 * time.Millisecond
}

func (q *qworld) teardown() {
	q.w.CloseAll(decClosed)
	for _, id := range q.ids {
		n := q.nodes[id]
		if n == nil {
			continue
		}
		if n.cancel != nil {
			n.cancel()
		}
		n.up = false
	}
	for _, id := range q.ids {
		n := q.nodes[id]
		if n != nil && n.rt != nil {
			ctx, cancel := context.WithTimeout(context.Background(), 30*time.Second)
			_ = n.rt.Close(ctx)
			cancel()
		}
	}
	// wait until every client goroutine reported
	for i := 0; i < 200 && len(q.busy) > 0; i++ {
		simkit.Wait()
		q.drain(false)
		if len(q.busy) > 0 {
			time.Sleep(100 * time.Millisecond)
		}
	}
	for _, id := range q.ids {
		if n := q.nodes[id]; n != nil && n.mdb != nil {
			_ = n.mdb.Close()
			n.mdb = nil
		}
	}
}

// ---- actions -------------------------------------------------------------

func (q *qworld) collect() []simkit.Action {
	q.drain(true)
	if q.r.Failed() {
		return nil
	}
	var acts []simkit.Action
	c := q.cfg
	faults := !c.NoFaults && !q.phaseFinal
	for _, p := range q.w.Pending() {
		p := p
		info := p.Info.(parkInfo)
		switch info.kind {
		case "req":
			reach := q.reachable(info.from, info.to) && q.nodes[info.to].up
			if reach {
				acts = append(acts, simkit.Action{Prio: 0, Key: "deliver " + p.Key, Weight: 40, Do: func() { q.w.Release(p, decDeliver) }})
				if faults && c.FDup {
					acts = append(acts, simkit.Action{Prio: 5, Key: "dup " + p.Key, Weight: 2, Do: func() { q.r.Fault("duplicate"); q.w.Release(p, decDup) }})
				}
			} else {
				acts = append(acts, simkit.Action{Prio: 0, Key: "unreachable " + p.Key, Weight: 20, Do: func() { q.r.Fault("unreachable"); q.w.Release(p, decDrop) }})
			}
			if faults && c.FDrop {
				acts = append(acts, simkit.Action{Prio: 5, Key: "drop " + p.Key, Weight: 3, Do: func() { q.r.Fault("drop_request"); q.w.Release(p, decDrop) }})
			}
			if faults && c.FHold {
				acts = append(acts, simkit.Action{Prio: 5, Key: "hold " + p.Key, Weight: 2, Do: func() { q.r.Fault("request_delayed_past_deadline"); q.w.Release(p, decHold) }})
			}
		case "resp":
			reach := q.reachable(info.from, info.to)
			if reach {
				acts = append(acts, simkit.Action{Prio: 0, Key: "deliver " + p.Key, Weight: 40, Do: func() { q.w.Release(p, decRespDeliver) }})
			} else {
				acts = append(acts, simkit.Action{Prio: 0, Key: "unreachable " + p.Key, Weight: 20, Do: func() { q.r.Fault("response_lost"); q.w.Release(p, decRespLose) }})
			}
			if faults && c.FRespLoss {
				acts = append(acts, simkit.Action{Prio: 5, Key: "lose " + p.Key, Weight: 4, Do: func() { q.r.Fault("response_lost"); q.w.Release(p, decRespLose) }})
			}
			if faults && c.FHold {
				acts = append(acts, simkit.Action{Prio: 5, Key: "hold " + p.Key, Weight: 1, Do: func() { q.r.Fault("response_delayed_past_deadline"); q.w.Release(p, decRespHold) }})
			}
		case "sync":
			acts = append(acts, simkit.Action{Prio: 0, Key: "complete " + p.Key, Weight: 40, Do: func() { q.w.Release(p, decSyncOK) }})
			if faults {
				acts = append(acts, simkit.Action{Prio: 5, Key: "diskfail " + p.Key, Weight: 2, Do: func() { q.r.Fault("sync_error_not_written"); q.w.Release(p, decSyncFail) }})
				acts = append(acts, simkit.Action{Prio: 5, Key: "diskunknown " + p.Key, Weight: 2, Do: func() { q.r.Fault("sync_written_but_unknown"); q.w.Release(p, decSyncUnknown) }})
			}
		}
	}
	// client / control-plane operations
	if q.opsLeft > 0 && !q.phaseFinal {
		for ci, cs := range q.chans {
			ci, cs := ci, cs
			chanBusy := false
			for _, id := range q.ids {
				if q.busy[okey(id, ci)] != nil {
					chanBusy = true
				}
			}
			// install on any voter
			for _, id := range q.ids {
				id := id
				n := q.nodes[id]
				if !n.up || q.busy[okey(id, ci)] != nil {
					continue
				}
				if c.Regime < 2 && chanBusy {
					continue // disciplined control plane: one authority change at a time, no commit in flight
				}
				if c.FAllAnswer && !q.allReachableFrom(id) {
					continue
				}
				w := c.InstallBias
				if len(cs.installedOK) == 0 {
					w = 30
				}
				acts = append(acts, simkit.Action{Prio: 1, Key: fmt.Sprintf("op install c%d n%d", ci, id), Weight: w, Do: func() { q.startInstall(ci, id, false) }})
				if q.r.Property == "C04" {
					if om := q.ownerModel(cs, id, n.inc); om.seen && len(om.history) > 0 {
						acts = append(acts, simkit.Action{Prio: 2, Key: fmt.Sprintf("op install-old c%d n%d", ci, id), Weight: 1 + c.StaleBias, Do: func() { q.startInstall(ci, id, true) }})
					}
				}
			}
			// commits on nodes that believe they lead (incl. stale leaders)
			for _, id := range q.ids {
				id := id
				n := q.nodes[id]
				a, ok := cs.installedOK[id]
				if !n.up || q.busy[okey(id, ci)] != nil {
					continue
				}
				if !ok {
					// C04: a client that still addresses a deposed or fenced owner under the
					// authority it last led with (the owner must refuse)
					if om := q.ownerModel(cs, id, n.inc); q.r.Property == "C04" && len(om.history) > 0 {
						old := om.history[len(om.history)-1]
						acts = append(acts, simkit.Action{Prio: 2, Key: fmt.Sprintf("op commit-deposed c%d n%d", ci, id), Weight: 1 + c.StaleBias, Do: func() { q.startCommit(ci, id, old) }})
					}
					continue
				}
				w := 12
				if a.ID != cs.auth {
					w = 1 + c.StaleBias // deposed leader that does not know yet
				}
				acts = append(acts, simkit.Action{Prio: 1, Key: fmt.Sprintf("op commit c%d n%d", ci, id), Weight: w, Do: func() { q.startCommit(ci, id, a) }})
			}
		}
	}
	// environment faults
	if faults && q.opsLeft > 0 {
		if c.FPartition {
			for _, a := range q.ids {
				for _, b := range q.ids {
					if a >= b {
						continue
					}
					a, b := a, b
					if q.cut[[2]ch.NodeID{a, b}] || q.cut[[2]ch.NodeID{b, a}] {
						acts = append(acts, simkit.Action{Prio: 4, Key: fmt.Sprintf("heal n%d-n%d", a, b), Weight: 3, Do: func() {
							delete(q.cut, [2]ch.NodeID{a, b})
							delete(q.cut, [2]ch.NodeID{b, a})
						}})
					} else {
						acts = append(acts, simkit.Action{Prio: 6, Key: fmt.Sprintf("cut n%d-n%d", a, b), Weight: 1, Do: func() {
							q.r.Fault("partition")
							q.cut[[2]ch.NodeID{a, b}] = true
							q.cut[[2]ch.NodeID{b, a}] = true
						}})
						acts = append(acts, simkit.Action{Prio: 6, Key: fmt.Sprintf("cut-oneway n%d->n%d", a, b), Weight: 1, Do: func() {
							q.r.Fault("partition_oneway")
							q.cut[[2]ch.NodeID{a, b}] = true
						}})
					}
				}
			}
		}
		if c.FCrash {
			down := 0
			for _, id := range q.ids {
				if !q.nodes[id].up {
					down++
				}
			}
			for _, id := range q.ids {
				id := id
				if q.nodes[id].up && down < c.N-c.Q {
					acts = append(acts, simkit.Action{Prio: 6, Key: fmt.Sprintf("crash n%d", id), Weight: 1, Do: func() { q.crash(id) }})
				}
				if !q.nodes[id].up {
					acts = append(acts, simkit.Action{Prio: 4, Key: fmt.Sprintf("restart n%d", id), Weight: 3, Do: func() { q.restart(id) }})
				}
			}
		}
	}
	// let fake time pass while work is in flight (timers: hedge, trailing flush, repair retry, deadlines)
	if len(acts) > 0 && (len(q.busy) > 0 || q.w.NumPending() > 0) {
		acts = append(acts, simkit.Action{Prio: 3, Key: "tick 1ms", Weight: 2, Do: func() { time.Sleep(time.Millisecond) }})
		acts = append(acts, simkit.Action{Prio: 3, Key: "tick 30ms", Weight: 2, Do: func() { time.Sleep(30 * time.Millisecond) }})
		if faults {
			acts = append(acts, simkit.Action{Prio: 3, Key: "tick 3s", Weight: 1, Do: func() { q.r.Fault("clock_jump"); time.Sleep(3 * time.Second) }})
		}
	}
	return acts
}

func (q *qworld) allReachableFrom(id ch.NodeID) bool {
	for _, o := range q.ids {
		if o == id {
			continue
		}
		if !q.nodes[o].up || !q.reachable(id, o) || !q.reachable(o, id) {
			return false
		}
	}
	return true
}

func (q *qworld) crash(id ch.NodeID) {
	n := q.nodes[id]
	q.r.Fault("crash")
	// what survives is decided at the crash instant, before anything of the dead
	// incarnation shuts down: 100 = process kill, 0 = power loss, else torn
	pct := 100
	var clone *vfs.MemFS
	if q.cfg.StoreMode == 1 {
		pct = []int{100, 0, 50, 20}[q.r.Tape.Weighted([]int{2, 3, 2, 1})]
		clone = q.cloneDisk(n, pct, uint64(q.r.Tape.Intn(1<<30))+1)
		q.r.Fault(fmt.Sprintf("crash_disk_unsynced_kept_%d", pct))
	}
	defer q.swapDisk(n, clone, pct)
	n.up = false
	for _, p := range q.w.Pending() {
		info := p.Info.(parkInfo)
		if info.from == id || info.to == id || info.node == id {
			q.w.Release(p, decClosed)
		}
	}
	n.cancel()
	ctx, cancel := context.WithTimeout(context.Background(), 30*time.Second)
	_ = n.rt.Close(ctx)
	cancel()
	simkit.Wait()
	// the node's volatile view of what it leads is gone
	for _, cs := range q.chans {
		delete(cs.installedOK, id)
	}
}

func (q *qworld) restart(id ch.NodeID) {
	n := q.nodes[id]
	q.r.Fault("restart")
	if err := q.newNodeRuntime(n); err != nil {
		q.r.Infra("restart runtime: %v", err)
	}
}

func (q *qworld) nextAuthority(cs *chanState) replication.AuthorityID {
	a := cs.auth
	switch q.r.Tape.Weighted([]int{8, 2, 1}) {
	case 0:
		a.LeaderTerm++
	case 1:
		a.FenceVersion++
		if a.LeaderTerm == 0 {
			a.LeaderTerm = 1
		}
	case 2:
		a.ChannelEpoch++
		if a.LeaderTerm == 0 {
			a.LeaderTerm = 1
		}
	}
	cs.auth = a
	return a
}

func (q *qworld) voters() []ch.NodeID { return append([]ch.NodeID(nil), q.ids...) }

func (q *qworld) startInstall(ci int, id ch.NodeID, old bool) {
	cs := q.chans[ci]
	n := q.nodes[id]
	var auth replication.Authority
	if old {
		// deliberately re-issue an authority that is not newer than the newest one
		// this owner was handed: an authority it led under before (a deposed
		// leader's control plane message arriving late), or a lowered variant
		om := q.ownerModel(cs, id, n.inc)
		prev := om.history[len(om.history)-1-q.r.Tape.PickOldestBiased(len(om.history))]
		auth = prev
		switch q.r.Tape.Intn(5) {
		case 4: // mixed vector: an earlier channel epoch with a higher leader term and fence version
			// (authorities are ordered lexicographically, so this one is older)
			if auth.ID.ChannelEpoch > 1 {
				auth.ID.ChannelEpoch--
				auth.ID.LeaderTerm += 1 + uint64(q.r.Tape.Intn(4))
				auth.ID.FenceVersion += uint64(q.r.Tape.Intn(3))
				q.r.Probe("install_old_mixed_vector")
			}
		case 0, 3: // exactly that earlier authority (an equal re-install is legal, an older one is not)
		case 1:
			if auth.ID.LeaderTerm > 1 {
				auth.ID.LeaderTerm--
			} else if auth.ID.FenceVersion > 1 {
				auth.ID.FenceVersion--
			}
		case 2:
			if auth.ID.FenceVersion > 1 {
				auth.ID.FenceVersion--
			} else if auth.ID.LeaderTerm > 1 {
				auth.ID.LeaderTerm--
			}
		}
		auth.Leader = id
	} else {
		aid := q.nextAuthority(cs)
		auth = replication.Authority{Key: cs.key, ChannelID: cs.id, ID: aid, Leader: id, Voters: q.voters(), WriteQuorum: q.cfg.Q}
		if q.r.Property == "C04" && q.r.Tape.Intn(6) == 0 {
			auth.WriteFence = ch.WriteFence{Token: "mig", Version: aid.FenceVersion, Reason: ch.WriteFenceReasonLeaderTransfer}
		}
		if q.cfg.Regime < 2 {
			// disciplined control plane: every other node was told it no longer leads
			for _, oid := range q.ids {
				if oid != id {
					delete(cs.installedOK, oid)
				}
			}
		}
	}
	q.opsLeft--
	q.nextOp++
	op := &opResult{opID: q.nextOp, kind: opInstall, node: id, nodeInc: n.inc, channel: ci, auth: auth, invoked: q.r.Steps,
		answered: map[ch.NodeID]bool{id: true}, holdAtStart: map[ch.NodeID]map[uint64]bool{},
		probeSent: map[ch.NodeID]int{}, probeAnswered: map[ch.NodeID]int{}, viewsAtStart: map[ch.NodeID]replicaView{}}
	for _, oid := range q.ids {
		v := q.view(q.nodes[oid], cs)
		op.viewsAtStart[oid] = v
		h := map[uint64]bool{}
		for seq, le := range cs.ledger {
			if q.holds(v, seq, le.identity) {
				h[seq] = true
			}
		}
		op.holdAtStart[oid] = h
	}
	q.busy[okey(id, ci)] = op
	cs.installs = append(cs.installs, op)
	q.notePoison(cs, op)
	cs.ops = append(cs.ops, op)
	if len(cs.ledger) > 0 {
		q.overlaps++
	}
	q.r.Logf("  op%d INSTALL c%d n%d auth=%d.%d.%d fence=%v old=%v", op.opID, ci, id, auth.ID.ChannelEpoch, auth.ID.LeaderTerm, auth.ID.FenceVersion, auth.WriteFence.Set(), old)
	rt, ctx := n.rt, n.ctx
	go func() {
		cctx, cancel := context.WithTimeout(ctx, 20*time.Second)
		defer cancel()
		inst, err := rt.Log().Install(cctx, auth)
		op.installed, op.err = inst, err
		q.mu.Lock()
		q.completed = append(q.completed, op)
		q.mu.Unlock()
	}()
}

func (q *qworld) newCommand(ci int, auth replication.AuthorityID) *command {
	cs := q.chans[ci]
	idx := len(cs.cmds)
	cmd := &command{channel: ci, conflictOf: -1}
	cmd.id[0] = byte(ci + 1)
	cmd.id[1] = byte(idx >> 8)
	cmd.id[2] = byte(idx)
	cmd.id[31] = 0x5a
	cmd.n = 1 + q.r.Tape.Intn(q.cfg.RecsPerCmdMax)
	for i := 0; i < cmd.n; i++ {
		q.nextMsgID++
		payload := fmt.Sprintf("c%d-cmd%d-r%d-%d", ci, idx, i, q.nextMsgID)
		cmd.records = append(cmd.records, ch.Record{ID: q.nextMsgID, Epoch: auth.ChannelEpoch, FromUID: fmt.Sprintf("u%d", idx%3),
			ClientMsgNo: fmt.Sprintf("m%d-%d", idx, i), Payload: []byte(payload), SizeBytes: len(payload), ServerTimestampMS: int64(1000 + q.nextMsgID)})
	}
	cs.cmds = append(cs.cmds, cmd)
	return cmd
}

func (q *qworld) startCommit(ci int, id ch.NodeID, auth replication.Authority) {
	cs := q.chans[ci]
	n := q.nodes[id]
	var cmd *command
	exact, conflicting := false, false
	// choose: new command / exact retry of an earlier one / conflicting reuse
	choice := q.r.Tape.Weighted([]int{6, ifelse(len(cs.cmds) > 0, q.cfg.RetryBias, 0), ifelse(len(cs.cmds) > 0, q.cfg.ConflictBias, 0)})
	recs := []ch.Record(nil)
	switch choice {
	case 0:
		cmd = q.newCommand(ci, auth.ID)
		recs = cmd.records
	case 1:
		cmd = cs.cmds[len(cs.cmds)-1-q.r.Tape.PickOldestBiased(len(cs.cmds))]
		recs = cmd.records
		exact = true
	case 2:
		cmd = cs.cmds[len(cs.cmds)-1-q.r.Tape.PickOldestBiased(len(cs.cmds))]
		recs = cloneRecs(cmd.records)
		recs[len(recs)-1].Payload = append(append([]byte(nil), recs[len(recs)-1].Payload...), '!')
		recs[len(recs)-1].SizeBytes = len(recs[len(recs)-1].Payload)
		conflicting = true
	}
	if recs[0].Epoch != auth.ID.ChannelEpoch {
		// records bind the channel epoch; a retry under another epoch is a different proposal: use a fresh one
		cmd = q.newCommand(ci, auth.ID)
		recs = cmd.records
		exact, conflicting = false, false
	}
	q.opsLeft--
	q.nextOp++
	op := &opResult{opID: q.nextOp, kind: opCommit, node: id, nodeInc: n.inc, channel: ci, auth: auth, cmd: cmd, invoked: q.r.Steps,
		exactRetry: exact, conflicting: conflicting}
	// a (command, content variant) that was submitted before may already be sealed
	// at an earlier range on some owner (ambiguous outcome): only its very first
	// submission must start right after the log end observed at invocation
	vi := 0
	if conflicting {
		vi = 1
	}
	op.firstAttempt = !cmd.attempted[vi]
	cmd.attempted[vi] = true
	vBefore := q.view(n, cs)
	op.leoBefore = vBefore.leo
	// (same authority only: a stored proposal is bound to the authority it was sealed
	// under, and the implementation answers a retry under any other authority with a
	// conflict by design — quorum_log.go loadRetainedProposal)
	op.heldAcked = exact && cmd.acked && cmd.ackedVariant == 1 && cmd.ackAuth == auth.ID && q.holdsCommand(vBefore, cs, cmd)
	if op.heldAcked {
		q.r.Probe("exact_retry_on_holder")
	}
	q.busy[okey(id, ci)] = op
	q.notePoison(cs, op)
	cs.ops = append(cs.ops, op)
	q.r.Logf("  op%d COMMIT c%d n%d auth=%d.%d.%d cmd=%x n=%d retry=%v conflict=%v", op.opID, ci, id, auth.ID.ChannelEpoch, auth.ID.LeaderTerm, auth.ID.FenceVersion, cmd.id[:3], len(recs), exact, conflicting)
	// the allocator proof is a property of the command (retries must repeat it): ids are unique per run
	prop := replication.Proposal{Key: cs.key, Expected: auth.ID, CommandID: cmd.id, Records: cloneRecs(recs), ServerAllocatedMessageIDs: cmd.id[2]%2 == 1}
	rt, ctx := n.rt, n.ctx
	go func() {
		cctx, cancel := context.WithTimeout(ctx, 20*time.Second)
		defer cancel()
		rc, err := rt.Log().Commit(cctx, prop)
		op.receipt, op.err = rc, err
		q.mu.Lock()
		q.completed = append(q.completed, op)
		q.mu.Unlock()
	}()
}

func ifelse(c bool, a, b int) int {
	if c {
		return a
	}
	return b
}

func cloneRecs(in []ch.Record) []ch.Record {
	out := append([]ch.Record(nil), in...)
	for i := range out {
		out[i].Payload = append([]byte(nil), out[i].Payload...)
	}
	return out
}

// ---- completions and oracles ----------------------------------------------

func (q *qworld) drain(check bool) {
	q.mu.Lock()
	done := q.completed
	q.completed = nil
	q.mu.Unlock()
	sort.Slice(done, func(i, j int) bool { return done[i].opID < done[j].opID })
	for _, op := range done {
		delete(q.busy, okey(op.node, op.channel))
		op.doneStep = q.r.Steps
		if op.doneStep == 0 {
			op.doneStep = 1
		}
		if !check {
			continue
		}
		switch op.kind {
		case opInstall:
			q.onInstallDone(op)
		case opCommit:
			q.onCommitDone(op)
		}
	}
}

func errName(err error) string {
	if err == nil {
		return "ok"
	}
	for name, e := range map[string]error{"stale-meta": ch.ErrStaleMeta, "not-ready": ch.ErrNotReady, "write-fenced": ch.ErrWriteFenced,
		"log-conflict": ch.ErrLogConflict, "backpressured": ch.ErrBackpressured, "closed": ch.ErrClosed, "invalid-config": ch.ErrInvalidConfig,
		"ctx-deadline": context.DeadlineExceeded, "ctx-canceled": context.Canceled} {
		if errors.Is(err, e) {
			return name
		}
	}
	return err.Error()
}

// highest authority for which an Install returned nil on this owner before step `before`
type ownerModel struct {
	seen    bool
	max     replication.Authority   // highest authority this owner incarnation has been handed
	history []replication.Authority // authorities whose Install returned nil on it, in order
}

func (q *qworld) ownerModel(cs *chanState, node ch.NodeID, inc int) *ownerModel {
	if cs.owners == nil {
		cs.owners = map[string]*ownerModel{}
	}
	k := fmt.Sprintf("%d/%d", node, inc)
	om := cs.owners[k]
	if om == nil {
		om = &ownerModel{}
		cs.owners[k] = om
	}
	return om
}

func (q *qworld) onInstallDone(op *opResult) {
	cs := q.chans[op.channel]
	n := q.nodes[op.node]
	q.r.Logf("  op%d INSTALL done n%d -> %s leo=%d hw=%d answered=%v", op.opID, op.node, errName(op.err), op.installed.LEO, op.installed.HW, sortedNodeIDs(op.answered))
	prev, hadPrev := cs.installedOK[op.node]
	stillSame := n.up && n.inc == op.nodeInc
	// owner model for C04: the highest authority this owner incarnation has been
	// handed (Install returned nil, ErrWriteFenced, or failed in recovery - every
	// outcome except a refusal of the authority itself) and whether it fences.
	om := q.ownerModel(cs, op.node, op.nodeInc)
	refused := errors.Is(op.err, ch.ErrStaleMeta) || errors.Is(op.err, ch.ErrInvalidConfig) || errors.Is(op.err, ch.ErrLogConflict)
	seenBefore := om.seen
	maxBefore := om.max
	if !refused && stillSame && (!om.seen || cmpAuth(op.auth.ID, om.max.ID) > 0) {
		om.seen, om.max = true, op.auth
	}
	if op.err != nil {
		// a failed install of a NEWER authority leaves the owner not ready; it no longer leads
		if hadPrev && stillSame && cmpAuth(op.auth.ID, prev.ID) > 0 {
			delete(cs.installedOK, op.node)
		}
		return
	}
	// C04: an older authority can never be installed again on an owner that was
	// handed a newer one (whether that newer install succeeded, was fenced, or
	// failed during recovery)
	if stillSame && seenBefore && cmpAuth(op.auth.ID, maxBefore.ID) < 0 {
		sig := "after-successful-newer-install"
		if !hadPrev || cmpAuth(prev.ID, maxBefore.ID) < 0 {
			sig = "after-fenced-or-failed-newer-install"
		}
		q.fail("older-authority-installed", sig, fmt.Sprintf("c%d n%d: Install(%v) succeeded although this owner had already been handed authority %v (fence set=%v)", op.channel, op.node, op.auth.ID, maxBefore.ID, maxBefore.WriteFence.Set()), nil)
	}
	if op.auth.WriteFence.Set() {
		q.fail("fenced-append-acked", "install", fmt.Sprintf("c%d n%d: Install with an active write fence returned success", op.channel, op.node), nil)
	}
	if stillSame {
		cs.installedOK[op.node] = op.auth
		om.history = append(om.history, op.auth)
	}
	q.r.Probe("install_ok")
	if op.installed.LEO > 0 {
		q.r.Probe("install_nonempty_frontier")
	}
	// C01 (ii): no writable leader without every acknowledged entry
	v := q.view(n, cs)
	for _, seq := range sortedSeqs(cs.ledger) {
		le := cs.ledger[seq]
		if q.holds(v, seq, le.identity) {
			continue
		}
		class := "ack-lost-at-install"
		if v.err == nil && seq <= v.leo {
			class = "ack-replaced"
		}
		holders := 0
		all := true
		for _, oid := range q.ids {
			if !op.answered[oid] {
				all = false
				continue
			}
			if op.holdAtStart[oid][seq] {
				holders++
			}
		}
		sig := "other"
		switch {
		case class == "ack-lost-at-install" && le.ackStep > op.invoked:
			// the old leader acknowledged the entry while this install's one-shot probes were already in flight
			sig = "commit-overlapped-install"
		case class == "ack-lost-at-install" && q.otherAuthorityActive(cs, op):
			// another authority's commit or install was in flight on another voter during this install
			sig = "install-overlapped-other-authority"
		case class == "ack-lost-at-install" && cs.poisoned:
			sig = "after-overlapping-authorities"
		case class == "ack-lost-at-install" && holders >= 1 && holders < q.cfg.Q && !all:
			sig = "minority-of-responders-held-entry"
		}
		q.fail(class, sig, fmt.Sprintf("c%d: Install(%v) on n%d returned LEO=%d HW=%d but acknowledged seq %d (cmd %d) is not in its durable log (leo=%d); responders=%v holders_among_responders=%d Q=%d all_voters_answered=%v",
			op.channel, op.auth.ID, op.node, op.installed.LEO, op.installed.HW, seq, le.cmd, v.leo, sortedNodeIDs(op.answered), holders, q.cfg.Q, all),
			map[string]any{"responders": len(op.answered), "holders": holders, "Q": q.cfg.Q, "all_answered": all})
		return
	}
	// C02: a writable leader whose log lacks (or replaces) an entry that some
	// replica already holds at or below its persisted committed watermark. Such
	// an entry need not have been acknowledged to a client (an earlier recovery
	// may have certified it); the divergence at committed offsets it leads to is
	// reported here, at the event that causes it.
	for _, oid := range q.ids {
		sv := op.viewsAtStart[oid]
		if sv.err != nil {
			continue
		}
		for seq := uint64(1); seq <= sv.committed && int(seq) <= len(sv.ids); seq++ {
			id := sv.ids[seq-1]
			if q.holds(v, seq, id) {
				continue
			}
			holders := 0
			all := true
			for _, rid := range q.ids {
				if !op.answered[rid] {
					all = false
					continue
				}
				if q.holds(op.viewsAtStart[rid], seq, id) {
					holders++
				}
			}
			sig := "other"
			switch {
			case q.otherAuthorityActive(cs, op):
				sig = "install-overlapped-other-authority"
			case cs.poisoned:
				// committed watermarks and votes produced earlier under overlapping
				// authorities are already unsound evidence (same root cause)
				sig = "after-overlapping-authorities"
			case holders >= 1 && holders < q.cfg.Q && !all:
				sig = "minority-of-responders-held-entry"
			}
			q.fail("committed-entry-dropped-at-install", sig, fmt.Sprintf("c%d: Install(%v) on n%d returned LEO=%d but offset %d, committed on n%d (committed=%d, term %d cmd %x) before the install, is absent or different in the new leader's log (leo=%d); responders=%v holders_among_responders=%d Q=%d all_voters_answered=%v",
				op.channel, op.auth.ID, op.node, op.installed.LEO, seq, oid, sv.committed, id.LeaderTerm, id.CommandID[:3], v.leo, sortedNodeIDs(op.answered), holders, q.cfg.Q, all), nil)
			return
		}
	}
}

// notePoison marks the channel once operations of two different authorities
// on two different voters have overlapped in time, or an older authority's
// leader acted after a newer authority had been issued. Only the adversarial
// control-plane regime can do that.
func (q *qworld) notePoison(cs *chanState, op *opResult) {
	if cs.poisoned {
		return
	}
	if cmpAuth(op.auth.ID, cs.auth) < 0 {
		cs.poisoned = true
		q.r.Probe("channel_poisoned_by_overlapping_authorities")
		return
	}
	for _, o := range cs.ops {
		if o.doneStep == 0 && o.node != op.node && o.auth.ID != op.auth.ID {
			cs.poisoned = true
			q.r.Probe("channel_poisoned_by_overlapping_authorities")
			return
		}
	}
}

// otherAuthorityActive reports whether an operation under a different
// authority on another voter overlapped the lifetime of op.
func (q *qworld) otherAuthorityActive(cs *chanState, op *opResult) bool {
	for _, o := range cs.ops {
		if o == op || o.node == op.node || o.auth.ID == op.auth.ID {
			continue
		}
		if o.doneStep == 0 || o.doneStep >= op.invoked {
			return true
		}
	}
	return false
}

func sortedSeqs(m map[uint64]ledgerEntry) []uint64 {
	out := make([]uint64, 0, len(m))
	for k := range m {
		out = append(out, k)
	}
	sort.Slice(out, func(i, j int) bool { return out[i] < out[j] })
	return out
}

func cmpAuth(a, b replication.AuthorityID) int {
	for _, p := range [][2]uint64{{a.ChannelEpoch, b.ChannelEpoch}, {a.LeaderTerm, b.LeaderTerm}, {a.FenceVersion, b.FenceVersion}} {
		if p[0] < p[1] {
			return -1
		}
		if p[0] > p[1] {
			return 1
		}
	}
	return 0
}

func (q *qworld) onCommitDone(op *opResult) {
	cs := q.chans[op.channel]
	n := q.nodes[op.node]
	cmd := op.cmd
	q.r.Logf("  op%d COMMIT done n%d -> %s [%d..%d] hw=%d", op.opID, op.node, errName(op.err), op.receipt.First, op.receipt.Last, op.receipt.HW)
	if op.err != nil {
		if errors.Is(op.err, ch.ErrStaleMeta) || errors.Is(op.err, ch.ErrNotReady) {
			// the owner told us it no longer leads under this authority
			if a, ok := cs.installedOK[op.node]; ok && a.ID == op.auth.ID && n.inc == op.nodeInc {
				delete(cs.installedOK, op.node)
			}
		}
		// C03: an exact retry of an acknowledged command, on an owner whose durable log
		// holds the acknowledged range before and after the call, may fail for many
		// reasons but never with the definite claim "another content is stored under
		// this command identity"
		if op.heldAcked && errors.Is(op.err, ch.ErrLogConflict) && n.up && n.inc == op.nodeInc && q.cfg.Regime < 2 && !q.tainted && !q.r.Failed() {
			if q.holdsCommand(q.view(n, cs), cs, cmd) {
				q.fail("exact-retry-refused", "", fmt.Sprintf("c%d n%d: exact retry of command %x, acknowledged at [%d..%d] and still in this owner's durable log, was refused with %v", op.channel, op.node, cmd.id[:3], cmd.first, cmd.last, op.err), nil)
			}
		}
		return
	}
	rc := op.receipt
	q.acks++
	q.r.Probe("commit_acked")
	// ---- receipt well-formedness first (everything below indexes by it) -------------
	if rc.Authority != op.auth.ID || rc.CommandID != cmd.id {
		q.fail("range-shape", "identity", fmt.Sprintf("c%d: receipt %+v does not echo authority/command of the proposal", op.channel, rc), nil)
		return
	}
	if rc.Last < rc.First || int(rc.Last-rc.First+1) != cmd.n || rc.First == 0 {
		q.fail("range-shape", "length", fmt.Sprintf("c%d: receipt [%d..%d] for a %d-record command", op.channel, rc.First, rc.Last, cmd.n), nil)
		return
	}
	v := q.view(n, cs)
	// ---- C01 (i): the receipt is truthful. Checked before the C03/C04 history
	// checks: an acknowledgement that is not quorum-durable (a C01 matter) would
	// otherwise surface as overlapping receipts later.
	ids, ok := q.checkTruthful(op, v)
	if !ok {
		return
	}
	// ---- C04: authority / fence ------------------------------------------------
	if om := q.ownerModel(cs, op.node, op.nodeInc); om.seen {
		if cmpAuth(om.max.ID, op.auth.ID) > 0 {
			q.fail("stale-authority-acked", "", fmt.Sprintf("c%d n%d: Commit under %v acknowledged although this owner had been handed the newer authority %v before the commit was invoked", op.channel, op.node, op.auth.ID, om.max.ID), nil)
		} else if om.max.ID == op.auth.ID && om.max.WriteFence.Set() {
			q.fail("fenced-append-acked", "commit", fmt.Sprintf("c%d n%d: Commit acknowledged while the write fence of authority %v is active on this owner", op.channel, op.node, om.max.ID), nil)
		}
	}
	if op.auth.WriteFence.Set() {
		q.fail("fenced-append-acked", "commit", fmt.Sprintf("c%d n%d: Commit acknowledged under a fenced authority", op.channel, op.node), nil)
	}
	if q.tainted || q.r.Failed() {
		return
	}
	// ---- C03: exact, contiguous, retry-stable ------------------------------------
	variant := 1
	if op.conflicting {
		variant = 2
	}
	if cmd.ackedVariant != 0 && cmd.ackedVariant != variant {
		// one command identity acknowledged with two different contents
		q.fail("conflicting-retry-acked", "", fmt.Sprintf("c%d n%d: command %x was acknowledged with content variant %d at [%d..%d] and now with variant %d at [%d..%d]",
			op.channel, op.node, cmd.id[:3], cmd.ackedVariant, cmd.first, cmd.last, variant, rc.First, rc.Last), nil)
		return
	}
	if cmd.ackedVariant == 0 && op.conflicting {
		q.r.Probe("conflicting_variant_acked_first")
	}
	if cmd.acked {
		if cmd.first != rc.First || cmd.last != rc.Last {
			q.fail("retry-range-changed", "", fmt.Sprintf("c%d: command %x acknowledged at [%d..%d] and again at [%d..%d]", op.channel, cmd.id[:3], cmd.first, cmd.last, rc.First, rc.Last), nil)
		}
		q.r.Probe("retry_acked_again")
	} else {
		for _, other := range cs.cmds {
			if other != cmd && other.acked && rc.First <= other.last && other.first <= rc.Last {
				q.fail("range-overlap", "", fmt.Sprintf("c%d: command %x acknowledged at [%d..%d] overlaps command %x at [%d..%d]", op.channel, cmd.id[:3], rc.First, rc.Last, other.id[:3], other.first, other.last), nil)
			}
		}
	}
	// (the two log-end comparisons below need a quiet owner: under the
	// adversarial control plane another authority may write to this node's log
	// as a follower between invocation and acknowledgement)
	quiet := q.cfg.Regime < 2
	if quiet && op.exactRetry && cmd.acked && v.err == nil && v.leo != op.leoBefore {
		q.fail("retry-stored-again", "", fmt.Sprintf("c%d n%d: exact retry of acknowledged command %x moved the leader log end %d -> %d", op.channel, op.node, cmd.id[:3], op.leoBefore, v.leo), nil)
	}
	if quiet && !cmd.acked && !op.exactRetry && op.firstAttempt && v.err == nil && rc.First != op.leoBefore+1 {
		// a new command must start right after the previous log end of its leader
		q.fail("range-not-contiguous", "", fmt.Sprintf("c%d n%d: new command %x acknowledged at [%d..%d] but the leader log end before the call was %d", op.channel, op.node, cmd.id[:3], rc.First, rc.Last, op.leoBefore), nil)
	}
	if q.tainted || q.r.Failed() {
		return
	}
	for i, id := range ids {
		seq := rc.First + uint64(i)
		cs.ledger[seq] = ledgerEntry{identity: id, payload: string(cmd.records[i].Payload), cmd: int(cmd.id[1])<<8 | int(cmd.id[2]), ackStep: q.r.Steps, invoked: op.invoked}
	}
	if !cmd.acked {
		cmd.acked, cmd.first, cmd.last, cmd.ackAuth = true, rc.First, rc.Last, rc.Authority
		cmd.ackedVariant = variant
	}
	if q.holdersBareQuorum(cs, rc.Last) {
		q.r.Probe("ack_on_bare_quorum")
	}
}

// checkTruthful is C01 (i): at the moment the receipt is observed, the leader
// and at least Q-1 other voters hold exactly the acknowledged identities in
// their durable logs. It returns those identities.
func (q *qworld) checkTruthful(op *opResult, v replicaView) ([]ch.EntryIdentity, bool) {
	cs := q.chans[op.channel]
	rc, cmd := op.receipt, op.cmd
	if v.err != nil || v.leo < rc.Last {
		q.fail("ack-not-quorum", "leader", fmt.Sprintf("c%d: receipt [%d..%d] from n%d but its durable log ends at %d (err=%v)", op.channel, rc.First, rc.Last, op.node, v.leo, v.err), nil)
		return nil, false
	}
	ids := make([]ch.EntryIdentity, 0, rc.Last-rc.First+1)
	for seq := rc.First; seq <= rc.Last; seq++ {
		id := v.ids[seq-1]
		if id.CommandID != cmd.id {
			q.fail("ack-not-quorum", "leader-content", fmt.Sprintf("c%d: leader n%d holds another command at acknowledged seq %d", op.channel, op.node, seq), nil)
			return nil, false
		}
		holders := 0
		for _, oid := range q.ids {
			if q.holds(q.view(q.nodes[oid], cs), seq, id) {
				holders++
			}
		}
		if holders < q.cfg.Q {
			sig := "followers"
			for _, in := range cs.installs {
				// an Install of another authority (newer or stale) was in flight on some
				// voter at some point of this commit's lifetime: its unfenced recovery
				// may have truncated a vote this leader already counted
				if in.auth.ID != op.auth.ID && (in.doneStep == 0 || in.doneStep >= op.invoked) && holders >= 1 {
					sig = "authority-change-overlapped-commit"
				}
			}
			q.fail("ack-not-quorum", sig, fmt.Sprintf("c%d: receipt [%d..%d] from n%d but seq %d is durable on only %d voter(s), write quorum %d", op.channel, rc.First, rc.Last, op.node, seq, holders, q.cfg.Q), nil)
			return nil, false
		}
		if prev, ok := cs.ledger[seq]; ok && prev.identity != id {
			q.fail("ack-replaced", "double-ack", fmt.Sprintf("c%d: seq %d acknowledged twice with different identities (cmd %d, then %x)", op.channel, seq, prev.cmd, cmd.id[:3]), nil)
			return nil, false
		}
		ids = append(ids, id)
	}
	return ids, true
}

func (q *qworld) holdersBareQuorum(cs *chanState, seq uint64) bool {
	le, ok := cs.ledger[seq]
	if !ok {
		return false
	}
	h := 0
	for _, oid := range q.ids {
		if q.holds(q.view(q.nodes[oid], cs), seq, le.identity) {
			h++
		}
	}
	return h == q.cfg.Q
}

// invariant runs at every quiescent state: C02 cross-replica agreement.
func (q *qworld) invariant() {
	q.drain(true)
	if q.r.Failed() {
		return
	}
	for ci, cs := range q.chans {
		views := make([]replicaView, len(q.ids))
		for i, id := range q.ids {
			v := q.view(q.nodes[id], cs)
			views[i] = v
			if v.err != nil {
				q.fail("replica-unreadable", "", fmt.Sprintf("c%d n%d: durable state cannot be loaded: %v", ci, id, v.err), nil)
				return
			}
			if v.committed > v.leo {
				q.fail("committed-above-leo", "", fmt.Sprintf("c%d n%d: committed %d > log end %d", ci, id, v.committed, v.leo), nil)
				return
			}
			k := okey(id, ci)
			if v.committed < q.lastCommitted[k] {
				q.fail("committed-regressed", "", fmt.Sprintf("c%d n%d: committed watermark moved backwards %d -> %d", ci, id, q.lastCommitted[k], v.committed), nil)
				return
			}
			q.lastCommitted[k] = v.committed
			for i := 1; i < len(v.ids); i++ {
				a, b := v.ids[i-1], v.ids[i]
				if b.PreviousIndex != a.Index || b.PreviousDigest != a.Digest || b.PreviousTerm != a.LeaderTerm || b.Index != uint64(i+1) {
					q.fail("chain-broken", "", fmt.Sprintf("c%d n%d: entry %d does not chain to entry %d", ci, id, i+1, i), nil)
					return
				}
			}
			if len(v.ids) > 0 && (v.ids[0].PreviousIndex != 0 || v.ids[0].Index != 1) {
				q.fail("chain-broken", "genesis", fmt.Sprintf("c%d n%d: first entry does not chain to genesis", ci, id), nil)
				return
			}
		}
		for i := range views {
			for j := i + 1; j < len(views); j++ {
				m := views[i].committed
				if views[j].committed < m {
					m = views[j].committed
				}
				for s := uint64(1); s <= m; s++ {
					if views[i].ids[s-1] != views[j].ids[s-1] {
						a, b := views[i].ids[s-1], views[j].ids[s-1]
						// root-cause signature: under the adversarial control plane two authorities that
						// overlapped may each have certified their own entries (no voter fences an older
						// authority); any divergence without such an overlap keeps the empty signature
						sig := ""
						if cs.poisoned {
							sig = "after-overlapping-authorities"
						}
						q.fail("committed-divergence", sig, fmt.Sprintf("c%d: n%d and n%d disagree at offset %d (both committed >= %d): term %d cmd %x vs term %d cmd %x",
							ci, q.ids[i], q.ids[j], s, m, a.LeaderTerm, a.CommandID[:3], b.LeaderTerm, b.CommandID[:3]), nil)
						return
					}
				}
			}
		}
		if q.r.Steps%4 == 0 {
			parts := make([]any, 0, 3*len(views)+2)
			parts = append(parts, ci, cs.auth)
			for _, v := range views {
				var tt uint64
				if len(v.ids) > 0 {
					tt = v.ids[len(v.ids)-1].LeaderTerm
				}
				parts = append(parts, v.leo, v.committed, tt)
			}
			q.r.State(parts...)
		}
	}
}

// finalPhase: faults stop, everything heals and restarts, every channel is
// installed once more with all voters reachable, trailing replication and
// repair are given time; then every live voter must hold the whole ledger.
func (q *qworld) finalPhase() {
	r := q.r
	q.phaseFinal = true
	r.Logf("-- final phase: heal, restart, reinstall")
	q.cut = map[[2]ch.NodeID]bool{}
	for _, id := range q.ids {
		if !q.nodes[id].up {
			q.restart(id)
		}
	}
	// let in-flight work settle (benign scheduling only)
	settle := func(budget int) {
		for i := 0; i < budget; i++ {
			simkit.Wait()
			q.invariant()
			if r.Failed() {
				return
			}
			ps := q.w.Pending()
			if len(ps) == 0 {
				if len(q.busy) == 0 {
					return
				}
				time.Sleep(50 * time.Millisecond)
				continue
			}
			q.w.Release(ps[0], 0)
			time.Sleep(200 * time.Microsecond)
		}
	}
	settle(600)
	if r.Failed() || q.tainted {
		return
	}
	if len(q.busy) > 0 {
		// an operation is still in flight after a generous budget: never start a
		// second call on a busy owner (it would block on the owner's mutex)
		r.Probe("final_skipped_busy")
		return
	}
	for ci, cs := range q.chans {
		if len(cs.ledger) == 0 {
			continue
		}
		id := q.ids[q.r.Tape.Intn(len(q.ids))]
		q.opsLeft++
		q.startInstall(ci, id, false)
		settle(600)
		if r.Failed() || q.tainted {
			return
		}
		if len(q.busy) > 0 {
			r.Probe("final_skipped_busy")
			return
		}
		// one more commit so that the followers see the final committed frontier, then settle trailing work
		if a, ok := cs.installedOK[id]; ok {
			q.opsLeft++
			q.startCommit(ci, id, a)
			settle(600)
			if r.Failed() || q.tainted {
				return
			}
			if len(q.busy) > 0 {
				r.Probe("final_skipped_busy")
				return
			}
		}
	}
	for i := 0; i < 6; i++ {
		time.Sleep(300 * time.Millisecond)
		settle(200)
		if r.Failed() {
			return
		}
	}
	for ci, cs := range q.chans {
		leader := ch.NodeID(0)
		for _, id := range q.ids {
			if a, ok := cs.installedOK[id]; ok && a.ID == cs.auth {
				leader = id
			}
		}
		if leader == 0 {
			continue // the final install did not succeed; (ii) was checked whenever one did
		}
		v := q.view(q.nodes[leader], cs)
		for _, seq := range sortedSeqs(cs.ledger) {
			le := cs.ledger[seq]
			if !q.holds(v, seq, le.identity) {
				q.fail("ack-lost-final", "", fmt.Sprintf("c%d: after heal and reinstall the leader n%d lacks acknowledged seq %d", ci, leader, seq), nil)
				return
			}
		}
		r.Probe("final_leader_checked")
	}
}
