package wqsim

import (
	"context"
	"errors"
	"fmt"
	"sort"
	"testing"
	"time"

	"github.com/WuKongIM/WuKongIM/internal/verifsim/simkit"
	"github.com/WuKongIM/WuKongIM/pkg/workqueue"
)

func TestVerifSim(t *testing.T) {
	simkit.Main(t, simkit.Engine{
		Name:  "wqsim",
		Props: map[string]simkit.PropFunc{"C37": runWorld},
		Real: []string{"workqueue.BoundedPool", "workqueue.BoundedBatchPool", "workqueue.BoundedWorkerQueue", "workqueue.ShardedMailbox",
			"ants executor pools", "pkg/goroutine registry", "timers and contexts on the synctest fake clock"},
		Stub: []string{"producers (one goroutine per Submit/SubmitWait, started by the scheduler)", "handlers (park at the scheduler; completion order, errors and context obedience are the scheduler's)",
			"CancelAccepted hook (records only)", "mailbox observer (drain bracket; optional pre-emption point of the drain goroutine)", "the caller of Close"},
		Rule: "One run = one synctest bubble with ONE primitive (pool / batch pool / worker queue / sharded mailbox) built from a tape-drawn configuration " +
			"(1-6 producers, capacity 1-8, workers 1-4, batch policy, close mode), a tape-driven schedule of submissions, handler completions, fake-time ticks and one Close. " +
			"Non-trivial = at least one admitted item ran AND (a fault fired OR two handler calls overlapped OR a submission was rejected).",
		Assumptions: []string{"testing/synctest fake clock and quiescence semantics (go1.26.8)",
			"every Submit call runs to its next blocking point without pre-emption: interleavings INSIDE one Submit/Close call (between two statements of the same call) are explored only where the mailbox observer gives a seam",
			"scheduling inside one simulator step is the Go runtime's at GOMAXPROCS=1; a select with several ready cases is resolved by the runtime, the explored primitives only reach such selects where both branches are equivalent",
			"handler panics are not injected"},
	})
}

func drawCfg(r *simkit.Run) cfg {
	tp := r.Tape
	c := cfg{}
	c.Kind = tp.Intn(4)
	c.NoFaults = tp.Intn(4) == 0
	c.Producers = 1 + tp.Intn(6)
	c.Capacity = 1 + tp.Intn(8)
	c.Workers = 1 + tp.Intn(4)
	c.PerProducer = 1 + tp.Intn(6)
	c.Shards = 1
	if c.Kind == kMailbox {
		c.Shards = 1 + tp.Intn(4)
	}
	if c.Kind == kBatch || c.Kind == kMailbox {
		c.BatchMax = []int{0, 1, 2, 3, 4, 8, 16}[tp.Intn(7)]
		c.BatchWait = []time.Duration{0, 7 * time.Microsecond, 40 * time.Microsecond, 300 * time.Microsecond, 2 * time.Millisecond}[tp.Intn(5)]
		c.PolicyMix = c.Kind == kBatch && c.BatchMax > 0 && tp.Intn(3) == 0
	}
	c.Saturate = tp.Intn(2) == 1
	c.WaitBias = tp.Intn(4)
	if !c.NoFaults {
		if c.Kind == kBatch {
			c.CancelAccepted = tp.Intn(2) == 1
			c.CancelRunning = tp.Intn(3) == 1
		}
		c.CloseBias = 1 + tp.Intn(4)
		c.CloseDeadline = tp.Intn(2) == 1
		c.CtxFaults = tp.Intn(2) == 1
		c.HonourCtx = tp.Intn(2) == 1
		c.HandlerEr = tp.Intn(2) == 1
		c.Preempt = c.Kind == kMailbox && tp.Intn(2) == 1
	}
	return c
}

func runWorld(t *testing.T, r *simkit.Run) {
	c := drawCfg(r)
	r.Config = map[string]any{"kind": kindName[c.Kind], "producers": c.Producers, "capacity": c.Capacity, "workers": c.Workers, "shards": c.Shards,
		"per_producer": c.PerProducer, "nofaults": c.NoFaults, "batch_max": c.BatchMax, "batch_wait_us": c.BatchWait.Microseconds(), "policy_mix": c.PolicyMix,
		"cancel_accepted": c.CancelAccepted, "cancel_running": c.CancelRunning, "close_bias": c.CloseBias, "close_deadline": c.CloseDeadline,
		"ctx_faults": c.CtxFaults, "honour_ctx": c.HonourCtx, "handler_err": c.HandlerEr, "preempt": c.Preempt, "saturate": c.Saturate, "wait_bias": c.WaitBias}
	simkit.Bubble(t, r, func() {
		h := &harness{r: r, w: simkit.NewWorld(r), cfg: c, items: map[int]*itemState{}, active: map[int]int{}, drainGid: map[int]uint64{},
			ranOrder: map[int][]int{}, admitOrder: map[int][]int{}, prodLeft: make([]int, c.Producers), prodBusy: make([]bool, c.Producers), nextItem: 1}
		for i := range h.prodLeft {
			h.prodLeft[i] = c.PerProducer
		}
		if err := h.build(); err != nil {
			r.Infra("build %s: %v", kindName[c.Kind], err)
			return
		}
		defer h.teardown()
		s := &simkit.Scheduler{R: r, MaxSteps: 40 + c.Producers*c.PerProducer*8, Collect: h.collect,
			StepTime: func() time.Duration {
				if r.Tape.Chance(1, 8) {
					return 0
				}
				return time.Microsecond
			},
			Done: h.done,
			Idle: func() time.Duration { return 0 },
		}
		s.Run()
		if !r.Failed() && r.InfraErr == "" {
			h.finalPhase()
		}
		ran := 0
		for _, it := range h.items {
			if it.finished > 0 {
				ran++
			}
		}
		r.ProbeN("handler_calls", h.batches)
		r.ProbeN("multi_item_batches", h.multiItem)
		r.ProbeN("mailbox_drains", h.drains)
		r.ProbeN("overlapping_handler_calls", h.overlaps)
		r.Probe("kind_" + kindName[c.Kind])
		nf := 0
		for _, v := range r.Faults {
			nf += v
		}
		r.Nontrivial = ran > 0 && (nf > 0 || h.overlaps > 0 || r.Probes["rejected_closed"] > 0)
	})
}

func (h *harness) done() bool {
	if !h.closeDone {
		return false
	}
	for _, b := range h.prodBusy {
		if b {
			return false
		}
	}
	if h.extraAfter > 0 {
		for _, n := range h.prodLeft {
			if n > 0 {
				return false
			}
		}
	}
	return true
}

func (h *harness) producersFinished() bool {
	for i, n := range h.prodLeft {
		if n > 0 || h.prodBusy[i] {
			return false
		}
	}
	return true
}

func (h *harness) collect() []simkit.Action {
	h.observe()
	if h.r.Failed() || h.r.InfraErr != "" {
		return nil
	}
	c := h.cfg
	var acts []simkit.Action
	pend := h.w.Pending()
	handlers := 0
	for _, p := range pend {
		p := p
		switch p.Info {
		case "handler":
			handlers++
			w := 30
			if c.Saturate && !h.producersFinished() {
				w = 5
			}
			acts = append(acts, simkit.Action{Prio: 0, Key: "finish " + p.Key, Weight: w, Do: func() { h.w.Release(p, decOK) }})
			if c.HandlerEr {
				acts = append(acts, simkit.Action{Prio: 5, Key: "fail " + p.Key, Weight: 3, Do: func() { h.r.Fault("handler_error"); h.w.Release(p, decErr) }})
			}
		case "obs":
			acts = append(acts, simkit.Action{Prio: 0, Key: "resume " + p.Key, Weight: 20, Do: func() { h.w.Release(p, decOK) }})
		}
	}
	if handlers >= c.Workers {
		h.r.Probe("workers_saturated")
	}
	// submissions
	for p := 0; p < c.Producers; p++ {
		p := p
		if h.prodBusy[p] || h.prodLeft[p] <= 0 {
			continue
		}
		if h.closeDone && h.extraAfter <= 0 {
			continue
		}
		w := 10
		if c.Saturate {
			w = 25
		}
		acts = append(acts, simkit.Action{Prio: 1, Key: fmt.Sprintf("submit p%d", p), Weight: w, Do: func() { h.startSubmit(p) }})
	}
	// close
	if !h.closeStarted {
		if h.producersFinished() {
			acts = append(acts, simkit.Action{Prio: 1, Key: "close", Weight: 20, Do: func() { h.startClose(false) }})
		} else if c.CloseBias > 0 {
			acts = append(acts, simkit.Action{Prio: 4, Key: "close", Weight: c.CloseBias, Do: func() { h.r.Fault("close_mid_run"); h.startClose(false) }})
		}
	}
	// time
	if h.ticks < 40 && (len(pend) > 0 || h.anyBusy() || (h.closeStarted && !h.closeDone) || h.queuedWork()) {
		w := 4
		if h.anyBusy() {
			w = 12 // blocked SubmitWait callers: let their deadlines and the executor retries run
		}
		acts = append(acts, simkit.Action{Prio: 3, Key: "tick", Weight: w, Do: h.tick})
	}
	h.r.State(c.Kind, handlers, h.closeStarted, h.closeDone, h.admitCount-h.finishedCount(), h.countBusy())
	return acts
}

func (h *harness) anyBusy() bool { return h.countBusy() > 0 }

func (h *harness) countBusy() int {
	n := 0
	for _, b := range h.prodBusy {
		if b {
			n++
		}
	}
	return n
}

func (h *harness) finishedCount() int {
	h.mu.Lock()
	defer h.mu.Unlock()
	n := 0
	for _, it := range h.items {
		if it.finished > 0 || it.cancelled > 0 {
			n++
		}
	}
	return n
}

// queuedWork reports admitted items that neither ran nor were cancelled.
func (h *harness) queuedWork() bool {
	h.mu.Lock()
	defer h.mu.Unlock()
	for _, it := range h.items {
		if it.resolved && it.err == nil && it.started == 0 && it.cancelled == 0 {
			return true
		}
	}
	return false
}

func (h *harness) tick() {
	h.ticks++
	d := []time.Duration{3 * time.Microsecond, 11 * time.Microsecond, 37 * time.Microsecond, 130 * time.Microsecond, 1100 * time.Microsecond}[h.r.Tape.Weighted([]int{4, 4, 3, 2, 1})]
	h.r.Logf("  tick %v", d)
	time.Sleep(d)
}

func (h *harness) startSubmit(p int) {
	c := h.cfg
	tp := h.r.Tape
	id := h.nextItem
	h.nextItem++
	h.nextOp++
	h.prodLeft[p]--
	if h.closeDone {
		h.extraAfter--
		h.r.Probe("submit_after_close_returned")
	} else if h.closeStarted {
		h.r.Probe("submit_while_closing")
	}
	shard := 0
	if c.Kind == kMailbox {
		shard = tp.Intn(c.Shards)
	}
	wait := h.p.hasWait() && tp.Weighted([]int{4, c.WaitBias}) == 1
	ctxKind := "bg"
	var dl time.Duration
	if c.CtxFaults {
		switch tp.Weighted([]int{6, 2, 1, 1}) {
		case 1:
			ctxKind = "deadline"
			dl = []time.Duration{4 * time.Microsecond, 23 * time.Microsecond, 110 * time.Microsecond, 900 * time.Microsecond}[tp.Intn(4)] + 137*time.Nanosecond
		case 2:
			ctxKind = "cancelled"
		case 3:
			ctxKind = "cancel-after"
		}
	}
	it := &itemState{id: id, producer: p, shard: shard, opID: h.nextOp, wait: wait, ctxKind: ctxKind, submitted: h.r.Steps}
	h.mu.Lock()
	h.items[id] = it
	h.mu.Unlock()
	h.prodBusy[p] = true
	h.r.Logf("  op%d p%d SUBMIT item%d shard=%d wait=%v ctx=%s %v", it.opID, p, id, shard, wait, ctxKind, dl)
	var ctx context.Context
	cancel := func() {}
	switch ctxKind {
	case "bg":
		ctx = context.Background()
	case "deadline":
		ctx, cancel = context.WithTimeout(context.Background(), dl)
	case "cancelled":
		ctx, cancel = context.WithCancel(context.Background())
		cancel()
	case "cancel-after":
		ctx, cancel = context.WithCancel(context.Background())
	}
	prim, opID := h.p, it.opID
	go func() {
		err := prim.submit(ctx, shard, id, wait)
		cancel() // the caller's context ends after Submit returned: an admitted item must not depend on it
		h.mu.Lock()
		h.completed = append(h.completed, submitResult{opID: opID, item: id, err: err})
		h.mu.Unlock()
	}()
}

func (h *harness) startClose(final bool) {
	tp := h.r.Tape
	h.closeStarted = true
	h.extraAfter = 2
	kind := "bg"
	var dl time.Duration
	if !final && h.cfg.CloseDeadline && tp.Weighted([]int{3, 2}) == 1 {
		kind = "deadline"
		dl = []time.Duration{30 * time.Microsecond, 200 * time.Microsecond, 2 * time.Millisecond, 20 * time.Millisecond}[tp.Intn(4)] + 71*time.Nanosecond
	}
	h.closeCtxKind = kind
	h.mu.Lock()
	running, queued := 0, 0
	for _, it := range h.items {
		if it.started > it.finished {
			running++
		}
		if it.resolved && it.err == nil && it.started == 0 && it.cancelled == 0 {
			queued++
		}
	}
	h.mu.Unlock()
	if running > 0 {
		h.r.Probe("close_with_running_handlers")
	}
	if queued > 0 {
		h.r.Probe("close_with_queued_items")
	}
	if h.anyBusy() {
		h.r.Probe("close_with_blocked_submitters")
	}
	h.r.Logf("  CLOSE ctx=%s %v running=%d queued=%d", kind, dl, running, queued)
	ctx, cancel := context.Background(), func() {}
	if kind == "deadline" {
		ctx, cancel = context.WithTimeout(context.Background(), dl)
	}
	prim := h.p
	go func() {
		err := prim.close(ctx)
		cancel()
		h.mu.Lock()
		h.closeRes = append(h.closeRes, err)
		h.mu.Unlock()
	}()
}

func errName(err error) string {
	switch {
	case err == nil:
		return "admitted"
	case errors.Is(err, workqueue.ErrFull):
		return "full"
	case errors.Is(err, workqueue.ErrClosed):
		return "closed"
	case errors.Is(err, context.DeadlineExceeded):
		return "ctx-deadline"
	case errors.Is(err, context.Canceled):
		return "ctx-canceled"
	}
	return err.Error()
}

func (h *harness) sigBase() string {
	s := kindName[h.cfg.Kind]
	if h.cfg.CancelAccepted {
		s += "/cancel-accepted"
	}
	if h.cfg.CancelRunning {
		s += "/cancel-running"
	}
	if h.cfg.Preempt {
		// the run used the observer seam to pre-empt the mailbox drain goroutine
		s += "/preempt"
	}
	return s
}

// observe runs at every quiescent state on the scheduler goroutine: it folds
// what the other goroutines recorded into the ledger, logs it canonically and
// evaluates the oracles.
func (h *harness) observe() {
	r := h.r
	h.mu.Lock()
	completed := h.completed
	h.completed = nil
	evs := h.events
	h.events = nil
	var closeRes []error
	if !h.closeDone {
		closeRes = h.closeRes
	}
	viol := h.viol
	h.mu.Unlock()

	sort.Slice(completed, func(i, j int) bool { return completed[i].opID < completed[j].opID })
	for _, res := range completed {
		h.mu.Lock()
		it := h.items[res.item]
		it.resolved, it.err = true, res.err
		h.mu.Unlock()
		h.prodBusy[it.producer] = false
		r.Logf("  op%d item%d -> %s", res.opID, res.item, errName(res.err))
		switch {
		case res.err == nil:
			h.admitCount++
			it.admitSeq = h.admitCount
			h.admitOrder[it.shard] = append(h.admitOrder[it.shard], it.id)
			if it.wait && it.submitted < r.Steps-1 {
				r.Probe("submitwait_admitted_after_blocking")
			}
			if h.closeDone && it.submitted > h.closeStep {
				r.FailSig("admitted-after-close", h.sigBase(), fmt.Sprintf("item %d was submitted after Close had returned (%s) and was admitted", it.id, errName(h.closeErr)),
					map[string]any{"item": it.id})
			}
		case errors.Is(res.err, workqueue.ErrFull):
			r.Fault("queue_full_rejection")
		case errors.Is(res.err, workqueue.ErrClosed):
			r.Probe("rejected_closed")
		case errors.Is(res.err, context.DeadlineExceeded):
			r.Fault("caller_deadline_expired")
		case errors.Is(res.err, context.Canceled):
			r.Fault("caller_ctx_cancelled")
		}
	}
	for _, ev := range sortedEvents(evs) {
		switch ev.kind {
		case "enter":
			r.Logf("  enter s%d %s", ev.shard, idsKey(ev.items))
		case "exit":
			r.Logf("  exit s%d %s dec=%d", ev.shard, idsKey(ev.items), ev.dec)
			if ev.dec == decCtx {
				r.Fault("handler_saw_runtime_ctx_cancelled")
			}
		case "cancel":
			r.Logf("  cancel-hook %s", idsKey(ev.items))
			r.Fault("accepted_item_cancelled_on_close")
		}
	}
	if viol != nil {
		r.FailSig(viol.class, viol.sig, viol.detail, viol.facts)
		return
	}
	if len(closeRes) > 0 {
		h.closeDone, h.closeErr, h.closeStep = true, closeRes[0], r.Steps
		r.Logf("  CLOSE -> %v", closeRes[0])
		if closeRes[0] != nil {
			r.Fault("close_deadline_expired")
			if h.closeCtxKind != "deadline" {
				r.FailSig("close-error-without-deadline", h.sigBase(), fmt.Sprintf("Close(background) returned %v", closeRes[0]), nil)
			}
		}
	}
	h.checkLedger()
}

func (h *harness) checkLedger() {
	r := h.r
	if r.Failed() {
		return
	}
	h.mu.Lock()
	defer h.mu.Unlock()
	ids := make([]int, 0, len(h.items))
	for id := range h.items {
		ids = append(ids, id)
	}
	sort.Ints(ids)
	for _, id := range ids {
		it := h.items[id]
		if it.started > 0 || it.cancelled > 0 {
			if !it.resolved {
				r.Infra("item %d ran (started=%d cancelled=%d) while its Submit call had not returned", id, it.started, it.cancelled)
				return
			}
			if it.err != nil {
				r.FailSig("rejected-item-ran", h.sigBase()+"/"+errName(it.err), fmt.Sprintf("item %d: Submit returned %s but started=%d cancelled=%d", id, errName(it.err), it.started, it.cancelled),
					map[string]any{"item": id})
				return
			}
		}
		if it.cancelled > 0 && !h.cfg.CancelAccepted {
			r.FailSig("cancelled-without-config", h.sigBase(), fmt.Sprintf("item %d cancelled although CancelAcceptedOnClose is off", id), nil)
			return
		}
		if h.closeDone && h.closeErr == nil && it.resolved && it.err == nil {
			ok := (it.started == 1 && it.finished == 1 && it.cancelled == 0) || (it.cancelled == 1 && it.started == 0)
			if !ok {
				state := "running"
				if it.started == 0 {
					state = "not-started"
				}
				r.FailSig("close-returned-with-unfinished-work", h.sigBase()+"/"+state,
					fmt.Sprintf("Close returned nil but admitted item %d is %s (started=%d finished=%d cancelled=%d)", id, state, it.started, it.finished, it.cancelled),
					map[string]any{"item": id, "state": state})
				return
			}
		}
	}
	if h.cfg.Kind == kMailbox {
		for shard := 0; shard < h.cfg.Shards; shard++ {
			ran, adm := h.ranOrder[shard], h.admitOrder[shard]
			for i, id := range ran {
				if i >= len(adm) || adm[i] != id {
					r.FailSig("mailbox-order", "shard-order", fmt.Sprintf("shard %d handled %v but admitted %v", shard, ran, adm), map[string]any{"shard": shard})
					return
				}
			}
		}
	}
}

// finalPhase lets everything finish benignly, closes gracefully if the run did
// not, and evaluates the end-state oracle.
func (h *harness) finalPhase() {
	r := h.r
	h.w.CloseAll(decClose)
	simkit.Wait()
	h.observe()
	if r.Failed() {
		return
	}
	if !h.closeStarted {
		r.Logf("final: graceful close")
		h.startClose(true)
	}
	for i := 0; i < 400; i++ {
		simkit.Wait()
		h.observe()
		if r.Failed() || r.InfraErr != "" {
			return
		}
		if h.closeDone && !h.anyBusy() {
			break
		}
		time.Sleep(50 * time.Microsecond)
	}
	if !h.closeDone || h.anyBusy() {
		r.Infra("final phase: close done=%v busy producers=%d", h.closeDone, h.countBusy())
		return
	}
	// let late goroutines (pool release, unregister tickers) settle, then look once more
	time.Sleep(2 * time.Millisecond)
	simkit.Wait()
	h.observe()
	if r.Failed() {
		return
	}
	// end state: nothing admitted may be left half-done; after a graceful Close nothing may be lost
	h.mu.Lock()
	defer h.mu.Unlock()
	ids := make([]int, 0, len(h.items))
	for id := range h.items {
		ids = append(ids, id)
	}
	sort.Ints(ids)
	for _, id := range ids {
		it := h.items[id]
		if it.started != it.finished {
			r.Infra("item %d still inside its handler after teardown release", id)
			return
		}
		if it.resolved && it.err == nil && it.started == 0 && it.cancelled == 0 {
			if h.closeErr == nil {
				r.FailSig("admitted-never-ran", h.sigBase(), fmt.Sprintf("item %d was admitted, Close returned nil, and it neither ran nor was cancelled", id), map[string]any{"item": id})
				return
			}
			r.Probe("admitted_item_abandoned_after_close_deadline")
		}
	}
}

func (h *harness) teardown() {
	h.w.CloseAll(decClose)
	if h.p != nil && !h.closeStarted {
		h.closeStarted = true
		ctx, cancel := context.WithTimeout(context.Background(), 10*time.Millisecond)
		_ = h.p.close(ctx)
		cancel()
		h.closeDone = true
	}
	for i := 0; i < 100; i++ {
		simkit.Wait()
		h.mu.Lock()
		n := len(h.closeRes)
		h.mu.Unlock()
		if (n > 0 || h.closeDone) && !h.anyBusyRaw() {
			break
		}
		time.Sleep(200 * time.Microsecond)
	}
	time.Sleep(5 * time.Millisecond)
	simkit.Wait()
}

// anyBusyRaw looks at the raw completion list (teardown may run after a violation, when observe no longer runs).
func (h *harness) anyBusyRaw() bool {
	h.mu.Lock()
	defer h.mu.Unlock()
	for _, res := range h.completed {
		if it := h.items[res.item]; it != nil {
			h.prodBusy[it.producer] = false
		}
	}
	h.completed = nil
	for _, b := range h.prodBusy {
		if b {
			return true
		}
	}
	return false
}
