package wqsim

import (
	"context"
	"errors"
	"fmt"
	"runtime"
	"sort"
	"strings"
	"sync"
	"time"

	"github.com/WuKongIM/WuKongIM/internal/verifsim/simkit"
	goruntimeregistry "github.com/WuKongIM/WuKongIM/pkg/goroutine"
	"github.com/WuKongIM/WuKongIM/pkg/workqueue"
)

// primitive kinds
const (
	kPool = iota
	kBatch
	kWorkerQueue
	kMailbox
)

var kindName = []string{"pool", "batch", "wq", "mailbox"}

// decisions handed to parked calls
const (
	decOK    = 0 // handler returns nil / observer continues
	decErr   = 1 // handler returns an error
	decCtx   = 2 // handler saw its runtime context end (never chosen by the scheduler)
	decClose = 0 // teardown: everything continues benignly
)

var errSimHandler = errors.New("sim: handler failed")

type cfg struct {
	Kind        int
	Producers   int
	Capacity    int
	Workers     int
	Shards      int
	PerProducer int
	NoFaults    bool
	// batching
	BatchMax  int
	BatchWait time.Duration
	PolicyMix bool // batch options depend on the first item
	// close behaviour
	CancelAccepted bool
	CancelRunning  bool
	CloseBias      int  // weight of the close action while producers still have items
	CloseDeadline  bool // Close may be called with a deadline
	// callers
	WaitBias  int  // weight of SubmitWait (where offered) against Submit
	CtxFaults bool // callers use deadlines / cancelled contexts
	HonourCtx bool // handlers return when the runtime context ends
	HandlerEr bool // handlers may return errors
	Preempt   bool // mailbox only: drain goroutine yields to the scheduler at observer calls
	Saturate  bool // prefer submissions over handler completion
}

// itemState is the harness' ledger entry of one submitted item. Counters are
// written by handler / hook goroutines under harness.mu.
type itemState struct {
	id        int
	producer  int
	shard     int
	opID      int
	wait      bool
	ctxKind   string
	submitted int // step
	resolved  bool
	err       error
	admitSeq  int
	started   int
	finished  int
	cancelled int
}

type hevent struct {
	kind  string // "enter", "exit", "cancel"
	shard int
	items []int
	dec   int
}

type submitResult struct {
	opID int
	item int
	err  error
}

// primitive is the uniform face of the four work queues.
type primitive interface {
	submit(ctx context.Context, shard int, id int, wait bool) error
	close(ctx context.Context) error
	hasWait() bool
}

type harness struct {
	r   *simkit.Run
	w   *simkit.World
	cfg cfg
	p   primitive
	reg *goruntimeregistry.Registry

	mu        sync.Mutex // harness-only; never held while parked
	items     map[int]*itemState
	events    []hevent
	completed []submitResult
	closeRes  []error // results of Close calls in call order
	viol      *pendingViolation
	active    map[int]int    // handler calls inside the bracket, per shard (0 for unsharded)
	drainGid  map[int]uint64 // mailbox: goroutine currently draining the shard
	ranOrder  map[int][]int  // mailbox: items in handler entry order, per shard
	overlaps  int            // handler calls that ran while another was active (any shard)
	inflight  int
	batches   int
	drains    int
	multiItem int

	// scheduler-side state
	nextItem     int
	nextOp       int
	admitCount   int
	admitOrder   map[int][]int
	prodLeft     []int
	prodBusy     []bool
	closeStarted bool
	closeDone    bool
	closeErr     error
	closeStep    int
	closeCtxKind string
	extraAfter   int // submissions still to issue after Close returned
	satTime      time.Duration
	ticks        int
}

type pendingViolation struct {
	class, sig, detail string
	facts              map[string]any
}

// flag records a violation seen off the scheduler goroutine; the scheduler
// reports it at the next quiescent state. Callers hold h.mu.
func (h *harness) flagLocked(class, sig, detail string, facts map[string]any) {
	if h.viol == nil {
		h.viol = &pendingViolation{class: class, sig: sig, detail: detail, facts: facts}
	}
}

func idsKey(ids []int) string {
	parts := make([]string, len(ids))
	for i, id := range ids {
		parts[i] = fmt.Sprint(id)
	}
	return "[" + strings.Join(parts, ",") + "]"
}

// handle is the handler body shared by all primitives: bracket entry, park at
// the scheduler, bracket exit.
func (h *harness) handle(ctx context.Context, shard int, ids []int) error {
	ids = append([]int(nil), ids...)
	h.mu.Lock()
	h.batches++
	if len(ids) > 1 {
		h.multiItem++
	}
	if len(ids) == 0 {
		h.flagLocked("empty-batch", kindName[h.cfg.Kind], "handler called with no items", nil)
	}
	for _, id := range ids {
		it := h.items[id]
		if it == nil {
			h.flagLocked("unknown-item-ran", kindName[h.cfg.Kind], fmt.Sprintf("handler received item %d that was never submitted", id), nil)
			continue
		}
		it.started++
		if it.started > 1 {
			h.flagLocked("ran-twice", kindName[h.cfg.Kind], fmt.Sprintf("item %d entered a handler %d times", id, it.started), map[string]any{"item": id})
		}
		if it.cancelled > 0 {
			h.flagLocked("cancelled-and-ran", kindName[h.cfg.Kind], fmt.Sprintf("item %d was cancelled and then ran", id), map[string]any{"item": id})
		}
	}
	if h.cfg.Kind == kMailbox {
		if h.active[shard] != 0 {
			h.flagLocked("two-drains-active", "handler-bracket", fmt.Sprintf("shard %d entered a handler while %d handler call(s) of the same shard were active", shard, h.active[shard]), map[string]any{"shard": shard})
		}
		h.ranOrder[shard] = append(h.ranOrder[shard], ids...)
	}
	h.active[shard]++
	if h.inflight > 0 {
		h.overlaps++
	}
	h.inflight++
	h.events = append(h.events, hevent{kind: "enter", shard: shard, items: ids})
	h.mu.Unlock()

	key := fmt.Sprintf("h s%d %s", shard, idsKey(ids))
	var d int
	if h.cfg.HonourCtx {
		d = h.w.ParkCtx(ctx.Done(), key, "handler", decCtx)
	} else {
		d = h.w.Park(key, "handler")
	}

	h.mu.Lock()
	for _, id := range ids {
		if it := h.items[id]; it != nil {
			it.finished++
		}
	}
	h.active[shard]--
	h.inflight--
	h.events = append(h.events, hevent{kind: "exit", shard: shard, items: ids, dec: d})
	h.mu.Unlock()
	switch d {
	case decErr:
		return errSimHandler
	case decCtx:
		return ctx.Err()
	}
	return nil
}

// cancelled is the CancelAccepted hook.
func (h *harness) cancelled(id int, err error) {
	h.mu.Lock()
	defer h.mu.Unlock()
	it := h.items[id]
	if it == nil {
		h.flagLocked("unknown-item-cancelled", kindName[h.cfg.Kind], fmt.Sprintf("cancel hook received item %d that was never submitted", id), nil)
		return
	}
	it.cancelled++
	if it.cancelled > 1 {
		h.flagLocked("cancelled-twice", kindName[h.cfg.Kind], fmt.Sprintf("item %d cancelled %d times", id, it.cancelled), map[string]any{"item": id})
	}
	if it.started > 0 {
		h.flagLocked("cancelled-and-ran", kindName[h.cfg.Kind], fmt.Sprintf("item %d ran and was then cancelled", id), map[string]any{"item": id})
	}
	if !errors.Is(err, workqueue.ErrClosed) {
		h.flagLocked("cancel-hook-error", kindName[h.cfg.Kind], fmt.Sprintf("item %d cancelled with %v, want ErrClosed", id, err), nil)
	}
	h.events = append(h.events, hevent{kind: "cancel", items: []int{id}})
}

// ---- goroutine identity (used only for equality, never logged) ------------

func goid() uint64 {
	var buf [64]byte
	n := runtime.Stack(buf[:], false)
	// "goroutine 123 ["
	var id uint64
	for _, c := range buf[len("goroutine "):n] {
		if c < '0' || c > '9' {
			break
		}
		id = id*10 + uint64(c-'0')
	}
	return id
}

// callerRole reports which mailbox goroutine is calling the observer.
func callerRole() string {
	var pcs [24]uintptr
	n := runtime.Callers(3, pcs[:])
	frames := runtime.CallersFrames(pcs[:n])
	role := "other"
	for {
		f, more := frames.Next()
		switch {
		case strings.Contains(f.Function, ".SubmitHash") || strings.Contains(f.Function, ").Submit"):
			return "submit"
		case strings.Contains(f.Function, ".drainScheduledShard"):
			role = "drain"
		}
		if !more {
			break
		}
	}
	return role
}

// ObserveShardedMailbox is the mailbox observer seam. Observations made by the
// drain goroutine bracket one drain (first worker observation = drain entered,
// second = drain about to finish); in pre-emption mode the drain goroutine also
// yields to the scheduler here. No mailbox lock is held at any observer call.
func (h *harness) ObserveShardedMailbox(o workqueue.ShardedMailboxObservation) {
	if o.Kind == "capacity" || o.Kind == "admission" {
		return
	}
	role := callerRole()
	if role != "drain" {
		return
	}
	if o.Kind == "worker" {
		g := goid()
		h.mu.Lock()
		cur := h.drainGid[o.Shard]
		switch {
		case cur == 0:
			h.drainGid[o.Shard] = g
			h.drains++
		case cur == g:
			delete(h.drainGid, o.Shard)
		default:
			h.flagLocked("two-drains-active", "drain-bracket", fmt.Sprintf("shard %d: a second drain started while another drain of the shard had not finished", o.Shard), map[string]any{"shard": o.Shard})
		}
		h.mu.Unlock()
	}
	if !h.cfg.Preempt {
		return
	}
	key := fmt.Sprintf("obs s%d %s", o.Shard, o.Kind)
	if o.Kind == "batch" {
		key += fmt.Sprintf(" n%d", o.BatchSize)
	}
	h.w.Park(key, "obs")
}

// ---- adapters --------------------------------------------------------------

type poolPrim struct {
	p *workqueue.BoundedPool[int]
}

func (a *poolPrim) submit(ctx context.Context, _ int, id int, wait bool) error {
	if wait {
		return a.p.SubmitWait(ctx, id)
	}
	return a.p.Submit(ctx, id)
}
func (a *poolPrim) close(ctx context.Context) error { return a.p.Close(ctx) }
func (a *poolPrim) hasWait() bool                   { return true }

type batchPrim struct {
	p *workqueue.BoundedBatchPool[int]
}

func (a *batchPrim) submit(ctx context.Context, _ int, id int, _ bool) error {
	return a.p.Submit(ctx, id)
}
func (a *batchPrim) close(ctx context.Context) error { return a.p.Close(ctx) }
func (a *batchPrim) hasWait() bool                   { return false }

type wqPrim struct {
	q *workqueue.BoundedWorkerQueue[int]
}

func (a *wqPrim) submit(ctx context.Context, _ int, id int, wait bool) error {
	if wait {
		return a.q.SubmitWait(ctx, id)
	}
	return a.q.Submit(ctx, id)
}
func (a *wqPrim) close(ctx context.Context) error { return a.q.Close(ctx) }
func (a *wqPrim) hasWait() bool                   { return true }

type mailboxPrim struct {
	m      *workqueue.ShardedMailbox[int]
	shards int
}

func (a *mailboxPrim) submit(ctx context.Context, shard int, id int, _ bool) error {
	// hash chosen so that hash % shards == shard, with varying high bits
	return a.m.SubmitHash(ctx, uint64(shard)+uint64(a.shards)*uint64(id%7), id)
}
func (a *mailboxPrim) close(ctx context.Context) error { return a.m.Close(ctx) }
func (a *mailboxPrim) hasWait() bool                   { return false }

func (h *harness) policy(first int) workqueue.BatchOptions {
	c := h.cfg
	if c.PolicyMix {
		switch first % 3 {
		case 0:
			return workqueue.BatchOptions{MaxItems: 1}
		case 1:
			return workqueue.BatchOptions{MaxItems: c.BatchMax, MaxWait: c.BatchWait}
		default:
			return workqueue.BatchOptions{MaxItems: 2, MaxWait: 0}
		}
	}
	return workqueue.BatchOptions{MaxItems: c.BatchMax, MaxWait: c.BatchWait}
}

func (h *harness) build() error {
	c := h.cfg
	h.reg = goruntimeregistry.New()
	switch c.Kind {
	case kPool:
		p, err := workqueue.NewBoundedPool[int](workqueue.BoundedPoolConfig{
			Name: "sim-pool", Goroutines: h.reg, Workers: c.Workers, QueueSize: c.Capacity,
			ReleaseTimeout: 50 * time.Microsecond,
		}, func(ctx context.Context, id int) error { return h.handle(ctx, 0, []int{id}) })
		if err != nil {
			return err
		}
		h.p = &poolPrim{p: p}
	case kBatch:
		bc := workqueue.BoundedBatchPoolConfig[int]{
			Name: "sim-batch", Goroutines: h.reg, Workers: c.Workers, QueueSize: c.Capacity,
			ReleaseTimeout:        50 * time.Microsecond,
			CancelAcceptedOnClose: c.CancelAccepted, CancelRunningOnClose: c.CancelRunning,
			CancelAccepted: h.cancelled,
		}
		if c.BatchMax > 0 {
			bc.Policy = h.policy
		}
		p, err := workqueue.NewBoundedBatchPool[int](bc, func(ctx context.Context, ids []int) error { return h.handle(ctx, 0, ids) })
		if err != nil {
			return err
		}
		h.p = &batchPrim{p: p}
	case kWorkerQueue:
		q, err := workqueue.NewBoundedWorkerQueue[int](workqueue.BoundedWorkerQueueConfig{
			Name: "sim-wq", Goroutines: h.reg, Workers: c.Workers, QueueSize: c.Capacity,
		}, func(ctx context.Context, id int) error { return h.handle(ctx, 0, []int{id}) })
		if err != nil {
			return err
		}
		h.p = &wqPrim{q: q}
	case kMailbox:
		m, err := workqueue.NewShardedMailbox[int](workqueue.ShardedMailboxConfig{
			Name: "sim-mailbox", Goroutines: h.reg, Shards: c.Shards, Workers: c.Workers, QueueSizePerShard: c.Capacity,
			BatchMaxItems: c.BatchMax, BatchMaxWait: c.BatchWait, ReleaseTimeout: 50 * time.Microsecond, Observer: h,
		}, func(ctx context.Context, b workqueue.MailboxBatch[int]) error { return h.handle(ctx, b.Shard, b.Items) })
		if err != nil {
			return err
		}
		h.p = &mailboxPrim{m: m, shards: c.Shards}
	}
	return nil
}

// sortedEvents returns this step's handler-side events in a canonical order.
func sortedEvents(evs []hevent) []hevent {
	rank := map[string]int{"exit": 0, "cancel": 1, "enter": 2}
	sort.SliceStable(evs, func(i, j int) bool {
		a, b := evs[i], evs[j]
		if len(a.items) == 0 || len(b.items) == 0 {
			return len(a.items) < len(b.items)
		}
		if a.items[0] != b.items[0] {
			return a.items[0] < b.items[0]
		}
		return rank[a.kind] < rank[b.kind]
	})
	return evs
}
