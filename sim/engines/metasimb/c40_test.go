package metasimb

import (
	"bytes"
	"encoding/json"
	"fmt"
	"sort"

	"github.com/WuKongIM/WuKongIM/internal/verifsim/simkit"
	metadb "github.com/WuKongIM/WuKongIM/pkg/db/meta"
	"github.com/WuKongIM/WuKongIM/pkg/slot/fsm"
)

// ---- C40 (reducer part): message event projection is monotonic and idempotent ----
//
// Reference model, from the statement and the event semantics:
//   * one message = (channel, client message number); it has one event counter;
//   * every NEW event that is applied takes the next counter value;
//   * an event id that was applied before is a replay: nothing changes and the
//     original (lane, sequence, status) is reported again;
//   * a lane that reached closed / error / cancelled is final: later events for
//     it change nothing;
//   * open / delta / snapshot keep a lane open, close and finish close it,
//     error and cancel end it with their own status; finish has its own lane.

const (
	c40Slot     = 7
	c40HashSlot = 3
	c40Channel  = "c40-room"
	c40ChanType = 2
)

type c40Lane struct {
	status    string
	seq       uint64
	lastID    string
	lastType  string
	isText    bool
	text      string
	opaque    []byte
	endReason uint8
	errText   string
	hasPay    bool
}

type c40Applied struct {
	lane   string
	seq    uint64
	status string
}

type c40Msg struct {
	cursor  uint64
	lanes   map[string]*c40Lane
	applied map[string]c40Applied
}

type c40Model struct {
	msgs map[string]*c40Msg
}

func c40Terminal(s string) bool {
	return s == metadb.EventStatusClosed || s == metadb.EventStatusError || s == metadb.EventStatusCancelled
}

type c40Expect struct {
	lane    string
	seq     uint64
	status  string
	applied bool // a new event that changed the projection
	replay  bool // a known event id
}

func (m *c40Model) msg(no string) *c40Msg {
	x := m.msgs[no]
	if x == nil {
		x = &c40Msg{lanes: map[string]*c40Lane{}, applied: map[string]c40Applied{}}
		m.msgs[no] = x
	}
	return x
}

type c40Terminalpay struct {
	Snapshot  json.RawMessage `json:"snapshot,omitempty"`
	EndReason uint8           `json:"end_reason,omitempty"`
	Error     string          `json:"error,omitempty"`
}

func (l *c40Lane) setPayload(raw []byte) {
	var t struct {
		Kind string `json:"kind"`
		Text string `json:"text"`
	}
	l.hasPay = true
	if json.Unmarshal(raw, &t) == nil && t.Kind == "text" {
		l.isText, l.text, l.opaque = true, t.Text, nil
		return
	}
	l.isText, l.text, l.opaque = false, "", append([]byte(nil), raw...)
}

func (m *c40Model) step(ev metadb.MessageEventAppend) c40Expect {
	msg := m.msg(ev.ClientMsgNo)
	lane := ev.EventKey
	if lane == "" {
		lane = metadb.EventKeyDefault
	}
	if ev.EventType == metadb.EventTypeStreamFinish {
		lane = metadb.EventKeyFinish
	}
	if a, ok := msg.applied[ev.EventID]; ok {
		return c40Expect{lane: a.lane, seq: a.seq, status: a.status, replay: true}
	}
	l := msg.lanes[lane]
	if l != nil && c40Terminal(l.status) {
		return c40Expect{lane: lane, seq: l.seq, status: l.status}
	}
	if l == nil {
		l = &c40Lane{}
		msg.lanes[lane] = l
	}
	switch ev.EventType {
	case metadb.EventTypeStreamOpen:
		l.status = metadb.EventStatusOpen
	case metadb.EventTypeStreamDelta:
		l.status = metadb.EventStatusOpen
		var d struct {
			Kind  string `json:"kind"`
			Delta string `json:"delta"`
		}
		if json.Unmarshal(ev.Payload, &d) == nil && d.Kind == "text" {
			if l.isText {
				l.text += d.Delta
			} else {
				l.isText, l.text, l.opaque = true, d.Delta, nil
			}
			l.hasPay = true
		} else {
			l.isText, l.text, l.opaque, l.hasPay = false, "", append([]byte(nil), ev.Payload...), true
		}
	case metadb.EventTypeStreamSnapshot:
		l.status = metadb.EventStatusOpen
		l.setPayload(ev.Payload)
	case metadb.EventTypeStreamClose, metadb.EventTypeStreamError, metadb.EventTypeStreamCancel:
		var p c40Terminalpay
		_ = json.Unmarshal(ev.Payload, &p)
		if len(p.Snapshot) > 0 && string(p.Snapshot) != "null" {
			l.setPayload(p.Snapshot)
		}
		switch ev.EventType {
		case metadb.EventTypeStreamClose:
			l.status = metadb.EventStatusClosed
			l.endReason = p.EndReason
		case metadb.EventTypeStreamError:
			l.status = metadb.EventStatusError
			l.errText = p.Error
		default:
			l.status = metadb.EventStatusCancelled
		}
	case metadb.EventTypeStreamFinish:
		l.status = metadb.EventStatusClosed
	}
	msg.cursor++
	l.seq = msg.cursor
	l.lastID = ev.EventID
	l.lastType = ev.EventType
	msg.applied[ev.EventID] = c40Applied{lane: lane, seq: l.seq, status: l.status}
	return c40Expect{lane: lane, seq: l.seq, status: l.status, applied: true}
}

func c40StateMatches(l *c40Lane, st metadb.MessageEventState) string {
	if st.Status != l.status {
		return fmt.Sprintf("status %q want %q", st.Status, l.status)
	}
	if st.LastMsgEventSeq != l.seq {
		return fmt.Sprintf("seq %d want %d", st.LastMsgEventSeq, l.seq)
	}
	if st.LastEventID != l.lastID {
		return fmt.Sprintf("last event id %q want %q", st.LastEventID, l.lastID)
	}
	if st.LastEventType != l.lastType {
		return fmt.Sprintf("last event type %q want %q", st.LastEventType, l.lastType)
	}
	if st.EndReason != l.endReason {
		return fmt.Sprintf("end reason %d want %d", st.EndReason, l.endReason)
	}
	if st.Error != l.errText {
		return fmt.Sprintf("error %q want %q", st.Error, l.errText)
	}
	if !l.hasPay {
		if len(st.SnapshotPayload) != 0 {
			return fmt.Sprintf("payload %q want none", st.SnapshotPayload)
		}
		return ""
	}
	if l.isText {
		var t struct {
			Kind string `json:"kind"`
			Text string `json:"text"`
		}
		if err := json.Unmarshal(st.SnapshotPayload, &t); err != nil || t.Kind != "text" || t.Text != l.text {
			return fmt.Sprintf("payload %q want text %q", st.SnapshotPayload, l.text)
		}
		return ""
	}
	if !bytes.Equal(st.SnapshotPayload, l.opaque) {
		return fmt.Sprintf("payload %q want %q", st.SnapshotPayload, l.opaque)
	}
	return ""
}

type c40Gen struct {
	r       *simkit.Run
	nMsgs   int
	lanes   []string
	counter [2]int
	sent    []metadb.MessageEventAppend
	clock   int64
	shareID bool
}

func (g *c40Gen) payloadFor(typ string) []byte {
	t := g.r.Tape
	word := []string{"a", "bc", "d", "", "éf"}[t.Intn(5)]
	switch typ {
	case metadb.EventTypeStreamDelta:
		if t.Chance(1, 8) {
			return []byte(fmt.Sprintf(`{"kind":"blob","v":%d}`, t.Intn(9)))
		}
		b, _ := json.Marshal(map[string]string{"kind": "text", "delta": word})
		return b
	case metadb.EventTypeStreamSnapshot:
		if t.Chance(1, 8) {
			return []byte(fmt.Sprintf(`{"kind":"blob","v":%d}`, t.Intn(9)))
		}
		b, _ := json.Marshal(map[string]string{"kind": "text", "text": "S" + word})
		return b
	case metadb.EventTypeStreamClose, metadb.EventTypeStreamError, metadb.EventTypeStreamCancel:
		p := map[string]any{}
		if t.Chance(1, 3) {
			p["snapshot"] = map[string]string{"kind": "text", "text": "T" + word}
		}
		if t.Chance(1, 2) {
			p["end_reason"] = 1 + t.Intn(5)
		}
		if t.Chance(1, 2) {
			p["error"] = "boom" + word
		}
		if len(p) == 0 && t.Chance(1, 2) {
			return nil
		}
		b, _ := json.Marshal(p)
		return b
	case metadb.EventTypeStreamFinish:
		if t.Chance(1, 2) {
			return []byte(`{"end_reason":3}`)
		}
		return nil
	}
	return nil
}

var c40Types = []string{
	metadb.EventTypeStreamDelta, metadb.EventTypeStreamOpen, metadb.EventTypeStreamSnapshot,
	metadb.EventTypeStreamClose, metadb.EventTypeStreamError, metadb.EventTypeStreamCancel, metadb.EventTypeStreamFinish,
}

// next draws one event: value 0 = a fresh delta from leader 0 on the main lane.
func (g *c40Gen) next() (metadb.MessageEventAppend, string) {
	t := g.r.Tape
	if len(g.sent) > 0 {
		switch t.Weighted([]int{12, 3, 2}) {
		case 1: // exact replay of an earlier event (late retry, other leader re-sending)
			ev := g.sent[t.Intn(len(g.sent))]
			g.r.Fault("event_replay")
			if t.Chance(1, 4) {
				// the same event once more, but naming another lane (or none: the default lane)
				ev.EventKey = g.lanes[t.Intn(len(g.lanes))]
				g.r.Fault("event_replay_other_lane")
				return ev, "replay-rekeyed"
			}
			return ev, "replay"
		case 2: // same event id, different content (competing leader reusing the id)
			old := g.sent[t.Intn(len(g.sent))]
			ev := old
			ev.EventType = c40Types[t.Intn(len(c40Types))]
			ev.EventKey = g.lanes[t.Intn(len(g.lanes))]
			ev.Payload = g.payloadFor(ev.EventType)
			g.r.Fault("event_id_reused")
			return ev, "idreuse"
		}
	}
	leader := t.Intn(2)
	g.counter[leader]++
	g.clock++
	id := fmt.Sprintf("L%d-e%d", leader, g.counter[leader])
	if g.shareID {
		// both leaders number their events the same way: ids collide across leaders
		id = fmt.Sprintf("e%d", g.counter[leader])
	}
	typ := c40Types[t.Weighted([]int{14, 3, 3, 1, 1, 1, 1})]
	ev := metadb.MessageEventAppend{
		ChannelID: c40Channel, ChannelType: c40ChanType,
		ClientMsgNo: fmt.Sprintf("m%d", t.Intn(g.nMsgs)),
		EventID:     id,
		EventKey:    g.lanes[t.Intn(len(g.lanes))],
		EventType:   typ,
		OccurredAt:  g.clock, UpdatedAt: g.clock + 1000,
	}
	if t.Chance(1, 4) {
		ev.Visibility = []string{metadb.VisibilityPrivate, metadb.VisibilityRestricted}[t.Intn(2)]
	}
	ev.Payload = g.payloadFor(typ)
	g.sent = append(g.sent, ev)
	return ev, "new"
}

type c40Obs struct {
	st metadb.MessageEventState
}

func runC40(r *simkit.Run) {
	t := r.Tape
	disk := drawDisk(r)
	gen := &c40Gen{r: r, nMsgs: 1 + t.Intn(3), lanes: []string{"main", "", "aux"}}
	gen.shareID = t.Chance(1, 4)
	faults := !t.Chance(1, 4)
	steps := 6 + t.Intn(20)
	r.Config["msgs"], r.Config["share_ids"], r.Config["faults"], r.Config["steps"] = gen.nMsgs, gen.shareID, faults, steps

	n := newSlotNode(r, "c40", c40Slot, []uint16{c40HashSlot}, disk)
	if r.InfraErr != "" {
		return
	}
	defer func() { n.close() }()

	model := &c40Model{msgs: map[string]*c40Msg{}}
	// property-level memory, independent of the model
	lastSeen := map[string]c40Obs{}        // msg|lane -> last observed row
	maxSeq := map[string]uint64{}          // msg -> highest sequence observed
	firstResult := map[string]c40Applied{} // msg|eventID -> result of the applying call
	applied := 0
	injected := false

	observe := func(when string) {
		for mi := 0; mi < gen.nMsgs; mi++ {
			no := fmt.Sprintf("m%d", mi)
			states, err := n.db.ForHashSlot(c40HashSlot).ListMessageEventStates(bg, c40Channel, c40ChanType, no, 100)
			if err != nil {
				r.Infra("ListMessageEventStates: %v", err)
				return
			}
			mm := model.msg(no)
			seen := map[string]bool{}
			var top uint64
			for _, st := range states {
				key := no + "|" + st.EventKey
				seen[st.EventKey] = true
				if st.LastMsgEventSeq > top {
					top = st.LastMsgEventSeq
				}
				if prev, ok := lastSeen[key]; ok {
					if st.LastMsgEventSeq < prev.st.LastMsgEventSeq {
						r.FailSig("event-seq-regressed", "lane", fmt.Sprintf("%s %s lane %q: sequence %d after %d", when, no, st.EventKey, st.LastMsgEventSeq, prev.st.LastMsgEventSeq), nil)
						return
					}
					if c40Terminal(prev.st.Status) {
						a, b := prev.st, st
						if a.Status != b.Status || a.LastMsgEventSeq != b.LastMsgEventSeq || a.LastEventID != b.LastEventID || a.LastEventType != b.LastEventType ||
							!bytes.Equal(a.SnapshotPayload, b.SnapshotPayload) || a.EndReason != b.EndReason || a.Error != b.Error {
							r.FailSig("terminal-lane-changed", a.Status, fmt.Sprintf("%s %s lane %q was final (%s seq %d by %s) and is now %s seq %d by %s payload %q->%q",
								when, no, st.EventKey, a.Status, a.LastMsgEventSeq, a.LastEventID, b.Status, b.LastMsgEventSeq, b.LastEventID, a.SnapshotPayload, b.SnapshotPayload), nil)
							return
						}
					}
				}
				lastSeen[key] = c40Obs{st: st}
				ml := mm.lanes[st.EventKey]
				if ml == nil {
					r.Fail("event-lane-unexpected", fmt.Sprintf("%s %s: stored lane %q does not exist in the reference", when, no, st.EventKey), nil)
					return
				}
				if why := c40StateMatches(ml, st); why != "" {
					r.Fail("event-state-mismatch", fmt.Sprintf("%s %s lane %q: %s", when, no, st.EventKey, why), nil)
					return
				}
				r.State("c40", st.EventKey, st.Status, st.LastEventType, len(states))
			}
			for _, lk := range simkit.SortedKeys(mm.lanes) {
				if !seen[lk] {
					r.Fail("event-lane-missing", fmt.Sprintf("%s %s: lane %q of the reference is not stored", when, no, lk), nil)
					return
				}
			}
			if top < maxSeq[no] {
				r.FailSig("event-seq-regressed", "message", fmt.Sprintf("%s %s: highest stored sequence %d after %d", when, no, top, maxSeq[no]), nil)
				return
			}
			maxSeq[no] = top
			if top != mm.cursor {
				r.Fail("event-seq-mismatch", fmt.Sprintf("%s %s: highest stored sequence %d, reference counter %d", when, no, top, mm.cursor), nil)
				return
			}
		}
	}

	for step := 0; step < steps && !r.Failed() && r.InfraErr == ""; step++ {
		// one raft apply batch: 1-3 commands, each a single event or an ordered event batch
		nCmds := 1 + t.Weighted([]int{5, 2, 1})
		var payloads [][]byte
		var hs []uint16
		var perCmd [][]metadb.MessageEventAppend
		for c := 0; c < nCmds; c++ {
			k := 1
			if t.Chance(1, 3) {
				k = 2 + t.Intn(3)
				r.Probe("event_batch_command")
			}
			evs := make([]metadb.MessageEventAppend, 0, k)
			for i := 0; i < k; i++ {
				ev, kind := gen.next()
				if kind != "new" {
					injected = true
				}
				evs = append(evs, ev)
				r.Logf("step %d cmd %d ev %s %s id=%s msg=%s lane=%q pay=%s", step, c, kind, ev.EventType, ev.EventID, ev.ClientMsgNo, ev.EventKey, ev.Payload)
			}
			if k == 1 && !t.Chance(1, 4) {
				payloads = append(payloads, fsm.EncodeAppendMessageEventCommand(evs[0]))
			} else {
				payloads = append(payloads, fsm.EncodeAppendMessageEventsCommand(evs))
			}
			hs = append(hs, c40HashSlot)
			perCmd = append(perCmd, evs)
		}
		res, _, err := n.apply(hs, payloads)
		if err != nil {
			r.Fail("apply-error", fmt.Sprintf("step %d: ApplyBatch of well-formed event commands failed: %v", step, err), nil)
			break
		}
		for c, evs := range perCmd {
			results, derr := fsm.DecodeAppendMessageEventResults(res[c])
			if derr != nil {
				r.Fail("event-result-undecodable", fmt.Sprintf("step %d cmd %d: result %q: %v", step, c, res[c], derr), nil)
				break
			}
			if len(results) != len(evs) {
				r.Fail("event-result-count", fmt.Sprintf("step %d cmd %d: %d results for %d events", step, c, len(results), len(evs)), nil)
				break
			}
			for i, ev := range evs {
				exp := model.step(ev)
				got := results[i]
				r.Logf("  -> id=%s lane=%q seq=%d status=%s (want %q %d %s applied=%v replay=%v)", got.EventID, got.EventKey, got.MsgEventSeq, got.Status, exp.lane, exp.seq, exp.status, exp.applied, exp.replay)
				key := ev.ClientMsgNo + "|" + ev.EventID
				if exp.replay {
					r.Probe("replay_checked")
					if first, ok := firstResult[key]; ok && (first.lane != got.EventKey || first.seq != got.MsgEventSeq || first.status != got.Status) {
						r.FailSig("replay-result-differs", ev.EventType, fmt.Sprintf("step %d: replayed event id %s returned lane %q seq %d status %s, the original call returned lane %q seq %d status %s",
							step, ev.EventID, got.EventKey, got.MsgEventSeq, got.Status, first.lane, first.seq, first.status), nil)
						break
					}
				}
				if got.EventKey != exp.lane || got.MsgEventSeq != exp.seq || got.Status != exp.status || got.EventID != ev.EventID {
					r.Fail("event-result-mismatch", fmt.Sprintf("step %d: event %s (%s) returned lane %q seq %d status %s, reference says lane %q seq %d status %s",
						step, ev.EventID, ev.EventType, got.EventKey, got.MsgEventSeq, got.Status, exp.lane, exp.seq, exp.status), nil)
					break
				}
				if exp.applied {
					applied++
					firstResult[key] = c40Applied{lane: got.EventKey, seq: got.MsgEventSeq, status: got.Status}
					if c40Terminal(exp.status) {
						r.Probe("lane_finalised")
					}
				} else if !exp.replay {
					r.Probe("event_on_final_lane")
				}
			}
			if r.Failed() {
				break
			}
		}
		if r.Failed() {
			break
		}
		observe(fmt.Sprintf("after step %d", step))
		if faults && !r.Failed() && n.drawRestart(1, 5) {
			injected = true
			if r.InfraErr != "" || r.Failed() {
				break
			}
			observe(fmt.Sprintf("after restart %d", n.restarts))
		}
	}
	if !r.Failed() && r.InfraErr == "" {
		// final: every event id ever applied replays to its original result after a last restart
		if faults {
			n.restart(t.Intn(4))
		}
		if r.InfraErr == "" && !r.Failed() {
			keys := make([]string, 0, len(gen.sent))
			byKey := map[string]metadb.MessageEventAppend{}
			for _, ev := range gen.sent {
				k := ev.ClientMsgNo + "|" + ev.EventID
				if _, ok := firstResult[k]; ok {
					if _, dup := byKey[k]; !dup {
						keys = append(keys, k)
					}
					byKey[k] = ev
				}
			}
			sort.Strings(keys)
			if len(keys) > 6 {
				keys = keys[:6]
			}
			for _, k := range keys {
				ev := byKey[k]
				res, _, err := n.apply([]uint16{c40HashSlot}, [][]byte{fsm.EncodeAppendMessageEventCommand(ev)})
				if err != nil {
					r.Fail("apply-error", fmt.Sprintf("final replay of %s failed: %v", ev.EventID, err), nil)
					break
				}
				got, derr := fsm.DecodeAppendMessageEventResult(res[0])
				first := firstResult[k]
				model.step(ev)
				if derr != nil || got.EventKey != first.lane || got.MsgEventSeq != first.seq || got.Status != first.status {
					r.FailSig("replay-result-differs", "final", fmt.Sprintf("final replay of %s returned lane %q seq %d status %s (err %v), original lane %q seq %d status %s",
						ev.EventID, got.EventKey, got.MsgEventSeq, got.Status, derr, first.lane, first.seq, first.status), nil)
					break
				}
				r.Probe("replay_checked")
			}
			if !r.Failed() {
				observe("final")
			}
		}
	}
	r.Nontrivial = applied >= 6 && injected
}
