package metasimb

import (
	"bytes"
	"context"
	"errors"
	"fmt"
	"sort"

	"github.com/WuKongIM/WuKongIM/internal/verifsim/simkit"
	metadb "github.com/WuKongIM/WuKongIM/pkg/db/meta"
	"github.com/WuKongIM/WuKongIM/pkg/protocol/channelid"
	"github.com/WuKongIM/WuKongIM/pkg/slot/fsm"
	"github.com/WuKongIM/WuKongIM/pkg/slot/multiraft"
)

// ---- C39: hash-slot migration neither loses nor duplicates metadata writes ----
//
// World: source slot S owns hash slots A (migrating) and B, target slot T owns C.
// The simulator is both slot logs, the controller (ownership / delta-target
// table updates), the migration driver (snapshot -> delta -> fence -> switch ->
// done, acks and cleanup of the durable outbox) and the network that carries
// forwarded deltas to T as apply-delta proposals.
//
// Delivery discipline of the simulated driver (the tree contains no production
// driver, so this is the stated assumption): the FIRST delivery of the deltas of
// one hash slot follows the durable outbox in source-index order; any delta that
// was delivered before may be delivered again at any later time, in any order,
// in the same batch, after restarts of either side and after the switch.
// The outbox may start some batches before the snapshot is exported ("overlap"
// runs); the driver records the source applied index of the export (the
// snapshotAt of the design plan) and never delivers a delta at or below it:
// such a command is inside the snapshot, the target holds no applied-delta
// record for it, and re-applying it over the final row is not idempotent.
//
// Reference: one logical content per hash slot. ref[h] follows the writes the
// owner accepted; tcopy follows what T was given for A (snapshot, then each
// delta exactly once). At the switch tcopy must equal ref[A].

const (
	c39S = 11
	c39T = 22
	hsA  = 5
	hsB  = 6
	hsC  = 7
)

type logical struct {
	users map[string]metadb.User
	mem   *c16Model
	ev    *c40Model
}

func newLogical() *logical {
	return &logical{users: map[string]metadb.User{},
		mem: &c16Model{rows: map[memKey]*metadb.UserChannelMembership{}, cmd: map[memKey]*metadb.UserCMDChannelMembership{},
			rowBoundary: map[memKey]bool{}, cmdBoundary: map[memKey]bool{}, olderRefused: map[memKey]bool{}},
		ev: &c40Model{msgs: map[string]*c40Msg{}}}
}

func (l *logical) clone() *logical {
	c := newLogical()
	for k, v := range l.users {
		c.users[k] = v
	}
	for k, v := range l.mem.rows {
		cp := *v
		c.mem.rows[k] = &cp
	}
	for k, v := range l.mem.cmd {
		cp := *v
		c.mem.cmd[k] = &cp
	}
	for no, m := range l.ev.msgs {
		nm := &c40Msg{cursor: m.cursor, lanes: map[string]*c40Lane{}, applied: map[string]c40Applied{}}
		for k, ln := range m.lanes {
			cp := *ln
			cp.opaque = append([]byte(nil), ln.opaque...)
			nm.lanes[k] = &cp
		}
		for k, a := range m.applied {
			nm.applied[k] = a
		}
		c.ev.msgs[no] = nm
	}
	return c
}

// dcmd is one ordinary (writer) command.
type dcmd struct {
	kind    string // upsertUser | createUser | mem | event | noop
	hs      uint16 // raft envelope hash slot
	touched []uint16
	user    metadb.User
	mc      *c16Cmd
	evs     []metadb.MessageEventAppend
	bytes   []byte
	desc    string
}

func (d *dcmd) touches(hs uint16) bool {
	for _, h := range d.touched {
		if h == hs {
			return true
		}
	}
	return false
}

// stale reports whether the whole command is a stale no-op on content l (only
// single-hash-slot membership commands can be).
func (d *dcmd) stale(l *logical) bool {
	if d.kind != "mem" || d.mc.kind == "ensure" {
		return false
	}
	probe := l.clone()
	return probe.mem.applyModel(d.mc) == fsm.ApplyResultStaleMeta
}

// applyPart applies the part of the command that belongs to hash slot hs.
func (d *dcmd) applyPart(l *logical, hs uint16) {
	switch d.kind {
	case "upsertUser":
		l.users[d.user.UID] = d.user
	case "createUser":
		if _, ok := l.users[d.user.UID]; !ok {
			l.users[d.user.UID] = d.user
		}
	case "mem":
		if d.mc.kind == "ensure" {
			part := &c16Cmd{kind: "ensure"}
			for _, it := range d.mc.items {
				if it.HashSlot == hs {
					part.items = append(part.items, it)
				}
			}
			l.mem.applyModel(part)
		} else {
			l.mem.applyModel(d.mc)
		}
	case "event":
		for _, ev := range d.evs {
			l.ev.step(ev)
		}
	}
}

type fwdRec struct {
	target multiraft.SlotID
	cmd    multiraft.Command
}

type c39World struct {
	r    *simkit.Run
	S, T *slotNode
	ref  map[uint16]*logical
	// tcopy is what T must hold for A (nil until the snapshot is imported)
	tcopy *logical
	// frozenSA is S's content of A at the switch (S must never change it again)
	frozenSA     *logical
	phase        int  // 0 idle, 1 snapshot exported, 2 delta, 3 fenced, 4 switched
	outboxing    bool // S has its outgoing delta target set
	overlap      bool // snapshot export happens some batches after the outbox started
	tOwnsA       bool
	sOwnsA       bool
	snap         metadb.SlotSnapshot
	snapRef      *logical
	snapshotAt   uint64            // S applied index at the snapshot export
	covered      map[uint64]bool   // outbox rows at or below snapshotAt: inside the snapshot, never delivered
	sCmd         map[uint64]*dcmd  // S log index -> accepted ordinary command
	sBytes       map[uint64][]byte // S log index -> payload that must be in the outbox
	outbox       map[uint64][]byte // expected outbox rows (A, S->T)
	stateUp      bool              // migration state record exists at S
	lastOut      uint64
	fenceIdx     uint64
	fwd          []fwdRec
	firstDel     uint64            // highest source index delivered to T for the first time
	delivered    map[uint64][]byte // source index -> data, applied on T
	acked        map[uint64]bool
	cleaned      bool
	clock        int64
	evCount      int
	sentEv       map[uint16][]metadb.MessageEventAppend
	verCount     map[string]uint64
	accepted     int
	refused      int
	injected     bool
	dupDelivered int
}

func evChannel(hs uint16) string { return fmt.Sprintf("ev%d", hs) }

var c39Users = map[uint16][]string{hsA: {"a0", "a1"}, hsB: {"b0", "b1"}, hsC: {"c0", "c1"}}
var c39Chans = []string{"g", "hh"}

func (w *c39World) tick() int64 { w.clock++; return w.clock }

// genCmd draws one ordinary command for hash slot hs (value 0: an upsert of the first user).
func (w *c39World) genCmd(hs uint16) *dcmd {
	t := w.r.Tape
	users := c39Users[hs]
	d := &dcmd{hs: hs, touched: []uint16{hs}}
	switch t.Weighted([]int{6, 2, 5, 3, 2, 1}) {
	case 0:
		d.kind = "upsertUser"
		d.user = metadb.User{UID: users[t.Intn(len(users))], Token: fmt.Sprintf("tok%d", w.tick()), DeviceFlag: int64(t.Intn(3))}
		d.bytes = fsm.EncodeUpsertUserCommand(d.user)
		d.desc = fmt.Sprintf("upsertUser hs%d %s=%s", hs, d.user.UID, d.user.Token)
	case 1:
		d.kind = "createUser"
		d.user = metadb.User{UID: users[t.Intn(len(users))], Token: fmt.Sprintf("new%d", w.tick())}
		d.bytes = fsm.EncodeCreateUserCommand(d.user)
		d.desc = fmt.Sprintf("createUser hs%d %s=%s", hs, d.user.UID, d.user.Token)
	case 2: // membership upsert / read advance / hide
		d.kind = "mem"
		kind := []string{"upsert", "read", "hide", "tombstone"}[t.Weighted([]int{5, 4, 2, 1})]
		c := &c16Cmd{kind: kind, hs: hs}
		n := 1 + t.Intn(2)
		seen := map[string]bool{}
		for i := 0; i < n; i++ {
			u, ch := users[t.Intn(len(users))], c39Chans[t.Intn(len(c39Chans))]
			if seen[u+ch] {
				continue
			}
			seen[u+ch] = true
			e := metadb.UserChannelMembership{UID: u, ChannelID: ch, ChannelType: 2, UpdatedAt: w.tick()}
			switch kind {
			case "upsert":
				e.JoinSeq, e.ReadSeq, e.DeletedToSeq = uint64(t.Intn(9)), uint64(t.Intn(9)), uint64(t.Intn(9))
				if t.Chance(1, 3) {
					e.ActivatedAt = int64(1 + t.Intn(3))
				}
				e.SourceVersion = w.ver(ch)
			case "tombstone":
				e.Tombstone, e.TombstoneAt, e.SourceVersion = true, w.clock, w.ver(ch)
			case "read":
				e.ReadSeq = uint64(t.Intn(14))
			case "hide":
				e.DeletedToSeq = uint64(t.Intn(14))
			}
			c.entries = append(c.entries, e)
		}
		_ = c.encode()
		d.mc, d.bytes, d.desc = c, c.bytes, c.describe()
	case 3: // message events
		d.kind = "event"
		k := 1 + t.Intn(2)
		for i := 0; i < k; i++ {
			var ev metadb.MessageEventAppend
			if old := w.sentEv[hs]; len(old) > 0 && t.Chance(1, 5) {
				ev = old[t.Intn(len(old))]
			} else {
				w.evCount++
				typ := c40Types[t.Weighted([]int{10, 2, 3, 1, 1, 1, 1})]
				ev = metadb.MessageEventAppend{ChannelID: evChannel(hs), ChannelType: 2, ClientMsgNo: fmt.Sprintf("m%d", t.Intn(2)),
					EventID: fmt.Sprintf("e%d", w.evCount), EventKey: []string{"main", "aux"}[t.Intn(2)], EventType: typ,
					OccurredAt: w.tick(), UpdatedAt: w.clock}
				switch typ {
				case metadb.EventTypeStreamDelta:
					ev.Payload = []byte(fmt.Sprintf(`{"kind":"text","delta":"%c"}`, 'a'+rune(t.Intn(6))))
				case metadb.EventTypeStreamSnapshot:
					ev.Payload = []byte(fmt.Sprintf(`{"kind":"text","text":"S%d"}`, t.Intn(5)))
				case metadb.EventTypeStreamClose:
					ev.Payload = []byte(`{"end_reason":2}`)
				}
				w.sentEv[hs] = append(w.sentEv[hs], ev)
			}
			d.evs = append(d.evs, ev)
		}
		if len(d.evs) == 1 {
			d.bytes = fsm.EncodeAppendMessageEventCommand(d.evs[0])
		} else {
			d.bytes = fsm.EncodeAppendMessageEventsCommand(d.evs)
		}
		d.desc = fmt.Sprintf("event hs%d", hs)
		for _, ev := range d.evs {
			d.desc += fmt.Sprintf(" [%s %s %s/%s %s]", ev.EventID, ev.EventType, ev.ClientMsgNo, ev.EventKey, ev.Payload)
		}
	case 4: // person-directory ensure batch spanning two hash slots of the same slot
		other := hsB
		if hs == hsB {
			other = hsA
		}
		if hs == hsC {
			other = hsC
		}
		d.kind = "mem"
		c := &c16Cmd{kind: "ensure"}
		seen := map[string]bool{}
		for _, h := range []uint16{hs, uint16(other)} {
			us := c39Users[h]
			u := us[t.Intn(len(us))]
			ch := channelid.EncodePersonChannel(u, []string{"pa", "pb"}[t.Intn(2)])
			if seen[u+ch] {
				continue
			}
			seen[u+ch] = true
			e := metadb.UserChannelMembership{UID: u, ChannelID: ch, ChannelType: 1, UpdatedAt: w.tick(),
				JoinSeq: uint64(t.Intn(9)), ReadSeq: uint64(t.Intn(9)), DeletedToSeq: uint64(t.Intn(9)), SourceVersion: w.ver(ch)}
			c.items = append(c.items, fsm.UserChannelMembershipBatchItem{HashSlot: h, Membership: e})
		}
		if err := c.encode(); err != nil {
			w.r.Infra("encode ensure: %v", err)
		}
		d.mc, d.bytes, d.desc = c, c.bytes, c.describe()
		d.touched = nil
		for _, it := range c.items {
			if !d.touches(it.HashSlot) {
				d.touched = append(d.touched, it.HashSlot)
			}
		}
		sort.Slice(d.touched, func(i, j int) bool { return d.touched[i] < d.touched[j] })
		d.hs = d.touched[0]
	case 5:
		d.kind = "noop"
		d.bytes = fsm.EncodeNoopCommand()
		d.desc = fmt.Sprintf("noop hs%d", hs)
	}
	return d
}

func (w *c39World) ver(ch string) uint64 {
	cur := w.verCount[ch]
	switch w.r.Tape.Weighted([]int{4, 3, 2}) {
	case 1:
		cur++
		w.verCount[ch] = cur
	case 2:
		if cur > 0 {
			return uint64(w.r.Tape.Intn(int(cur)))
		}
	}
	return cur
}

// ---- content comparison through the read APIs ----

func (w *c39World) compare(n *slotNode, hs uint16, l *logical, label string) {
	r := w.r
	if r.Failed() || r.InfraErr != "" {
		return
	}
	shard := n.db.ForHashSlot(hs)
	class := "migration-content-mismatch"
	// users
	listed, _, _, err := shard.ListUsersPage(bg, metadb.UserCursor{}, 100)
	if err != nil {
		r.Infra("ListUsersPage: %v", err)
		return
	}
	if len(listed) != len(l.users) {
		r.FailSig(class, label, fmt.Sprintf("%s: %s hash slot %d holds %d users, reference %d (%v)", label, n.name, hs, len(listed), len(l.users), listed), nil)
		return
	}
	for _, u := range listed {
		if want, ok := l.users[u.UID]; !ok || want != u {
			r.FailSig(class, label, fmt.Sprintf("%s: %s hash slot %d user %+v, reference %+v (present %v)", label, n.name, hs, u, want, ok), nil)
			return
		}
	}
	// memberships: every (user, channel) of the universe plus directory listing per user
	perUser := map[string]int{}
	for k := range l.mem.rows {
		perUser[k.uid]++
	}
	for _, u := range c39Users[hs] {
		rows, _, _, err := shard.ListUserChannelMembershipPage(bg, u, metadb.UserChannelMembershipCursor{}, 100)
		if err != nil {
			r.Infra("ListUserChannelMembershipPage: %v", err)
			return
		}
		if len(rows) != perUser[u] {
			r.FailSig(class, label, fmt.Sprintf("%s: %s hash slot %d user %s has %d memberships, reference %d: %s", label, n.name, hs, u, len(rows), perUser[u], c16List(rows)), nil)
			return
		}
		for _, row := range rows {
			want := l.mem.rows[memKey{hs, row.UID, row.ChannelID, row.ChannelType}]
			if want == nil || *want != row {
				r.FailSig(class, label, fmt.Sprintf("%s: %s hash slot %d membership %+v, reference %+v", label, n.name, hs, row, want), nil)
				return
			}
		}
	}
	// message events
	for mi := 0; mi < 2; mi++ {
		no := fmt.Sprintf("m%d", mi)
		states, err := shard.ListMessageEventStates(bg, evChannel(hs), 2, no, 100)
		if err != nil {
			r.Infra("ListMessageEventStates: %v", err)
			return
		}
		var lanes map[string]*c40Lane
		if m := l.ev.msgs[no]; m != nil {
			lanes = m.lanes
		}
		if len(states) != len(lanes) {
			r.FailSig(class, label, fmt.Sprintf("%s: %s hash slot %d message %s has %d event lanes, reference %d", label, n.name, hs, no, len(states), len(lanes)), nil)
			return
		}
		for _, st := range states {
			ln := lanes[st.EventKey]
			if ln == nil {
				r.FailSig(class, label, fmt.Sprintf("%s: %s hash slot %d message %s lane %q not in reference", label, n.name, hs, no, st.EventKey), nil)
				return
			}
			if why := c40StateMatches(ln, st); why != "" {
				r.FailSig(class, label, fmt.Sprintf("%s: %s hash slot %d message %s lane %q: %s", label, n.name, hs, no, st.EventKey, why), nil)
				return
			}
		}
	}
}

func (w *c39World) checkAll(when string) {
	if w.r.Failed() || w.r.InfraErr != "" {
		return
	}
	w.compare(w.S, hsB, w.ref[hsB], "source-unrelated")
	w.compare(w.T, hsC, w.ref[hsC], "target-unrelated")
	// a delta for A must not leak the other hash slots' parts of a multi-slot command
	w.compare(w.T, hsB, emptyLogical, "target-foreign")
	w.compare(w.S, hsC, emptyLogical, "source-foreign")
	if w.phase < 4 {
		// until the switch S holds the authoritative copy (after the fence it is frozen,
		// and so is the reference because nobody else accepts writes for A yet)
		w.compare(w.S, hsA, w.ref[hsA], "source-migrating")
	} else {
		// refused writes leave no trace: S's stale copy never changes after the switch
		w.compare(w.S, hsA, w.frozenSA, "source-after-switch")
	}
	if w.tcopy != nil {
		w.compare(w.T, hsA, w.tcopy, "target-migrating")
	} else {
		w.compare(w.T, hsA, emptyLogical, "target-before-import")
	}
	w.checkOutbox(when)
}

var emptyLogical = newLogical()

func (w *c39World) checkOutbox(when string) {
	r := w.r
	if r.Failed() || r.InfraErr != "" {
		return
	}
	rows, err := w.S.db.ListHashSlotMigrationOutbox(bg, hsA, c39S, c39T, 0, 10000)
	if err != nil {
		r.Infra("ListHashSlotMigrationOutbox: %v", err)
		return
	}
	got := map[uint64][]byte{}
	for _, row := range rows {
		got[row.SourceIndex] = row.Data
	}
	for _, idx := range simkit.SortedIntKeys(w.outbox) {
		data, ok := got[idx]
		if !ok {
			r.FailSig("outbox-row-dropped", "unacked", fmt.Sprintf("%s: source outbox lost the row of log index %d which was never acknowledged or cleaned (rows now %v)", when, idx, simkit.SortedIntKeys(got)),
				map[string]any{"index": idx})
			return
		}
		if !bytes.Equal(data, w.outbox[idx]) {
			r.Fail("outbox-row-corrupt", fmt.Sprintf("%s: outbox row %d holds %d bytes that differ from the committed command", when, idx, len(data)), nil)
			return
		}
	}
	for _, idx := range simkit.SortedIntKeys(got) {
		if _, ok := w.outbox[idx]; !ok {
			r.Fail("outbox-row-unexpected", fmt.Sprintf("%s: source outbox holds a row for log index %d that the reference does not expect (acked %v, cleaned %v)", when, idx, w.acked[idx], w.cleaned), nil)
			return
		}
	}
	st, err := w.S.db.LoadHashSlotMigrationState(bg, hsA)
	if err != nil && !errors.Is(err, metadb.ErrNotFound) {
		r.Infra("LoadHashSlotMigrationState: %v", err)
		return
	}
	if (err == nil) != w.stateUp {
		r.Fail("migration-state-mismatch", fmt.Sprintf("%s: migration state present=%v, reference %v", when, err == nil, w.stateUp), nil)
		return
	}
	if err == nil && (st.FenceIndex != w.fenceIdx || st.LastOutboxIndex != w.lastOut) {
		r.Fail("migration-state-mismatch", fmt.Sprintf("%s: migration state fence=%d lastOutbox=%d, reference fence=%d lastOutbox=%d", when, st.FenceIndex, st.LastOutboxIndex, w.fenceIdx, w.lastOut), nil)
	}
}

// ---- S side ----

type sItem struct {
	d     *dcmd  // ordinary command, or nil
	ctl   string // fence | ack | cleanup
	idx   uint64 // ack index / cleanup through
	tgt   uint64 // target slot named by the ack / cleanup
	bytes []byte
	hs    uint16
}

func (w *c39World) sFenced() bool { return w.stateUp && w.fenceIdx != 0 }

// applyS proposes items as one apply batch on S and folds the outcome into the reference.
func (w *c39World) applyS(tag string, items []sItem) {
	r := w.r
	payloads := make([][]byte, len(items))
	hs := make([]uint16, len(items))
	misrouted := false
	for i, it := range items {
		payloads[i], hs[i] = it.bytes, it.hs
		if it.d != nil {
			r.Logf("%s S cmd %s", tag, it.d.desc)
			for _, h := range it.d.touched {
				if !(h == hsB || h == hsA && w.sOwnsA) {
					misrouted = true
				}
			}
		} else {
			r.Logf("%s S ctl %s idx=%d tgt=%d", tag, it.ctl, it.idx, it.tgt)
		}
	}
	fwdBefore := len(w.fwd)
	res, cmds, err := w.S.apply(hs, payloads)
	if misrouted {
		if err == nil {
			r.FailSig("non-owner-accepted-write", "source", fmt.Sprintf("%s: S does not own hash slot %d any more but applied a batch with an ordinary write for it: %v", tag, hsA, resStrings(res)), nil)
			return
		}
		r.Logf("%s   -> batch refused: %v", tag, err)
		w.refused++
		r.Probe("refused_not_owner_source")
		return
	}
	if err != nil {
		r.Fail("apply-error", fmt.Sprintf("%s: S ApplyBatch failed: %v", tag, err), nil)
		return
	}
	var wantFwd []uint64
	for i, it := range items {
		idx := cmds[i].Index
		got := string(res[i])
		switch {
		case it.d != nil:
			d := it.d
			fenced := d.touches(hsA) && w.sFenced()
			want := fsm.ApplyResultOK
			switch {
			case fenced:
				want = fsm.ApplyResultHashSlotFenced
			case d.stale(w.ref[d.touched[0]]):
				want = fsm.ApplyResultStaleMeta
			}
			if d.kind == "event" && want == fsm.ApplyResultOK {
				if _, derr := fsm.DecodeAppendMessageEventResults(res[i]); derr != nil {
					r.Fail("migration-result-mismatch", fmt.Sprintf("%s: %s returned %q, want an event result", tag, d.desc, got), nil)
					return
				}
			} else if got != want {
				class := "migration-result-mismatch"
				if fenced {
					class = "fenced-write-accepted"
				}
				r.Fail(class, fmt.Sprintf("%s: %s returned %q, reference says %q", tag, d.desc, got, want), nil)
				return
			}
			r.Logf("%s   -> %s", tag, want)
			if want != fsm.ApplyResultOK {
				w.refused++
				if fenced {
					r.Probe("refused_fenced")
				}
				continue
			}
			w.accepted++
			for _, h := range d.touched {
				d.applyPart(w.ref[h], h)
			}
			w.sCmd[idx] = d
			if d.touches(hsA) && w.outboxing && w.phase <= 3 {
				if w.phase == 0 {
					r.Probe("write_outboxed_before_snapshot")
				}
				// S forwards deltas for A: the command must be in the durable outbox
				w.outbox[idx] = d.bytes
				w.sBytes[idx] = d.bytes
				w.stateUp = true
				if idx > w.lastOut {
					w.lastOut = idx
				}
				wantFwd = append(wantFwd, idx)
				r.Probe("write_outboxed")
			}
		case it.ctl == "fence":
			if got != fsm.ApplyResultOK {
				r.Fail("migration-result-mismatch", fmt.Sprintf("%s: fence returned %q", tag, got), nil)
				return
			}
			if !w.sFenced() {
				w.stateUp = true
				w.fenceIdx = idx
				if idx > w.lastOut {
					w.lastOut = idx
				}
				w.outbox[idx] = it.bytes
				w.sBytes[idx] = it.bytes
				wantFwd = append(wantFwd, idx)
				if w.phase == 2 {
					w.phase = 3
				}
				r.Probe("fence_entered")
			} else {
				r.Probe("fence_repeated")
			}
		case it.ctl == "ack":
			if got != fsm.ApplyResultOK {
				r.Fail("migration-result-mismatch", fmt.Sprintf("%s: ack returned %q", tag, got), nil)
				return
			}
			if w.stateUp && it.tgt == c39T && it.idx <= w.lastOut {
				delete(w.outbox, it.idx)
				w.acked[it.idx] = true
			} else {
				r.Probe("ack_ignored")
			}
		case it.ctl == "cleanup":
			if got != fsm.ApplyResultOK {
				r.Fail("migration-result-mismatch", fmt.Sprintf("%s: cleanup returned %q", tag, got), nil)
				return
			}
			if it.tgt == c39T {
				for k := range w.outbox {
					if k <= it.idx {
						delete(w.outbox, k)
					}
				}
				if w.stateUp && w.lastOut != 0 && w.lastOut <= it.idx {
					w.stateUp, w.fenceIdx, w.lastOut = false, 0, 0
					w.cleaned = true
					r.Probe("migration_state_cleaned")
				}
			} else {
				r.Probe("cleanup_ignored")
			}
		}
	}
	// every outboxed command is handed to the forwarder once, in log order
	gotFwd := w.fwd[fwdBefore:]
	if len(gotFwd) != len(wantFwd) {
		r.Fail("delta-forward-mismatch", fmt.Sprintf("%s: S forwarded %d deltas, expected %d (%v)", tag, len(gotFwd), len(wantFwd), wantFwd), nil)
		return
	}
	for i, f := range gotFwd {
		if f.target != c39T || f.cmd.Index != wantFwd[i] || f.cmd.HashSlot != hsA || !bytes.Equal(f.cmd.Data, w.sBytes[wantFwd[i]]) {
			r.Fail("delta-forward-mismatch", fmt.Sprintf("%s: forward %d is target=%d index=%d hashSlot=%d, expected target=%d index=%d hashSlot=%d with the committed payload", tag, i, f.target, f.cmd.Index, f.cmd.HashSlot, c39T, wantFwd[i], hsA), nil)
			return
		}
	}
}

func (w *c39World) ordinaryItem(hs uint16) sItem {
	d := w.genCmd(hs)
	return sItem{d: d, bytes: d.bytes, hs: d.hs}
}

// ---- T side ----

type tItem struct {
	d     *dcmd
	delta uint64 // source index of an apply-delta proposal (0 = ordinary command)
	first bool
	bytes []byte
	hs    uint16
}

func (w *c39World) deltaItem(idx uint64, data []byte, first bool) tItem {
	return tItem{delta: idx, first: first, hs: hsA, bytes: fsm.EncodeApplyDeltaCommand(c39S, idx, hsA, data)}
}

func (w *c39World) applyT(tag string, items []tItem) {
	r := w.r
	if len(items) == 0 {
		return
	}
	payloads := make([][]byte, len(items))
	hs := make([]uint16, len(items))
	misrouted := false
	for i, it := range items {
		payloads[i], hs[i] = it.bytes, it.hs
		if it.d != nil {
			r.Logf("%s T cmd %s", tag, it.d.desc)
			for _, h := range it.d.touched {
				if !(h == hsC || h == hsA && w.tOwnsA) {
					misrouted = true
				}
			}
		} else {
			r.Logf("%s T delta src-index=%d first=%v", tag, it.delta, it.first)
		}
	}
	res, _, err := w.T.apply(hs, payloads)
	if misrouted {
		if err == nil {
			r.FailSig("non-owner-accepted-write", "target", fmt.Sprintf("%s: T does not own hash slot %d yet but applied a batch with an ordinary write for it: %v", tag, hsA, resStrings(res)), nil)
			return
		}
		r.Logf("%s   -> batch refused: %v", tag, err)
		w.refused++
		r.Probe("refused_not_owner_target")
		return
	}
	if err != nil {
		r.Fail("apply-error", fmt.Sprintf("%s: T ApplyBatch failed: %v", tag, err), nil)
		return
	}
	for i, it := range items {
		got := string(res[i])
		if it.d == nil {
			if got != fsm.ApplyResultOK {
				r.Fail("migration-result-mismatch", fmt.Sprintf("%s: apply-delta of source index %d returned %q", tag, it.delta, got), nil)
				return
			}
			if _, seen := w.delivered[it.delta]; !seen {
				// first application: T's copy advances by exactly this command
				if d := w.sCmd[it.delta]; d != nil {
					d.applyPart(w.tcopy, hsA)
				}
				w.delivered[it.delta] = w.sBytes[it.delta]
				if it.delta > w.firstDel {
					w.firstDel = it.delta
				}
				r.Probe("delta_applied_first_time")
			} else {
				w.dupDelivered++
				r.Fault("delta_redelivered")
			}
			continue
		}
		d := it.d
		tgt := w.ref[d.touched[0]]
		want := fsm.ApplyResultOK
		if d.stale(tgt) {
			want = fsm.ApplyResultStaleMeta
		}
		if d.kind == "event" && want == fsm.ApplyResultOK {
			if _, derr := fsm.DecodeAppendMessageEventResults(res[i]); derr != nil {
				r.Fail("migration-result-mismatch", fmt.Sprintf("%s: %s returned %q, want an event result", tag, d.desc, got), nil)
				return
			}
		} else if got != want {
			r.Fail("migration-result-mismatch", fmt.Sprintf("%s: %s returned %q, reference says %q", tag, d.desc, got, want), nil)
			return
		}
		r.Logf("%s   -> %s", tag, want)
		if want != fsm.ApplyResultOK {
			w.refused++
			continue
		}
		w.accepted++
		for _, h := range d.touched {
			d.applyPart(w.ref[h], h)
		}
		if d.touches(hsA) {
			r.Probe("write_accepted_by_new_owner")
		}
	}
}

// ---- migration driver ----

// pendingRows reads the durable outbox of S after the last first-delivered index.
func (w *c39World) pendingRows(limit int) []metadb.HashSlotMigrationOutboxRow {
	rows, err := w.S.db.ListHashSlotMigrationOutbox(bg, hsA, c39S, c39T, w.firstDel, limit)
	if err != nil {
		w.r.Infra("ListHashSlotMigrationOutbox: %v", err)
		return nil
	}
	return rows
}

func (w *c39World) dupItems(max int) []tItem {
	t := w.r.Tape
	var out []tItem
	keys := simkit.SortedIntKeys(w.delivered)
	for i := 0; i < max && len(keys) > 0; i++ {
		k := keys[t.Intn(len(keys))]
		out = append(out, w.deltaItem(k, w.delivered[k], false))
	}
	return out
}

// deliver sends the next outbox rows (in order) to T, optionally mixed with re-deliveries.
func (w *c39World) deliver(tag string, withDups bool) bool {
	t := w.r.Tape
	rows := w.pendingRows(1 + t.Intn(3))
	if len(rows) == 0 {
		return false
	}
	var items []tItem
	for _, row := range rows {
		if want, ok := w.sBytes[row.SourceIndex]; !ok || !bytes.Equal(want, row.Data) {
			w.r.Fail("outbox-row-corrupt", fmt.Sprintf("%s: outbox row %d does not hold the committed command", tag, row.SourceIndex), nil)
			return true
		}
		if withDups && t.Chance(1, 3) {
			items = append(items, w.dupItems(1)...)
		}
		items = append(items, w.deltaItem(row.SourceIndex, row.Data, true))
		if withDups && t.Chance(1, 4) {
			// the same delta twice in one batch
			items = append(items, w.deltaItem(row.SourceIndex, row.Data, false))
			w.injected = true
		}
	}
	if withDups && len(rows) > 1 && t.Chance(1, 3) {
		// an earlier delta of this very batch once more, after its successors
		row := rows[t.Intn(len(rows)-1)]
		items = append(items, w.deltaItem(row.SourceIndex, row.Data, false))
		w.injected = true
		w.r.Probe("delta_repeated_after_successor_in_batch")
	}
	if withDups && t.Chance(1, 3) {
		// T's own traffic shares the batch
		d := w.genCmd(hsC)
		items = append(items, tItem{d: d, bytes: d.bytes, hs: d.hs})
	}
	w.applyT(tag, items)
	return true
}

// unackedApplied lists source indexes T holds (applied as a delta, or contained in
// the imported snapshot) that S has not been told about.
func (w *c39World) unackedApplied() []uint64 {
	seen := map[uint64]bool{}
	for k := range w.delivered {
		if !w.acked[k] {
			seen[k] = true
		}
	}
	for k := range w.covered {
		if !w.acked[k] {
			seen[k] = true
		}
	}
	return simkit.SortedIntKeys(seen)
}

func ackItem(idx, tgt uint64) sItem {
	return sItem{ctl: "ack", idx: idx, tgt: tgt, hs: hsA, bytes: fsm.EncodeAckHashSlotMigrationOutboxCommand(hsA, c39S, multiraft.SlotID(tgt), idx)}
}

func cleanupItem(through, tgt uint64) sItem {
	return sItem{ctl: "cleanup", idx: through, tgt: tgt, hs: hsA, bytes: fsm.EncodeCleanupHashSlotMigrationOutboxCommand(hsA, c39S, multiraft.SlotID(tgt), through)}
}

func (w *c39World) fenceItem() sItem {
	b := fsm.EncodeEnterFenceCommand(hsA)
	if w.r.Tape.Chance(1, 2) {
		b = fsm.EncodeEnterFenceCommandForTarget(hsA, c39T)
	}
	return sItem{ctl: "fence", hs: hsA, bytes: b}
}

// progress performs the next step of the migration; quiet = no adversarial extras.
// It returns false when the migration is complete.
func (w *c39World) progress(tag string, quiet bool) bool {
	r, t := w.r, w.r.Tape
	switch w.phase {
	case 0:
		// start: S begins to outbox writes for A; the snapshot is taken at the same log
		// position, or (overlap runs) a few batches later, so that the outbox also holds
		// commands that are already inside the snapshot
		if !w.outboxing {
			w.S.setOutgoing(map[uint16]multiraft.SlotID{hsA: c39T})
			w.outboxing = true
			if w.overlap {
				r.Logf("%s DRIVER start: outgoing target set, snapshot export deferred", tag)
				return true
			}
		}
		snap, err := w.S.raw.(interface {
			ExportHashSlotSnapshot(context.Context, uint16) (metadb.SlotSnapshot, error)
		}).ExportHashSlotSnapshot(bg, hsA)
		if err != nil {
			r.Infra("ExportHashSlotSnapshot: %v", err)
			return true
		}
		w.snap, w.snapRef = snap, w.ref[hsA].clone()
		// the driver remembers the source applied index of the export (the sim is the
		// source log, so it is exact): deltas at or below it are inside the snapshot
		w.snapshotAt = w.S.nextIndex - 1
		w.phase = 1
		r.Logf("%s DRIVER start: outgoing target set, snapshot of %d bytes exported at S index %d", tag, len(snap.Data), w.S.nextIndex-1)
	case 1:
		err := w.T.raw.(interface {
			ImportHashSlotSnapshot(context.Context, metadb.SlotSnapshot) error
		}).ImportHashSlotSnapshot(bg, w.snap)
		if err != nil {
			r.Fail("snapshot-import-error", fmt.Sprintf("%s: ImportHashSlotSnapshot: %v", tag, err), nil)
			return true
		}
		w.tcopy = w.snapRef
		w.T.setIncoming([]uint16{hsA})
		// Outbox rows at or below the export index are already contained in the snapshot.
		// Applying them again on top of it is not a replay the state machine can detect
		// (the target has no applied-delta record for them) and is not idempotent over the
		// final row (e.g. hide on a tombstoned row is a no-op on S, but not on the revived
		// row in the snapshot), so the driver never delivers them: it starts after the
		// export index and only acknowledges them.
		if w.snapshotAt > w.firstDel {
			w.firstDel = w.snapshotAt
		}
		for _, idx := range simkit.SortedIntKeys(w.outbox) {
			if idx <= w.snapshotAt {
				w.covered[idx] = true
				r.Probe("delta_covered_by_snapshot")
			}
		}
		w.phase = 2
		r.Logf("%s DRIVER snapshot imported into T", tag)
	case 2:
		if w.deliver(tag+" deliver", !quiet) {
			return true
		}
		if ua := w.unackedApplied(); len(ua) > 0 && (quiet || !t.Chance(1, 3)) {
			w.applyS(tag+" ack", []sItem{ackItem(ua[0], c39T)})
			return true
		}
		if !quiet && t.Chance(1, 2) {
			r.Logf("%s DRIVER idle (delta phase continues)", tag)
			return true
		}
		w.applyS(tag+" fence", []sItem{w.fenceItem()})
	case 3:
		if w.deliver(tag+" deliver", !quiet) {
			return true
		}
		// everything through the fence is on T: cut over
		if w.firstDel < w.fenceIdx {
			r.Fail("migration-stuck", fmt.Sprintf("%s: the outbox is drained at source index %d but the fence is at %d", tag, w.firstDel, w.fenceIdx), nil)
			return true
		}
		w.compare(w.T, hsA, w.ref[hsA], "at-switch")
		if r.Failed() {
			return true
		}
		r.Probe("switch_checked")
		if len(w.delivered) >= 3 {
			r.Probe("switch_with_3plus_deltas")
		}
		w.tcopy = w.ref[hsA]
		w.frozenSA = w.ref[hsA].clone()
		first := t.Intn(2)
		for k := 0; k < 2; k++ {
			if (k == 0) == (first == 0) {
				w.T.setOwned([]uint16{hsA, hsC})
				w.T.setIncoming(nil)
				w.tOwnsA = true
			} else {
				w.S.setOwned([]uint16{hsB})
				w.S.setOutgoing(nil)
				w.sOwnsA = false
			}
		}
		w.phase = 4
		r.Logf("%s DRIVER switched ownership of hash slot %d to T", tag, hsA)
	case 4:
		if ua := w.unackedApplied(); len(ua) > 0 && w.stateUp && !t.Chance(1, 3) {
			w.applyS(tag+" ack", []sItem{ackItem(ua[0], c39T)})
			return true
		}
		if w.stateUp {
			w.applyS(tag+" cleanup", []sItem{cleanupItem(w.lastOut, c39T)})
			return true
		}
		return false
	}
	return true
}

func runC39(r *simkit.Run) {
	t := r.Tape
	disk := drawDisk(r)
	faults := !t.Chance(1, 4)
	warm := 2 + t.Intn(5)
	steps := 25 + t.Intn(40)
	overlap := t.Chance(1, 3)
	r.Config["faults"], r.Config["steps"], r.Config["warmup"], r.Config["overlap"] = faults, steps, warm, overlap
	w := &c39World{r: r, ref: map[uint16]*logical{hsA: newLogical(), hsB: newLogical(), hsC: newLogical()},
		overlap: overlap, sOwnsA: true, covered: map[uint64]bool{}, sCmd: map[uint64]*dcmd{}, sBytes: map[uint64][]byte{}, outbox: map[uint64][]byte{},
		delivered: map[uint64][]byte{}, acked: map[uint64]bool{}, sentEv: map[uint16][]metadb.MessageEventAppend{}, verCount: map[string]uint64{}}
	w.S = newSlotNode(r, "S", c39S, []uint16{hsA, hsB}, disk)
	if r.InfraErr != "" {
		return
	}
	defer func() { w.S.close() }()
	w.T = newSlotNode(r, "T", c39T, []uint16{hsC}, disk)
	if r.InfraErr != "" {
		return
	}
	defer func() { w.T.close() }()
	dropFwd := false
	w.S.setForwarder(func(_ context.Context, target multiraft.SlotID, cmd multiraft.Command) error {
		cp := cmd
		cp.Data = append([]byte(nil), cmd.Data...)
		w.fwd = append(w.fwd, fwdRec{target: target, cmd: cp})
		if dropFwd {
			return errors.New("sim: forward dropped")
		}
		return nil
	})
	dropFwd = faults && t.Chance(1, 3)
	r.Config["forward_errors"] = dropFwd

	sBatch := func(tag string) {
		k := 1 + t.Weighted([]int{4, 3, 1})
		var items []sItem
		for i := 0; i < k; i++ {
			hs := uint16(hsA)
			if t.Chance(1, 3) {
				hs = hsB
			}
			items = append(items, w.ordinaryItem(hs))
		}
		// the driver's commands may share a batch with writers
		if w.phase == 2 && t.Chance(1, 8) {
			at := t.Intn(len(items) + 1)
			items = append(items[:at], append([]sItem{w.fenceItem()}, items[at:]...)...)
		}
		if ua := w.unackedApplied(); len(ua) > 0 && w.phase >= 2 && t.Chance(1, 4) {
			items = append(items, ackItem(ua[t.Intn(len(ua))], c39T))
		}
		w.applyS(tag, items)
	}
	tBatch := func(tag string) {
		k := 1 + t.Weighted([]int{4, 2})
		var items []tItem
		for i := 0; i < k; i++ {
			hs := uint16(hsC)
			if t.Chance(1, 2) {
				// writers keep trying A on T: refused before the switch, accepted after it
				hs = hsA
			}
			if hs == hsA && !w.tOwnsA && len(items) > 0 {
				continue // keep a misrouted write in its own batch unless it is the first command
			}
			d := w.genCmd(hs)
			items = append(items, tItem{d: d, bytes: d.bytes, hs: d.hs})
			if hs == hsA && !w.tOwnsA {
				break
			}
		}
		w.applyT(tag, items)
	}

	for i := 0; i < warm && !r.Failed() && r.InfraErr == ""; i++ {
		sBatch(fmt.Sprintf("warm %d", i))
	}
	w.checkAll("after warmup")
	for step := 0; step < steps && !r.Failed() && r.InfraErr == ""; step++ {
		tag := fmt.Sprintf("step %d", step)
		weights := []int{6, 3, 5, 0, 0, 0}
		if w.phase >= 2 && len(w.delivered) > 0 {
			weights[3] = 2
		}
		if w.phase >= 2 {
			weights[4] = 1
		}
		if faults {
			weights[5] = 2
		}
		switch t.Weighted(weights) {
		case 0:
			if w.sOwnsA || t.Chance(1, 2) {
				sBatch(tag)
			} else {
				// after the switch S only serves B (plus the occasional misrouted A write above)
				w.applyS(tag, []sItem{w.ordinaryItem(hsB)})
			}
		case 1:
			tBatch(tag)
		case 2:
			w.progress(tag, false)
		case 3: // late / repeated deltas, any order
			items := w.dupItems(1 + t.Intn(3))
			w.injected = true
			w.applyT(tag+" redeliver", items)
		case 4: // stale or bogus driver commands: must not drop anything that is still needed
			w.injected = true
			switch t.Intn(4) {
			case 0:
				if keys := simkit.SortedIntKeys(w.acked); len(keys) > 0 {
					w.applyS(tag+" ack-again", []sItem{ackItem(keys[t.Intn(len(keys))], c39T)})
				}
			case 1:
				idx := w.lastOut
				if idx == 0 {
					idx = 1
				}
				w.applyS(tag+" ack-wrong-target", []sItem{ackItem(idx, c39T+1)})
			case 2:
				w.applyS(tag+" ack-beyond", []sItem{ackItem(w.S.nextIndex+5, c39T)})
			case 3:
				w.applyS(tag+" cleanup-wrong-target", []sItem{cleanupItem(w.S.nextIndex+5, c39T+1)})
			}
		case 5:
			w.injected = true
			if t.Chance(1, 2) {
				w.S.restart(t.Intn(4))
			} else {
				w.T.restart(t.Intn(4))
			}
		}
		w.checkAll("after " + tag)
		r.State("c39", w.phase, w.stateUp, w.sFenced(), len(w.outbox), len(w.delivered) > 2, len(w.acked) > 0, w.tOwnsA, w.sOwnsA, w.S.restarts > 0, w.T.restarts > 0, w.outboxing)
	}
	// drain: finish the migration without further writers
	for i := 0; i < 400 && !r.Failed() && r.InfraErr == ""; i++ {
		if !w.progress(fmt.Sprintf("drain %d", i), true) {
			break
		}
		if faults && t.Chance(1, 10) {
			if t.Chance(1, 2) {
				w.S.restart(t.Intn(4))
			} else {
				w.T.restart(t.Intn(4))
			}
		}
		w.checkAll(fmt.Sprintf("after drain %d", i))
	}
	if !r.Failed() && r.InfraErr == "" {
		if w.phase != 4 || w.stateUp {
			r.Fail("migration-stuck", fmt.Sprintf("migration did not finish in the drain: phase %d state present %v", w.phase, w.stateUp), nil)
		}
	}
	if !r.Failed() && r.InfraErr == "" {
		// after the switch: every delta once more (late replays), then the final comparison
		items := w.dupItems(4)
		if len(items) > 0 {
			w.applyT("final redeliver", items)
		}
		if faults {
			w.T.restart(t.Intn(4))
		}
		w.checkAll("final")
		// the target's exported content for the hash slot, imported into a fresh slot, equals the reference
		if !r.Failed() && r.InfraErr == "" {
			snap, err := w.T.raw.(interface {
				ExportHashSlotSnapshot(context.Context, uint16) (metadb.SlotSnapshot, error)
			}).ExportHashSlotSnapshot(bg, hsA)
			if err != nil {
				r.Infra("final export: %v", err)
				return
			}
			u := newSlotNode(r, "U", 33, []uint16{9}, disk)
			if r.InfraErr != "" {
				return
			}
			defer func() { u.close() }()
			if err := u.raw.(interface {
				ImportHashSlotSnapshot(context.Context, metadb.SlotSnapshot) error
			}).ImportHashSlotSnapshot(bg, snap); err != nil {
				r.Fail("snapshot-import-error", fmt.Sprintf("final import: %v", err), nil)
				return
			}
			w.compare(u, hsA, w.ref[hsA], "exported-target-content")
			r.Probe("final_export_checked")
		}
	}
	r.Nontrivial = w.accepted >= 6 && w.phase == 4 && (w.injected || w.S.restarts+w.T.restarts > 0) && len(w.delivered) > 0
}
