// Package metasimb is a deterministic-simulation engine (history style) for the
// slot metadata state machine: a real pkg/slot/fsm state machine over a real
// pkg/db/meta database (Pebble on a crashable in-memory file system). The
// simulator is the slot log (it assigns indexes, batches, duplicates and
// replays commands) and, for C39, the network and the migration driver between
// two slot state machines.
package metasimb

import (
	"context"
	"fmt"
	"math/rand/v2"
	"testing"

	"github.com/WuKongIM/WuKongIM/internal/verifsim/simkit"
	"github.com/WuKongIM/WuKongIM/pkg/db/internal/engine"
	metadb "github.com/WuKongIM/WuKongIM/pkg/db/meta"
	"github.com/WuKongIM/WuKongIM/pkg/slot/fsm"
	"github.com/WuKongIM/WuKongIM/pkg/slot/multiraft"
	"github.com/cockroachdb/pebble/v2"
	"github.com/cockroachdb/pebble/v2/vfs"
)

func TestVerifSim(t *testing.T) {
	simkit.Main(t, simkit.Engine{
		Name: "metasimb",
		Props: map[string]simkit.PropFunc{
			"C16": func(t *testing.T, r *simkit.Run) { inBubble(t, r, runC16) },
			"C39": func(t *testing.T, r *simkit.Run) { inBubble(t, r, runC39) },
			"C40": func(t *testing.T, r *simkit.Run) { inBubble(t, r, runC40) },
		},
		Real: []string{
			"pkg/slot/fsm state machine (TLV command codec, ApplyBatch, hash-slot ownership, migration outbox/fence/apply-delta, snapshot export/import)",
			"pkg/db/meta (membership tables and activation index, CMD membership table, hash-slot migration table, message event reducer, write batch, commit coordinator)",
			"Pebble v2 on vfs.NewCrashableMem (WAL, flushes with small memtables, crash clones)",
		},
		Stub: []string{
			"slot Raft log (the simulator assigns indexes, batches, duplicates and replays committed commands)",
			"hash-slot migration driver and controller table updates (UpdateOwnedHashSlots / UpdateOutgoingDeltaTargets / UpdateIncomingDeltaHashSlots issued by the simulator)",
			"delta forwarding network between source and target slot (late, duplicated, re-delivered after restart)",
			"writers / competing leaders producing commands",
		},
		Rule: "One run = one tape-driven history of committed slot commands applied through ApplyBatch to real state machines, " +
			"with restarts (clean reopen or crash clone of the file system) at tape-chosen points, compared step by step with a reference model written from the property statement. " +
			"Non-trivial = at least 6 commands were applied AND (a restart happened OR a duplicate/replayed/stale command was injected).",
		Assumptions: []string{
			"testing/synctest fake clock (only used so the 500us commit flush window costs no wall time)",
			"vfs.CrashableMem crash-clone semantics stand in for a disk: synced data survives, unsynced data survives with the drawn probability",
			"committed slot log entries are applied in index order, one ApplyBatch at a time (as multiraft does)",
		},
	})
}

// inBubble runs one history inside a synctest bubble so that the commit
// coordinator's flush-window timer is virtual.
func inBubble(t *testing.T, r *simkit.Run, f func(r *simkit.Run)) {
	simkit.Bubble(t, r, func() { f(r) })
}

var bg = context.Background()

// quietLogger drops Pebble's informational log; a fatal storage error is a panic
// (recorded by the kernel) instead of os.Exit.
type quietLogger struct{}

func (quietLogger) Infof(string, ...interface{})  {}
func (quietLogger) Errorf(string, ...interface{}) {}
func (quietLogger) Fatalf(format string, args ...interface{}) {
	panic("pebble fatal: " + fmt.Sprintf(format, args...))
}

// diskCfg is the per-run Pebble tuning drawn from the tape.
type diskCfg struct {
	memTable uint64
	cache    int64
}

func drawDisk(r *simkit.Run) diskCfg {
	sizes := []uint64{256 << 10, 64 << 10, 16 << 10, 1 << 20}
	d := diskCfg{memTable: sizes[r.Tape.Intn(len(sizes))], cache: 1 << 20}
	r.Config["memtable"] = d.memTable
	return d
}

// slotNode is one real slot state machine over one real metadata DB on a
// simulated disk. The simulator owns its log.
type slotNode struct {
	r    *simkit.Run
	name string
	slot uint64
	disk diskCfg
	fs   *vfs.MemFS
	db   *metadb.DB
	sm   multiraft.BatchStateMachine
	raw  multiraft.StateMachine

	// runtime configuration re-issued after every restart (control plane view)
	owned     []uint16
	outgoing  map[uint16]multiraft.SlotID
	incoming  []uint16
	forwarder func(context.Context, multiraft.SlotID, multiraft.Command) error

	nextIndex uint64
	restarts  int
	// the simulated raft log of this slot (entries above the durable applied index
	// are re-applied after a restart, as multiraft does) and the original results
	log     []multiraft.Command
	results [][]byte
	durable uint64
}

type ownedUpdater interface{ UpdateOwnedHashSlots([]uint16) }
type outgoingUpdater interface {
	UpdateOutgoingDeltaTargets(map[uint16]multiraft.SlotID)
}
type incomingUpdater interface{ UpdateIncomingDeltaHashSlots([]uint16) }
type forwarderSetter interface {
	SetDeltaForwarder(func(context.Context, multiraft.SlotID, multiraft.Command) error)
}
type durableApplied interface {
	DurableAppliedIndex(context.Context) (uint64, error)
}

func newSlotNode(r *simkit.Run, name string, slot uint64, owned []uint16, disk diskCfg) *slotNode {
	n := &slotNode{r: r, name: name, slot: slot, disk: disk, fs: vfs.NewCrashableMem(),
		owned: append([]uint16(nil), owned...), nextIndex: 1}
	n.open()
	return n
}

func (n *slotNode) open() {
	fs := n.fs
	disk := n.disk
	engine.VerifPebbleHook = func(o *pebble.Options) {
		o.FS = fs
		o.MemTableSize = disk.memTable
		o.CacheSize = disk.cache
		o.Logger = quietLogger{}
	}
	db, err := metadb.Open("/" + n.name)
	engine.VerifPebbleHook = nil
	if err != nil {
		n.r.Infra("open meta db %s: %v", n.name, err)
		return
	}
	n.db = db
	n.makeFSM()
}

func (n *slotNode) makeFSM() {
	owned := n.owned
	if len(owned) == 0 {
		// the constructor refuses an empty set; a slot that currently owns nothing
		// is built with a placeholder and emptied right away
		owned = []uint16{65535}
	}
	sm, err := fsm.NewStateMachineWithHashSlots(n.db, n.slot, owned)
	if err != nil {
		n.r.Infra("new state machine %s: %v", n.name, err)
		return
	}
	n.raw = sm
	bsm, ok := sm.(multiraft.BatchStateMachine)
	if !ok {
		n.r.Infra("state machine %T is not a BatchStateMachine", sm)
		return
	}
	n.sm = bsm
	if len(n.owned) == 0 {
		sm.(ownedUpdater).UpdateOwnedHashSlots(nil)
	}
	if n.outgoing != nil {
		sm.(outgoingUpdater).UpdateOutgoingDeltaTargets(n.outgoing)
	}
	if n.incoming != nil {
		sm.(incomingUpdater).UpdateIncomingDeltaHashSlots(n.incoming)
	}
	if n.forwarder != nil {
		sm.(forwarderSetter).SetDeltaForwarder(n.forwarder)
	}
}

func (n *slotNode) setOwned(hs []uint16) {
	n.owned = append([]uint16(nil), hs...)
	n.raw.(ownedUpdater).UpdateOwnedHashSlots(n.owned)
}

func (n *slotNode) setOutgoing(m map[uint16]multiraft.SlotID) {
	n.outgoing = m
	if m == nil {
		m = map[uint16]multiraft.SlotID{}
	}
	n.raw.(outgoingUpdater).UpdateOutgoingDeltaTargets(m)
}

func (n *slotNode) setIncoming(hs []uint16) {
	n.incoming = hs
	n.raw.(incomingUpdater).UpdateIncomingDeltaHashSlots(hs)
}

func (n *slotNode) setForwarder(f func(context.Context, multiraft.SlotID, multiraft.Command) error) {
	n.forwarder = f
	n.raw.(forwarderSetter).SetDeltaForwarder(f)
}

func (n *slotNode) close() {
	if n.db != nil {
		if err := n.db.Close(); err != nil {
			n.r.Infra("close %s: %v", n.name, err)
		}
		n.db = nil
	}
}

// restart kinds: 0 clean close+reopen, 1 process kill (everything written
// survives), 2 power loss (only synced data), 3 torn (a drawn share of the
// unsynced data survives).
func (n *slotNode) restart(kind int) {
	n.restarts++
	switch kind {
	case 0:
		n.r.Logf("%s RESTART clean", n.name)
		n.r.Fault("reopen")
		n.close()
	default:
		p := 100
		label := "kill"
		if kind == 2 {
			p, label = 0, "powerloss"
		} else if kind == 3 {
			p, label = 10+n.r.Tape.Intn(81), "torn"
		}
		seed := uint64(n.r.Tape.Intn(1 << 30))
		clone := n.fs.CrashClone(vfs.CrashCloneCfg{UnsyncedDataPercent: p, RNG: rand.New(rand.NewPCG(seed, 0x5eed))})
		n.r.Logf("%s RESTART crash %s p=%d", n.name, label, p)
		n.r.Fault("crash_" + label)
		// the dead incarnation is shut down against the abandoned file system
		n.close()
		n.fs = clone
	}
	n.open()
	if n.r.InfraErr != "" {
		return
	}
	// what multiraft does after a restart: ask the state machine for its durable
	// applied index; entries above it would be re-applied from the raft log
	idx, err := n.raw.(durableApplied).DurableAppliedIndex(bg)
	if err != nil {
		n.r.Infra("%s DurableAppliedIndex: %v", n.name, err)
		return
	}
	if idx != n.durable {
		// every committed ApplyBatch is one synced Pebble batch that carries the applied
		// index, so a restart at a step boundary must find exactly the index that
		// was durable before it
		n.r.Fail("applied-index-lost", fmt.Sprintf("%s: durable applied index %d after restart, %d before it", n.name, idx, n.durable),
			map[string]any{"after": idx, "before": n.durable})
		return
	}
	// trailing entries whose apply committed nothing (stale no-ops) are above the
	// durable index; the raft log replays them
	if last := n.nextIndex - 1; idx < last {
		n.r.Probe("log_suffix_reapplied")
		suffix := n.log[idx:last]
		res, err := n.sm.ApplyBatch(bg, suffix)
		if err != nil {
			n.r.Fail("reapply-error", fmt.Sprintf("%s: re-applying log entries %d..%d after restart failed: %v", n.name, idx+1, last, err), nil)
			return
		}
		for i := range suffix {
			if string(res[i]) != string(n.results[int(idx)+i]) {
				n.r.Fail("reapply-differs", fmt.Sprintf("%s: log entry %d returned %q after restart, %q originally", n.name, suffix[i].Index, res[i], n.results[int(idx)+i]), nil)
				return
			}
		}
		n.readDurable()
	}
}

func (n *slotNode) readDurable() {
	idx, err := n.raw.(durableApplied).DurableAppliedIndex(bg)
	if err != nil {
		n.r.Infra("%s DurableAppliedIndex: %v", n.name, err)
		return
	}
	if idx < n.durable {
		n.r.Fail("applied-index-lost", fmt.Sprintf("%s: durable applied index went from %d to %d", n.name, n.durable, idx), nil)
	}
	n.durable = idx
}

// drawRestart maybe restarts the node; returns true if it did.
func (n *slotNode) drawRestart(num, den int) bool {
	if !n.r.Tape.Chance(num, den) {
		return false
	}
	n.restart(n.r.Tape.Intn(4))
	return true
}

// apply proposes the payloads as the next log entries of this slot and applies
// them in one ApplyBatch, as the raft apply loop would.
func (n *slotNode) apply(hashSlots []uint16, payloads [][]byte) ([][]byte, []multiraft.Command, error) {
	cmds := make([]multiraft.Command, len(payloads))
	for i, p := range payloads {
		cmds[i] = multiraft.Command{SlotID: multiraft.SlotID(n.slot), HashSlot: hashSlots[i], Index: n.nextIndex + uint64(i), Term: 1, Data: p}
	}
	res, err := n.sm.ApplyBatch(bg, cmds)
	if err == nil {
		n.nextIndex += uint64(len(payloads))
		n.r.Steps += len(payloads)
		for i := range cmds {
			n.log = append(n.log, cmds[i])
			n.results = append(n.results, append([]byte(nil), res[i]...))
		}
		n.readDurable()
	}
	return res, cmds, err
}

func resStrings(res [][]byte) []string {
	out := make([]string, len(res))
	for i, b := range res {
		if len(b) > 24 {
			out[i] = fmt.Sprintf("<%d bytes>", len(b))
		} else {
			out[i] = string(b)
		}
	}
	return out
}
