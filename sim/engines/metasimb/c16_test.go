package metasimb

import (
	"errors"
	"fmt"
	"sort"

	"github.com/WuKongIM/WuKongIM/internal/verifsim/simkit"
	metadb "github.com/WuKongIM/WuKongIM/pkg/db/meta"
	"github.com/WuKongIM/WuKongIM/pkg/protocol/channelid"
	"github.com/WuKongIM/WuKongIM/pkg/slot/fsm"
)

// ---- C16: per-user conversation cursors are monotonic ----
//
// Reference model, from the statement and the command semantics:
//   * a membership row belongs to (user, channel); a row is born by the first
//     upsert / ensure and by the re-creation of a tombstoned row under a
//     strictly newer source version ("incarnation boundary");
//   * inside one incarnation the read cursor and the delete-to boundary only
//     grow: read advance and hide raise them, nothing lowers them;
//   * subscriber-derived writes (upsert, tombstone, ensure) carrying a source
//     version older than the stored one change nothing;
//   * personal commands (read advance, hide, activate) on a tombstoned row
//     change nothing, on a missing row they fail as a stale no-op;
//   * the CMD acknowledgement only grows while the binding lives; re-binding a
//     tombstoned CMD row starts a new incarnation;
//   * the directory of a user lists every row once, most recently activated
//     first, ties by channel id then channel type.

const c16Slot = 5

var c16HashSlots = []uint16{1, 2}

type memKey struct {
	hs  uint16
	uid string
	ch  string
	typ int64
}

func (k memKey) String() string { return fmt.Sprintf("%d/%s/%q/%d", k.hs, k.uid, k.ch, k.typ) }

type c16Model struct {
	rows map[memKey]*metadb.UserChannelMembership
	cmd  map[memKey]*metadb.UserCMDChannelMembership
	// incarnation boundaries crossed since the last observation
	rowBoundary map[memKey]bool
	cmdBoundary map[memKey]bool
	// refused-as-older writes since the last observation (row must be unchanged)
	olderRefused map[memKey]bool
}

func maxI64(a, b int64) int64 {
	if b > a {
		return b
	}
	return a
}

// upsertRow is the subscriber-derived write (also used for tombstones).
func (m *c16Model) upsertRow(hs uint16, in metadb.UserChannelMembership) {
	k := memKey{hs, in.UID, in.ChannelID, in.ChannelType}
	ex := m.rows[k]
	if ex == nil {
		cp := in
		m.rows[k] = &cp
		m.rowBoundary[k] = true
		return
	}
	switch {
	case in.SourceVersion < ex.SourceVersion:
		m.olderRefused[k] = true
	case in.SourceVersion == ex.SourceVersion:
		if ex.Tombstone && !in.Tombstone {
			ex.Tombstone, ex.TombstoneAt = false, 0
			ex.UpdatedAt = maxI64(ex.UpdatedAt, in.UpdatedAt)
		}
	default:
		if in.Tombstone {
			ex.Tombstone, ex.TombstoneAt, ex.SourceVersion = true, in.TombstoneAt, in.SourceVersion
			ex.UpdatedAt = maxI64(ex.UpdatedAt, in.UpdatedAt)
		} else if ex.Tombstone {
			cp := in
			m.rows[k] = &cp
			m.rowBoundary[k] = true
		} else {
			ex.SourceVersion = in.SourceVersion
			ex.UpdatedAt = maxI64(ex.UpdatedAt, in.UpdatedAt)
		}
	}
}

// ensureRow is the create-if-absent projection of the person directory.
func (m *c16Model) ensureRow(hs uint16, in metadb.UserChannelMembership) {
	k := memKey{hs, in.UID, in.ChannelID, in.ChannelType}
	ex := m.rows[k]
	if ex == nil {
		cp := in
		m.rows[k] = &cp
		m.rowBoundary[k] = true
		return
	}
	if in.SourceVersion <= ex.SourceVersion {
		if in.SourceVersion < ex.SourceVersion {
			m.olderRefused[k] = true
		}
		return
	}
	ex.JoinSeq = in.JoinSeq
	if ex.SourceVersion == 0 {
		if in.ReadSeq > ex.ReadSeq {
			ex.ReadSeq = in.ReadSeq
		}
		if in.DeletedToSeq > ex.DeletedToSeq {
			ex.DeletedToSeq = in.DeletedToSeq
		}
	} else {
		// a later source generation is a delete/re-create of the person channel
		ex.ReadSeq, ex.DeletedToSeq = in.ReadSeq, in.DeletedToSeq
		m.rowBoundary[k] = true
	}
	ex.SourceVersion = in.SourceVersion
	ex.UpdatedAt = maxI64(ex.UpdatedAt, in.UpdatedAt)
}

type c16Cmd struct {
	kind    string
	hs      uint16
	entries []metadb.UserChannelMembership
	items   []fsm.UserChannelMembershipBatchItem
	cmds    []metadb.UserCMDChannelMembership
	bytes   []byte
}

// applyModel applies one command atomically and returns the expected apply result.
func (m *c16Model) applyModel(c *c16Cmd) string {
	switch c.kind {
	case "upsert", "tombstone":
		for _, e := range c.entries {
			m.upsertRow(c.hs, e)
		}
	case "ensure":
		for _, it := range c.items {
			m.ensureRow(it.HashSlot, it.Membership)
		}
	case "read", "hide", "activate":
		for _, e := range c.entries {
			if m.rows[memKey{c.hs, e.UID, e.ChannelID, e.ChannelType}] == nil {
				return fsm.ApplyResultStaleMeta
			}
		}
		for _, e := range c.entries {
			row := m.rows[memKey{c.hs, e.UID, e.ChannelID, e.ChannelType}]
			if row.Tombstone {
				continue
			}
			switch c.kind {
			case "read":
				if e.ReadSeq > row.ReadSeq {
					row.ReadSeq = e.ReadSeq
					row.UpdatedAt = maxI64(row.UpdatedAt, e.UpdatedAt)
				}
			case "hide":
				changed := false
				if e.DeletedToSeq > row.DeletedToSeq {
					row.DeletedToSeq, changed = e.DeletedToSeq, true
				}
				if row.ActivatedAt != 0 {
					row.ActivatedAt, changed = 0, true
				}
				if changed {
					row.UpdatedAt = maxI64(row.UpdatedAt, e.UpdatedAt)
				}
			case "activate":
				if e.ActivatedAt > row.ActivatedAt {
					row.ActivatedAt = e.ActivatedAt
					row.UpdatedAt = maxI64(row.UpdatedAt, e.UpdatedAt)
				}
			}
		}
	case "cmdupsert":
		for _, e := range c.cmds {
			k := memKey{c.hs, e.UID, e.CommandChannelID, e.ChannelType}
			ex := m.cmd[k]
			if ex == nil || (ex.Tombstone && !e.Tombstone) {
				cp := e
				m.cmd[k] = &cp
				m.cmdBoundary[k] = true
				continue
			}
			if ex.Tombstone {
				continue
			}
			if e.AckSeq > ex.AckSeq {
				ex.AckSeq = e.AckSeq
			}
			ex.UpdatedAt = maxI64(ex.UpdatedAt, e.UpdatedAt)
		}
	case "cmdack", "cmdtomb":
		for _, e := range c.cmds {
			if m.cmd[memKey{c.hs, e.UID, e.CommandChannelID, e.ChannelType}] == nil {
				return fsm.ApplyResultStaleMeta
			}
		}
		for _, e := range c.cmds {
			row := m.cmd[memKey{c.hs, e.UID, e.CommandChannelID, e.ChannelType}]
			if row.Tombstone {
				continue
			}
			if c.kind == "cmdack" {
				if e.AckSeq > row.AckSeq {
					row.AckSeq = e.AckSeq
					row.UpdatedAt = maxI64(row.UpdatedAt, e.UpdatedAt)
				}
			} else {
				row.Tombstone = true
				row.TombstoneAt = maxI64(row.TombstoneAt, e.TombstoneAt)
				row.UpdatedAt = maxI64(row.UpdatedAt, e.UpdatedAt)
			}
		}
	}
	return fsm.ApplyResultOK
}

func (c *c16Cmd) encode() error {
	var err error
	switch c.kind {
	case "upsert":
		c.bytes = fsm.EncodeUpsertUserChannelMembershipsCommand(c.entries)
	case "tombstone":
		c.bytes = fsm.EncodeDeleteUserChannelMembershipsCommand(c.entries)
	case "read":
		c.bytes = fsm.EncodeAdvanceUserChannelMembershipReadSeqCommand(c.entries)
	case "hide":
		c.bytes = fsm.EncodeHideUserChannelMembershipCommand(c.entries)
	case "activate":
		c.bytes = fsm.EncodeActivateUserChannelMembershipCommand(c.entries)
	case "ensure":
		c.bytes, err = fsm.EncodeEnsureUserChannelMembershipBatchCommandChecked(c.items)
	case "cmdupsert":
		c.bytes = fsm.EncodeUpsertUserCMDChannelMembershipsCommand(c.cmds)
	case "cmdack":
		c.bytes = fsm.EncodeAdvanceUserCMDChannelMembershipAcksCommand(c.cmds)
	case "cmdtomb":
		c.bytes = fsm.EncodeTombstoneUserCMDChannelMembershipsCommand(c.cmds)
	}
	return err
}

func (c *c16Cmd) describe() string {
	switch {
	case len(c.items) > 0:
		s := c.kind
		for _, it := range c.items {
			e := it.Membership
			s += fmt.Sprintf(" [hs%d %s/%s v%d join%d read%d del%d]", it.HashSlot, e.UID, e.ChannelID, e.SourceVersion, e.JoinSeq, e.ReadSeq, e.DeletedToSeq)
		}
		return s
	case len(c.cmds) > 0:
		s := fmt.Sprintf("%s hs%d", c.kind, c.hs)
		for _, e := range c.cmds {
			s += fmt.Sprintf(" [%s/%s start%d ack%d tomb%v@%d upd%d]", e.UID, e.CommandChannelID, e.StartSeq, e.AckSeq, e.Tombstone, e.TombstoneAt, e.UpdatedAt)
		}
		return s
	default:
		s := fmt.Sprintf("%s hs%d", c.kind, c.hs)
		for _, e := range c.entries {
			s += fmt.Sprintf(" [%s/%q/%d v%d join%d read%d del%d act%d tomb%v@%d upd%d]", e.UID, e.ChannelID, e.ChannelType, e.SourceVersion, e.JoinSeq, e.ReadSeq, e.DeletedToSeq, e.ActivatedAt, e.Tombstone, e.TombstoneAt, e.UpdatedAt)
		}
		return s
	}
}

type c16World struct {
	r      *simkit.Run
	n      *slotNode
	m      *c16Model
	users  []string // on hash slot 1
	others []string // on hash slot 2
	chans  []string
	srcVer map[string]uint64 // per channel: newest source version handed out
	clock  int64
	log    []*c16Cmd
	// last observations (property-level memory)
	lastRow map[memKey]metadb.UserChannelMembership
	lastCmd map[memKey]metadb.UserCMDChannelMembership
	applied int
	stale   int
	// learned channel collation: "a<b" once a was listed before b at equal activation
	tieOrder map[string]bool
}

func (w *c16World) hsOf(uid string) uint16 {
	for _, o := range w.others {
		if o == uid {
			return 2
		}
	}
	return 1
}

func (w *c16World) tick() int64 { w.clock++; return w.clock }

// version draws a source version for a subscriber-derived write on channel ch:
// 0 = the newest one handed out so far (benign), else a newer or an older one.
func (w *c16World) version(ch string) uint64 {
	cur := w.srcVer[ch]
	switch w.r.Tape.Weighted([]int{4, 3, 3}) {
	case 1:
		cur++
		w.srcVer[ch] = cur
		return cur
	case 2:
		if cur > 0 {
			w.r.Fault("older_source_version")
			return uint64(w.r.Tape.Intn(int(cur)))
		}
	}
	return cur
}

// gen draws one command touching only users in uids.
func (w *c16World) gen(uids []string, kinds []int) *c16Cmd {
	t := w.r.Tape
	names := []string{"upsert", "read", "hide", "activate", "tombstone", "ensure", "cmdupsert", "cmdack", "cmdtomb"}
	c := &c16Cmd{kind: names[t.Weighted(kinds)]}
	uid := uids[t.Intn(len(uids))]
	c.hs = w.hsOf(uid)
	n := 1
	if t.Chance(1, 3) {
		n = 2 + t.Intn(2)
	}
	switch c.kind {
	case "upsert", "tombstone", "read", "hide", "activate":
		seen := map[string]bool{}
		for i := 0; i < n; i++ {
			u := uid
			if i > 0 && t.Chance(1, 2) {
				// a batch may span users of the same hash slot
				cand := uids[t.Intn(len(uids))]
				if w.hsOf(cand) == c.hs {
					u = cand
				}
			}
			ch := w.chans[t.Intn(len(w.chans))]
			if (c.kind == "read" || c.kind == "hide" || c.kind == "activate") && !t.Chance(1, 4) {
				// personal commands mostly address memberships that exist
				if ex := w.existing(c.hs, u); len(ex) > 0 {
					ch = ex[t.Intn(len(ex))]
				}
			}
			if seen[u+"|"+ch] {
				continue
			}
			seen[u+"|"+ch] = true
			e := metadb.UserChannelMembership{UID: u, ChannelID: ch, ChannelType: 2, UpdatedAt: w.tick()}
			switch c.kind {
			case "upsert":
				e.JoinSeq, e.ReadSeq, e.DeletedToSeq = uint64(t.Intn(12)), uint64(t.Intn(12)), uint64(t.Intn(12))
				if t.Chance(1, 3) {
					e.ActivatedAt = int64(1 + t.Intn(4))
				}
				e.SourceVersion = w.version(ch)
			case "tombstone":
				e.Tombstone, e.TombstoneAt = true, w.clock
				e.SourceVersion = w.version(ch)
			case "read":
				e.ReadSeq = uint64(t.Intn(16))
			case "hide":
				e.DeletedToSeq = uint64(t.Intn(16))
			case "activate":
				e.ActivatedAt = int64(1 + t.Intn(5))
			}
			c.entries = append(c.entries, e)
		}
	case "ensure":
		seen := map[string]bool{}
		for i := 0; i < n; i++ {
			u := uids[t.Intn(len(uids))]
			peer := []string{"pa", "pb"}[t.Intn(2)]
			ch := channelid.EncodePersonChannel(u, peer)
			if seen[u+"|"+ch] {
				continue
			}
			seen[u+"|"+ch] = true
			e := metadb.UserChannelMembership{UID: u, ChannelID: ch, ChannelType: 1, UpdatedAt: w.tick(),
				JoinSeq: uint64(t.Intn(12)), ReadSeq: uint64(t.Intn(12)), DeletedToSeq: uint64(t.Intn(12)), SourceVersion: w.version(ch)}
			c.items = append(c.items, fsm.UserChannelMembershipBatchItem{HashSlot: w.hsOf(u), Membership: e})
		}
		c.hs = c.items[0].HashSlot
	case "cmdupsert", "cmdack", "cmdtomb":
		seen := map[string]bool{}
		for i := 0; i < n; i++ {
			ch := []string{"sys____cmd", "g____cmd"}[t.Intn(2)]
			if seen[ch] {
				continue
			}
			seen[ch] = true
			e := metadb.UserCMDChannelMembership{UID: uid, CommandChannelID: ch, ChannelType: 2, UpdatedAt: w.tick()}
			switch c.kind {
			case "cmdupsert":
				e.StartSeq, e.AckSeq = uint64(t.Intn(10)), uint64(t.Intn(10))
				if t.Chance(1, 8) {
					e.Tombstone, e.TombstoneAt = true, w.clock
				}
			case "cmdack":
				e.AckSeq = uint64(t.Intn(16))
			case "cmdtomb":
				e.Tombstone, e.TombstoneAt = true, w.clock
			}
			c.cmds = append(c.cmds, e)
		}
	}
	if err := c.encode(); err != nil {
		w.r.Infra("encode %s: %v", c.kind, err)
	}
	return c
}

// existing lists the group channels user u has a row for (sorted).
func (w *c16World) existing(hs uint16, u string) []string {
	var out []string
	for k := range w.m.rows {
		if k.hs == hs && k.uid == u && k.typ == 2 {
			out = append(out, k.ch)
		}
	}
	sort.Strings(out)
	return out
}

func rowEq(a, b metadb.UserChannelMembership) bool { return a == b }

// observe reads every row back, compares with the reference and checks the
// monotonic clauses against the previous observation.
func (w *c16World) observe(when string) {
	r := w.r
	allUsers := append(append([]string(nil), w.users...), w.others...)
	var keys []memKey
	for k := range w.m.rows {
		keys = append(keys, k)
	}
	// also probe a few (user, channel) pairs the reference never created
	for _, u := range allUsers {
		for _, ch := range w.chans {
			k := memKey{w.hsOf(u), u, ch, 2}
			if w.m.rows[k] == nil {
				keys = append(keys, k)
			}
		}
	}
	sort.Slice(keys, func(i, j int) bool { return keys[i].String() < keys[j].String() })
	for _, k := range keys {
		got, err := w.n.db.ForHashSlot(k.hs).GetUserChannelMembership(bg, k.uid, k.ch, k.typ)
		want := w.m.rows[k]
		if errors.Is(err, metadb.ErrNotFound) {
			if want != nil {
				r.Fail("membership-row-mismatch", fmt.Sprintf("%s: %s missing, reference has %+v", when, k, *want), nil)
				return
			}
			continue
		}
		if err != nil {
			r.Infra("GetUserChannelMembership: %v", err)
			return
		}
		if prev, ok := w.lastRow[k]; ok && !w.m.rowBoundary[k] {
			if got.ReadSeq < prev.ReadSeq {
				r.FailSig("cursor-regressed", "read", fmt.Sprintf("%s: %s read cursor %d after %d", when, k, got.ReadSeq, prev.ReadSeq), nil)
				return
			}
			if got.DeletedToSeq < prev.DeletedToSeq {
				r.FailSig("cursor-regressed", "delete-to", fmt.Sprintf("%s: %s delete-to %d after %d", when, k, got.DeletedToSeq, prev.DeletedToSeq), nil)
				return
			}
			if got.SourceVersion < prev.SourceVersion {
				r.FailSig("cursor-regressed", "source-version", fmt.Sprintf("%s: %s source version %d after %d", when, k, got.SourceVersion, prev.SourceVersion), nil)
				return
			}
		}
		if want == nil {
			r.Fail("membership-row-mismatch", fmt.Sprintf("%s: %s stored %+v, reference has no row", when, k, got), nil)
			return
		}
		if !rowEq(got, *want) {
			class := "membership-row-mismatch"
			if w.m.olderRefused[k] {
				if prev, ok := w.lastRow[k]; ok && !rowEq(got, prev) && rowEq(*want, prev) {
					class = "older-source-accepted"
				}
			}
			r.Fail(class, fmt.Sprintf("%s: %s stored %+v, reference %+v", when, k, got, *want), nil)
			return
		}
		w.lastRow[k] = got
		r.State("c16row", got.Tombstone, got.ActivatedAt != 0, got.SourceVersion > 0, got.ReadSeq > got.JoinSeq)
	}
	var ckeys []memKey
	for k := range w.m.cmd {
		ckeys = append(ckeys, k)
	}
	sort.Slice(ckeys, func(i, j int) bool { return ckeys[i].String() < ckeys[j].String() })
	for _, k := range ckeys {
		got, ok, err := w.n.db.ForHashSlot(k.hs).GetUserCMDChannelMembership(bg, k.uid, k.ch, k.typ)
		if err != nil {
			r.Infra("GetUserCMDChannelMembership: %v", err)
			return
		}
		want := w.m.cmd[k]
		if !ok {
			r.Fail("cmd-row-mismatch", fmt.Sprintf("%s: CMD %s missing, reference %+v", when, k, *want), nil)
			return
		}
		if prev, seen := w.lastCmd[k]; seen && !w.m.cmdBoundary[k] && got.AckSeq < prev.AckSeq {
			r.FailSig("cursor-regressed", "cmd-ack", fmt.Sprintf("%s: CMD %s ack %d after %d", when, k, got.AckSeq, prev.AckSeq), nil)
			return
		}
		if got != *want {
			r.Fail("cmd-row-mismatch", fmt.Sprintf("%s: CMD %s stored %+v, reference %+v", when, k, got, *want), nil)
			return
		}
		w.lastCmd[k] = got
	}
	w.m.rowBoundary = map[memKey]bool{}
	w.m.cmdBoundary = map[memKey]bool{}
	w.m.olderRefused = map[memKey]bool{}
}

// applyBatch proposes cmds as one raft apply batch and checks results.
func (w *c16World) applyBatch(tag string, cmds []*c16Cmd) {
	r := w.r
	payloads := make([][]byte, len(cmds))
	hs := make([]uint16, len(cmds))
	for i, c := range cmds {
		payloads[i], hs[i] = c.bytes, c.hs
		r.Logf("%s cmd %s", tag, c.describe())
	}
	res, _, err := w.n.apply(hs, payloads)
	if err != nil {
		r.Fail("apply-error", fmt.Sprintf("%s: ApplyBatch of well-formed membership commands failed: %v", tag, err), nil)
		return
	}
	for i, c := range cmds {
		want := w.m.applyModel(c)
		got := string(res[i])
		r.Logf("%s   -> %s (want %s)", tag, got, want)
		if got != want {
			r.Fail("membership-result-mismatch", fmt.Sprintf("%s: %s returned %q, reference says %q", tag, c.describe(), got, want), nil)
			return
		}
		if want == fsm.ApplyResultStaleMeta {
			w.stale++
			r.Probe("stale_noop_command")
		} else {
			w.applied++
		}
		w.log = append(w.log, c)
	}
	if len(cmds) > 1 {
		r.Probe("multi_command_batch")
	}
}

// scan walks one user's directory page by page; between pages the callback may
// apply mutations that do not move that user's rows.
func (w *c16World) scan(uid string, between func(page int)) {
	r, t := w.r, w.r.Tape
	hs := w.hsOf(uid)
	var got []metadb.UserChannelMembership
	cursor := metadb.UserChannelMembershipCursor{}
	pages := 0
	for {
		limit := 1 + t.Intn(4)
		rows, next, done, err := w.n.db.ForHashSlot(hs).ListUserChannelMembershipPage(bg, uid, cursor, limit)
		if err != nil {
			r.Fail("directory-scan-error", fmt.Sprintf("scan %s page %d limit %d cursor %+v: %v", uid, pages, limit, cursor, err), nil)
			return
		}
		r.Logf("scan %s page %d limit %d -> %d rows done=%v next=%+v", uid, pages, limit, len(rows), done, next)
		if len(rows) > limit {
			r.Fail("directory-page-oversize", fmt.Sprintf("scan %s: page of %d rows for limit %d", uid, len(rows), limit), nil)
			return
		}
		got = append(got, rows...)
		pages++
		if done {
			break
		}
		if len(rows) == 0 || pages > 40 {
			r.Fail("directory-scan-stuck", fmt.Sprintf("scan %s: page %d returned %d rows and done=false", uid, pages, len(rows)), nil)
			return
		}
		cursor = next
		if between != nil {
			between(pages)
			if r.Failed() || r.InfraErr != "" {
				return
			}
		}
	}
	if pages > 1 {
		r.Probe("directory_multi_page")
	}
	// expected: every row of that user exactly once; most recently activated first;
	// ties in one fixed total order of channels (learned pairwise during the run:
	// the statement fixes that channels are ordered, not which collation is used)
	var want []metadb.UserChannelMembership
	for k, row := range w.m.rows {
		if k.hs == hs && k.uid == uid {
			want = append(want, *row)
		}
	}
	sort.Slice(want, func(i, j int) bool {
		a, b := want[i], want[j]
		if a.ChannelID != b.ChannelID {
			return a.ChannelID < b.ChannelID
		}
		return a.ChannelType < b.ChannelType
	})
	chKey := func(x metadb.UserChannelMembership) string { return fmt.Sprintf("%q/%d", x.ChannelID, x.ChannelType) }
	count := map[string]int{}
	for _, g := range got {
		count[chKey(g)]++
	}
	wantAct := map[string]int64{}
	for _, x := range want {
		c := count[chKey(x)]
		wantAct[chKey(x)] = x.ActivatedAt
		if c == 0 && !x.Tombstone {
			r.FailSig("directory-row-missing", "live", fmt.Sprintf("scan %s (%d pages): live membership %s not listed; listed %s", uid, pages, chKey(x), c16List(got)), nil)
			return
		}
		if c == 0 {
			r.FailSig("directory-row-missing", "tombstone", fmt.Sprintf("scan %s (%d pages): tombstoned membership %s not listed; listed %s", uid, pages, chKey(x), c16List(got)), nil)
			return
		}
		if c > 1 {
			r.Fail("directory-row-duplicated", fmt.Sprintf("scan %s (%d pages): membership %s listed %d times; listed %s", uid, pages, chKey(x), c, c16List(got)), nil)
			return
		}
	}
	if len(got) != len(want) {
		r.Fail("directory-row-unexpected", fmt.Sprintf("scan %s: %d rows listed, reference has %d; listed %s", uid, len(got), len(want), c16List(got)), nil)
		return
	}
	for i := range got {
		if act, ok := wantAct[chKey(got[i])]; !ok || act != got[i].ActivatedAt {
			r.Fail("directory-order", fmt.Sprintf("scan %s: %s listed with activation %d, reference %d; listed %s", uid, chKey(got[i]), got[i].ActivatedAt, act, c16List(got)), nil)
			return
		}
		if i > 0 && got[i-1].ActivatedAt < got[i].ActivatedAt {
			r.FailSig("directory-order", "activation", fmt.Sprintf("scan %s: position %d activation %d follows %d; listed %s", uid, i, got[i].ActivatedAt, got[i-1].ActivatedAt, c16List(got)), nil)
			return
		}
		for j := i + 1; j < len(got); j++ {
			if got[j].ActivatedAt != got[i].ActivatedAt {
				break
			}
			a, b := chKey(got[i]), chKey(got[j])
			if w.tieOrder[b+"<"+a] {
				r.FailSig("directory-order", "tie", fmt.Sprintf("scan %s: %s listed before %s, an earlier pass listed them the other way round; listed %s", uid, a, b, c16List(got)), nil)
				return
			}
			w.tieOrder[a+"<"+b] = true
		}
	}
	r.Probe("directory_pass_checked")
	if len(want) >= 3 {
		r.Probe("directory_pass_3plus_rows")
	}
}

func c16List(rows []metadb.UserChannelMembership) string {
	s := ""
	for _, g := range rows {
		s += fmt.Sprintf("(%q/%d act%d tomb%v)", g.ChannelID, g.ChannelType, g.ActivatedAt, g.Tombstone)
	}
	return s
}

func runC16(r *simkit.Run) {
	t := r.Tape
	disk := drawDisk(r)
	faults := !t.Chance(1, 4)
	steps := 8 + t.Intn(22)
	w := &c16World{r: r,
		m: &c16Model{rows: map[memKey]*metadb.UserChannelMembership{}, cmd: map[memKey]*metadb.UserCMDChannelMembership{},
			rowBoundary: map[memKey]bool{}, cmdBoundary: map[memKey]bool{}, olderRefused: map[memKey]bool{}},
		users: []string{"u0", "u1", "u2"}[:1+t.Intn(3)], others: []string{"v0"},
		chans:    []string{"g", "ga", "h", "g\x00z", "ha"}[:2+t.Intn(4)],
		tieOrder: map[string]bool{}, srcVer: map[string]uint64{}, lastRow: map[memKey]metadb.UserChannelMembership{}, lastCmd: map[memKey]metadb.UserCMDChannelMembership{},
	}
	r.Config["users"], r.Config["channels"], r.Config["faults"], r.Config["steps"] = len(w.users), len(w.chans), faults, steps
	w.n = newSlotNode(r, "c16", c16Slot, c16HashSlots, disk)
	if r.InfraErr != "" {
		return
	}
	defer func() { w.n.close() }()
	injected := false
	all := append(append([]string(nil), w.users...), w.others...)
	//                  upsert read hide act tomb ensure cmdup cmdack cmdtomb
	mix := []int{8, 5, 3, 3, 2, 2, 3, 3, 1}

	for step := 0; step < steps && !r.Failed() && r.InfraErr == ""; step++ {
		switch t.Weighted([]int{10, 3, 2}) {
		case 0: // ordinary apply batch of 1-3 commands, some of them exact replays
			k := 1 + t.Weighted([]int{5, 2, 1})
			var batch []*c16Cmd
			for i := 0; i < k; i++ {
				if len(w.log) > 0 && t.Chance(1, 5) {
					batch = append(batch, w.log[t.Intn(len(w.log))])
					r.Fault("command_replay")
					injected = true
				} else {
					batch = append(batch, w.gen(all, mix))
				}
			}
			w.applyBatch(fmt.Sprintf("step %d", step), batch)
		case 1: // paginated directory pass with interleaved foreign mutations
			uid := w.users[t.Intn(len(w.users))]
			var foreign []string
			for _, u := range all {
				if u != uid {
					foreign = append(foreign, u)
				}
			}
			interleaved := false
			w.scan(uid, func(page int) {
				if !t.Chance(1, 2) {
					return
				}
				interleaved = true
				var c *c16Cmd
				if t.Chance(1, 3) {
					// position-preserving mutation of the scanned user: read cursor / CMD ack only
					c = w.gen([]string{uid}, []int{0, 5, 0, 0, 0, 0, 2, 3, 0})
				} else {
					c = w.gen(foreign, mix)
				}
				w.applyBatch(fmt.Sprintf("step %d scan page %d", step, page), []*c16Cmd{c})
				if faults && !r.Failed() && t.Chance(1, 6) {
					w.n.restart(t.Intn(4))
					injected = true
				}
			})
			if interleaved {
				r.Probe("directory_interleaved_mutation")
			}
		case 2: // whole-directory check of every user in one go (big page)
			for _, uid := range all {
				if r.Failed() {
					break
				}
				w.scan(uid, nil)
			}
		}
		if r.Failed() || r.InfraErr != "" {
			break
		}
		w.observe(fmt.Sprintf("after step %d", step))
		if faults && !r.Failed() && w.n.drawRestart(1, 6) {
			injected = true
			if r.Failed() || r.InfraErr != "" {
				break
			}
			w.observe(fmt.Sprintf("after restart %d", w.n.restarts))
		}
	}
	if !r.Failed() && r.InfraErr == "" {
		if faults {
			w.n.restart(t.Intn(4))
		}
		if !r.Failed() && r.InfraErr == "" {
			w.observe("final")
			for _, uid := range all {
				if r.Failed() {
					break
				}
				w.scan(uid, nil)
			}
		}
	}
	r.Nontrivial = w.applied >= 6 && injected
}
