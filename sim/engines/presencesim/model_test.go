package presencesim

// Reference directory for C33, written from the property statement, the doc
// comments in internal/runtime/presence/types.go and the package's FLOW.md —
// deliberately list-based (linear scans, insertion order) so that it shares no
// structure with the sharded map/heap implementation it is compared against.

import (
	"fmt"
	"sort"
	"time"

	"github.com/WuKongIM/WuKongIM/internal/runtime/presence"
)

// outcome is the abstract result class of one directory call.
type outcome int

const (
	outOK outcome = iota
	outNotLeader
	outStale
	outNotReady
	outOther
)

func (o outcome) String() string {
	switch o {
	case outOK:
		return "ok"
	case outNotLeader:
		return "not_leader"
	case outStale:
		return "stale_route"
	case outNotReady:
		return "route_not_ready"
	}
	return "other"
}

type ident struct {
	uid  string
	node uint64
	boot uint64
	sess uint64
}

func (i ident) String() string { return fmt.Sprintf("%s/n%d.b%d.s%d", i.uid, i.node, i.boot, i.sess) }

func identOf(r presence.Route) ident {
	return ident{uid: r.UID, node: r.OwnerNodeID, boot: r.OwnerBootID, sess: r.SessionID}
}

func identOfIdentity(r presence.RouteIdentity) ident {
	return ident{uid: r.UID, node: r.OwnerNodeID, boot: r.OwnerBootID, sess: r.SessionID}
}

type refPending struct {
	token string
	gen   int // authority incarnation that issued the token
	route presence.Route
	acked []ident
}

type refSlot struct {
	target  presence.RouteTarget
	gen     int
	active  []presence.Route
	pending []refPending
	lastSeq map[ident]uint64
	tomb    map[ident]uint64
	// unregSeq is the direct statement witness: highest unregister sequence
	// accepted under this authority incarnation, per connection.
	unregSeq map[ident]uint64
}

type refDir struct {
	local        uint64
	slots        map[uint16]*refSlot
	gens         int
	touchTotal   uint64
	expiredTotal uint64
}

func newRefDir(local uint64) *refDir {
	return &refDir{local: local, slots: map[uint16]*refSlot{}}
}

// sameAuthority: the fence is the Slot Raft identity; route revision and the
// local authority epoch are observations, not fences (types.go, FLOW.md).
func sameAuthority(a, b presence.RouteTarget) bool {
	return a.HashSlot == b.HashSlot && a.SlotID == b.SlotID && a.LeaderNodeID == b.LeaderNodeID &&
		a.LeaderTerm == b.LeaderTerm && a.ConfigEpoch == b.ConfigEpoch
}

func (d *refDir) become(t presence.RouteTarget) (fresh bool) {
	if cur := d.slots[t.HashSlot]; cur != nil && sameAuthority(cur.target, t) {
		if t.RouteRevision >= cur.target.RouteRevision {
			cur.target = t
		}
		return false
	}
	d.gens++
	d.slots[t.HashSlot] = &refSlot{target: t, gen: d.gens, lastSeq: map[ident]uint64{}, tomb: map[ident]uint64{}, unregSeq: map[ident]uint64{}}
	return true
}

func (d *refDir) lose(hs uint16) { delete(d.slots, hs) }

// fence returns the slot the target is entitled to operate on, or nil.
func (d *refDir) fence(t presence.RouteTarget) *refSlot {
	if d.local != 0 && t.LeaderNodeID != d.local {
		return nil
	}
	s := d.slots[t.HashSlot]
	if s == nil || !sameAuthority(s.target, t) {
		return nil
	}
	return s
}

func withSeen(r presence.Route) presence.Route {
	if r.LastSeenUnix == 0 {
		r.LastSeenUnix = r.ConnectedUnix
	}
	return r
}

// deviceConflict: same user, same device category; a master-level login
// displaces every such connection, a slave-level login only the same device.
func deviceConflict(incoming, existing presence.Route) bool {
	if incoming.UID != existing.UID || incoming.DeviceFlag != existing.DeviceFlag {
		return false
	}
	if incoming.DeviceLevel == 1 {
		return true
	}
	if incoming.DeviceLevel == 0 {
		return incoming.DeviceID == existing.DeviceID
	}
	return false
}

func (s *refSlot) conflictsOf(r presence.Route) []ident {
	var out []ident
	me := identOf(r)
	for _, a := range s.active {
		if identOf(a) == me {
			continue
		}
		if deviceConflict(r, a) {
			out = append(out, identOf(a))
		}
	}
	return out
}

func (s *refSlot) find(id ident) int {
	for i, a := range s.active {
		if identOf(a) == id {
			return i
		}
	}
	return -1
}

func (s *refSlot) put(r presence.Route) {
	r = withSeen(r)
	if i := s.find(identOf(r)); i >= 0 {
		s.active = append(s.active[:i], s.active[i+1:]...)
	}
	s.active = append(s.active, r)
}

func (s *refSlot) drop(id ident) bool {
	if i := s.find(id); i >= 0 {
		s.active = append(s.active[:i], s.active[i+1:]...)
		return true
	}
	return false
}

func (s *refSlot) fencedBySeq(r presence.Route) bool {
	id := identOf(r)
	if t, ok := s.tomb[id]; ok && r.OwnerSeq <= t {
		return true
	}
	return r.OwnerSeq < s.lastSeq[id]
}

type refAction struct {
	id   ident
	kind string
}

// register returns the outcome, whether the route went pending, and the
// expected owner actions (unordered).
func (d *refDir) register(t presence.RouteTarget, r presence.Route) (outcome, bool, []refAction, *refSlot) {
	s := d.fence(t)
	if s == nil {
		return outNotLeader, false, nil, nil
	}
	if s.fencedBySeq(r) {
		return outStale, false, nil, s
	}
	s.lastSeq[identOf(r)] = r.OwnerSeq
	r = withSeen(r)
	cs := s.conflictsOf(r)
	if len(cs) == 0 {
		s.put(r)
		return outOK, false, nil, s
	}
	var acts []refAction
	for _, c := range cs {
		ex := s.active[s.find(c)]
		kind := "close"
		if r.DeviceLevel == 1 && r.DeviceID != ex.DeviceID {
			kind = "kick_then_close"
		}
		acts = append(acts, refAction{id: c, kind: kind})
	}
	return outOK, true, acts, s
}

func (s *refSlot) addPending(token string, r presence.Route) {
	s.pending = append(s.pending, refPending{token: token, gen: s.gen, route: withSeen(r), acked: s.conflictsOf(r)})
}

func (s *refSlot) pendingIndex(token string) int {
	for i, p := range s.pending {
		if p.token == token {
			return i
		}
	}
	return -1
}

func (d *refDir) commit(t presence.RouteTarget, token string) outcome {
	s := d.fence(t)
	if s == nil {
		return outNotLeader
	}
	i := s.pendingIndex(token)
	if i < 0 {
		return outNotReady
	}
	p := s.pending[i]
	if s.fencedBySeq(p.route) {
		s.pending = append(s.pending[:i], s.pending[i+1:]...)
		return outStale
	}
	for _, c := range s.conflictsOf(p.route) {
		ok := false
		for _, a := range p.acked {
			if a == c {
				ok = true
			}
		}
		if !ok {
			return outNotReady
		}
	}
	for _, a := range p.acked {
		s.drop(a)
	}
	s.put(p.route)
	s.pending = append(s.pending[:i], s.pending[i+1:]...)
	return outOK
}

func (d *refDir) abort(t presence.RouteTarget, token string) outcome {
	s := d.fence(t)
	if s == nil {
		return outNotLeader
	}
	i := s.pendingIndex(token)
	if i < 0 {
		return outNotReady
	}
	s.pending = append(s.pending[:i], s.pending[i+1:]...)
	return outOK
}

func (d *refDir) unregister(t presence.RouteTarget, id ident, seq uint64) outcome {
	s := d.fence(t)
	if s == nil {
		return outNotLeader
	}
	if cur, ok := s.tomb[id]; !ok || seq > cur {
		s.tomb[id] = seq
	}
	if seq > s.lastSeq[id] {
		s.lastSeq[id] = seq
	}
	if cur, ok := s.unregSeq[id]; !ok || seq > cur {
		s.unregSeq[id] = seq
	}
	if i := s.find(id); i >= 0 && s.active[i].OwnerSeq <= seq {
		s.drop(id)
	}
	kept := s.pending[:0:0]
	for _, p := range s.pending {
		if identOf(p.route) == id && p.route.OwnerSeq <= seq {
			continue
		}
		kept = append(kept, p)
	}
	s.pending = kept
	return outOK
}

func (d *refDir) touch(t presence.RouteTarget, routes []presence.Route) outcome {
	s := d.fence(t)
	if s == nil {
		return outNotLeader
	}
	for _, r := range routes {
		if r.UID == "" {
			continue
		}
		if s.fencedBySeq(r) {
			continue
		}
		id := identOf(r)
		s.lastSeq[id] = r.OwnerSeq
		r = withSeen(r)
		if i := s.find(id); i >= 0 {
			if s.active[i].LastSeenUnix > r.LastSeenUnix {
				r.LastSeenUnix = s.active[i].LastSeenUnix
			}
			s.put(r)
			continue
		}
		if len(s.conflictsOf(r)) != 0 {
			continue
		}
		s.put(r)
	}
	d.touchTotal += uint64(len(routes))
	return outOK
}

type refExpire struct {
	expired, dueBuckets, indexRoutes, indexBuckets int
}

// idleTooLong: a route is due exactly when its last activity second plus the
// TTL lies strictly before now; routes without an activity time never expire.
func idleTooLong(r presence.Route, now time.Time, ttl time.Duration) bool {
	if ttl <= 0 || now.IsZero() || r.LastSeenUnix == 0 {
		return false
	}
	return now.Sub(time.Unix(r.LastSeenUnix, 0)) > ttl
}

func (d *refDir) expire(now time.Time, ttl time.Duration) refExpire {
	var res refExpire
	for _, s := range d.slots {
		due := map[int64]bool{}
		kept := s.active[:0:0]
		for _, r := range s.active {
			if idleTooLong(r, now, ttl) {
				due[r.LastSeenUnix] = true
				res.expired++
				continue
			}
			kept = append(kept, r)
		}
		s.active = kept
		res.dueBuckets += len(due)
		left := map[int64]bool{}
		for _, r := range s.active {
			if r.LastSeenUnix != 0 {
				res.indexRoutes++
				left[r.LastSeenUnix] = true
			}
		}
		res.indexBuckets += len(left)
	}
	d.expiredTotal += uint64(res.expired)
	return res
}

func (d *refDir) lookup(t presence.RouteTarget, uid string) (outcome, []presence.Route) {
	s := d.fence(t)
	if s == nil {
		return outNotLeader, nil
	}
	var out []presence.Route
	for _, r := range s.active {
		if r.UID == uid {
			out = append(out, r)
		}
	}
	return outOK, out
}

type refSnapshot struct {
	active       int
	bySlot       map[uint16]int
	indexRoutes  int
	indexBuckets int
}

func (d *refDir) snapshot() refSnapshot {
	sn := refSnapshot{bySlot: map[uint16]int{}}
	for hs, s := range d.slots {
		if len(s.active) > 0 {
			sn.bySlot[hs] = len(s.active)
			sn.active += len(s.active)
		}
		b := map[int64]bool{}
		for _, r := range s.active {
			if r.LastSeenUnix != 0 {
				sn.indexRoutes++
				b[r.LastSeenUnix] = true
			}
		}
		sn.indexBuckets += len(b)
	}
	return sn
}

// ---- canonical forms used by the comparisons ----

func routeString(r presence.Route) string {
	return fmt.Sprintf("%s/n%d.b%d.s%d#%d dev=%s/%d/%d l=%s c=%d seen=%d", r.UID, r.OwnerNodeID, r.OwnerBootID, r.SessionID,
		r.OwnerSeq, r.DeviceID, r.DeviceFlag, r.DeviceLevel, r.Listener, r.ConnectedUnix, r.LastSeenUnix)
}

func routeStrings(rs []presence.Route) []string {
	out := make([]string, len(rs))
	for i, r := range rs {
		out[i] = routeString(r)
	}
	return out
}

func sortedCopy(ss []string) []string {
	out := append([]string(nil), ss...)
	sort.Strings(out)
	return out
}

func equalStrings(a, b []string) bool {
	if len(a) != len(b) {
		return false
	}
	for i := range a {
		if a[i] != b[i] {
			return false
		}
	}
	return true
}

func targetString(t presence.RouteTarget) string {
	return fmt.Sprintf("hs%d/slot%d/L%d/T%d/E%d/r%d/a%d", t.HashSlot, t.SlotID, t.LeaderNodeID, t.LeaderTerm, t.ConfigEpoch, t.RouteRevision, t.AuthorityEpoch)
}
