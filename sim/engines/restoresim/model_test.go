package restoresim

import (
	"context"
	"crypto/sha256"
	"encoding/binary"
	"fmt"
	"sort"

	"github.com/WuKongIM/WuKongIM/internal/verifsim/simkit"
	"github.com/WuKongIM/WuKongIM/pkg/db/message"
	channel "github.com/WuKongIM/WuKongIM/pkg/db/message/channelcompat"
	"github.com/WuKongIM/WuKongIM/pkg/quorumlog"
)

// ---------------------------------------------------------------------------
// Reference model of one channel log in the backup source.
// ---------------------------------------------------------------------------

type msgModel struct {
	Seq       uint64
	ID        uint64
	From      string
	ClientNo  string
	Payload   []byte
	TSms      int64
	Setting   uint8
	Flags     uint8
	Timestamp int32
	Expire    uint32
	MsgKey    string
	Topic     string
	Epoch     uint64
}

type propModel struct {
	Base, Last uint64
	Manifest   quorumlog.ProposalManifest
	Entries    []quorumlog.EntryIdentity
}

type chanModel struct {
	Key   string
	ID    channel.ChannelID
	Slot  uint16
	Exact bool // every append carries a proposal manifest (production shape)

	Msgs  []msgModel  // index = seq-1, includes the uncommitted suffix
	Props []propModel // exact channels only
	Epoch uint64
	Term  uint64

	StoredHW    uint64 // HW of the stored checkpoint (0 = none stored)
	StoredCP    bool
	StoredStart uint64
	Trimmed     uint64 // rows 1..Trimmed physically deleted
	Adopted     uint64 // adopted retention boundary
	RetainedMax uint64 // the store's RetainedMaxSeq (log end remembered by retention)
	History     []channel.EpochPoint
	Cursors     map[string]uint64
	Snapshot    []byte

	// export cut chosen for this channel
	CutHW    uint64
	CutStart uint64
	CutEpoch uint64

	// Frozen channels take no random operations: their exported row count was
	// placed exactly on / next to an importer batch boundary.
	Frozen bool

	store *message.ChannelStore
	cmdNo int
}

func (c *chanModel) leo() uint64 { return uint64(len(c.Msgs)) }

// boundaries returns every proposal boundary (offsets at which a cut or a
// truncation is legal) in increasing order, starting with 0.
func (c *chanModel) boundaries() []uint64 {
	out := []uint64{0}
	if !c.Exact {
		for i := range c.Msgs {
			out = append(out, uint64(i+1))
		}
		return out
	}
	for _, p := range c.Props {
		out = append(out, p.Last)
	}
	return out
}

func encodeRecord(id channel.ChannelID, m msgModel) channel.Record {
	p := make([]byte, 0, 64+len(m.Payload))
	p = append(p, channel.DurableMessageCodecVersion)
	p = binary.BigEndian.AppendUint64(p, m.ID)
	p = append(p, m.Flags, m.Setting, 0, id.Type)
	p = binary.BigEndian.AppendUint32(p, m.Expire)
	p = binary.BigEndian.AppendUint64(p, 0) // client seq
	p = binary.BigEndian.AppendUint64(p, 0) // stream id
	p = binary.BigEndian.AppendUint32(p, uint32(m.Timestamp))
	p = binary.BigEndian.AppendUint64(p, 0) // payload hash: derived by the store
	str := func(s string) {
		p = binary.BigEndian.AppendUint32(p, uint32(len(s)))
		p = append(p, s...)
	}
	str(m.MsgKey)
	str(m.ClientNo)
	str("") // stream no
	str(id.ID)
	str(m.Topic)
	str(m.From)
	p = binary.BigEndian.AppendUint32(p, uint32(len(m.Payload)))
	p = append(p, m.Payload...)
	p = append(p, 'w', 'k', 't', 's')
	p = binary.BigEndian.AppendUint64(p, uint64(m.TSms))
	return channel.Record{ID: m.ID, Epoch: m.Epoch, Payload: p, SizeBytes: len(p)}
}

func quorumRecord(m msgModel) quorumlog.Record {
	return quorumlog.Record{
		ID: m.ID, Index: m.Seq, Epoch: m.Epoch, Setting: m.Setting, FromUID: m.From, ClientMsgNo: m.ClientNo,
		ServerTimestampMS: m.TSms, SyncOnce: m.Flags&4 != 0, Payload: m.Payload,
	}
}

// ---------------------------------------------------------------------------
// Source builder: drives the real message store operation by operation and
// keeps the model in step. Any refusal of a legal operation is harness trouble
// (the message store's own contract is C07-C09, not this property).
// ---------------------------------------------------------------------------

type builder struct {
	r      *simkit.Run
	eng    *message.Engine
	chans  []*chanModel
	nextID uint64
	tsBase int64
	uids   []string
	// tailTrim allows retention to run while the log has an uncommitted tail.
	tailTrim bool
}

func (b *builder) fail(format string, args ...any) bool {
	b.r.Infra("source build: "+format, args...)
	return false
}

func (b *builder) openChannel(c *chanModel) bool {
	if c.store != nil {
		return true
	}
	st, err := b.eng.ForChannel(channel.ChannelKey(c.Key), c.ID)
	if err != nil {
		return b.fail("ForChannel %s: %v", c.Key, err)
	}
	c.store = st
	return true
}

func (b *builder) closeChannels() {
	for _, c := range b.chans {
		if c.store != nil {
			_ = c.store.Close()
			c.store = nil
		}
	}
}

func (b *builder) newMsgs(c *chanModel, n int, bigPayload bool) []msgModel {
	t := b.r.Tape
	out := make([]msgModel, 0, n)
	for i := 0; i < n; i++ {
		seq := c.leo() + uint64(i) + 1
		m := msgModel{Seq: seq, ID: b.nextID, Epoch: c.Epoch, TSms: b.tsBase + int64(b.nextID)}
		b.nextID++
		if n > 64 {
			// bulk rows: cheap, mostly idempotency-carrying
			m.From = b.uids[int(seq)%len(b.uids)]
			m.ClientNo = fmt.Sprintf("k%d-%d", c.cmdNo, seq)
			m.Payload = []byte(fmt.Sprintf("bulk-%d", seq))
		} else {
			if t.Chance(3, 4) {
				m.From = b.uids[t.Intn(len(b.uids))]
				m.ClientNo = fmt.Sprintf("c%d-%d", c.cmdNo, seq)
			} else if t.Chance(1, 2) {
				m.From = b.uids[t.Intn(len(b.uids))]
			}
			ln := t.Intn(24)
			if bigPayload && t.Chance(1, 3) {
				ln = 1000 + t.Intn(7000)
			}
			m.Payload = make([]byte, ln)
			for j := range m.Payload {
				m.Payload[j] = byte(seq*31 + uint64(j)*7 + m.ID)
			}
			if t.Chance(1, 4) {
				m.Setting = uint8(t.Intn(256))
				m.Flags = uint8(t.Intn(64))
				m.Timestamp = int32(1_700_000_000 + t.Intn(1000))
				m.Expire = uint32(t.Intn(100000))
				m.MsgKey = fmt.Sprintf("mk%d", t.Intn(1000))
				m.Topic = []string{"", "t1", "topic/long"}[t.Intn(3)]
			}
		}
		out = append(out, m)
	}
	return out
}

// appendOp appends n messages; commitTo (a boundary <= new LEO, or 0 = leave)
// is persisted atomically with an exact append.
func (b *builder) appendOp(c *chanModel, n int, commit bool, big bool) bool {
	if !b.openChannel(c) {
		return false
	}
	c.cmdNo++
	msgs := b.newMsgs(c, n, big)
	recs := make([]channel.Record, len(msgs))
	for i, m := range msgs {
		recs[i] = encodeRecord(c.ID, m)
	}
	base := c.leo()
	if !c.Exact {
		got, err := c.store.Append(recs)
		if err != nil || got != base {
			return b.fail("Append %s base=%d got=%d err=%v", c.Key, base, got, err)
		}
		c.Msgs = append(c.Msgs, msgs...)
		b.r.Logf("src %s append n=%d leo=%d", c.Key, n, c.leo())
		return true
	}
	man := quorumlog.ProposalManifest{
		Version: quorumlog.ProposalManifestVersion, ChannelEpoch: c.Epoch, LeaderTerm: c.Term, FenceVersion: 1 + c.Epoch,
		BaseOffset: base, LastOffset: base + uint64(n), PreviousIndex: base,
	}
	man.CommandID = sha256.Sum256([]byte(fmt.Sprintf("%s/%d/%d", c.Key, c.cmdNo, msgs[0].ID)))
	if len(c.Props) > 0 {
		prev := c.Props[len(c.Props)-1]
		man.PreviousTerm = prev.Manifest.LeaderTerm
		man.PreviousDigest = prev.Manifest.Digest
	}
	qrecs := make([]quorumlog.Record, len(msgs))
	for i, m := range msgs {
		qrecs[i] = quorumRecord(m)
	}
	sealed, entries, ok := quorumlog.SealProposalManifest(man, qrecs)
	if !ok {
		return b.fail("SealProposalManifest %s base=%d n=%d", c.Key, base, n)
	}
	var committed uint64
	if commit {
		committed = sealed.LastOffset
	}
	res := message.StoreAppendBatch(context.Background(), []message.AppendBatchItem{{
		Store: c.store, Records: recs, ExactBaseOffset: true, ExpectedBaseOffset: base, Proposal: sealed, Committed: committed,
	}})
	if len(res) != 1 || res[0].Err != nil || res[0].Outcome != quorumlog.AppendOutcomeDurable {
		return b.fail("StoreAppendBatch %s base=%d n=%d: %+v", c.Key, base, n, res)
	}
	c.Msgs = append(c.Msgs, msgs...)
	c.Props = append(c.Props, propModel{Base: base, Last: sealed.LastOffset, Manifest: sealed, Entries: entries})
	if committed > c.StoredHW {
		c.StoredHW = committed
		c.StoredCP = true
	}
	b.r.Logf("src %s append-exact n=%d leo=%d committed=%d", c.Key, n, c.leo(), committed)
	return true
}

func (b *builder) checkpointOp(c *chanModel, hw uint64) bool {
	if !b.openChannel(c) {
		return false
	}
	start := c.Adopted
	if start > hw {
		start = hw
	}
	cp := channel.Checkpoint{Epoch: c.Epoch, LogStartOffset: start, HW: hw}
	if err := c.store.StoreCheckpoint(cp); err != nil {
		return b.fail("StoreCheckpoint %s %+v: %v", c.Key, cp, err)
	}
	c.StoredHW, c.StoredCP, c.StoredStart = hw, true, start
	b.r.Logf("src %s checkpoint epoch=%d start=%d hw=%d", c.Key, cp.Epoch, start, hw)
	return true
}

func (b *builder) epochOp(c *chanModel) bool {
	if !b.openChannel(c) {
		return false
	}
	c.Epoch++
	c.Term++
	pt := channel.EpochPoint{Epoch: c.Epoch, StartOffset: c.leo()}
	if err := c.store.AppendHistory(pt); err != nil {
		return b.fail("AppendHistory %s %+v: %v", c.Key, pt, err)
	}
	c.History = append(c.History, pt)
	b.r.Logf("src %s epoch=%d start=%d", c.Key, pt.Epoch, pt.StartOffset)
	return true
}

func (b *builder) trimOp(c *chanModel, through uint64, limit int) bool {
	if !b.openChannel(c) {
		return false
	}
	if err := c.store.AdoptRetentionBoundary(context.Background(), through, "dispatch"); err != nil {
		return b.fail("AdoptRetentionBoundary %s %d: %v", c.Key, through, err)
	}
	if through > c.Adopted {
		c.Adopted = through
	}
	if cur, ok := c.Cursors["dispatch"]; !ok || cur < c.Adopted {
		c.Cursors["dispatch"] = c.Adopted
	}
	res, err := c.store.TrimMessagesThroughLimit(context.Background(), through, message.RetentionTrimOptions{MaxMessages: limit})
	if err != nil {
		return b.fail("TrimMessagesThroughLimit %s %d: %v", c.Key, through, err)
	}
	if res.Deleted > 0 && res.DeletedThroughSeq > c.Trimmed {
		c.Trimmed = res.DeletedThroughSeq
	}
	if !res.More && through > c.Trimmed {
		c.Trimmed = through
	}
	c.RetainedMax = max(c.RetainedMax, c.leo(), through)
	b.r.Logf("src %s trim through=%d limit=%d deleted=%d more=%v trimmed=%d", c.Key, through, limit, res.Deleted, res.More, c.Trimmed)
	return true
}

func (b *builder) truncateOp(c *chanModel, to uint64) bool {
	if !b.openChannel(c) {
		return false
	}
	// a replica dropping a divergent suffix drops the epoch points that start inside it too
	if err := c.store.TruncateLogAndHistory(context.Background(), to); err != nil {
		return b.fail("TruncateLogAndHistory %s to=%d leo=%d: %v", c.Key, to, c.leo(), err)
	}
	c.Msgs = c.Msgs[:to]
	for len(c.History) > 0 && c.History[len(c.History)-1].StartOffset > to {
		c.History = c.History[:len(c.History)-1]
	}
	if c.Adopted > 0 && c.RetainedMax > to {
		c.RetainedMax = to
	}
	for len(c.Props) > 0 && c.Props[len(c.Props)-1].Last > to {
		c.Props = c.Props[:len(c.Props)-1]
	}
	b.r.Logf("src %s truncate to=%d", c.Key, to)
	return true
}

func (b *builder) cursorOp(c *chanModel, name string, seq uint64) bool {
	if !b.openChannel(c) {
		return false
	}
	if err := c.store.StoreCommittedDispatchCursor(name, seq); err != nil {
		return b.fail("StoreCommittedDispatchCursor %s %s=%d: %v", c.Key, name, seq, err)
	}
	if cur, ok := c.Cursors[name]; !ok || cur < seq { // the store keeps cursors monotonic
		c.Cursors[name] = seq
	}
	b.r.Logf("src %s cursor %s=%d", c.Key, name, seq)
	return true
}

func (b *builder) snapshotOp(c *chanModel, payload []byte) bool {
	if !b.openChannel(c) {
		return false
	}
	if err := c.store.StoreSnapshotPayload(payload); err != nil {
		return b.fail("StoreSnapshotPayload %s: %v", c.Key, err)
	}
	c.Snapshot = payload
	b.r.Logf("src %s snapshot-payload len=%d", c.Key, len(payload))
	return true
}

// step performs one tape-chosen operation on one tape-chosen channel.
func (b *builder) step() bool {
	t := b.r.Tape
	c := b.chans[t.Intn(len(b.chans))]
	if c.Frozen {
		return true
	}
	bounds := c.boundaries()
	// benign first: small committed append
	switch t.Weighted([]int{10, 6, 3, 2, 3, 2, 1, 1}) {
	case 0:
		return b.appendOp(c, 1+t.Intn(4), true, false)
	case 1: // uncommitted append (suffix above the committed watermark)
		return b.appendOp(c, 1+t.Intn(4), false, t.Chance(1, 6))
	case 2: // checkpoint at a boundary >= current stored HW
		var cands []uint64
		for _, x := range bounds {
			if x >= c.StoredHW && x >= c.Adopted {
				cands = append(cands, x)
			}
		}
		if len(cands) == 0 {
			return true
		}
		return b.checkpointOp(c, cands[t.Intn(len(cands))])
	case 3:
		return b.epochOp(c)
	case 4: // retention: only committed rows are ever adopted
		if !b.tailTrim && c.leo() != c.StoredHW {
			return true // this run never trims while an uncommitted tail exists
		}
		if c.StoredHW == 0 || c.StoredHW <= c.Adopted && c.Trimmed >= c.Adopted {
			return true
		}
		through := c.Adopted
		if c.StoredHW > c.Adopted {
			through = c.Adopted + 1 + uint64(t.Intn(int(c.StoredHW-c.Adopted)))
		}
		limit := 0
		if t.Chance(1, 3) {
			limit = 1 + t.Intn(3)
		}
		return b.trimOp(c, through, limit)
	case 5: // drop (part of) the uncommitted suffix, as a deposed leader's replica would
		var cands []uint64
		for _, x := range bounds {
			if x >= c.StoredHW && x >= c.Adopted && x < c.leo() {
				cands = append(cands, x)
			}
		}
		if len(cands) == 0 {
			return true
		}
		return b.truncateOp(c, cands[t.Intn(len(cands))])
	case 6:
		return b.cursorOp(c, []string{"dispatch", "conv"}[t.Intn(2)], uint64(t.Intn(int(c.leo())+1)))
	default:
		return b.snapshotOp(c, t.Bytes(1+t.Intn(40)))
	}
}

// chooseCuts picks the exported committed watermark of every channel: a
// proposal boundary between the stored checkpoint (and adopted retention
// boundary) and the log end. pkg/cluster's OpenBackupMessageSnapshot selects the
// leader runtime's HW, the stored HW, or the log end (MinISR<=1), i.e. exactly
// this range.
func (b *builder) chooseCuts() {
	t := b.r.Tape
	for _, c := range b.chans {
		var cands []uint64
		for _, x := range c.boundaries() {
			if x >= c.Adopted && x >= c.StoredHW {
				cands = append(cands, x)
			}
		}
		// benign: the stored HW when it is legal
		pick := cands[0]
		legalStored := false
		for _, x := range cands {
			if x == c.StoredHW {
				legalStored = true
			}
		}
		if legalStored && !t.Chance(1, 3) {
			pick = c.StoredHW
		} else {
			pick = cands[t.Intn(len(cands))]
		}
		c.CutHW = pick
		c.CutStart = c.Adopted
		if c.CutStart > pick {
			c.CutStart = pick
		}
		c.CutEpoch = c.Epoch
		b.r.Logf("cut %s slot=%d exact=%v leo=%d storedHW=%d adopted=%d trimmed=%d retainedMax=%d -> hw=%d start=%d epoch=%d",
			c.Key, c.Slot, c.Exact, c.leo(), c.StoredHW, c.Adopted, c.Trimmed, c.RetainedMax, c.CutHW, c.CutStart, c.CutEpoch)
	}
}

func sortedChans(cs []*chanModel) []*chanModel {
	out := append([]*chanModel(nil), cs...)
	sort.Slice(out, func(i, j int) bool { return out[i].Key < out[j].Key })
	return out
}
