package restoresim

import (
	"bytes"
	"context"
	"errors"
	"fmt"
	"hash/crc32"
	"io"

	"github.com/WuKongIM/WuKongIM/internal/verifsim/simkit"
	"github.com/WuKongIM/WuKongIM/pkg/db/message"
	channel "github.com/WuKongIM/WuKongIM/pkg/db/message/channelcompat"
	metadb "github.com/WuKongIM/WuKongIM/pkg/db/meta"
	"github.com/cockroachdb/pebble/v2/vfs"
)

// ---------------------------------------------------------------------------
// A node: one message engine and one metadata DB on one simulated disk.
// ---------------------------------------------------------------------------

type node struct {
	name string
	gate *gateFS
	msg  *message.Engine
	meta *metadb.DB
}

func openNode(name string, gate *gateFS, memTable uint64, l0 int) (*node, error) {
	saved := nextOpen
	defer func() { nextOpen = saved }()
	nextOpen = openKnobs{fs: gate, memTable: memTable, l0: l0}
	msg, err := message.Open("/" + name + "/message")
	if err != nil {
		return nil, fmt.Errorf("open message store: %w", err)
	}
	// one request per physical commit, no collection window: the harness is the only caller
	msg.ConfigureCommitCoordinator(message.CommitCoordinatorConfig{FlushWindow: -1})
	meta, err := metadb.Open("/" + name + "/meta")
	if err != nil {
		_ = msg.Close()
		return nil, fmt.Errorf("open meta store: %w", err)
	}
	return &node{name: name, gate: gate, msg: msg, meta: meta}, nil
}

func (n *node) close() {
	if n == nil {
		return
	}
	if n.msg != nil {
		_ = n.msg.Close()
		n.msg = nil
	}
	if n.meta != nil {
		_ = n.meta.Close()
		n.meta = nil
	}
}

type nodeDump struct{ msg, meta rawDump }

func dumpNode(n *node) (nodeDump, error) {
	m, err := dumpEngine(n.gate.mem, "/"+n.name+"/message")
	if err != nil {
		return nodeDump{}, err
	}
	md, err := dumpEngine(n.gate.mem, "/"+n.name+"/meta")
	if err != nil {
		return nodeDump{}, err
	}
	return nodeDump{msg: m, meta: md}, nil
}

func diffNode(a, b nodeDump) string {
	if d := diffDumps(a.msg, b.msg); d != "" {
		return "message store: " + d
	}
	if d := diffDumps(a.meta, b.meta); d != "" {
		return "meta store: " + d
	}
	return ""
}

// ---------------------------------------------------------------------------
// Export with the real exporters.
// ---------------------------------------------------------------------------

func readAllChunked(rc io.ReadCloser, chunk int) ([]byte, error) {
	defer rc.Close()
	if chunk <= 0 {
		return io.ReadAll(rc)
	}
	var out []byte
	buf := make([]byte, chunk)
	for {
		n, err := rc.Read(buf)
		out = append(out, buf[:n]...)
		if err == io.EOF {
			return out, nil
		}
		if err != nil {
			return out, err
		}
	}
}

func exportMeta(n *node, slot uint16, chunk int) ([]byte, error) {
	rc, err := n.meta.MetaDB().OpenBackupHashSlotSnapshot(context.Background(), []uint16{slot})
	if err != nil {
		return nil, err
	}
	return readAllChunked(rc, chunk)
}

func exportMessages(n *node, slot uint16, cuts []message.BackupChannelCut, withStats bool, chunk int) ([]byte, message.BackupSnapshotStats, error) {
	req := message.BackupSnapshotRequest{HashSlot: slot, Channels: cuts}
	if withStats {
		rc, st, err := n.msg.OpenBackupSnapshotWithStats(context.Background(), req)
		if err != nil {
			return nil, st, err
		}
		b, err := readAllChunked(rc, chunk)
		return b, st, err
	}
	rc, err := n.msg.OpenBackupSnapshot(context.Background(), req)
	if err != nil {
		return nil, message.BackupSnapshotStats{}, err
	}
	b, err := readAllChunked(rc, chunk)
	return b, message.BackupSnapshotStats{}, err
}

// ---------------------------------------------------------------------------
// The byte stream between exporter and importer, owned by the simulator.
// ---------------------------------------------------------------------------

var errInjectedIO = errors.New("restoresim: injected stream I/O error")

// faultReader is the io.ReadSeeker handed to the real verifier/importer.
type faultReader struct {
	data    []byte
	pos     int64
	chunk   int   // >0: at most chunk bytes per Read (short reads)
	errAt   int64 // >=0: offset at which a Read fails ...
	errPass int   // ... the errPass-th time a Read starts there
	hits    int
	fired   bool
	shorts  int
	onRead  func(from, to int64) // observes every successful Read [from,to)
}

func newFaultReader(data []byte) *faultReader { return &faultReader{data: data, errAt: -1} }

func (f *faultReader) Read(p []byte) (int, error) {
	if f.pos >= int64(len(f.data)) {
		return 0, io.EOF
	}
	if len(p) == 0 {
		return 0, nil
	}
	n := len(p)
	if f.chunk > 0 && n > f.chunk {
		n = f.chunk
		f.shorts++
	}
	if rem := int64(len(f.data)) - f.pos; int64(n) > rem {
		n = int(rem)
	}
	if f.errAt >= 0 {
		if f.pos == f.errAt {
			f.hits++
			if f.hits == f.errPass {
				f.fired = true
				return 0, errInjectedIO
			}
		} else if f.pos < f.errAt && f.pos+int64(n) > f.errAt {
			n = int(f.errAt - f.pos)
		}
	}
	if f.onRead != nil {
		f.onRead(f.pos, f.pos+int64(n))
	}
	copy(p, f.data[f.pos:f.pos+int64(n)])
	f.pos += int64(n)
	return n, nil
}

func (f *faultReader) Seek(off int64, whence int) (int64, error) {
	var np int64
	switch whence {
	case io.SeekStart:
		np = off
	case io.SeekCurrent:
		np = f.pos + off
	case io.SeekEnd:
		np = int64(len(f.data)) + off
	default:
		return 0, errors.New("bad whence")
	}
	if np < 0 {
		return 0, errors.New("negative seek")
	}
	f.pos = np
	return np, nil
}

func reseal(b []byte) []byte {
	if len(b) < 4 {
		return b
	}
	out := append([]byte(nil), b...)
	sum := crc32.ChecksumIEEE(out[:len(out)-4])
	out[len(out)-4], out[len(out)-3], out[len(out)-2], out[len(out)-1] = byte(sum>>24), byte(sum>>16), byte(sum>>8), byte(sum)
	return out
}

// mutateStream applies one tape-chosen corruption to orig. other is the same
// kind of stream of another hash slot. It returns the mutated bytes, the fault
// kind and whether the trailer was re-sealed afterwards (checksum-valid).
func mutateStream(r *simkit.Run, orig, other []byte) (out []byte, kind string, sealed bool) {
	t := r.Tape
	n := len(orig)
	pickRange := func(limit int) (int, int) {
		a := t.Intn(limit)
		ln := 1 + t.Intn(64)
		if t.Chance(1, 4) {
			ln = 1 + t.Intn(limit)
		}
		b := a + ln
		if b > limit {
			b = limit
		}
		return a, b
	}
	switch t.Weighted([]int{4, 4, 2, 2, 3, 2, 2, 7}) {
	case 0: // truncation at any offset; a third of the time inside the 4-byte trailer
		kind = "truncate"
		cut := t.Intn(n)
		if t.Chance(1, 3) && n > 4 {
			cut = n - 1 - t.Intn(4)
		}
		out = append([]byte(nil), orig[:cut]...)
	case 1:
		kind = "bitflip"
		out = append([]byte(nil), orig...)
		k := 1
		if t.Chance(1, 4) {
			k = 2 + t.Intn(3)
		}
		for i := 0; i < k; i++ {
			at := t.Intn(n)
			if t.Chance(1, 5) && n > 4 { // one of the four checksum trailer bytes
				at = n - 1 - t.Intn(4)
			}
			out[at] ^= 1 << uint(t.Intn(8))
		}
	case 2:
		kind = "duplicate"
		a, b := pickRange(n)
		out = append(append(append([]byte(nil), orig[:b]...), orig[a:b]...), orig[b:]...)
	case 3:
		kind = "reorder"
		a, b := pickRange(n)
		c := b + 1 + t.Intn(64)
		if c > n {
			c = n
		}
		out = append(append(append(append([]byte(nil), orig[:a]...), orig[b:c]...), orig[a:b]...), orig[c:]...)
	case 4: // a segment of another hash slot's stream spliced in place
		kind = "splice"
		a, b := pickRange(n)
		oa, ob := pickRange(len(other))
		out = append(append(append([]byte(nil), orig[:a]...), other[oa:ob]...), orig[b:]...)
	case 5: // the whole stream is another hash slot's (checksum-valid by construction)
		kind = "foreign"
		out = append([]byte(nil), other...)
		return out, kind, true
	case 6: // header of this slot, body of the other slot
		kind = "graft"
		h := 8 + t.Intn(24)
		if h > n {
			h = n
		}
		if h > len(other) {
			h = len(other)
		}
		out = append(append([]byte(nil), orig[:h]...), other[h:]...)
	default:
		// One bit inside a tape-chosen *kind of field* (every field class is hit equally
		// often, however few bytes it has), usually re-sealed: the outer checksum then
		// passes and the inner validation of exactly that field is what must hold.
		classes := streamFieldClasses(orig)
		if len(classes) == 0 {
			kind = "bitflip"
			out = append([]byte(nil), orig...)
			out[t.Intn(n)] ^= 1 << uint(t.Intn(8))
			break
		}
		cl := classes[t.Intn(len(classes))]
		sp := cl.spans[t.Intn(len(cl.spans))]
		kind = "fieldflip-" + cl.name
		out = append([]byte(nil), orig...)
		out[sp[0]+t.Intn(sp[1]-sp[0])] ^= 1 << uint(t.Intn(8))
		if cl.name != "trailer" && t.Chance(2, 3) {
			return reseal(out), kind, true
		}
		return out, kind, false
	}
	if kind != "truncate" && t.Chance(1, 5) {
		out = reseal(out)
		sealed = true
	}
	return out, kind, sealed
}

// ---------------------------------------------------------------------------
// Node-local restore orchestration: a line-by-line mirror of
// pkg/cluster.(*Node).InstallLocalRestorePartition / DiscardLocalRestorePartition
// (the cluster node itself is not part of this world). Every storage call is
// the real one.
// ---------------------------------------------------------------------------

type installMode int

const (
	modeFull   installMode = iota // verify, boundaries, discard, import (production order)
	modeDirect                    // hand the streams straight to the importers
)

type restoreInput struct {
	slot  uint16
	meta  *faultReader
	msgs  []*faultReader
	route func(id string) (uint16, bool)
	page  int // catalog page size used by discard
}

type stepError struct {
	step string
	err  error
}

func (e *stepError) Error() string { return e.step + ": " + e.err.Error() }

var errRoute = errors.New("restoresim: stream does not belong to the hash slot")

func verifyStreams(in restoreInput) error {
	ctx := context.Background()
	if _, err := metadb.VerifyBackupHashSlotSnapshotReader(ctx, []uint16{in.slot}, in.meta, int64(len(in.meta.data))); err != nil {
		return &stepError{"verify-meta", err}
	}
	seen := map[string]bool{}
	for _, s := range in.msgs {
		st, err := message.ReplayBackupSnapshotReader(ctx, s, int64(len(s.data)),
			func(b message.BackupSnapshotBoundary) error {
				k := fmt.Sprintf("%d:%s", b.ChannelType, b.ChannelID)
				if b.ChannelID == "" || seen[k] {
					return errRoute
				}
				seen[k] = true
				if slot, ok := in.route(b.ChannelID); !ok || slot != in.slot {
					return errRoute
				}
				return nil
			},
			func(message.BackupSnapshotRecord) error { return nil })
		if err != nil {
			return &stepError{"verify-messages", err}
		}
		if st.HashSlot != in.slot {
			return &stepError{"verify-messages", errRoute}
		}
	}
	return nil
}

func streamBoundaries(in restoreInput) error {
	ctx := context.Background()
	for _, s := range in.msgs {
		if _, err := s.Seek(0, io.SeekStart); err != nil {
			return &stepError{"boundaries", err}
		}
		if _, err := message.ReplayBackupSnapshotReader(ctx, s, int64(len(s.data)),
			func(message.BackupSnapshotBoundary) error { return nil },
			func(message.BackupSnapshotRecord) error { return nil }); err != nil {
			return &stepError{"boundaries", err}
		}
	}
	return nil
}

type discardStats struct{ channels, pages int }

// discardPartition removes every local channel routed to slot and the slot's metadata.
func discardPartition(n *node, slot uint16, route func(string) (uint16, bool), page int) (discardStats, error) {
	ctx := context.Background()
	var st discardStats
	var cursor message.ChannelKey
	for {
		entries, next, more, err := n.msg.ListChannelsPage(ctx, cursor, page)
		if err != nil {
			return st, &stepError{"discard-list", err}
		}
		st.pages++
		for _, e := range entries {
			if s, ok := route(e.ID.ID); !ok || s != slot {
				continue
			}
			cs, err := n.msg.ForChannel(channel.ChannelKey(e.Key), channel.ChannelID{ID: e.ID.ID, Type: e.ID.Type})
			if err != nil {
				return st, &stepError{"discard-open", err}
			}
			derr := cs.DiscardForRestore(ctx)
			cerr := cs.Close()
			if derr != nil || cerr != nil {
				return st, &stepError{"discard-channel", errors.Join(derr, cerr)}
			}
			st.channels++
		}
		if !more {
			break
		}
		if next == "" || next == cursor {
			return st, &stepError{"discard-list", errors.New("cursor did not advance")}
		}
		cursor = next
	}
	if err := n.meta.MetaDB().DeleteHashSlotData(ctx, slot); err != nil {
		return st, &stepError{"discard-meta", err}
	}
	return st, nil
}

func importStreams(n *node, in restoreInput) error {
	ctx := context.Background()
	if in.meta != nil {
		if _, err := in.meta.Seek(0, io.SeekStart); err != nil {
			return &stepError{"import-meta", err}
		}
		if _, err := n.meta.MetaDB().ImportHashSlotSnapshotReaderForRestoreWithStats(ctx, []uint16{in.slot}, in.meta, int64(len(in.meta.data)), false); err != nil {
			return &stepError{"import-meta", err}
		}
	}
	for _, s := range in.msgs {
		if _, err := s.Seek(0, io.SeekStart); err != nil {
			return &stepError{"import-messages", err}
		}
		st, err := n.msg.ImportBackupSnapshotReader(ctx, s, int64(len(s.data)))
		if err != nil {
			return &stepError{"import-messages", err}
		}
		if st.HashSlot != in.slot {
			return &stepError{"import-messages-slot", errRoute}
		}
	}
	return nil
}

func install(n *node, in restoreInput, mode installMode) error {
	if mode == modeFull {
		if err := verifyStreams(in); err != nil {
			return err
		}
		if err := streamBoundaries(in); err != nil {
			return err
		}
		if _, err := discardPartition(n, in.slot, in.route, in.page); err != nil {
			return err
		}
	}
	return importStreams(n, in)
}

func stepOf(err error) string {
	var se *stepError
	if errors.As(err, &se) {
		return se.step
	}
	return "?"
}

// mutating reports whether a failure at this step may have left partial state.
func mutatingStep(step string) bool {
	switch step {
	case "verify-meta", "verify-messages", "boundaries":
		return false
	}
	return true
}

func cloneDisk(mem *vfs.MemFS) *gateFS {
	c := crashClone(mem, true)
	return &gateFS{FS: c, mem: c}
}

func equalBytes(a, b []byte) bool { return bytes.Equal(a, b) }
