package restoresim

import (
	"context"
	"encoding/binary"
	"fmt"

	metadb "github.com/WuKongIM/WuKongIM/pkg/db/meta"
)

// The importers apply a stream in bounded batches (1024 metadata entries, 1024
// message rows, 16 MiB). Whether the last record of a stream closes a batch or
// leaves a partial one takes different code paths (closing flush with nothing
// staged), so some runs place the exported counts exactly on and next to those
// boundaries, and every run asks what a power loss leaves behind right after a
// restore was acknowledged.

// metaEntryCount reads the entry count from the header of a single-slot
// metadata stream: magic(4) version(2) slots(2) slot(2) count(8).
func metaEntryCount(stream []byte) uint64 {
	if len(stream) < 18 {
		return 0
	}
	return binary.BigEndian.Uint64(stream[10:18])
}

// padMeta adds plain user rows to slot A of the source until its backup stream
// carries exactly target entries (when the random writes left room for that).
func (h *harness) padMeta(target int) bool {
	r := h.r
	ctx := context.Background()
	next := 0
	for round := 0; round < 4; round++ {
		stream, err := exportMeta(h.src, h.slotA, 0)
		if err != nil {
			r.Failf("export.failed", "metadata export of hash slot %d failed: %v", h.slotA, err)
			return false
		}
		have := int(metaEntryCount(stream))
		if have >= target {
			r.Logf("src meta slot=%d padded to %d entries (target %d)", h.slotA, have, target)
			return true
		}
		b := h.src.meta.MetaDB().NewBatch()
		for i := have; i < target; i++ {
			next++
			if err := b.UpsertUser(h.slotA, metadb.User{UID: fmt.Sprintf("pad%06d", next), Token: "t", DeviceFlag: int64(next % 3)}); err != nil {
				_ = b.Close()
				r.Infra("pad metadata: UpsertUser: %v", err)
				return false
			}
		}
		err = b.Commit(ctx)
		_ = b.Close()
		if err != nil {
			r.Infra("pad metadata: commit: %v", err)
			return false
		}
	}
	r.Logf("src meta slot=%d could not be padded to exactly %d entries", h.slotA, target)
	return true
}

// restoreThroughWriter installs slot A's metadata stream through the other real
// install path (ReplayBackupHashSlotSnapshot feeding a RestoreSnapshotWriter) into
// a node that has nothing for the slot, cuts the power right after Close
// returned, and requires the metadata store of the fault-free restore.
func (h *harness) restoreThroughWriter(pre *gateFS, refDump nodeDump) bool {
	r := h.r
	ctx := context.Background()
	g := cloneDisk(pre.mem)
	n, ok := h.openTarget(g)
	if !ok {
		return false
	}
	defer n.close()
	w, err := n.meta.MetaDB().NewRestoreSnapshotWriter(ctx, []uint16{h.slotA}, false)
	if err != nil {
		r.Failf("restore.failed", "NewRestoreSnapshotWriter: %v", err)
		return false
	}
	in := newFaultReader(h.expA.meta)
	slots, stats, err := metadb.ReplayBackupHashSlotSnapshot(ctx, in, int64(len(in.data)), func(e metadb.BackupSnapshotEntry) error {
		return w.Put(ctx, e.Key, e.Value)
	})
	cerr := w.Close()
	if err != nil || cerr != nil || len(slots) != 1 || slots[0] != h.slotA || stats.EntryCount != h.metaEntries {
		r.FailSig("restore.failed", "writer", fmt.Sprintf("metadata restore through the snapshot writer failed: replay=%v close=%v slots=%v entries=%d want %d", err, cerr, slots, stats.EntryCount, h.metaEntries), nil)
		return false
	}
	img := crashClone(g.mem, false)
	got, err := dumpEngine(img, "/"+targetName+"/meta")
	if err != nil {
		r.FailSig("restore.not_durable", "reopen", fmt.Sprintf("the metadata store does not reopen after a power loss that follows an acknowledged restore: %v", err), nil)
		return false
	}
	r.Fault("crash.power_loss_after_ack")
	if d := diffDumps(refDump.meta, got); d != "" {
		r.FailSig("restore.not_durable", "writer-power-loss-after-ack",
			fmt.Sprintf("the snapshot writer acknowledged %d metadata entries but a power loss right afterwards leaves a different store: %s (left = fault-free restore, right = after the crash)", h.metaEntries, d), nil)
		return false
	}
	r.Probe("restore.writer_durable_after_ack")
	return true
}
