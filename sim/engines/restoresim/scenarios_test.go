package restoresim

import (
	"fmt"
	"sort"
	"sync"

	channel "github.com/WuKongIM/WuKongIM/pkg/db/message/channelcompat"
	"github.com/cockroachdb/pebble/v2/vfs"
)

func (h *harness) pickMode() installMode {
	if h.r.Tape.Chance(1, 3) {
		return modeDirect
	}
	return modeFull
}

func modeName(m installMode) string {
	if m == modeDirect {
		return "direct"
	}
	return "full"
}

// scenarioNone: importing the same streams a second time changes nothing.
func (h *harness) scenarioNone(ref *node, refDump nodeDump) bool {
	r := h.r
	if err := importStreams(ref, h.input(h.expA, h.slotA)); err != nil {
		r.Failf("restore.not_idempotent", "second import of the same streams failed: %v", err)
		return false
	}
	r.Logf("second import ok")
	if !h.sameAs(ref, refDump, "restore.not_idempotent", "state", "state changed by importing the same streams twice") {
		return false
	}
	r.Probe("restore.idempotent_reimport")
	return true
}

// retryAndCompare runs a fault-free restore on n and requires the reference state.
func (h *harness) retryAndCompare(n *node, mode installMode, refDump nodeDump, class string, what string) bool {
	r := h.r
	if err := install(n, h.input(h.expA, h.slotA), mode); err != nil {
		r.FailSig(class, "retry-failed", fmt.Sprintf("%s: retried %s restore failed: %v", what, modeName(mode), err), nil)
		return false
	}
	return h.sameAs(n, refDump, class, "retry-diverged", what+": retried restore did not converge to the fault-free state")
}

type crashPoint struct {
	ord  int
	keep bool
}

// scenarioCrashWAL crashes the node at enumerated WAL-sync boundaries of one
// restore, reopens each crash image and retries.
func (h *harness) scenarioCrashWAL(pre *gateFS, refDump nodeDump, nSyncs int) bool {
	r := h.r
	tp := r.Tape
	if nSyncs == 0 {
		return false
	}
	// Logical crash states of a restore with N synchronous commits: "j commits
	// durable", j = 0..N-1 (the complete state N is the fault-free case). State j
	// is reached physically either by losing the unsynced tail just before sync
	// j+1 (power loss) or by keeping it just before sync j (process kill while
	// commit j is written but not yet synced); the tape picks the variant.
	var all []crashPoint
	for j := 0; j < nSyncs; j++ {
		if j > 0 && tp.Chance(1, 2) {
			all = append(all, crashPoint{j, true})
		} else {
			all = append(all, crashPoint{j + 1, false})
		}
	}
	const maxPoints = 8
	pts := all
	exhaustive := true
	if len(all) > maxPoints {
		exhaustive = false
		pts = nil
		// draw without replacement (a zero tape picks the first states)
		rest := make([]int, len(all))
		for i := range rest {
			rest[i] = i
		}
		var idx []int
		for len(idx) < maxPoints-2 {
			k := tp.Intn(len(rest))
			idx = append(idx, rest[k])
			rest = append(rest[:k], rest[k+1:]...)
		}
		sort.Ints(idx)
		for _, i := range idx {
			pts = append(pts, all[i])
		}
	}
	want := map[int][]bool{}
	for _, p := range pts {
		want[p.ord] = append(want[p.ord], p.keep)
	}
	g := cloneDisk(pre.mem)
	n, ok := h.openTarget(g)
	if !ok {
		return false
	}
	var mu sync.Mutex
	images := map[crashPoint]*vfs.MemFS{}
	g.arm(func(ord int, after bool) {
		if after {
			return
		}
		for _, keep := range want[ord] {
			img := crashClone(g.mem, keep)
			mu.Lock()
			images[crashPoint{ord, keep}] = img
			mu.Unlock()
		}
	})
	err := install(n, h.input(h.expA, h.slotA), modeFull)
	got, rot := g.disarm()
	n.close()
	if err != nil {
		r.Failf("restore.failed", "fault-free restore failed on the second disk: %v", err)
		return false
	}
	if got != nSyncs || rot > 0 {
		r.Infra("WAL sync count not reproducible: %d vs %d (rotations %d)", got, nSyncs, rot)
		return false
	}
	for _, p := range pts {
		img := images[p]
		if img == nil {
			r.Infra("crash image %v missing", p)
			return false
		}
		mode := h.pickMode()
		r.Logf("crash before wal-sync %d/%d unsynced-kept=%v retry=%s", p.ord, nSyncs, p.keep, modeName(mode))
		if p.keep {
			r.Fault("crash.process_kill")
		} else {
			r.Fault("crash.power_loss")
		}
		cn, ok := h.openTarget(&gateFS{FS: img, mem: img})
		if !ok {
			return false
		}
		ok = h.retryAndCompare(cn, mode, refDump, "crash.retry", fmt.Sprintf("crash before WAL sync %d of %d (unsynced kept=%v)", p.ord, nSyncs, p.keep))
		cn.close()
		if !ok {
			return false
		}
		r.Steps++
	}
	r.ProbeN("crash.points", len(pts))
	if exhaustive {
		r.Probe("crash.all_points_of_restore")
	}
	return true
}

// scenarioCrashRead crashes the node while an importer/verifier is reading a
// tape-chosen offset of a tape-chosen stream for the k-th time (i.e. between
// two commits of the restore), reopens the crash image and retries.
func (h *harness) scenarioCrashRead(pre *gateFS, refDump nodeDump) bool {
	r := h.r
	tp := r.Tape
	g := cloneDisk(pre.mem)
	n, ok := h.openTarget(g)
	if !ok {
		return false
	}
	in := h.input(h.expA, h.slotA)
	readers := append([]*faultReader{in.meta}, in.msgs...)
	which := 1 + tp.Intn(len(readers)-1) // benign: a message stream
	if tp.Chance(1, 4) {
		which = 0
	}
	fr := readers[which]
	chunk := []int{64, 1, 13, 700, 5000}[tp.Intn(5)]
	for _, x := range readers {
		x.chunk = chunk
	}
	type trig struct {
		at   int64
		pass int
		keep bool
		img  *vfs.MemFS
		seen int
	}
	nTrig := 1 + tp.Intn(3)
	trigs := make([]*trig, 0, nTrig)
	for i := 0; i < nTrig; i++ {
		// the apply pass is the last pass over a stream: 7th (messages) / 5th (metadata) in the full procedure
		pass := 7
		if which == 0 {
			pass = 5
		}
		if tp.Chance(1, 4) {
			pass = 1 + tp.Intn(pass)
		}
		trigs = append(trigs, &trig{at: h.pickOffset(fr, which), pass: pass, keep: tp.Chance(1, 2)})
	}
	fr.onRead = func(from, to int64) {
		for _, tg := range trigs {
			if tg.img == nil && from <= tg.at && tg.at < to {
				tg.seen++
				if tg.seen == tg.pass {
					tg.img = crashClone(g.mem, tg.keep)
				}
			}
		}
	}
	err := install(n, in, modeFull)
	n.close()
	if err != nil {
		r.Failf("restore.failed", "fault-free restore with short reads failed: %v", err)
		return false
	}
	fired := false
	for _, tg := range trigs {
		if tg.img == nil {
			r.Logf("crash-at-read stream=%d offset=%d pass=%d not reached", which, tg.at, tg.pass)
			continue
		}
		fired = true
		mode := h.pickMode()
		r.Logf("crash at read stream=%d offset=%d pass=%d unsynced-kept=%v retry=%s", which, tg.at, tg.pass, tg.keep, modeName(mode))
		r.Fault("crash.at_importer_read")
		cn, ok := h.openTarget(&gateFS{FS: tg.img, mem: tg.img})
		if !ok {
			return false
		}
		h.probePartial(cn)
		ok = h.retryAndCompare(cn, mode, refDump, "crash.retry", fmt.Sprintf("crash while stream %d offset %d was read for the %d. time", which, tg.at, tg.pass))
		cn.close()
		if !ok {
			return false
		}
		r.ProbeN("crash.points", 1)
		r.Steps++
	}
	return fired
}

// probePartial records whether the node holds a partially restored big channel
// (more rows than one cleanup page).
func (h *harness) probePartial(n *node) {
	for _, c := range h.chansOf(h.slotA) {
		if c.CutHW-c.Trimmed <= 1024 {
			continue
		}
		cs, err := n.msg.ForChannel(channel.ChannelKey(c.Key), c.ID)
		if err != nil {
			continue
		}
		leo, err := cs.LEOWithError()
		_ = cs.Close()
		if err == nil && leo > c.Trimmed+1024 {
			h.r.Probe("cleanup.multi_page_channel_present")
		} else if err == nil && leo > 0 && leo < c.CutHW {
			h.r.Probe("crash.partial_big_channel")
		}
	}
}

func (h *harness) pickStream(in restoreInput, other exportSet) (fr *faultReader, otherBytes []byte, idx int) {
	tp := h.r.Tape
	idx = 1 + tp.Intn(len(in.msgs))
	if tp.Chance(1, 3) {
		idx = 0
	}
	if idx == 0 {
		return in.meta, other.meta, 0
	}
	return in.msgs[idx-1], other.msg, idx
}

// scenarioCorrupt hands one corrupted / truncated / mismatched stream to the restore.
func (h *harness) scenarioCorrupt(pre *gateFS, preDump nodeDump) bool {
	r := h.r
	tp := r.Tape
	g := cloneDisk(pre.mem)
	n, ok := h.openTarget(g)
	if !ok {
		return false
	}
	// several independent corruptions against the same (still untouched) target
	trials := 1 + tp.Intn(5)
	fired := false
	for i := 0; i < trials; i++ {
		done, hit := h.corruptTrial(n, preDump)
		fired = fired || hit
		if r.Failed() || r.InfraErr != "" {
			break
		}
		if done && i+1 < trials {
			// a checksum-valid mutation was legitimately applied: go on with an untouched target
			n.close()
			if n, ok = h.openTarget(cloneDisk(pre.mem)); !ok {
				return fired
			}
		}
	}
	return fired
}

// corruptTrial applies one corrupted stream. done reports that the target no
// longer equals its pre-import state for a legitimate reason (a checksum-valid
// mutation was accepted) or that the run failed.
func (h *harness) corruptTrial(n *node, preDump nodeDump) (done, fired bool) {
	r := h.r
	tp := r.Tape
	in := h.input(h.expA, h.slotA)
	fr, other, idx := h.pickStream(in, h.expB)
	mut, kind, sealed := mutateStream(r, fr.data, other)
	if equalBytes(mut, fr.data) {
		r.Logf("corrupt stream=%d kind=%s produced identical bytes", idx, kind)
		return false, false
	}
	fr.data = mut
	if tp.Chance(1, 4) {
		fr.chunk = 1 + tp.Intn(300)
	}
	// the importers' own validation is only reached without the cluster-level verification in front of it
	mode := modeFull
	if tp.Chance(1, 2) {
		mode = modeDirect
	}
	r.Logf("corrupt stream=%d kind=%s sealed=%v len=%d mode=%s", idx, kind, sealed, len(mut), modeName(mode))
	if sealed {
		r.Fault("stream." + kind + ".resealed")
	} else {
		r.Fault("stream." + kind)
	}
	var err error
	if mode == modeDirect {
		// only the faulty stream, straight into its importer, on the untouched pre-import state
		one := restoreInput{slot: in.slot, route: in.route, page: in.page}
		if idx == 0 {
			one.meta = fr
		} else {
			one.msgs = []*faultReader{fr}
		}
		err = importStreams(n, one)
	} else {
		err = install(n, in, mode)
	}
	step := "accepted"
	if err != nil {
		step = stepOf(err)
	}
	r.Logf("corrupt outcome=%s", step)
	r.State("corrupt", kind, sealed, modeName(mode), step)
	r.Steps++
	switch {
	case err == nil && !sealed:
		r.FailSig("stream.corrupt_accepted", kind, fmt.Sprintf("a %s-corrupted stream %d (%d bytes, original %d) was accepted by the %s restore", kind, idx, len(mut), len(h.streamOf(idx)), modeName(mode)), nil)
		return true, true
	case err == nil:
		r.Probe("stream.resealed_accepted")
		return true, true
	case step == "import-messages-slot":
		// direct mode has no routing knowledge; the mismatch is only detectable after the import
		r.Probe("stream.foreign_detected_after_import")
		return true, true
	}
	what := fmt.Sprintf("%s restore rejected the %s stream %d at %s (%v) but the target changed", modeName(mode), kind, idx, step, err)
	if !h.sameAs(n, preDump, "stream.partial_apply", kind, what) {
		return true, true
	}
	r.Probe("stream.rejected_clean")
	return false, true
}

func (h *harness) streamOf(idx int) []byte {
	if idx == 0 {
		return h.expA.meta
	}
	return h.expA.msgs[idx-1]
}

// scenarioShortRead: a reader that returns small chunks is not a fault.
func (h *harness) scenarioShortRead(pre *gateFS, refDump nodeDump) bool {
	r := h.r
	tp := r.Tape
	in := h.input(h.expA, h.slotA)
	shorts := 0
	readers := append([]*faultReader{in.meta}, in.msgs...)
	for _, x := range readers {
		x.chunk = []int{1, 2, 5, 31, 512, 4097}[tp.Intn(6)]
	}
	mode := h.pickMode()
	r.Logf("short reads chunks=%d.. mode=%s", readers[0].chunk, modeName(mode))
	g := cloneDisk(pre.mem)
	n, ok := h.openTarget(g)
	if !ok {
		return false
	}
	if err := install(n, in, mode); err != nil {
		r.FailSig("stream.short_read", "failed", fmt.Sprintf("restore through a short-reading stream failed: %v", err), nil)
		return false
	}
	for _, x := range readers {
		shorts += x.shorts
	}
	if shorts > 0 {
		r.Fault("stream.short_reads")
	}
	if !h.sameAs(n, refDump, "stream.short_read", "diverged", "restore through a short-reading stream differs from the fault-free restore") {
		return false
	}
	return shorts > 0
}

// scenarioIOError: the stream fails with an I/O error at some offset of some pass.
func (h *harness) scenarioIOError(pre *gateFS, preDump, refDump nodeDump) bool {
	r := h.r
	tp := r.Tape
	in := h.input(h.expA, h.slotA)
	fr, _, idx := h.pickStream(in, h.expB)
	mode := h.pickMode()
	passes := 7
	if idx == 0 {
		passes = 5
	}
	if mode == modeDirect {
		passes = 3
	}
	fr.errAt = h.pickOffset(fr, idx)
	// benign-first ordering is irrelevant here; bias to the last (applying) pass
	fr.errPass = passes
	if tp.Chance(1, 2) {
		fr.errPass = 1 + tp.Intn(passes)
	}
	if tp.Chance(1, 3) {
		c := 1 + tp.Intn(2000)
		for _, x := range append([]*faultReader{in.meta}, in.msgs...) {
			x.chunk = c
		}
	}
	r.Logf("io-error stream=%d offset=%d pass=%d mode=%s", idx, fr.errAt, fr.errPass, modeName(mode))
	g := cloneDisk(pre.mem)
	n, ok := h.openTarget(g)
	if !ok {
		return false
	}
	err := install(n, in, mode)
	if err == nil {
		r.Logf("io-error not reached")
		if fr.fired {
			r.FailSig("stream.io_error", "swallowed", "the stream returned an I/O error and the restore reported success", nil)
			return false
		}
		h.sameAs(n, refDump, "stream.io_error", "diverged", "restore (I/O error not reached) differs from the fault-free restore")
		return false
	}
	step := stepOf(err)
	r.Logf("io-error outcome=%s fired=%v", step, fr.fired)
	if !fr.fired {
		r.FailSig("restore.failed", "spurious", fmt.Sprintf("restore failed at %s without an injected fault: %v", step, err), nil)
		return false
	}
	r.Fault("stream.io_error")
	r.State("ioerr", idx == 0, step, modeName(mode))
	if !mutatingStep(step) {
		if !h.sameAs(n, preDump, "stream.partial_apply", "io-error-"+step, fmt.Sprintf("restore failed in the read-only step %s but the target changed", step)) {
			return false
		}
	} else {
		h.probePartial(n)
		st, cerr := discardPartition(n, h.slotA, h.route, h.page)
		if cerr != nil {
			r.FailSig("stream.cleanup_incomplete", "cleanup-failed", fmt.Sprintf("cleanup after a failed restore (%s) failed: %v", step, cerr), nil)
			return false
		}
		r.Logf("cleanup discarded channels=%d pages=%d", st.channels, st.pages)
		if st.channels > 0 {
			r.Probe("cleanup.channels_discarded")
		}
		if !h.sameAs(n, preDump, "stream.cleanup_incomplete", step, fmt.Sprintf("after a restore that failed at %s and the cleanup, the target differs from its pre-import state", step)) {
			return false
		}
		r.Probe("cleanup.complete")
	}
	return h.retryAndCompare(n, h.pickMode(), refDump, "stream.io_error", "after an I/O error")
}

// pickOffset chooses a stream offset; in runs with a channel larger than one
// import batch it is biased to the tail of the first message stream, where the
// second batch of that channel and the following channels are applied.
func (h *harness) pickOffset(fr *faultReader, idx int) int64 {
	tp := h.r.Tape
	n := len(fr.data)
	if h.big && idx == 1 && tp.Chance(2, 3) {
		tail := n / 8
		if tail < 1 {
			tail = 1
		}
		return int64(n - 1 - tp.Intn(tail))
	}
	return int64(tp.Intn(n))
}
