package restoresim

import "encoding/binary"

// The simulator owns the byte stream between exporter and importer, so it may
// know its framing. streamFieldClasses splits a well-formed export into field
// classes (byte spans) so that corruption can be aimed at every kind of field,
// not only at the fields that happen to be long.
//
// Message stream ("WKMB"): magic(4) version(2) hashSlot(2) channelCount(4), per
// channel: key, id (uvarint-length-prefixed), type(1), checkpoint(24), uvarint
// system-entry count, entries (key bytes, value bytes), uvarint row count, rows
// (seq(8), header-family bytes, payload-family bytes); crc32 trailer(4).
// Metadata stream ("WKDB"): magic(4) version(2) slotCount(2) slots(2 each)
// entryCount(8), entries (uvarint key length, uvarint value length, key, value);
// crc32 trailer(4).

type fieldClass struct {
	name  string
	spans [][2]int // non-empty [from,to)
}

func streamFieldClasses(b []byte) []fieldClass {
	if len(b) < 16 {
		return nil
	}
	var order []string
	spans := map[string][][2]int{}
	add := func(name string, from, to int) {
		if to <= from {
			return
		}
		if _, ok := spans[name]; !ok {
			order = append(order, name)
		}
		spans[name] = append(spans[name], [2]int{from, to})
	}
	end := len(b) - 4
	pos := 0
	uvarint := func() (uint64, int, bool) {
		v, n := binary.Uvarint(b[pos:end])
		if n <= 0 {
			return 0, 0, false
		}
		return v, n, true
	}
	// lenBytes reads a uvarint length and the bytes it announces.
	lenBytes := func(lenClass, dataClass string) bool {
		v, n, ok := uvarint()
		if !ok || uint64(end-pos-n) < v {
			return false
		}
		add(lenClass, pos, pos+n)
		pos += n
		add(dataClass, pos, pos+int(v))
		pos += int(v)
		return true
	}
	switch string(b[:4]) {
	case "WKMB":
		add("magic-version", 0, 6)
		add("hash-slot", 6, 8)
		add("channel-count", 8, 12)
		chans := binary.BigEndian.Uint32(b[8:12])
		pos = 12
		for c := uint32(0); c < chans; c++ {
			if !lenBytes("length", "channel-key") || !lenBytes("length", "channel-id") {
				return nil
			}
			if end-pos < 25 {
				return nil
			}
			add("channel-type", pos, pos+1)
			add("checkpoint", pos+1, pos+25)
			pos += 25
			sys, n, ok := uvarint()
			if !ok {
				return nil
			}
			add("count", pos, pos+n)
			pos += n
			for i := uint64(0); i < sys; i++ {
				if !lenBytes("length", "system-key") || !lenBytes("length", "system-value") {
					return nil
				}
			}
			rows, n, ok := uvarint()
			if !ok {
				return nil
			}
			add("count", pos, pos+n)
			pos += n
			for i := uint64(0); i < rows; i++ {
				if end-pos < 8 {
					return nil
				}
				add("row-seq", pos, pos+8)
				pos += 8
				if !lenBytes("length", "row-header-family") || !lenBytes("length", "row-payload-family") {
					return nil
				}
			}
		}
	case "WKDB":
		add("magic-version", 0, 6)
		slots := int(binary.BigEndian.Uint16(b[6:8]))
		add("slot-list", 6, 8+2*slots)
		pos = 8 + 2*slots
		if end-pos < 8 {
			return nil
		}
		add("entry-count", pos, pos+8)
		entries := binary.BigEndian.Uint64(b[pos : pos+8])
		pos += 8
		for i := uint64(0); i < entries; i++ {
			kl, n1, ok := uvarint()
			if !ok {
				return nil
			}
			add("length", pos, pos+n1)
			pos += n1
			vl, n2, ok := uvarint()
			if !ok || uint64(end-pos-n2) < kl+vl {
				return nil
			}
			add("length", pos, pos+n2)
			pos += n2
			add("entry-key", pos, pos+int(kl))
			pos += int(kl)
			add("entry-value", pos, pos+int(vl))
			pos += int(vl)
		}
	default:
		return nil
	}
	if pos != end {
		return nil
	}
	add("trailer", end, len(b))
	out := make([]fieldClass, 0, len(order))
	for _, name := range order {
		out = append(out, fieldClass{name: name, spans: spans[name]})
	}
	return out
}
