package restoresim

import (
	"fmt"
	"sort"
	"testing"

	"github.com/WuKongIM/WuKongIM/internal/verifsim/simkit"
	"github.com/WuKongIM/WuKongIM/pkg/db/message"
	channel "github.com/WuKongIM/WuKongIM/pkg/db/message/channelcompat"
	"github.com/cockroachdb/pebble/v2/vfs"
)

func TestVerifSim(t *testing.T) {
	simkit.Main(t, simkit.Engine{
		Name:  "restoresim",
		Props: map[string]simkit.PropFunc{"C11": runC11},
		Real: []string{
			"pkg/db/message: Engine/ChannelStore (appends with proposal manifests, checkpoints, retention, truncation), OpenBackupSnapshot[WithStats], ReplayBackupSnapshotReader, ImportBackupSnapshotReader, DiscardForRestore, ListChannelsPage",
			"pkg/db/meta: typed shard writes, OpenBackupHashSlotSnapshot, VerifyBackupHashSlotSnapshotReader, ImportHashSlotSnapshotReaderForRestoreWithStats, DeleteHashSlotData",
			"pkg/db/internal/engine + Pebble v2.1.4 on vfs.NewCrashableMem (WAL, flush, compaction, recovery)",
			"pkg/quorumlog: SealProposalManifest / entry identities",
		},
		Stub: []string{
			"cluster node restore orchestration (verify -> boundaries -> discard -> import meta -> import messages): mirrored from pkg/cluster/node_restore.go, every storage call real",
			"channel-id -> hash-slot router: a table owned by the harness",
			"byte stream between exporter and importer: in-memory, owned by the simulator",
			"disk: in-memory FS; crash = CrashClone at a WAL-sync boundary or at an importer read",
		},
		Rule: "each run builds a random source store (1-4 channels in the exported hash slot + 1-2 in another; exact/plain appends, uncommitted suffixes, stored checkpoints at or below the exported cut, cuts up to the log end, retention trims, suffix truncation, epochs, cursors; random typed metadata incl. rows of tables excluded from backups), exports both slots with the real exporters, restores into a fresh (optionally pre-populated) node and judges the result (model, typed metadata reads against the source, byte-identical re-export, continuation at the watermark, power-loss image taken at the instant the restore was acknowledged = acknowledged state; one run in five pads the metadata stream to exactly 1023/1024/1025/2047/2048/2049 entries and half of the big-channel runs freeze the channel at those row counts, i.e. on and next to the importers' batch boundaries), then injects one scenario: none (second import, restore over an older generation of the slot, discard back to the raw pre-import state) / crash at every (<=8 commits) or sampled WAL-sync boundary, or at an importer read, each image reopened and retried / 1-5 corrupted, truncated or mismatched streams / short reads / a stream I/O error followed by cleanup and retry. One run in three lets retention trim under an uncommitted tail. Non-trivial = the export carried at least one message row and one metadata row and the scenario's fault (if any) actually fired.",
		Assumptions: []string{
			"Pebble and its MemFS crash model are trusted; crash clones keep either all (process kill) or none (power loss) of the unsynced bytes because MemFS.CrashClone is not reproducible for intermediate percentages",
			"WAL-sync crash ordinals are only used when the import fits the first memtable (no WAL rotation); larger imports crash at importer reads, i.e. between commits",
			"re-sealed (checksum-valid) mutations are only required to be all-or-nothing, not to be rejected",
		},
	})
}

type scenario int

const (
	scNone scenario = iota
	scCrashWAL
	scCrashRead
	scCorrupt
	scShortRead
	scIOError
)

var scenarioNames = []string{"none", "crash-wal", "crash-read", "corrupt", "short-read", "io-error"}

type exportSet struct {
	meta []byte
	msg  []byte   // all channels of the slot in one stream
	msgs [][]byte // the streams actually handed to restore (1 or 2)
	cuts []message.BackupChannelCut
}

type harness struct {
	r      *simkit.Run
	nodes  []*node
	slotA  uint16
	slotB  uint16
	pools  metaPools
	b      *builder
	routes map[string]uint16
	page   int
	src    *node
	expA   exportSet
	expB   exportSet
	obsA   []string
	rows   int
	big    bool
	early  *exportSet // an older backup of slot A, taken while the source was still being written
	// metaEntries is the number of key/value records in slot A's metadata stream.
	metaEntries uint64
}

func (h *harness) track(n *node) *node {
	h.nodes = append(h.nodes, n)
	return n
}

func (h *harness) closeAll() {
	if h.b != nil {
		h.b.closeChannels()
	}
	for _, n := range h.nodes {
		n.close()
	}
}

func (h *harness) route(id string) (uint16, bool) {
	s, ok := h.routes[id]
	return s, ok
}

func (h *harness) chansOf(slot uint16) []*chanModel {
	var out []*chanModel
	for _, c := range sortedChans(h.b.chans) {
		if c.Slot == slot {
			out = append(out, c)
		}
	}
	return out
}

func cutsOf(cs []*chanModel) []message.BackupChannelCut {
	out := make([]message.BackupChannelCut, 0, len(cs))
	for _, c := range cs {
		out = append(out, message.BackupChannelCut{
			Key: message.ChannelKey(c.Key), ID: message.ChannelID{ID: c.ID.ID, Type: c.ID.Type},
			Checkpoint: message.Checkpoint{Epoch: c.CutEpoch, LogStartOffset: c.CutStart, HW: c.CutHW},
		})
	}
	return out
}

func (h *harness) input(e exportSet, slot uint16) restoreInput {
	in := restoreInput{slot: slot, meta: newFaultReader(e.meta), route: h.route, page: h.page}
	for _, m := range e.msgs {
		in.msgs = append(in.msgs, newFaultReader(m))
	}
	return in
}

const targetName = "t"

func (h *harness) openTarget(g *gateFS) (*node, bool) {
	n, err := openNode(targetName, g, 4<<20, 0)
	if err != nil {
		h.r.Infra("open target: %v", err)
		return nil, false
	}
	return h.track(n), true
}

func runC11(t *testing.T, r *simkit.Run) {
	installHook()
	h := &harness{r: r, pools: newMetaPools(), routes: map[string]uint16{}}
	defer h.closeAll()
	tp := r.Tape

	// ---- swarm configuration ------------------------------------------------
	h.slotA = []uint16{7, 0, 300, 65535}[tp.Intn(4)]
	h.slotB = h.slotA ^ 1
	nA, nB := 1+tp.Intn(4), 1+tp.Intn(2)
	msgOps := 4 + tp.Intn(28)
	metaOps := 3 + tp.Intn(28)
	big := tp.Chance(1, 10)
	srcMem := []uint64{4 << 20, 64 << 10, 256 << 10}[tp.Intn(3)]
	srcL0 := []int{0, 2, 4}[tp.Intn(3)]
	prepop := tp.Chance(1, 2)
	split := tp.Chance(1, 3)
	h.page = []int{512, 1, 2, 3}[tp.Intn(4)]
	sc := scenario(tp.Weighted([]int{5, 4, 2, 4, 2, 3}))
	if big {
		// WAL-sync ordinals are not reproducible across a memtable rotation: crash at importer reads instead
		sc = scenario(tp.Weighted([]int{3, 0, 4, 1, 1, 4}))
	}
	h.big = big
	// Importer batch boundaries (1024 entries per metadata batch, 1024 rows per message
	// batch and cleanup page): place the exported counts exactly on and next to them.
	metaTarget := []int{0, 1023, 1024, 1025, 2047, 2048, 2049}[tp.Weighted([]int{30, 1, 2, 1, 1, 2, 1})]
	bigRows := 0
	if big {
		bigRows = []int{0, 1023, 1024, 1025, 2047, 2048, 2049}[tp.Weighted([]int{4, 1, 2, 1, 1, 1, 1})]
	}
	r.Config["meta_entries"], r.Config["big_rows"] = metaTarget, bigRows
	tailTrim := tp.Chance(1, 3)
	r.Config["tail_trim"] = tailTrim
	r.Config["slot"] = h.slotA
	r.Config["channels"] = fmt.Sprintf("%d+%d", nA, nB)
	r.Config["msg_ops"], r.Config["meta_ops"], r.Config["big"] = msgOps, metaOps, big
	r.Config["src_memtable"], r.Config["src_l0"] = srcMem, srcL0
	r.Config["prepopulated"], r.Config["split"], r.Config["page"] = prepop, split, h.page
	r.Config["scenario"] = scenarioNames[sc]
	r.Logf("config slotA=%d slotB=%d chans=%d+%d msgOps=%d metaOps=%d big=%v srcMem=%d l0=%d prepop=%v split=%v page=%d scenario=%s",
		h.slotA, h.slotB, nA, nB, msgOps, metaOps, big, srcMem, srcL0, prepop, split, h.page, scenarioNames[sc])

	// ---- source store ---------------------------------------------------------
	srcGate := newGateFS()
	src, err := openNode("s", srcGate, srcMem, srcL0)
	if err != nil {
		r.Infra("open source: %v", err)
		return
	}
	h.src = h.track(src)
	h.b = &builder{r: r, eng: src.msg, nextID: 1000 + uint64(tp.Intn(1000)), tsBase: 1_700_000_000_000, uids: h.pools.uids, tailTrim: tailTrim}
	mk := func(prefix string, i int, slot uint16) {
		id := channel.ChannelID{ID: fmt.Sprintf("%s%d", prefix, i), Type: 2}
		c := &chanModel{Key: fmt.Sprintf("%d:%s", id.Type, id.ID), ID: id, Slot: slot, Exact: !tp.Chance(1, 4), Epoch: 1, Term: 1, Cursors: map[string]uint64{}}
		h.b.chans = append(h.b.chans, c)
		h.routes[id.ID] = slot
	}
	for i := 0; i < nA; i++ {
		mk("a", i, h.slotA)
	}
	for i := 0; i < nB; i++ {
		mk("b", i, h.slotB)
	}
	if big {
		// one channel of the exported slot gets more rows than one import batch / cleanup page (1024)
		c := h.b.chans[0]
		c.Exact = true
		parts := []int{400 + tp.Intn(100), 400 + tp.Intn(100), 300 + tp.Intn(100)}
		if bigRows > 0 {
			// exactly bigRows committed rows, all exported (no later operation touches the channel)
			parts = []int{bigRows / 3, bigRows / 3, bigRows - 2*(bigRows/3)}
			c.Frozen = true
			r.Logf("src %s frozen at exactly %d committed rows", c.Key, bigRows)
		}
		for _, n := range parts {
			if !h.b.appendOp(c, n, true, false) {
				return
			}
		}
	}
	reopenAt := -1
	if tp.Chance(1, 4) {
		reopenAt = tp.Intn(msgOps + metaOps)
	}
	earlyAt := -1
	if sc == scNone && tp.Chance(1, 2) {
		earlyAt = tp.Intn(msgOps + metaOps)
	}
	for i, mi, di := 0, 0, 0; mi < msgOps || di < metaOps; i++ {
		if i == earlyAt && !h.exportEarly() {
			return
		}
		if i == reopenAt {
			h.b.closeChannels()
			src.close()
			if src, err = openNode("s", srcGate, srcMem, srcL0); err != nil {
				r.Infra("reopen source: %v", err)
				return
			}
			h.src = h.track(src)
			h.b.eng = src.msg
			r.Logf("src reopened")
		}
		doMsg := mi < msgOps && (di >= metaOps || tp.Intn(2) == 0)
		if doMsg {
			mi++
			if !h.b.step() {
				return
			}
		} else {
			di++
			slot := h.slotA
			if tp.Chance(1, 4) {
				slot = h.slotB
			}
			metaStep(r, src.meta.MetaDB(), slot, h.pools, di)
		}
		r.Steps++
	}
	if metaTarget > 0 && !h.padMeta(metaTarget) {
		return
	}
	h.b.chooseCuts()
	h.b.closeChannels()

	// ---- export both hash slots with the real exporters -----------------------
	if !h.exportAll(split) {
		return
	}
	var excl []string
	h.obsA, excl, err = observeMeta(src.meta.MetaDB(), h.slotA, h.pools)
	if err != nil {
		r.Infra("observe source meta: %v", err)
		return
	}
	r.Logf("source meta slot=%d backup-lines=%d excluded-lines=%d", h.slotA, len(h.obsA), len(excl))

	// ---- pre-import state of the restore target --------------------------------
	pre := newGateFS()
	{
		n, ok := h.openTarget(pre)
		if !ok {
			return
		}
		if prepop {
			if err := install(n, h.input(h.expB, h.slotB), modeFull); err != nil {
				r.Failf("restore.failed", "fault-free restore of the other hash slot %d failed: %v", h.slotB, err)
				return
			}
		}
		n.close()
	}
	var preDump nodeDump
	if sc == scCorrupt || sc == scIOError || sc == scNone {
		if preDump, err = dumpDisk(pre.mem); err != nil {
			r.Infra("dump pre-state: %v", err)
			return
		}
		r.Logf("pre-state msg=%s/%d meta=%s/%d", preDump.msg.hash, len(preDump.msg.kvs), preDump.meta.hash, len(preDump.meta.kvs))
	}

	// ---- reference: fault-free restore -------------------------------------------
	refGate := cloneDisk(pre.mem)
	ref, ok := h.openTarget(refGate)
	if !ok {
		return
	}
	refGate.arm(nil)
	err = install(ref, h.input(h.expA, h.slotA), modeFull)
	nSyncs, rotations := refGate.disarm()
	if err != nil {
		r.Failf("restore.failed", "fault-free restore of hash slot %d failed: %v", h.slotA, err)
		return
	}
	// the restore has been acknowledged: what a power loss at this instant leaves on disk
	ackImage := crashClone(refGate.mem, false)
	r.Logf("reference restore ok wal-syncs=%d", nSyncs)
	if rotations > 0 {
		r.Probe("import.wal_rotated")
	}
	if !h.checkRestored(ref, prepop) {
		return
	}
	refDump, err := dumpNode(ref)
	if err != nil {
		r.Infra("dump reference: %v", err)
		return
	}
	r.Logf("reference state msg=%s/%d meta=%s/%d", refDump.msg.hash, len(refDump.msg.kvs), refDump.meta.hash, len(refDump.meta.kvs))
	r.State("ref", len(refDump.msg.kvs), len(refDump.meta.kvs), nSyncs)
	if h.rows > 0 && len(h.obsA) > 0 {
		r.Nontrivial = true
	}

	// ---- an acknowledged restore is durable: power loss right after it returned, nobody retries ----
	ackDump, err := dumpDisk(ackImage)
	if err != nil {
		r.FailSig("restore.not_durable", "reopen", fmt.Sprintf("the node does not reopen after a power loss that follows an acknowledged restore: %v", err), nil)
		return
	}
	r.Fault("crash.power_loss_after_ack")
	if d := diffNode(refDump, ackDump); d != "" {
		r.FailSig("restore.not_durable", "power-loss-after-ack",
			fmt.Sprintf("the restore returned success (metadata entries=%d, message rows=%d) but a power loss right afterwards loses part of it: %s (left = acknowledged state, right = after the crash)", h.metaEntries, h.rows, d), nil)
		return
	}
	r.Probe("restore.durable_after_ack")
	if (metaTarget > 0 || tp.Chance(1, 6)) && !h.restoreThroughWriter(pre, refDump) {
		return
	}

	// ---- the scenario ----------------------------------------------------------------
	fired := false
	switch sc {
	case scNone:
		fired = h.scenarioNone(ref, refDump) && h.restoreOverExisting(pre, refDump)
	case scCrashWAL:
		if rotations > 0 {
			fired = h.scenarioCrashRead(pre, refDump)
		} else {
			fired = h.scenarioCrashWAL(pre, refDump, nSyncs)
		}
	case scCrashRead:
		fired = h.scenarioCrashRead(pre, refDump)
	case scCorrupt:
		fired = h.scenarioCorrupt(pre, preDump)
	case scShortRead:
		fired = h.scenarioShortRead(pre, refDump)
	case scIOError:
		fired = h.scenarioIOError(pre, preDump, refDump)
	}
	if sc != scNone && !fired {
		r.Nontrivial = false
	}
	if r.Failed() || r.InfraErr != "" {
		return
	}
	// ---- the restored store continues exactly at the watermark --------------------------
	h.checkContinuation(ref)
	if sc != scNone || r.Failed() || r.InfraErr != "" {
		return
	}
	// ---- discarding the restored (and continued) partition leaves the pre-import state ----
	st, err := discardPartition(ref, h.slotA, h.route, h.page)
	if err != nil {
		r.FailSig("stream.cleanup_incomplete", "cleanup-failed", fmt.Sprintf("discarding a completely restored partition failed: %v", err), nil)
		return
	}
	r.Logf("discarded restored partition channels=%d pages=%d", st.channels, st.pages)
	for _, c := range h.chansOf(h.slotA) {
		if c.CutHW-c.Trimmed > 1024 {
			r.Probe("cleanup.multi_page")
		}
	}
	if h.sameAs(ref, preDump, "stream.cleanup_incomplete", "full", "after discarding a completely restored partition the target differs from its pre-import state") {
		r.Probe("cleanup.complete")
	}
}

func dumpDisk(mem *vfs.MemFS) (nodeDump, error) {
	m, err := dumpEngine(mem, "/"+targetName+"/message")
	if err != nil {
		return nodeDump{}, err
	}
	md, err := dumpEngine(mem, "/"+targetName+"/meta")
	if err != nil {
		return nodeDump{}, err
	}
	return nodeDump{msg: m, meta: md}, nil
}

// exportAll exports both slots (twice for the restored one: the streams must not
// depend on how the pipe is drained or on which entry point is used).
func (h *harness) exportAll(split bool) bool {
	r := h.r
	tp := r.Tape
	for _, slot := range []uint16{h.slotA, h.slotB} {
		cs := h.chansOf(slot)
		e := exportSet{cuts: cutsOf(cs)}
		var err error
		chunk := []int{0, 1, 7, 4096}[tp.Intn(4)]
		if e.meta, err = exportMeta(h.src, slot, chunk); err != nil {
			r.Failf("export.failed", "metadata export of hash slot %d failed: %v", slot, err)
			return false
		}
		var st message.BackupSnapshotStats
		if e.msg, st, err = exportMessages(h.src, slot, e.cuts, true, chunk); err != nil {
			r.Failf("export.failed", "message export of hash slot %d failed: %v", slot, err)
			return false
		}
		var wantRows, maxID uint64
		for _, c := range cs {
			for _, m := range c.Msgs {
				if m.Seq > c.Trimmed && m.Seq <= c.CutHW {
					wantRows++
					if m.ID > maxID {
						maxID = m.ID
					}
				}
			}
		}
		if st.HashSlot != slot || st.ChannelCount != uint64(len(cs)) || st.MessageCount != wantRows || st.MaxMessageID != maxID {
			r.FailSig("export.stats", "stats", fmt.Sprintf("export stats %+v, model: slot=%d channels=%d rows=%d maxID=%d", st, slot, len(cs), wantRows, maxID), nil)
			return false
		}
		again, _, err := exportMessages(h.src, slot, e.cuts, false, 0)
		if err != nil || !equalBytes(again, e.msg) {
			r.Failf("export.unstable", "two message exports of the same pinned state differ (err=%v, %d vs %d bytes)", err, len(again), len(e.msg))
			return false
		}
		againMeta, err := exportMeta(h.src, slot, 0)
		if err != nil || !equalBytes(againMeta, e.meta) {
			r.Failf("export.unstable", "two metadata exports of the same state differ (err=%v)", err)
			return false
		}
		e.msgs = [][]byte{e.msg}
		if split && slot == h.slotA && len(cs) >= 2 {
			k := 1 + tp.Intn(len(cs)-1)
			a, _, err1 := exportMessages(h.src, slot, e.cuts[:k], true, 0)
			b, _, err2 := exportMessages(h.src, slot, e.cuts[k:], true, 0)
			if err1 != nil || err2 != nil {
				r.Failf("export.failed", "split message export failed: %v %v", err1, err2)
				return false
			}
			e.msgs = [][]byte{a, b}
			r.Probe("export.split_streams")
		}
		r.Logf("export slot=%d meta=%dB msg=%dB streams=%d rows=%d maxID=%d", slot, len(e.meta), len(e.msg), len(e.msgs), wantRows, maxID)
		if slot == h.slotA {
			h.expA = e
			h.rows = int(wantRows)
			h.metaEntries = metaEntryCount(e.meta)
			r.Logf("export slot=%d metadata entries=%d", slot, h.metaEntries)
			if h.metaEntries > 0 && h.metaEntries%1024 == 0 {
				r.Probe("export.meta_entries_on_batch_boundary")
			}
			if wantRows > 0 {
				for _, c := range cs {
					if n := c.CutHW - c.Trimmed; n > 0 && n%1024 == 0 {
						r.Probe("export.channel_rows_on_batch_boundary")
					}
				}
			}
			if len(e.msg) > 64<<10 {
				r.Probe("export.multi_buffer_stream")
			}
		} else {
			h.expB = e
		}
	}
	return true
}

// checkRestored runs every fault-free oracle on a target that holds slot A.
func (h *harness) checkRestored(n *node, prepop bool) bool {
	r := h.r
	// catalog: exactly the restored channels (plus the other slot's when pre-populated)
	cat, pages, err := catalogOf(n, h.page)
	if err != nil {
		r.Failf("restore.content", "catalog listing failed: %v", err)
		return false
	}
	if pages > 1 {
		r.Probe("catalog.multi_page")
	}
	var got, want []string
	for _, e := range cat {
		got = append(got, string(e.Key))
	}
	for _, c := range h.b.chans {
		if c.Slot == h.slotA || prepop {
			want = append(want, c.Key)
		}
	}
	sort.Strings(got)
	sort.Strings(want)
	if fmt.Sprint(got) != fmt.Sprint(want) {
		r.FailSig("restore.content", "catalog", fmt.Sprintf("target catalog %v, want %v", got, want), nil)
		return false
	}
	for _, c := range h.chansOf(h.slotA) {
		if !checkChannel(r, h.src, n, c) {
			return false
		}
	}
	// metadata through the typed API: same answers as the source for every backup table, nothing from excluded tables
	obs, excl, err := observeMeta(n.meta.MetaDB(), h.slotA, h.pools)
	if err != nil {
		r.FailSig("restore.meta_content", "read", fmt.Sprintf("reading restored metadata failed: %v", err), nil)
		return false
	}
	if d := firstDiff(h.obsA, obs); d != "" {
		r.FailSig("restore.meta_content", "rows", "restored metadata differs from the source: "+d, nil)
		return false
	}
	if len(excl) > 0 {
		r.FailSig("restore.meta_content", "excluded", fmt.Sprintf("rows of tables excluded from backups were restored: %v", excl), nil)
		return false
	}
	// re-export with cuts derived from the target's own durable state, as the cluster layer does
	return h.checkReexport(n)
}

func (h *harness) checkReexport(n *node) bool {
	r := h.r
	cat, _, err := catalogOf(n, h.page)
	if err != nil {
		r.Failf("restore.content", "catalog listing failed: %v", err)
		return false
	}
	var cuts []message.BackupChannelCut
	for _, e := range cat {
		if s, ok := h.route(e.ID.ID); !ok || s != h.slotA {
			continue
		}
		cs, err := n.msg.ForChannel(channel.ChannelKey(e.Key), channel.ChannelID{ID: e.ID.ID, Type: e.ID.Type})
		if err != nil {
			r.Failf("restore.content", "ForChannel(%s): %v", e.Key, err)
			return false
		}
		cp, err1 := cs.LoadCheckpoint()
		leo, err2 := cs.LEOWithError()
		ret, err3 := cs.LoadRetentionState()
		_ = cs.Close()
		if err1 != nil || err2 != nil || err3 != nil {
			r.Failf("restore.content", "loading restored channel state of %s: %v %v %v", e.Key, err1, err2, err3)
			return false
		}
		hw := min(cp.HW, leo)
		cuts = append(cuts, message.BackupChannelCut{Key: e.Key, ID: e.ID,
			Checkpoint: message.Checkpoint{Epoch: cp.Epoch, LogStartOffset: min(ret.LocalRetentionThroughSeq, hw), HW: hw}})
	}
	msg2, _, err := exportMessages(n, h.slotA, cuts, true, 0)
	if err != nil {
		r.FailSig("restore.reexport_differs", "messages-error", fmt.Sprintf("re-export of restored messages failed: %v", err), nil)
		return false
	}
	if !equalBytes(msg2, h.expA.msg) {
		r.FailSig("restore.reexport_differs", "messages", fmt.Sprintf("re-exported message stream differs from the export (%d vs %d bytes, first difference at %d)", len(msg2), len(h.expA.msg), firstByteDiff(msg2, h.expA.msg)), nil)
		return false
	}
	meta2, err := exportMeta(n, h.slotA, 0)
	if err != nil {
		r.FailSig("restore.reexport_differs", "meta-error", fmt.Sprintf("re-export of restored metadata failed: %v", err), nil)
		return false
	}
	if !equalBytes(meta2, h.expA.meta) {
		r.FailSig("restore.reexport_differs", "meta", fmt.Sprintf("re-exported metadata stream differs from the export (%d vs %d bytes, first difference at %d)", len(meta2), len(h.expA.meta), firstByteDiff(meta2, h.expA.meta)), nil)
		return false
	}
	return true
}

func firstByteDiff(a, b []byte) int {
	for i := 0; i < len(a) && i < len(b); i++ {
		if a[i] != b[i] {
			return i
		}
	}
	return min(len(a), len(b))
}

// sameAs compares a node's raw state with an expected dump.
func (h *harness) sameAs(n *node, want nodeDump, class, sig, what string) bool {
	got, err := dumpNode(n)
	if err != nil {
		h.r.Infra("dump: %v", err)
		return false
	}
	if d := diffNode(want, got); d != "" {
		h.r.FailSig(class, sig, what+": "+d+" (left = expected, right = target)", nil)
		return false
	}
	return true
}

// exportEarly takes a backup of slot A in the middle of the source history, cut
// at every channel's stored checkpoint. It later serves as the stale content of
// a restore target that is not fresh.
func (h *harness) exportEarly() bool {
	r := h.r
	cs := h.chansOf(h.slotA)
	e := &exportSet{}
	for _, c := range cs {
		hw := c.StoredHW
		if hw < c.Adopted {
			hw = c.Adopted
		}
		ok := false
		for _, b := range c.boundaries() {
			if b == hw {
				ok = true
			}
		}
		if !ok {
			hw = c.StoredHW
		}
		e.cuts = append(e.cuts, message.BackupChannelCut{
			Key: message.ChannelKey(c.Key), ID: message.ChannelID{ID: c.ID.ID, Type: c.ID.Type},
			Checkpoint: message.Checkpoint{Epoch: c.Epoch, LogStartOffset: min(c.Adopted, hw), HW: hw},
		})
	}
	var err error
	if e.meta, err = exportMeta(h.src, h.slotA, 0); err != nil {
		r.Failf("export.failed", "early metadata export failed: %v", err)
		return false
	}
	if e.msg, _, err = exportMessages(h.src, h.slotA, e.cuts, true, 0); err != nil {
		r.Failf("export.failed", "early message export failed: %v", err)
		return false
	}
	e.msgs = [][]byte{e.msg}
	h.early = e
	r.Logf("early export slot=%d meta=%dB msg=%dB", h.slotA, len(e.meta), len(e.msg))
	return true
}

// restoreOverExisting restores the final backup onto a node that already holds
// an older generation of the same hash slot: the result must be the state a
// fresh node reaches.
func (h *harness) restoreOverExisting(pre *gateFS, refDump nodeDump) bool {
	r := h.r
	if h.early == nil {
		return true
	}
	g := cloneDisk(pre.mem)
	n, ok := h.openTarget(g)
	if !ok {
		return false
	}
	defer n.close()
	if err := install(n, h.input(*h.early, h.slotA), modeFull); err != nil {
		r.Failf("restore.failed", "fault-free restore of the older backup failed: %v", err)
		return false
	}
	if r.Tape.Chance(1, 2) {
		// the metadata importer replaces the slot by itself
		in := h.input(h.expA, h.slotA)
		if err := importStreams(n, restoreInput{slot: in.slot, meta: in.meta, route: in.route, page: in.page}); err != nil {
			r.Failf("restore.failed", "metadata import over an older generation failed: %v", err)
			return false
		}
		md, err := dumpEngine(n.gate.mem, "/"+n.name+"/meta")
		if err != nil {
			r.Infra("dump: %v", err)
			return false
		}
		if d := diffDumps(refDump.meta, md); d != "" {
			r.FailSig("restore.over_existing", "meta", "metadata import over an older generation of the slot differs from the import into a fresh node: "+d, nil)
			return false
		}
	}
	if err := install(n, h.input(h.expA, h.slotA), modeFull); err != nil {
		r.Failf("restore.failed", "restore over an older generation failed: %v", err)
		return false
	}
	r.Logf("restore over older generation ok")
	if !h.sameAs(n, refDump, "restore.over_existing", "state", "restore over an older generation of the slot differs from the restore into a fresh node") {
		return false
	}
	r.Probe("restore.over_older_generation")
	return true
}
