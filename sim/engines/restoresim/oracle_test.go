package restoresim

import (
	"bytes"
	"context"
	"errors"
	"fmt"
	"strings"

	"github.com/WuKongIM/WuKongIM/internal/verifsim/simkit"
	"github.com/WuKongIM/WuKongIM/pkg/db/message"
	channel "github.com/WuKongIM/WuKongIM/pkg/db/message/channelcompat"
	"github.com/WuKongIM/WuKongIM/pkg/quorumlog"
)

// checkChannel compares one restored channel with the model at the exported cut.
// It returns false after recording the first violation.
func checkChannel(r *simkit.Run, src, tgt *node, c *chanModel) bool {
	ctx := context.Background()
	bad := func(class, sig, format string, args ...any) bool {
		r.FailSig(class, sig, fmt.Sprintf("channel %s (cut hw=%d start=%d, source leo=%d storedHW=%d trimmed=%d): ", c.Key, c.CutHW, c.CutStart, c.leo(), c.StoredHW, c.Trimmed)+
			fmt.Sprintf(format, args...), map[string]any{"channel": c.Key, "cut_hw": c.CutHW})
		return false
	}
	ts, err := tgt.msg.ForChannel(channel.ChannelKey(c.Key), c.ID)
	if err != nil {
		return bad("restore.content", "open", "ForChannel on target: %v", err)
	}
	defer ts.Close()

	// nothing above the exported committed watermark: the log ends at the cut
	leo, err := ts.LEOWithError()
	if err != nil {
		return bad("restore.content", "leo", "LEO: %v", err)
	}
	if leo != c.CutHW {
		return bad("restore.above_watermark", "leo", "restored log end is %d, exported committed watermark is %d", leo, c.CutHW)
	}
	cp, err := ts.LoadCheckpoint()
	if err != nil {
		return bad("restore.content", "checkpoint", "LoadCheckpoint: %v", err)
	}
	want := channel.Checkpoint{Epoch: c.CutEpoch, LogStartOffset: c.CutStart, HW: c.CutHW}
	if cp != want {
		return bad("restore.content", "checkpoint", "checkpoint %+v, want %+v", cp, want)
	}

	// every committed, retained message with all of its fields
	got, err := ts.ListMessagesBySeq(ctx, 1, 0, 0, false)
	if err != nil {
		return bad("restore.content", "read", "ListMessagesBySeq: %v", err)
	}
	var wantMsgs []msgModel
	for _, m := range c.Msgs {
		if m.Seq > c.Trimmed && m.Seq <= c.CutHW {
			wantMsgs = append(wantMsgs, m)
		}
	}
	for _, g := range got {
		if g.MessageSeq > c.CutHW {
			return bad("restore.above_watermark", "message", "message seq %d id %d restored above the watermark", g.MessageSeq, g.MessageID)
		}
	}
	if len(got) != len(wantMsgs) {
		return bad("restore.content", "count", "%d messages restored, want %d", len(got), len(wantMsgs))
	}
	for i, m := range wantMsgs {
		g := got[i]
		if g.MessageSeq != m.Seq || g.MessageID != m.ID || g.FromUID != m.From || g.ClientMsgNo != m.ClientNo ||
			!bytes.Equal(g.Payload, m.Payload) || g.ServerTimestampMS != m.TSms || uint8(g.Setting) != m.Setting ||
			g.Timestamp != m.Timestamp || g.Expire != m.Expire || g.MsgKey != m.MsgKey || g.Topic != m.Topic ||
			g.ChannelID != c.ID.ID || g.ChannelType != c.ID.Type || g.Framer.SyncOnce != (m.Flags&4 != 0) ||
			g.Framer.NoPersist != (m.Flags&1 != 0) || g.Framer.RedDot != (m.Flags&2 != 0) {
			return bad("restore.content", "message", "seq %d: restored {id=%d from=%q no=%q len=%d ts=%d} want {id=%d from=%q no=%q len=%d ts=%d}",
				m.Seq, g.MessageID, g.FromUID, g.ClientMsgNo, len(g.Payload), g.ServerTimestampMS, m.ID, m.From, m.ClientNo, len(m.Payload), m.TSms)
		}
	}
	// identities (message id index) and idempotency data, on both sides of the cut
	for _, m := range c.Msgs {
		kept := m.Seq > c.Trimmed && m.Seq <= c.CutHW
		byID, ok, err := ts.GetMessageByMessageID(m.ID)
		if err != nil {
			return bad("restore.content", "id-index", "GetMessageByMessageID(%d): %v", m.ID, err)
		}
		if kept && (!ok || byID.MessageSeq != m.Seq) {
			return bad("restore.content", "id-index", "message id %d (seq %d) not found through the id index", m.ID, m.Seq)
		}
		if !kept && ok {
			if m.Seq > c.CutHW {
				return bad("restore.above_watermark", "id-index", "message id %d (seq %d, above the watermark) is indexed on the target", m.ID, m.Seq)
			}
			return bad("restore.content", "id-index", "trimmed message id %d (seq %d) is indexed on the target", m.ID, m.Seq)
		}
		if m.From == "" || m.ClientNo == "" {
			continue
		}
		hit, _, ok, err := ts.LookupIdempotency(channel.IdempotencyKey{ChannelID: c.ID, FromUID: m.From, ClientMsgNo: m.ClientNo})
		if err != nil {
			return bad("restore.content", "idempotency", "LookupIdempotency(%s,%s): %v", m.From, m.ClientNo, err)
		}
		if kept && (!ok || hit.MessageID != m.ID || hit.MessageSeq != m.Seq) {
			return bad("restore.content", "idempotency", "idempotency entry (%s,%s) -> %+v ok=%v, want id=%d seq=%d", m.From, m.ClientNo, hit, ok, m.ID, m.Seq)
		}
		if !kept && ok && m.Seq > c.CutHW {
			return bad("restore.above_watermark", "idempotency", "idempotency entry (%s,%s) of seq %d above the watermark restored", m.From, m.ClientNo, m.Seq)
		}
	}

	// epoch history at or below the cut
	hist, err := ts.LoadHistory()
	if err != nil && !errors.Is(err, channel.ErrEmptyState) {
		return bad("restore.content", "history", "LoadHistory: %v", err)
	}
	var wantHist []channel.EpochPoint
	for _, p := range c.History {
		if p.StartOffset <= c.CutHW {
			wantHist = append(wantHist, p)
		}
	}
	if fmt.Sprint(hist) != fmt.Sprint(wantHist) && !(len(hist) == 0 && len(wantHist) == 0) {
		return bad("restore.content", "history", "history %v, want %v", hist, wantHist)
	}
	// retention progress, cursors, snapshot payload travel as they are
	ret, err := ts.LoadRetentionState()
	if err != nil {
		return bad("restore.content", "retention", "LoadRetentionState: %v", err)
	}
	if ret.LocalRetentionThroughSeq != c.Adopted || (c.Adopted > 0 && ret.PhysicalRetentionThroughSeq != c.Trimmed) {
		return bad("restore.content", "retention", "retention %+v, want adopted=%d physical=%d", ret, c.Adopted, c.Trimmed)
	}
	for _, name := range simkit.SortedKeys(c.Cursors) {
		v, ok, err := ts.LoadCommittedDispatchCursor(name)
		if err != nil || !ok || v != c.Cursors[name] {
			return bad("restore.content", "cursor", "cursor %s = %d ok=%v err=%v, want %d", name, v, ok, err, c.Cursors[name])
		}
	}
	snap, err := ts.LoadSnapshotPayload()
	if err != nil || !bytes.Equal(snap, c.Snapshot) {
		return bad("restore.content", "snapshot-payload", "snapshot payload len=%d err=%v, want len=%d", len(snap), err, len(c.Snapshot))
	}

	if !c.Exact {
		return true
	}
	// proposal manifests and per-entry identities: present at or below the cut, absent above
	for _, p := range c.Props {
		dp, ok, err := ts.LoadDurableProposal(ctx, p.Manifest.CommandID, 1<<20, 1<<30)
		if p.Last <= c.CutHW {
			if p.Last <= c.Trimmed || p.Base < c.Trimmed {
				continue // rows (partly) trimmed: the proposal can no longer be materialised
			}
			if err != nil || !ok || dp.Manifest != p.Manifest {
				return bad("restore.content", "proposal", "proposal (%d,%d] ok=%v err=%v manifest-equal=%v", p.Base, p.Last, ok, err, dp.Manifest == p.Manifest)
			}
		} else if ok {
			return bad("restore.above_watermark", "proposal", "proposal (%d,%d] above the watermark restored", p.Base, p.Last)
		}
	}
	if c.CutHW == 0 {
		return true
	}
	idx := make([]uint64, 0, c.CutHW)
	for i := uint64(1); i <= c.CutHW; i++ {
		idx = append(idx, i)
	}
	rec, err := ts.LoadDurableRecovery(ctx, idx)
	if err != nil {
		return bad("restore.content", "frontier", "LoadDurableRecovery: %v", err)
	}
	var tail propModel
	for _, p := range c.Props {
		if p.Last == c.CutHW {
			tail = p
		}
	}
	if rec.LEO != c.CutHW || rec.Committed != c.CutHW || rec.Manifest != tail.Manifest {
		return bad("restore.content", "frontier", "frontier leo=%d committed=%d manifest-equal=%v, want leo=committed=%d", rec.LEO, rec.Committed, rec.Manifest == tail.Manifest, c.CutHW)
	}
	wantID := map[uint64]quorumlog.EntryIdentity{}
	for _, p := range c.Props {
		for _, e := range p.Entries {
			wantID[e.Index] = e
		}
	}
	for _, pr := range rec.Entries {
		if !pr.Present || pr.Identity != wantID[pr.Index] {
			return bad("restore.content", "entry-identity", "entry identity %d present=%v equal=%v", pr.Index, pr.Present, pr.Identity == wantID[pr.Index])
		}
	}
	// source and target agree on every identity at or below the cut
	ss, err := src.msg.ForChannel(channel.ChannelKey(c.Key), c.ID)
	if err == nil {
		defer ss.Close()
		if srec, err := ss.LoadDurableRecovery(ctx, idx); err == nil {
			for i := range srec.Entries {
				if srec.Entries[i] != rec.Entries[i] {
					return bad("restore.content", "entry-identity", "entry identity %d differs between source and target", srec.Entries[i].Index)
				}
			}
		}
	}
	return true
}

// catalogOf lists the target's channel catalog through the paged API.
func catalogOf(n *node, page int) ([]message.ChannelCatalogEntry, int, error) {
	var out []message.ChannelCatalogEntry
	var cursor message.ChannelKey
	pages := 0
	for {
		es, next, more, err := n.msg.ListChannelsPage(context.Background(), cursor, page)
		if err != nil {
			return nil, pages, err
		}
		pages++
		out = append(out, es...)
		if !more {
			return out, pages, nil
		}
		if next == "" || next == cursor {
			return nil, pages, errors.New("catalog cursor did not advance")
		}
		cursor = next
	}
}

func joinLines(ls []string) string { return strings.Join(ls, "\n") }

func firstDiff(a, b []string) string {
	for i := 0; i < len(a) || i < len(b); i++ {
		var x, y string
		if i < len(a) {
			x = a[i]
		}
		if i < len(b) {
			y = b[i]
		}
		if x != y {
			return fmt.Sprintf("line %d: source %q target %q", i, x, y)
		}
	}
	return ""
}

// checkContinuation appends, on the restored store, what the cluster would
// append next: for an exact channel the source's own proposals above the cut
// (an exact retry of what was in flight when the backup was cut) or a fresh
// proposal chained to the tail; for a plain channel the rows above the cut or
// one new row. Anything left behind above the watermark (rows, id / idempotency
// indexes, proposal or entry identities, a remembered log end) makes this fail.
func (h *harness) checkContinuation(n *node) {
	r := h.r
	ctx := context.Background()
	for _, c := range h.chansOf(h.slotA) {
		st, err := n.msg.ForChannel(channel.ChannelKey(c.Key), c.ID)
		if err != nil {
			r.FailSig("restore.content", "open", fmt.Sprintf("ForChannel(%s) on target: %v", c.Key, err), nil)
			return
		}
		var msgs []msgModel
		if c.leo() > c.CutHW {
			msgs = c.Msgs[c.CutHW:]
		} else {
			h.b.nextID++
			id := h.b.nextID
			msgs = []msgModel{{Seq: c.CutHW + 1, ID: id, Epoch: c.Epoch, TSms: h.b.tsBase + int64(id), From: "u0", ClientNo: fmt.Sprintf("cont-%d", id), Payload: []byte("next")}}
		}
		bad := func(format string, args ...any) {
			_ = st.Close()
			r.FailSig("restore.above_watermark", "continuation", fmt.Sprintf("channel %s (cut hw=%d, source leo=%d retainedMax=%d): ", c.Key, c.CutHW, c.leo(), c.RetainedMax)+fmt.Sprintf(format, args...), nil)
		}
		if !c.Exact {
			recs := make([]channel.Record, len(msgs))
			for i, m := range msgs {
				recs[i] = encodeRecord(c.ID, m)
			}
			base, err := st.Append(recs)
			if err != nil || base != c.CutHW {
				bad("appending %d rows after the restore: base=%d err=%v, want base=%d", len(recs), base, err, c.CutHW)
				return
			}
			_ = st.Close()
			continue
		}
		var props []propModel
		for _, p := range c.Props {
			if p.Base >= c.CutHW {
				props = append(props, p)
			}
		}
		if len(props) == 0 {
			man := quorumlog.ProposalManifest{
				Version: quorumlog.ProposalManifestVersion, ChannelEpoch: c.Epoch, LeaderTerm: c.Term, FenceVersion: 1 + c.Epoch,
				BaseOffset: c.CutHW, LastOffset: c.CutHW + 1, PreviousIndex: c.CutHW,
			}
			man.CommandID[0], man.CommandID[1] = 0xfe, byte(msgs[0].ID)
			for _, p := range c.Props {
				if p.Last == c.CutHW {
					man.PreviousTerm, man.PreviousDigest = p.Manifest.LeaderTerm, p.Manifest.Digest
				}
			}
			sealed, entries, ok := quorumlog.SealProposalManifest(man, []quorumlog.Record{quorumRecord(msgs[0])})
			if !ok {
				_ = st.Close()
				r.Infra("continuation: SealProposalManifest failed for %s", c.Key)
				return
			}
			props = []propModel{{Base: c.CutHW, Last: c.CutHW + 1, Manifest: sealed, Entries: entries}}
		}
		for _, p := range props {
			part := msgs[p.Base-c.CutHW : p.Last-c.CutHW]
			recs := make([]channel.Record, len(part))
			for i, m := range part {
				recs[i] = encodeRecord(c.ID, m)
			}
			res := message.StoreAppendBatch(ctx, []message.AppendBatchItem{{
				Store: st, Records: recs, ExactBaseOffset: true, ExpectedBaseOffset: p.Base, Proposal: p.Manifest,
			}})
			if len(res) != 1 || res[0].Err != nil || res[0].Outcome != quorumlog.AppendOutcomeDurable {
				bad("proposing (%d,%d] after the restore: %+v, want a fresh durable append", p.Base, p.Last, res)
				return
			}
		}
		_ = st.Close()
	}
	r.Probe("restore.continuation_ok")
}
