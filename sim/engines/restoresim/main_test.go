package restoresim

import (
	"os"
	"runtime"
	"syscall"
	"testing"
)

// TestMain re-executes the test binary once with glibc malloc tunables.
//
// Pebble allocates every memtable arena (256 KiB and up) with C.calloc, which
// glibc serves with a fresh mmap/munmap pair above its 128 KiB threshold. One
// simulated run opens a few dozen short-lived Pebble instances; on the build
// machine the page-fault and unmap cost of those mappings was ~80% of the wall
// time. Raising the mmap threshold keeps the arenas on the (reused) heap. It has
// no effect on behaviour, only on runs per second. cgo (mallopt) cannot be used
// because the engine's package directory exists only in the build overlay.
func TestMain(m *testing.M) {
	const marker = "RESTORESIM_MALLOC_TUNED"
	if runtime.GOOS == "linux" && os.Getenv(marker) == "" && os.Getenv("GLIBC_TUNABLES") == "" {
		if exe, err := os.Executable(); err == nil {
			env := append(os.Environ(), marker+"=1",
				"GLIBC_TUNABLES=glibc.malloc.mmap_threshold=33554432:glibc.malloc.trim_threshold=536870912:glibc.malloc.top_pad=67108864")
			_ = syscall.Exec(exe, os.Args, env) // only returns on failure: fall through untuned
		}
	}
	os.Exit(m.Run())
}
