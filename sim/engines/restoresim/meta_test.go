package restoresim

import (
	"context"
	"fmt"
	"sort"

	"github.com/WuKongIM/WuKongIM/internal/verifsim/simkit"
	metadb "github.com/WuKongIM/WuKongIM/pkg/db/meta"
)

// The metadata side is checked differentially: the harness drives random typed
// writes into the source MetaDB (they may legitimately be refused; only the
// error bit is logged), remembers every key it touched, and after a restore
// reads the same keys and scans through the typed API on source and target.
// The raw comparison (re-export byte-identical, raw dumps) does the rest.

type metaPools struct {
	uids     []string
	channels []string // channel ids (type 2)
	plugins  []string
}

func newMetaPools() metaPools {
	p := metaPools{}
	for i := 0; i < 6; i++ {
		p.uids = append(p.uids, fmt.Sprintf("u%d", i))
	}
	for i := 0; i < 4; i++ {
		p.channels = append(p.channels, fmt.Sprintf("g%d", i))
	}
	p.plugins = []string{"p1", "p2"}
	return p
}

func errBit(err error) string {
	if err != nil {
		return "refused"
	}
	return "ok"
}

// metaStep performs one tape-chosen typed write on the shard of slot.
func metaStep(r *simkit.Run, db *metadb.MetaDB, slot uint16, p metaPools, n int) {
	t := r.Tape
	ctx := context.Background()
	sh := db.HashSlot(slot)
	uid := p.uids[t.Intn(len(p.uids))]
	chID := p.channels[t.Intn(len(p.channels))]
	var what string
	var err error
	switch t.Weighted([]int{6, 3, 5, 5, 2, 3, 3, 2, 1, 2, 1, 1}) {
	case 0:
		what = "upsert-user " + uid
		err = sh.UpsertUser(ctx, metadb.User{UID: uid, Token: fmt.Sprintf("tok%d", t.Intn(1000)), DeviceFlag: int64(t.Intn(3)), DeviceLevel: int64(t.Intn(2))})
	case 1:
		what = "upsert-device " + uid
		err = sh.UpsertDevice(ctx, metadb.Device{UID: uid, DeviceFlag: int64(t.Intn(3)), Token: fmt.Sprintf("dt%d", t.Intn(1000)), DeviceLevel: int64(t.Intn(2))})
	case 2:
		what = "upsert-channel " + chID
		err = sh.UpsertChannel(ctx, metadb.Channel{ChannelID: chID, ChannelType: 2, Ban: int64(t.Intn(2)), Large: int64(t.Intn(2)), AllowStranger: int64(t.Intn(2))})
	case 3:
		k := 1 + t.Intn(3)
		var us []string
		for i := 0; i < k; i++ {
			us = append(us, p.uids[t.Intn(len(p.uids))])
		}
		what = fmt.Sprintf("add-subscribers %s %v", chID, us)
		err = sh.AddSubscribers(ctx, chID, 2, us, uint64(n))
	case 4:
		what = fmt.Sprintf("remove-subscribers %s %s", chID, uid)
		err = sh.RemoveSubscribers(ctx, chID, 2, []string{uid}, uint64(n))
	case 5:
		what = fmt.Sprintf("upsert-membership %s %s", uid, chID)
		err = sh.UpsertUserChannelMembership(ctx, metadb.UserChannelMembership{
			UID: uid, ChannelID: chID, ChannelType: 2, JoinSeq: uint64(t.Intn(5)), ReadSeq: uint64(t.Intn(9)),
			ActivatedAt: int64(1000 + t.Intn(50)), SourceVersion: uint64(n), UpdatedAt: int64(2000 + n), Tombstone: t.Chance(1, 5),
		})
	case 6:
		what = "upsert-latest " + chID
		err = sh.UpsertChannelLatest(ctx, metadb.ChannelLatest{
			ChannelID: chID, ChannelType: 2, LastMessageID: uint64(100 + n), LastMessageSeq: uint64(n), LastAt: int64(3000 + n),
			FromUID: uid, ClientMsgNo: fmt.Sprintf("cm%d", n), Payload: t.Bytes(t.Intn(12)), UpdatedAt: int64(3000 + n),
		})
	case 7:
		pl := p.plugins[t.Intn(len(p.plugins))]
		what = fmt.Sprintf("bind-plugin %s %s", uid, pl)
		err = sh.BindPluginUser(ctx, metadb.PluginUserBinding{UID: uid, PluginNo: pl, CreatedAtMS: int64(4000 + n), UpdatedAtMS: int64(4000 + n)})
	case 8:
		what = "delete-user " + uid
		err = sh.DeleteUser(ctx, uid)
	case 9: // runtime ownership row: excluded from backup streams by design
		what = "upsert-runtime-meta " + chID
		_, err = sh.UpsertChannelRuntimeMeta(ctx, metadb.ChannelRuntimeMeta{
			ChannelID: chID, ChannelType: 2, ChannelEpoch: uint64(1 + t.Intn(3)), LeaderEpoch: uint64(1 + n), RouteGeneration: uint64(1 + n),
			Replicas: []uint64{1, 2, 3}, ISR: []uint64{1, 2}, Leader: 1, MinISR: 2, Status: 1,
		})
	case 10: // migration workflow row: excluded from backup streams by design
		what = "upsert-hashslot-migration"
		err = sh.UpsertHashSlotMigrationState(ctx, metadb.HashSlotMigrationState{HashSlot: slot, SourceSlot: 1, TargetSlot: 2, Phase: 1, FenceIndex: uint64(n)})
	default:
		pl := p.plugins[t.Intn(len(p.plugins))]
		what = fmt.Sprintf("unbind-plugin %s %s", uid, pl)
		err = sh.UnbindPluginUser(ctx, uid, pl)
	}
	r.Logf("src meta slot=%d %s -> %s", slot, what, errBit(err))
}

// observeMeta reads everything the pools can address in one hash slot through
// the typed API, as canonical lines. backupOnly=false also reports the rows of
// tables that backup streams exclude by design.
func observeMeta(db *metadb.MetaDB, slot uint16, p metaPools) (backup []string, excluded []string, err error) {
	ctx := context.Background()
	sh := db.HashSlot(slot)
	add := func(format string, args ...any) { backup = append(backup, fmt.Sprintf(format, args...)) }
	for _, uid := range p.uids {
		u, ok, e := sh.GetUser(ctx, uid)
		if e != nil {
			return nil, nil, fmt.Errorf("GetUser %s: %w", uid, e)
		}
		if ok {
			add("user %+v", u)
		}
		for flag := int64(0); flag < 3; flag++ {
			d, ok, e := sh.GetDevice(ctx, uid, flag)
			if e != nil {
				return nil, nil, fmt.Errorf("GetDevice: %w", e)
			}
			if ok {
				add("device %+v", d)
			}
		}
		bs, e := sh.ListPluginBindingsByUID(ctx, uid)
		if e != nil {
			return nil, nil, fmt.Errorf("ListPluginBindingsByUID: %w", e)
		}
		for _, b := range bs {
			add("plugin %+v", b)
		}
		for _, chID := range p.channels {
			m, ok, e := sh.GetUserChannelMembership(ctx, uid, chID, 2)
			if e != nil {
				return nil, nil, fmt.Errorf("GetUserChannelMembership: %w", e)
			}
			if ok {
				add("membership %+v", m)
			}
		}
	}
	users, _, _, e := sh.ListUsersPage(ctx, "", 1000)
	if e != nil {
		return nil, nil, fmt.Errorf("ListUsersPage: %w", e)
	}
	for _, u := range users {
		add("scan-user %s", u.UID)
	}
	for _, chID := range p.channels {
		c, ok, e := sh.GetChannel(ctx, chID, 2)
		if e != nil {
			return nil, nil, fmt.Errorf("GetChannel: %w", e)
		}
		if ok {
			add("channel %+v", c)
		}
		subs, e := sh.SnapshotSubscribers(ctx, chID, 2)
		if e != nil {
			return nil, nil, fmt.Errorf("SnapshotSubscribers: %w", e)
		}
		sort.Strings(subs)
		if len(subs) > 0 {
			add("subscribers %s %v", chID, subs)
		}
		l, ok, e := sh.GetChannelLatest(ctx, chID, 2)
		if e != nil {
			return nil, nil, fmt.Errorf("GetChannelLatest: %w", e)
		}
		if ok {
			add("latest %+v", l)
		}
		rm, ok, e := sh.GetChannelRuntimeMeta(ctx, chID, 2)
		if e != nil {
			return nil, nil, fmt.Errorf("GetChannelRuntimeMeta: %w", e)
		}
		if ok {
			excluded = append(excluded, fmt.Sprintf("runtime-meta %+v", rm))
		}
	}
	ms, ok, e := sh.LoadHashSlotMigrationState(ctx)
	if e != nil {
		return nil, nil, fmt.Errorf("LoadHashSlotMigrationState: %w", e)
	}
	if ok {
		excluded = append(excluded, fmt.Sprintf("hashslot-migration %+v", ms))
	}
	return backup, excluded, nil
}
