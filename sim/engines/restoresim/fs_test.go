package restoresim

import (
	"bytes"
	"crypto/sha256"
	"encoding/hex"
	"fmt"
	"math/rand/v2"
	"strings"
	"sync"

	"github.com/WuKongIM/WuKongIM/pkg/db/internal/engine"
	"github.com/cockroachdb/pebble/v2"
	"github.com/cockroachdb/pebble/v2/vfs"
)

// ---------------------------------------------------------------------------
// Simulated disk.
//
// Every store of a run lives on a node disk = one vfs.NewCrashableMem() wrapped
// by a gate that counts the *WAL syncs* of the Pebble engines on it. A WAL sync
// is the only durability point on the import path (every import batch is
// committed with Commit(sync=true)), it is issued once per commit by the
// committing call, and its ordinal is therefore a pure function of the byte
// stream being imported. Raw FS-op ordinals are not: Pebble's background
// flush/compaction/obsolete-file goroutines interleave creates, writes and
// removes with the foreground WAL traffic, and the memtable arena's skiplist
// uses its own random tower heights. So a crash point is "just before / just
// after the k-th WAL sync since arming", with the unsynced tail either entirely
// lost (power loss, UnsyncedDataPercent 0) or entirely kept (process kill,
// 100). Intermediate percentages are not used: MemFS.CrashClone draws from the
// RNG while ranging over Go maps, so 0<p<100 is not reproducible.
// ---------------------------------------------------------------------------

type gateFS struct {
	vfs.FS
	mem *vfs.MemFS

	mu        sync.Mutex
	armed     bool
	walSyncs  int                       // WAL syncs seen since arm()
	walCreate int                       // WAL files created since arm() (memtable rotation detector)
	hook      func(ord int, after bool) // called around every WAL sync while armed
}

func newGateFS() *gateFS {
	mem := vfs.NewCrashableMem()
	return &gateFS{FS: mem, mem: mem}
}

func isWAL(name string) bool { return strings.HasSuffix(name, ".log") }

// arm starts counting WAL syncs; hook (may be nil) runs just before and just
// after the ord-th sync, on the goroutine that issues the sync.
func (g *gateFS) arm(hook func(ord int, after bool)) {
	g.mu.Lock()
	defer g.mu.Unlock()
	g.walSyncs, g.walCreate, g.armed, g.hook = 0, 0, true, hook
}

// disarm stops counting and returns (wal syncs, wal files created) since arm.
func (g *gateFS) disarm() (int, int) {
	g.mu.Lock()
	defer g.mu.Unlock()
	g.armed = false
	g.hook = nil
	return g.walSyncs, g.walCreate
}

func (g *gateFS) onWALSync(do func() error) error {
	g.mu.Lock()
	var hook func(int, bool)
	ord := 0
	if g.armed {
		g.walSyncs++
		ord = g.walSyncs
		hook = g.hook
	}
	g.mu.Unlock()
	if hook != nil {
		hook(ord, false)
	}
	err := do()
	if hook != nil {
		hook(ord, true)
	}
	return err
}

func (g *gateFS) wrap(name string, f vfs.File, err error) (vfs.File, error) {
	if err != nil || f == nil || !isWAL(name) {
		return f, err
	}
	g.mu.Lock()
	if g.armed {
		g.walCreate++
	}
	g.mu.Unlock()
	return &gateFile{File: f, g: g}, nil
}

func (g *gateFS) Create(name string, c vfs.DiskWriteCategory) (vfs.File, error) {
	f, err := g.FS.Create(name, c)
	return g.wrap(name, f, err)
}

func (g *gateFS) ReuseForWrite(oldname, newname string, c vfs.DiskWriteCategory) (vfs.File, error) {
	f, err := g.FS.ReuseForWrite(oldname, newname, c)
	return g.wrap(newname, f, err)
}

func (g *gateFS) OpenReadWrite(name string, c vfs.DiskWriteCategory, opts ...vfs.OpenOption) (vfs.File, error) {
	f, err := g.FS.OpenReadWrite(name, c, opts...)
	return g.wrap(name, f, err)
}

func (g *gateFS) Unwrap() vfs.FS { return g.FS }

type gateFile struct {
	vfs.File
	g *gateFS
}

func (f *gateFile) Sync() error     { return f.g.onWALSync(f.File.Sync) }
func (f *gateFile) SyncData() error { return f.g.onWALSync(f.File.SyncData) }
func (f *gateFile) SyncTo(n int64) (bool, error) {
	var full bool
	err := f.g.onWALSync(func() error {
		var e error
		full, e = f.File.SyncTo(n)
		return e
	})
	return full, err
}

// crashClone takes the disk image a crash at this instant would leave behind.
func crashClone(mem *vfs.MemFS, keepUnsynced bool) *vfs.MemFS {
	p := 0
	if keepUnsynced {
		p = 100
	}
	return mem.CrashClone(vfs.CrashCloneCfg{UnsyncedDataPercent: p, RNG: rand.New(rand.NewPCG(1, 2))})
}

// ---------------------------------------------------------------------------
// Pebble options hook: the next Open picks up the disk and knobs set here.
// ---------------------------------------------------------------------------

type openKnobs struct {
	fs       vfs.FS
	memTable uint64
	l0       int
}

var nextOpen openKnobs

func installHook() {
	engine.VerifPebbleHook = func(o *pebble.Options) {
		k := nextOpen
		if k.fs != nil {
			o.FS = k.fs
		}
		if k.memTable != 0 {
			o.MemTableSize = k.memTable
		}
		o.CacheSize = 1 << 20
		if k.l0 > 0 {
			o.L0CompactionThreshold = k.l0
		}
		o.Logger = quietLogger{}
	}
}

// quietLogger drops Pebble's routine diagnostics; a fatal condition becomes a
// panic (reported as a violation of class "panic") instead of os.Exit.
type quietLogger struct{}

func (quietLogger) Infof(string, ...interface{})  {}
func (quietLogger) Errorf(string, ...interface{}) {}
func (quietLogger) Fatalf(format string, args ...interface{}) {
	panic("pebble fatal: " + fmt.Sprintf(format, args...))
}

// ---------------------------------------------------------------------------
// Raw dumps: every live key/value of one physical engine, read from a
// process-kill clone of the disk opened read-only, so the observed store stays
// open and untouched.
// ---------------------------------------------------------------------------

type rawKV struct{ k, v []byte }

type rawDump struct {
	kvs  []rawKV
	hash string
}

func dumpEngine(mem *vfs.MemFS, path string) (rawDump, error) {
	clone := crashClone(mem, true)
	saved := nextOpen
	nextOpen = openKnobs{fs: clone, memTable: 64 << 10}
	eng, err := engine.Open(path, engine.Options{ReadOnly: true})
	nextOpen = saved
	if err != nil {
		return rawDump{}, fmt.Errorf("dump open %s: %w", path, err)
	}
	defer eng.Close()
	it, err := eng.NewIter(engine.Span{}, engine.IterOptions{})
	if err != nil {
		return rawDump{}, err
	}
	defer it.Close()
	var d rawDump
	h := sha256.New()
	var lb [8]byte
	for ok := it.First(); ok; ok = it.Next() {
		k := it.Key()
		v, err := it.Value()
		if err != nil {
			return rawDump{}, err
		}
		d.kvs = append(d.kvs, rawKV{k, v})
		lb[0], lb[1], lb[2], lb[3] = byte(len(k)>>24), byte(len(k)>>16), byte(len(k)>>8), byte(len(k))
		lb[4], lb[5], lb[6], lb[7] = byte(len(v)>>24), byte(len(v)>>16), byte(len(v)>>8), byte(len(v))
		h.Write(lb[:])
		h.Write(k)
		h.Write(v)
	}
	if err := it.Error(); err != nil {
		return rawDump{}, err
	}
	d.hash = hex.EncodeToString(h.Sum(nil))[:16]
	return d, nil
}

// diffDumps describes the first differences between two dumps ("" if equal).
func diffDumps(a, b rawDump) string {
	if a.hash == b.hash && len(a.kvs) == len(b.kvs) {
		return ""
	}
	var out []string
	i, j := 0, 0
	for (i < len(a.kvs) || j < len(b.kvs)) && len(out) < 4 {
		switch {
		case j >= len(b.kvs) || (i < len(a.kvs) && bytes.Compare(a.kvs[i].k, b.kvs[j].k) < 0):
			out = append(out, fmt.Sprintf("only-left %s", showKey(a.kvs[i].k)))
			i++
		case i >= len(a.kvs) || bytes.Compare(a.kvs[i].k, b.kvs[j].k) > 0:
			out = append(out, fmt.Sprintf("only-right %s", showKey(b.kvs[j].k)))
			j++
		default:
			if !bytes.Equal(a.kvs[i].v, b.kvs[j].v) {
				out = append(out, fmt.Sprintf("value-differs %s", showKey(a.kvs[i].k)))
			}
			i++
			j++
		}
	}
	if len(out) == 0 {
		return "dumps differ"
	}
	return fmt.Sprintf("left=%d keys right=%d keys: %s", len(a.kvs), len(b.kvs), strings.Join(out, "; "))
}

func showKey(k []byte) string {
	var sb strings.Builder
	for _, c := range k {
		if c >= 0x20 && c < 0x7f && c != '\\' {
			sb.WriteByte(c)
		} else {
			fmt.Fprintf(&sb, "\\x%02x", c)
		}
	}
	return sb.String()
}
