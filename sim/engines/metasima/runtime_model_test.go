package metasima

import (
	"fmt"
	"reflect"
	"sort"

	"github.com/WuKongIM/WuKongIM/internal/verifsim/simkit"
	metadb "github.com/WuKongIM/WuKongIM/pkg/db/meta"
	"github.com/WuKongIM/WuKongIM/pkg/slot/fsm"
)

// ---------------------------------------------------------------------------
// Reference semantics of channel runtime metadata (property C15), written
// from the property statement and the documented command semantics.
// ---------------------------------------------------------------------------

type rtMeta = metadb.ChannelRuntimeMeta

func normSet(xs []uint64) []uint64 {
	if len(xs) == 0 {
		return nil
	}
	out := append([]uint64(nil), xs...)
	sort.Slice(out, func(i, j int) bool { return out[i] < out[j] })
	k := 1
	for i := 1; i < len(out); i++ {
		if out[i] != out[k-1] {
			out[k] = out[i]
			k++
		}
	}
	return out[:k]
}

func max64(xs ...uint64) uint64 {
	var m uint64
	for _, x := range xs {
		if x > m {
			m = x
		}
	}
	return m
}

// refNormalize is the canonical form of a row: sets sorted and deduplicated,
// an unset route generation defaults to the largest version the row carries
// (at least 1), person channels carry a directory generation >= 1.
func refNormalize(m rtMeta) rtMeta {
	m.Replicas = normSet(m.Replicas)
	m.ISR = normSet(m.ISR)
	if m.RouteGeneration == 0 {
		m.RouteGeneration = max64(m.ChannelEpoch, m.LeaderEpoch, m.WriteFenceVersion, 1)
	}
	if m.ChannelType == 1 && m.DirectoryGeneration == 0 {
		m.DirectoryGeneration = 1
	}
	return m
}

// refValid: a row is storable when its replica set is non-empty, the minimum
// ISR is satisfiable by the replica set, ISR is within replicas, a leader (if
// any) is an ISR member, and the write fence is either absent or complete.
func refValid(m rtMeta) bool {
	m = refNormalize(m)
	if m.ChannelID == "" || len(m.ChannelID) > 255 {
		return false
	}
	if len(m.Replicas) == 0 || m.MinISR <= 0 || m.MinISR > int64(len(m.Replicas)) {
		return false
	}
	for _, x := range m.ISR {
		if !containsU64(m.Replicas, x) {
			return false
		}
	}
	if m.Leader != 0 && !containsU64(m.ISR, m.Leader) {
		return false
	}
	if m.WriteFenceToken == "" {
		return m.WriteFenceReason == 0 && m.WriteFenceUntilMS == 0
	}
	return m.WriteFenceVersion != 0 && m.WriteFenceReason != 0 && m.WriteFenceUntilMS > 0
}

type rtOutcome int

const (
	rtApplied rtOutcome = iota
	rtStale             // refused silently (older than stored)
	rtConflict          // refused, reported as stale_meta
	rtInvalid           // rejected with an error
)

func (o rtOutcome) String() string {
	return [...]string{"applied", "ignored-stale", "conflict", "invalid"}[o]
}

func routeFieldsChanged(a, b rtMeta) bool {
	return a.ChannelEpoch != b.ChannelEpoch || a.LeaderEpoch != b.LeaderEpoch || a.Leader != b.Leader ||
		!reflect.DeepEqual(normSet(a.Replicas), normSet(b.Replicas)) || !reflect.DeepEqual(normSet(a.ISR), normSet(b.ISR)) ||
		a.MinISR != b.MinISR || a.Status != b.Status || a.LeaseUntilMS != b.LeaseUntilMS ||
		a.RetentionThroughSeq != b.RetentionThroughSeq || a.RetentionUpdatedAtMS != b.RetentionUpdatedAtMS ||
		a.WriteFenceToken != b.WriteFenceToken || a.WriteFenceVersion != b.WriteFenceVersion ||
		a.WriteFenceReason != b.WriteFenceReason || a.WriteFenceUntilMS != b.WriteFenceUntilMS
}

func nextGen(g uint64) uint64 {
	if g == ^uint64(0) {
		return g
	}
	return g + 1
}

// refUpsert: monotonic upsert. strictLeaderEpoch selects the literal reading of
// the statement ("leader epoch never decreases") for a candidate that raises
// the channel epoch while carrying an older leader epoch.
func refUpsert(cur *rtMeta, cand rtMeta, strictLeaderEpoch bool) (*rtMeta, rtOutcome) {
	if !refValid(cand) {
		return cur, rtInvalid
	}
	explicitGen := cand.RouteGeneration != 0
	c := refNormalize(cand)
	if cur == nil {
		return &c, rtApplied
	}
	e := *cur
	if explicitGen && c.RouteGeneration < e.RouteGeneration {
		return cur, rtStale
	}
	if c.ChannelEpoch < e.ChannelEpoch {
		return cur, rtStale
	}
	sameEpochs := false
	switch {
	case c.ChannelEpoch > e.ChannelEpoch:
		if strictLeaderEpoch && c.LeaderEpoch < e.LeaderEpoch {
			return cur, rtStale
		}
	case c.LeaderEpoch < e.LeaderEpoch:
		return cur, rtStale
	case c.LeaderEpoch == e.LeaderEpoch:
		if c.Leader != e.Leader {
			return cur, rtConflict
		}
		sameEpochs = true
	}
	if sameEpochs && c.LeaseUntilMS < e.LeaseUntilMS {
		c.LeaseUntilMS = e.LeaseUntilMS // a same-epoch write cannot shorten the lease
	}
	if c.DirectoryGeneration < e.DirectoryGeneration {
		c.DirectoryGeneration = e.DirectoryGeneration
	}
	if c.RetentionThroughSeq < e.RetentionThroughSeq ||
		(c.RetentionThroughSeq == e.RetentionThroughSeq && c.RetentionUpdatedAtMS < e.RetentionUpdatedAtMS) {
		c.RetentionThroughSeq, c.RetentionUpdatedAtMS = e.RetentionThroughSeq, e.RetentionUpdatedAtMS
	}
	if c.WriteFenceVersion <= e.WriteFenceVersion {
		c.WriteFenceToken, c.WriteFenceVersion, c.WriteFenceReason, c.WriteFenceUntilMS =
			e.WriteFenceToken, e.WriteFenceVersion, e.WriteFenceReason, e.WriteFenceUntilMS
	}
	if !explicitGen && c.RouteGeneration < e.RouteGeneration {
		c.RouteGeneration = e.RouteGeneration
	}
	if routeFieldsChanged(e, c) && c.RouteGeneration <= e.RouteGeneration {
		c.RouteGeneration = nextGen(e.RouteGeneration)
	}
	return &c, rtApplied
}

// refCreate: create-if-absent.
func refCreate(cur *rtMeta, cand rtMeta) (*rtMeta, bool, rtOutcome) {
	if !refValid(cand) {
		return cur, false, rtInvalid
	}
	if cur != nil {
		return cur, false, rtApplied
	}
	c := refNormalize(cand)
	return &c, true, rtApplied
}

// refRetention: retention-only advance behind an observed authority.
func refRetention(cur *rtMeta, req metadb.ChannelRetentionAdvance) (*rtMeta, rtOutcome) {
	if cur == nil {
		return cur, rtConflict
	}
	e := *cur
	if e.ChannelEpoch != req.ExpectedChannelEpoch || e.LeaderEpoch != req.ExpectedLeaderEpoch ||
		e.Leader != req.ExpectedLeader || e.LeaseUntilMS != req.ExpectedLeaseUntilMS {
		return cur, rtConflict
	}
	if req.RetentionThroughSeq <= e.RetentionThroughSeq {
		return cur, rtApplied
	}
	e.RetentionThroughSeq = req.RetentionThroughSeq
	e.RetentionUpdatedAtMS = req.RetentionUpdatedAtMS
	e.RouteGeneration = nextGen(e.RouteGeneration)
	return &e, rtApplied
}

func rtEqual(a, b *rtMeta) bool {
	if a == nil || b == nil {
		return a == nil && b == nil
	}
	x, y := refNormalize(*a), refNormalize(*b)
	return reflect.DeepEqual(x, y)
}

func rtString(m *rtMeta) string {
	if m == nil {
		return "<absent>"
	}
	return fmt.Sprintf("{ce=%d le=%d rg=%d L=%d R=%v ISR=%v min=%d st=%d feat=%d lease=%d ret=%d@%d fence=%q/v%d/r%d/u%d dir=%d}",
		m.ChannelEpoch, m.LeaderEpoch, m.RouteGeneration, m.Leader, m.Replicas, m.ISR, m.MinISR, m.Status, m.Features, m.LeaseUntilMS,
		m.RetentionThroughSeq, m.RetentionUpdatedAtMS, m.WriteFenceToken, m.WriteFenceVersion, m.WriteFenceReason, m.WriteFenceUntilMS, m.DirectoryGeneration)
}

// rtRegression checks the literal statement of C15 on two consecutive stored
// rows of one channel (no delete in between). It returns a class and detail.
func rtRegression(pre, post rtMeta) (string, string) {
	pre, post = refNormalize(pre), refNormalize(post)
	switch {
	case post.ChannelEpoch < pre.ChannelEpoch:
		return "channel-epoch-decreased", fmt.Sprintf("%d -> %d", pre.ChannelEpoch, post.ChannelEpoch)
	case post.LeaderEpoch < pre.LeaderEpoch:
		return "leader-epoch-decreased", fmt.Sprintf("%d -> %d (channel epoch %d -> %d)", pre.LeaderEpoch, post.LeaderEpoch, pre.ChannelEpoch, post.ChannelEpoch)
	case post.RetentionThroughSeq < pre.RetentionThroughSeq:
		return "retention-decreased", fmt.Sprintf("%d -> %d", pre.RetentionThroughSeq, post.RetentionThroughSeq)
	case post.WriteFenceVersion < pre.WriteFenceVersion:
		return "fence-version-decreased", fmt.Sprintf("%d -> %d", pre.WriteFenceVersion, post.WriteFenceVersion)
	case post.RouteGeneration < pre.RouteGeneration:
		return "route-generation-decreased", fmt.Sprintf("%d -> %d", pre.RouteGeneration, post.RouteGeneration)
	}
	if post.ChannelEpoch == pre.ChannelEpoch && post.LeaderEpoch == pre.LeaderEpoch {
		if post.Leader != pre.Leader {
			return "same-epoch-leader-switch", fmt.Sprintf("leader %d -> %d at epochs (%d,%d)", pre.Leader, post.Leader, pre.ChannelEpoch, pre.LeaderEpoch)
		}
		if post.LeaseUntilMS < pre.LeaseUntilMS {
			return "same-epoch-lease-shortened", fmt.Sprintf("lease %d -> %d at epochs (%d,%d)", pre.LeaseUntilMS, post.LeaseUntilMS, pre.ChannelEpoch, pre.LeaderEpoch)
		}
	}
	changed := pre.Leader != post.Leader || !reflect.DeepEqual(pre.Replicas, post.Replicas) || !reflect.DeepEqual(pre.ISR, post.ISR) ||
		pre.Status != post.Status || pre.LeaseUntilMS != post.LeaseUntilMS || pre.RetentionThroughSeq != post.RetentionThroughSeq ||
		pre.WriteFenceToken != post.WriteFenceToken || pre.WriteFenceVersion != post.WriteFenceVersion ||
		pre.WriteFenceReason != post.WriteFenceReason || pre.WriteFenceUntilMS != post.WriteFenceUntilMS
	if changed && post.RouteGeneration <= pre.RouteGeneration && pre.RouteGeneration != ^uint64(0) {
		return "route-generation-not-bumped", fmt.Sprintf("route changed but generation %d -> %d: %s -> %s", pre.RouteGeneration, post.RouteGeneration, rtString(&pre), rtString(&post))
	}
	return "", ""
}

// ---------------------------------------------------------------------------
// Proposers: writers of runtime metadata that compute their commands from a
// (possibly stale) cached read.
// ---------------------------------------------------------------------------

type chanRef struct {
	id  string
	typ int64
	hs  uint16
}

type rtKind int

const (
	rtkUpsert rtKind = iota
	rtkCreate
	rtkRetention
	rtkDelete
)

type rtCmd struct {
	kind   rtKind
	hs     uint16 // envelope hash slot
	data   []byte
	desc   string
	ch     chanRef                              // upsert / retention / delete
	meta   rtMeta                               // upsert
	items  []fsm.CreateChannelRuntimeMetaBatchItem // create (canonical order)
	ret    metadb.ChannelRetentionAdvance
	author int
}

type rtProposer struct {
	id    int
	cache map[string]*rtMeta // absent key: never read; nil: observed absent
	// noFence: this writer never invents write-fence values (it only carries
	// the ones it read), like every real writer other than a migration task.
	noFence bool
}

var simNodes = []uint64{1, 2, 3, 4}

func baseMeta(tp *simkit.Tape, ch chanRef) rtMeta {
	n := 1 + tp.Intn(3)
	start := tp.Intn(len(simNodes))
	var reps []uint64
	for i := 0; i <= n && i < len(simNodes); i++ {
		reps = append(reps, simNodes[(start+i)%len(simNodes)])
	}
	reps = normSet(reps)
	isrN := 1 + tp.Intn(len(reps))
	isr := append([]uint64(nil), reps[:isrN]...)
	m := rtMeta{ChannelID: ch.id, ChannelType: ch.typ,
		ChannelEpoch: uint64(1 + tp.Intn(3)), LeaderEpoch: uint64(1 + tp.Intn(3)),
		Replicas: reps, ISR: isr, Leader: isr[tp.Intn(len(isr))],
		MinISR: int64(1 + tp.Intn(isrN)), Status: uint8(1 + tp.Intn(3)), Features: uint64(tp.Intn(4)),
		LeaseUntilMS: int64(1000 + 100*tp.Intn(10))}
	return m
}

// mutate derives a candidate from a cached row the way real writers do
// (reconciler: membership change + channel epoch bump; leader: lease renewal,
// ISR change, retention; failover: leader epoch bump + new leader), plus
// regressing and conflicting variants.
func (p *rtProposer) upsertFrom(tp *simkit.Tape, ch chanRef) (rtMeta, string) {
	cur, seen := p.cache[ch.id]
	if !seen || cur == nil {
		return baseMeta(tp, ch), "fresh"
	}
	m := *cur
	m.Replicas = append([]uint64(nil), cur.Replicas...)
	m.ISR = append([]uint64(nil), cur.ISR...)
	var what string
	wFence, wArb := 2, 1
	if p.noFence {
		wFence, wArb = 0, 0
	}
	switch tp.Weighted([]int{4, 2, 4, 2, 4, 2, 3, 2, 3, wFence, wFence, 2, wArb}) {
	case 0:
		m.LeaseUntilMS += int64(100 * (1 + tp.Intn(5)))
		what = "renew-lease"
	case 1:
		m.LeaseUntilMS -= int64(100 * (1 + tp.Intn(5)))
		what = "shorten-lease"
	case 2:
		m.LeaderEpoch += uint64(1 + tp.Intn(2))
		if len(m.ISR) > 0 {
			m.Leader = m.ISR[tp.Intn(len(m.ISR))]
		}
		m.LeaseUntilMS = int64(1000 + 100*tp.Intn(20))
		what = "new-leader-epoch"
	case 3:
		if len(m.ISR) > 1 {
			for _, x := range m.ISR {
				if x != m.Leader {
					m.Leader = x
					break
				}
			}
		} else {
			m.LeaseUntilMS += 50
		}
		what = "same-epoch-leader-switch"
	case 4:
		m.ChannelEpoch += uint64(1 + tp.Intn(2))
		nb := baseMeta(tp, ch)
		m.Replicas, m.ISR, m.MinISR = nb.Replicas, nb.ISR, nb.MinISR
		if !containsU64(m.ISR, m.Leader) {
			m.Leader = m.ISR[0]
			m.LeaderEpoch++
		}
		what = "new-channel-epoch"
	case 5:
		m.ChannelEpoch++
		if m.LeaderEpoch > 0 {
			m.LeaderEpoch -= uint64(tp.Intn(2))
		}
		what = "new-channel-epoch-keep-leader-epoch"
	case 6:
		if len(m.ISR) > 1 && tp.Intn(2) == 0 {
			var keep []uint64
			drop := m.ISR[tp.Intn(len(m.ISR))]
			for _, x := range m.ISR {
				if x != drop || x == m.Leader {
					keep = append(keep, x)
				}
			}
			m.ISR = keep
		} else {
			for _, x := range m.Replicas {
				if !containsU64(m.ISR, x) {
					m.ISR = append(m.ISR, x)
					break
				}
			}
		}
		what = "isr-change"
	case 7:
		m.Status = uint8(1 + tp.Intn(3))
		what = "status"
	case 8:
		if tp.Intn(3) == 0 && m.RetentionThroughSeq > 0 {
			m.RetentionThroughSeq -= uint64(1 + tp.Intn(int(m.RetentionThroughSeq)))
		} else {
			m.RetentionThroughSeq += uint64(tp.Intn(5))
		}
		m.RetentionUpdatedAtMS = int64(tp.Intn(6)) * 10
		what = "retention"
	case 9:
		m.WriteFenceVersion += uint64(tp.Intn(2))
		m.WriteFenceToken = pickStr(tp, []string{"fx", "fy"})
		m.WriteFenceReason = uint8(1 + tp.Intn(2))
		m.WriteFenceUntilMS = int64(500 + 100*tp.Intn(5))
		what = "set-fence"
	case 10:
		m.WriteFenceVersion += uint64(tp.Intn(2))
		m.WriteFenceToken, m.WriteFenceReason, m.WriteFenceUntilMS = "", 0, 0
		what = "clear-fence"
	case 11:
		if tp.Intn(2) == 0 && m.ChannelEpoch > 0 {
			m.ChannelEpoch--
		} else if m.LeaderEpoch > 0 {
			m.LeaderEpoch--
		}
		m.LeaseUntilMS += 500
		m.Status = uint8(1 + tp.Intn(3))
		what = "older-epoch"
	default:
		nb := baseMeta(tp, ch)
		nb.ChannelEpoch = uint64(tp.Intn(6))
		nb.LeaderEpoch = uint64(tp.Intn(6))
		nb.RetentionThroughSeq = uint64(tp.Intn(8))
		nb.WriteFenceVersion = uint64(tp.Intn(4))
		m = nb
		what = "arbitrary"
	}
	switch tp.Weighted([]int{4, 3, 1, 1}) {
	case 0:
		m.RouteGeneration = 0
		what += "/gen-unset"
	case 1:
		m.RouteGeneration = cur.RouteGeneration + 1
		what += "/gen+1"
	case 2:
		what += "/gen-same"
	default:
		if m.RouteGeneration > 1 {
			m.RouteGeneration--
		}
		what += "/gen-1"
	}
	return m, what
}

func invalidate(tp *simkit.Tape, m rtMeta) (rtMeta, string) {
	switch tp.Intn(4) {
	case 0:
		m.Replicas, m.ISR, m.Leader = nil, nil, 0
		return m, "no-replicas"
	case 1:
		m.MinISR = int64(len(normSet(m.Replicas)) + 1)
		return m, "minisr-too-large"
	case 2:
		m.Leader = 9
		return m, "leader-not-member"
	default:
		m.ISR = append(append([]uint64(nil), m.ISR...), 8)
		return m, "isr-not-in-replicas"
	}
}

// propose draws one runtime-metadata command. invalidOK allows semantically
// invalid candidates (rejected with an error by the state machine).
func (p *rtProposer) propose(tp *simkit.Tape, chans []chanRef, invalidOK bool) rtCmd {
	ch := chans[tp.Intn(len(chans))]
	switch tp.Weighted([]int{8, 3, 3, 1}) {
	case 0:
		m, what := p.upsertFrom(tp, ch)
		if invalidOK && tp.Chance(1, 16) {
			var w string
			m, w = invalidate(tp, m)
			what += "/INVALID-" + w
		}
		return rtCmd{kind: rtkUpsert, hs: ch.hs, ch: ch, meta: m, author: p.id,
			data: fsm.EncodeUpsertChannelRuntimeMetaCommand(m),
			desc: fmt.Sprintf("p%d upsert %s %s %s", p.id, ch.id, what, rtString(&m))}
	case 1:
		n := 1 + tp.Intn(3)
		seen := map[string]bool{}
		var items []fsm.CreateChannelRuntimeMetaBatchItem
		for i := 0; i < n; i++ {
			c := chans[tp.Intn(len(chans))]
			if seen[c.id] {
				continue
			}
			seen[c.id] = true
			items = append(items, fsm.CreateChannelRuntimeMetaBatchItem{HashSlot: c.hs, Meta: baseMeta(tp, c)})
		}
		data, err := fsm.EncodeCreateChannelRuntimeMetaBatchCommandChecked(items)
		if err != nil {
			// cannot happen for distinct non-empty identities; fall back to an upsert
			m := baseMeta(tp, ch)
			return rtCmd{kind: rtkUpsert, hs: ch.hs, ch: ch, meta: m, author: p.id,
				data: fsm.EncodeUpsertChannelRuntimeMetaCommand(m), desc: fmt.Sprintf("p%d upsert %s fresh(fallback)", p.id, ch.id)}
		}
		// canonical order = (hash slot, type, id), the order results come back in
		sort.Slice(items, func(i, j int) bool {
			if items[i].HashSlot != items[j].HashSlot {
				return items[i].HashSlot < items[j].HashSlot
			}
			if items[i].Meta.ChannelType != items[j].Meta.ChannelType {
				return items[i].Meta.ChannelType < items[j].Meta.ChannelType
			}
			return items[i].Meta.ChannelID < items[j].Meta.ChannelID
		})
		d := fmt.Sprintf("p%d create-if-absent", p.id)
		for _, it := range items {
			d += " " + it.Meta.ChannelID
		}
		return rtCmd{kind: rtkCreate, hs: items[0].HashSlot, items: items, data: data, desc: d, author: p.id}
	case 2:
		req := metadb.ChannelRetentionAdvance{ChannelID: ch.id, ChannelType: ch.typ,
			RetentionThroughSeq: uint64(1 + tp.Intn(8)), RetentionUpdatedAtMS: int64(10 * tp.Intn(9))}
		if cur := p.cache[ch.id]; cur != nil {
			req.ExpectedChannelEpoch, req.ExpectedLeaderEpoch = cur.ChannelEpoch, cur.LeaderEpoch
			req.ExpectedLeader, req.ExpectedLeaseUntilMS = cur.Leader, cur.LeaseUntilMS
			if tp.Intn(4) != 0 {
				req.RetentionThroughSeq = cur.RetentionThroughSeq + uint64(tp.Intn(4))
			}
		} else {
			req.ExpectedChannelEpoch, req.ExpectedLeaderEpoch = uint64(1+tp.Intn(3)), uint64(1+tp.Intn(3))
			req.ExpectedLeader, req.ExpectedLeaseUntilMS = pickU64(tp, simNodes), int64(1000+100*tp.Intn(10))
		}
		return rtCmd{kind: rtkRetention, hs: ch.hs, ch: ch, ret: req, author: p.id,
			data: fsm.EncodeAdvanceChannelRetentionThroughSeqCommand(req),
			desc: fmt.Sprintf("p%d retention %s ->%d@%d expect(ce=%d le=%d L=%d lease=%d)", p.id, ch.id, req.RetentionThroughSeq, req.RetentionUpdatedAtMS,
				req.ExpectedChannelEpoch, req.ExpectedLeaderEpoch, req.ExpectedLeader, req.ExpectedLeaseUntilMS)}
	default:
		return rtCmd{kind: rtkDelete, hs: ch.hs, ch: ch, author: p.id,
			data: fsm.EncodeDeleteChannelRuntimeMetaCommand(ch.id, ch.typ),
			desc: fmt.Sprintf("p%d delete %s", p.id, ch.id)}
	}
}
