package metasima

import (
	"context"
	"errors"
	"fmt"
	"sort"
	"testing"

	"github.com/WuKongIM/WuKongIM/internal/verifsim/simkit"
	metadb "github.com/WuKongIM/WuKongIM/pkg/db/meta"
	"github.com/WuKongIM/WuKongIM/pkg/slot/fsm"
	"github.com/WuKongIM/WuKongIM/pkg/slot/multiraft"
)

// C17 — channel migration cutover is fenced and irreversible.
//
// World: one real slot FSM over one real meta DB; two competing migration
// executors and one ordinary metadata writer act on cached (stale) reads; the
// simulated slot log delays, reorders and duplicates their commands and
// delivers them in tape-chosen ApplyBatch groups; a simulated clock drives
// lease / fence expiry.

type c17Item struct {
	isMig bool
	mig   migCmd
	rt    rtCmd
}

func (it *c17Item) desc() string {
	if it.isMig {
		return it.mig.desc
	}
	return it.rt.desc
}

// repeatsCreate reports whether c (a plain create) repeats exactly the task of a
// create staged earlier in the same apply batch, with some other command of that
// task in between.
func repeatsCreate(earlier []c17Item, c *migCmd) bool {
	first := -1
	for i := range earlier {
		e := &earlier[i]
		if !e.isMig || e.mig.ch.id != c.ch.id {
			continue
		}
		switch e.mig.kind {
		case mkCreate:
			if first < 0 && e.mig.task == c.task {
				first = i
			}
		case mkCreateGuarded:
			if first < 0 && e.mig.create.Task == c.task {
				first = i
			}
		default:
			if first >= 0 && e.mig.guardTaskID() == c.task.TaskID {
				return true
			}
		}
	}
	return false
}

type c17World struct {
	r     *simkit.Run
	tp    *simkit.Tape
	n     *node
	chans []chanRef
	execs []*executor
	prop  *rtProposer
	model *migModel
	gen   migGenCfg

	pending []c17Item
	index   uint64
	now     int64

	cutoverDone map[string]string // channel|task -> how (commit / promote)
	rewound     map[string]string // channel|task -> what moved the task back out of its post-cutover phase
	accepted    int
	refused     int
	cutovers    int
}

func runC17(t *testing.T, r *simkit.Run) {
	dropPools()
	simkit.Bubble(t, r, func() {
		w := &c17World{r: r, tp: r.Tape, model: newMigModel(), cutoverDone: map[string]string{}, rewound: map[string]string{}}
		defer func() {
			if w.n != nil {
				w.n.close()
			}
		}()
		w.run()
	})
}

func (w *c17World) run() {
	tp, r := w.tp, w.r
	nChans := 1 + tp.Intn(2)
	ops := 30 + tp.Intn(70)
	noFaults := tp.Intn(4) == 0 // no duplicates / reordering / stale views forced / reopen
	maxBatch := 1 + tp.Intn(4)
	dupBias := tp.Intn(3)
	staleBias := tp.Intn(4) // how rarely executors refresh their view
	writerBias := tp.Intn(3)
	rogue := tp.Intn(6) == 0
	memTable := []int{256 << 10, 64 << 10}[tp.Intn(2)]
	if noFaults {
		dupBias, staleBias = 0, 0
	}
	r.Config = map[string]any{"channels": nChans, "ops": ops, "nofaults": noFaults, "max_batch": maxBatch, "dup_bias": dupBias,
		"stale_bias": staleBias, "writer_bias": writerBias, "rogue_advance": rogue, "memtable": memTable}
	hashSlots := []uint16{3, 7}
	ids := []string{"chA", "chB"}
	for i := 0; i < nChans; i++ {
		c := chanRef{id: ids[i], typ: 2, hs: hashSlots[i%2]}
		w.chans = append(w.chans, c)
		w.model.chans[c.id] = c
	}
	taskCounter := 0
	w.gen = migGenCfg{fenceTTL: 2000, ownerTTL: 3000, rogue: rogue, nextTaskID: &taskCounter}
	w.now = 10_000
	for i := 0; i < 2; i++ {
		w.execs = append(w.execs, &executor{id: i, node: uint64(11 + i), views: map[string]execView{}})
	}
	w.prop = &rtProposer{id: 9, cache: map[string]*rtMeta{}, noFence: true}
	w.n = newNode(r, "n0", 1, hashSlots, false, memTable)
	if !w.n.open() {
		return
	}
	// initial routing rows: three replicas, at least two in sync, a leader
	for _, ch := range w.chans {
		start := tp.Intn(len(simNodes))
		reps := normSet([]uint64{simNodes[start], simNodes[(start+1)%4], simNodes[(start+2)%4]})
		isr := reps
		if tp.Intn(3) == 0 {
			isr = reps[:2]
		}
		m := rtMeta{ChannelID: ch.id, ChannelType: ch.typ, ChannelEpoch: uint64(1 + tp.Intn(3)), LeaderEpoch: uint64(1 + tp.Intn(3)),
			Replicas: reps, ISR: isr, Leader: isr[tp.Intn(len(isr))], MinISR: int64(1 + tp.Intn(2)), Status: 2, LeaseUntilMS: w.now + 5000}
		w.index++
		out := w.n.apply([]multiraft.Command{{SlotID: 1, HashSlot: ch.hs, Index: w.index, Term: 1, Data: fsm.EncodeUpsertChannelRuntimeMetaCommand(m)}})
		if out.err != nil || out.panicked != "" {
			r.Infra("initial upsert failed: %v %s", out.err, out.panicked)
			return
		}
		nm := refNormalize(m)
		w.model.metas[ch.id] = &nm
		r.Logf("init %s %s", ch.id, rtString(&nm))
	}
	steps := 0
	for steps < ops*5 && !r.Failed() && r.InfraErr == "" {
		steps++
		r.Steps++
		done := w.accepted + w.refused
		if done >= ops && len(w.pending) == 0 {
			break
		}
		wAct, wCommit, wRefresh, wClock, wWriter, wReopen := 6, 0, 3, 1, writerBias, 0
		if done+len(w.pending) >= ops+4 {
			wAct, wWriter = 0, 0
		}
		if len(w.pending) > 0 {
			wCommit = 6
		}
		if staleBias > 0 {
			wRefresh = 4 - staleBias
			if wRefresh < 1 {
				wRefresh = 1
			}
		}
		if !noFaults && steps%8 == 0 {
			wReopen = 2
		}
		switch tp.Weighted([]int{wAct, wCommit, wRefresh, wClock, wWriter, wReopen}) {
		case 0:
			e := w.execs[tp.Intn(len(w.execs))]
			ch := w.chans[tp.Intn(len(w.chans))]
			if noFaults || staleBias == 0 {
				w.refresh(e, ch) // an executor that always acts on what is stored now
			}
			c, ok := e.act(tp, ch, w.now, w.gen)
			if !ok {
				r.Logf("t=%d x%d leaves %s alone (owned by another node)", w.now, e.id, ch.id)
				break
			}
			w.pending = append(w.pending, c17Item{isMig: true, mig: c})
			r.Logf("t=%d issue %s", w.now, c.desc)
		case 1:
			w.commit(maxBatch, dupBias, noFaults)
		case 2:
			e := w.execs[tp.Intn(len(w.execs))]
			ch := w.chans[tp.Intn(len(w.chans))]
			w.refresh(e, ch)
			v := e.views[ch.id]
			r.Logf("x%d reads %s task=%s meta=%s", e.id, ch.id, taskString(v.task), rtString(v.meta))
		case 3:
			w.now += int64(100 * (1 + tp.Intn(30)))
			r.SimTime += 0
			r.Logf("clock -> %d", w.now)
		case 4:
			ch := w.chans[tp.Intn(len(w.chans))]
			if tp.Intn(2) == 0 {
				w.prop.cache[ch.id] = w.readMeta(ch)
			}
			var c rtCmd
			for tries := 0; tries < 4; tries++ {
				c = w.prop.propose(tp, []chanRef{ch}, false)
				if c.kind == rtkUpsert || c.kind == rtkRetention {
					break
				}
			}
			if c.kind != rtkUpsert && c.kind != rtkRetention {
				break
			}
			w.pending = append(w.pending, c17Item{rt: c})
			r.Logf("t=%d issue %s", w.now, c.desc)
		case 5:
			r.Fault("reopen")
			r.Logf("fault: reopen")
			if tp.Intn(2) == 0 {
				w.n.reopenClean()
			} else {
				w.n.crashNow(0)
			}
			w.compareState("after reopen")
		}
	}
	r.Nontrivial = w.accepted >= 4 && w.refused >= 1 && (w.cutovers > 0 || noFaults)
}

func (w *c17World) refresh(e *executor, ch chanRef) {
	v := execView{meta: w.readMeta(ch)}
	t, ok, err := w.n.db.ForHashSlot(ch.hs).GetActiveChannelMigrationTask(context.Background(), ch.id, ch.typ)
	if err != nil {
		w.r.Infra("get active task: %v", err)
	}
	if ok {
		v.task = &t
	}
	e.views[ch.id] = v
}

func (w *c17World) readMeta(ch chanRef) *rtMeta {
	m, err := w.n.db.ForHashSlot(ch.hs).GetChannelRuntimeMeta(context.Background(), ch.id, ch.typ)
	if errors.Is(err, metadb.ErrNotFound) {
		return nil
	}
	if err != nil {
		w.r.Infra("read meta %s: %v", ch.id, err)
		return nil
	}
	return &m
}

func (w *c17World) readTasks() map[string]*mTask {
	out := map[string]*mTask{}
	for _, hs := range w.n.hashSlots {
		ts, err := w.n.db.ForHashSlot(hs).ListChannelMigrationTasks(context.Background())
		if err != nil {
			w.r.Infra("list tasks: %v", err)
			return out
		}
		for i := range ts {
			t := ts[i]
			out[tkey(t.ChannelID, t.TaskID)] = &t
		}
	}
	return out
}

// compareState checks the stored tasks and routing rows against the reference.
func (w *c17World) compareState(when string) bool {
	r := w.r
	tasks := w.readTasks()
	keys := map[string]bool{}
	for k := range tasks {
		keys[k] = true
	}
	for k := range w.model.tasks {
		keys[k] = true
	}
	ks := make([]string, 0, len(keys))
	for k := range keys {
		ks = append(ks, k)
	}
	sort.Strings(ks)
	for _, k := range ks {
		a, b := tasks[k], w.model.tasks[k]
		if a == nil || b == nil || *a != *b {
			r.FailSig("state-differs-from-reference", "task", fmt.Sprintf("%s: task %s stored %s, reference %s", when, k, taskString(a), taskString(b)), nil)
			return false
		}
	}
	for _, ch := range w.chans {
		got := w.readMeta(ch)
		if !rtEqual(got, w.model.metas[ch.id]) {
			r.FailSig("state-differs-from-reference", "meta", fmt.Sprintf("%s: channel %s stored %s, reference %s", when, ch.id, rtString(got), rtString(w.model.metas[ch.id])), nil)
			return false
		}
	}
	return true
}

// applyModel runs one command against the reference.
func (w *c17World) applyModel(c *migCmd) (migOutcome, int) {
	m := w.model
	switch c.kind {
	case mkCreate:
		return m.create(c.task), 0
	case mkCreateGuarded:
		return m.createGuarded(c.create), 0
	case mkClaim:
		return m.claim(c.claim), 0
	case mkAdvance:
		return m.advance(c.advance), 0
	case mkSetFence:
		return m.setFence(c.fence), 0
	case mkResetFence:
		return m.resetFence(c.reset), 0
	case mkCommit:
		return m.commitTransfer(c.commit), 0
	case mkAddLearner:
		return m.addLearner(c.learner), 0
	case mkPromote:
		return m.promote(c.promote), 0
	case mkClearFence:
		return m.clearFence(c.clear), 0
	case mkAbort:
		return m.abort(c.abort), 0
	case mkGC:
		return m.gc(c.hs, c.gc)
	}
	return mInvalid, 0
}

func (m *migModel) clone() *migModel {
	c := newMigModel()
	for k, t := range m.tasks {
		x := *t
		c.tasks[k] = &x
	}
	for k, r := range m.metas {
		x := *r
		c.metas[k] = &x
	}
	for k, v := range m.chans {
		c.chans[k] = v
	}
	return c
}

func metaValid(m rtMeta) string {
	for _, x := range m.ISR {
		if !containsU64(m.Replicas, x) {
			return fmt.Sprintf("ISR member %d is not a replica", x)
		}
	}
	if m.Leader != 0 && !containsU64(m.ISR, m.Leader) {
		return fmt.Sprintf("leader %d is not in ISR", m.Leader)
	}
	if m.MinISR > int64(len(m.Replicas)) {
		return fmt.Sprintf("MinISR %d exceeds replica count %d", m.MinISR, len(m.Replicas))
	}
	return ""
}

func fenceOf(m *rtMeta) string {
	if m == nil {
		return "<absent>"
	}
	return fmt.Sprintf("%q/v%d/r%d/u%d", m.WriteFenceToken, m.WriteFenceVersion, m.WriteFenceReason, m.WriteFenceUntilMS)
}

func (w *c17World) commit(maxBatch, dupBias int, noFaults bool) {
	r, tp := w.r, w.tp
	m := 1 + tp.Intn(min(maxBatch, len(w.pending)))
	var batch []c17Item
	for i := 0; i < m && len(w.pending) > 0; i++ {
		k := 0
		if !noFaults {
			k = tp.PickOldestBiased(len(w.pending))
		}
		it := w.pending[k]
		if dupBias > 0 && tp.Chance(dupBias, 8) {
			r.Fault("duplicate_delivery")
		} else {
			w.pending = append(w.pending[:k], w.pending[k+1:]...)
		}
		if k > 0 {
			r.Fault("reordered_delivery")
		}
		batch = append(batch, it)
	}
	cmds := make([]multiraft.Command, len(batch))
	for i := range batch {
		w.index++
		hs, data := batch[i].rt.hs, batch[i].rt.data
		if batch[i].isMig {
			hs, data = batch[i].mig.hs, batch[i].mig.data
		}
		cmds[i] = multiraft.Command{SlotID: 1, HashSlot: hs, Index: w.index, Term: 1, Data: data}
	}
	preTasks := w.readTasks()
	preMetas := map[string]*rtMeta{}
	for _, ch := range w.chans {
		preMetas[ch.id] = w.readMeta(ch)
	}
	r.Logf("apply batch of %d (index %d..%d)", len(batch), cmds[0].Index, w.index)
	out := w.n.apply(cmds)
	if out.panicked != "" {
		r.Fail("panic", "ApplyBatch panicked: "+out.panicked, nil)
		return
	}
	results := out.res
	errs := make([]error, len(batch))
	if out.err != nil {
		r.Probe("batch_error_fallback")
		results = make([][]byte, len(batch))
		for i := range cmds {
			o := w.n.apply(cmds[i : i+1])
			if o.panicked != "" {
				r.Fail("panic", "ApplyBatch panicked: "+o.panicked, nil)
				return
			}
			errs[i] = o.err
			if o.err == nil {
				results[i] = o.res[0]
			}
		}
	}
	postTasks := w.readTasks()
	postMetas := map[string]*rtMeta{}
	for _, ch := range w.chans {
		postMetas[ch.id] = w.readMeta(ch)
	}
	single := len(batch) == 1

	// at most one active task per channel, and the active lookup agrees
	for _, ch := range w.chans {
		var active []string
		for _, k := range sortedKeys(postTasks) {
			if t := postTasks[k]; t.ChannelID == ch.id && !terminal(*t) {
				active = append(active, t.TaskID)
			}
		}
		if len(active) > 1 {
			r.FailSig("two-active-tasks", "", fmt.Sprintf("channel %s has active tasks %v after index %d", ch.id, active, w.index), nil)
			return
		}
		t, ok, err := w.n.db.ForHashSlot(ch.hs).GetActiveChannelMigrationTask(context.Background(), ch.id, ch.typ)
		if err != nil {
			r.Infra("get active: %v", err)
			return
		}
		if ok != (len(active) == 1) || (ok && t.TaskID != active[0]) {
			r.FailSig("active-index-disagrees", "", fmt.Sprintf("channel %s: active lookup says (%v,%s), task rows say %v", ch.id, ok, t.TaskID, active), nil)
			return
		}
		ph := metadb.ChannelMigrationPhase(0)
		if len(active) == 1 {
			ph = postTasks[tkey(ch.id, active[0])].Phase
		}
		r.State("c17", ch.id, len(active), ph, postMetas[ch.id] != nil && postMetas[ch.id].WriteFenceToken != "")
	}


	for i := range batch {
		it := &batch[i]
		res := string(results[i])
		if !it.isMig {
			// ordinary writer: reference = C15 semantics as implemented by the store for
			// same-channel-epoch writes; this world is about fences and tasks, so the
			// reference follows the store's lexicographic epoch rule here.
			c := it.rt
			cur := w.model.metas[c.ch.id]
			preFence := fenceOf(cur)
			switch c.kind {
			case rtkUpsert:
				next, oc := refUpsert(cur, refNormalize(c.meta), false)
				if oc == rtApplied {
					w.model.metas[c.ch.id] = next
				}
				r.Logf("  #%d %s => %q (reference %s)", cmds[i].Index, c.desc, res, oc)
			case rtkRetention:
				next, oc := refRetention(cur, c.ret)
				if oc == rtApplied {
					w.model.metas[c.ch.id] = next
				}
				r.Logf("  #%d %s => %q (reference %s)", cmds[i].Index, c.desc, res, oc)
			}
			if single && preMetas[c.ch.id] != nil && postMetas[c.ch.id] != nil && preMetas[c.ch.id].WriteFenceToken != "" &&
				fenceOf(preMetas[c.ch.id]) != fenceOf(postMetas[c.ch.id]) {
				r.FailSig("foreign-fence-changed", "by-ordinary-writer", fmt.Sprintf("%s changed the write fence %s -> %s owned by task %q", c.desc, fenceOf(preMetas[c.ch.id]), fenceOf(postMetas[c.ch.id]), preMetas[c.ch.id].WriteFenceToken), nil)
				return
			}
			if n := w.model.metas[c.ch.id]; cur != nil && n != nil && cur.WriteFenceToken != "" && preFence != fenceOf(n) {
				r.FailSig("foreign-fence-changed", "by-ordinary-writer(reference)", fmt.Sprintf("%s changes the write fence %s -> %s", c.desc, preFence, fenceOf(n)), nil)
				return
			}
			continue
		}
		c := &it.mig
		tk := tkey(c.ch.id, c.guardTaskID())
		// state the command met (exact for single-command batches, the reference's otherwise)
		var preT *mTask
		var preM *rtMeta
		if single {
			preT, preM = preTasks[tk], preMetas[c.ch.id]
		} else {
			preT, preM = w.model.tasks[tk], w.model.metas[c.ch.id]
		}
		trial := w.model.clone()
		saved := w.model
		w.model = trial
		oc, gcN := w.applyModel(c)
		w.model = saved
		r.Logf("  #%d %s => %q err=%s (reference %s)", cmds[i].Index, c.desc, res, errClass(errs[i]), oc)

		if errs[i] != nil {
			if oc != mInvalid {
				r.FailSig("unexpected-error", c.kind.String()+"/"+errClass(errs[i]), fmt.Sprintf("%s: rejected with error %v, reference says %s", c.desc, errs[i], oc), nil)
				return
			}
			w.refused++
			r.Probe("invalid_rejected")
			continue
		}
		if oc == mInvalid {
			r.FailSig("invalid-accepted", c.kind.String(), fmt.Sprintf("%s: result %q but the reference rejects the request as invalid", c.desc, res), nil)
			return
		}
		implRefused := res == fsm.ApplyResultStaleMeta
		if single && !implRefused && c.kind != mkGC {
			// the command ran alone: the rows it met and left are observed directly, so
			// the statement is checked on them before anything is asked of the reference
			oT, oM := postTasks[tk], postMetas[c.ch.id]
			effective := (preT == nil) != (oT == nil) || (preT != nil && oT != nil && *preT != *oT) || !rtEqual(preM, oM)
			if effective && !w.statement(c, tk, preT, preM, oT, oM) {
				return
			}
		}
		if c.kind == mkGC {
			// retention cleanup is not a cutover step: accept what was removed as long as
			// only expired terminal tasks were removed, then follow the store
			removed := 0
			for k, t := range preTasks {
				if postTasks[k] == nil && single {
					removed++
					if !terminal(*t) || t.CompletedAtMS >= c.gc.BeforeMS {
						r.FailSig("gc-removed-live-task", "", fmt.Sprintf("%s removed %s", c.desc, taskString(t)), nil)
						return
					}
				}
			}
			if single && removed > c.gc.Limit {
				r.FailSig("gc-over-limit", "", fmt.Sprintf("%s removed %d tasks", c.desc, removed), nil)
				return
			}
			w.model = trial
			_ = gcN
			w.accepted++
			continue
		}
		switch {
		case implRefused && oc == mOK:
			// a refusal is always safe; it is reported, and the reference follows the store
			r.Probe("refused_but_reference_accepts:" + c.kind.String())
			r.Logf("    note: store refused a step the reference accepts")
			w.refused++
			continue
		case !implRefused && oc == mStale && !single && c.kind == mkCreate && repeatsCreate(batch[:i], c):
			// Batch artefact that belongs to C13 (batch transparency), not to this
			// property: a plain create that repeats, byte for byte, a create staged earlier
			// in the same apply batch is answered "ok" from the batch's own create table
			// even though the task was changed in between (alone it is answered
			// stale_meta). It writes no task or routing row (no hash-slot migration is
			// configured in this world, so no outbox row either); the state comparison
			// after the batch holds it to that, and the reference does not follow it.
			r.Probe("note.repeated_create_answered_ok_after_task_changed_in_same_batch")
			r.Logf("    note: repeated create answered ok although the task changed earlier in this batch (no effect expected)")
			w.refused++
			continue
		case !implRefused && oc == mStale:
			r.FailSig("accepted-but-reference-refuses", c.kind.String(), fmt.Sprintf("%s: result %q; reference refuses it against task %s meta %s", c.desc, res, taskString(preT), rtString(preM)), nil)
			return
		case implRefused:
			w.refused++
			r.Probe("refused:" + c.kind.String())
			continue
		}
		// accepted by both
		w.model = trial
		w.accepted++
		r.Probe("accepted:" + c.kind.String())
		postT, postM := w.model.tasks[tk], w.model.metas[c.ch.id]
		if single {
			postT, postM = postTasks[tk], postMetas[c.ch.id]
		}
		changed := (preT == nil) != (postT == nil) || (preT != nil && postT != nil && *preT != *postT) || !rtEqual(preM, postM)
		if !changed {
			r.Probe("accepted_noop:" + c.kind.String())
			continue
		}
		if !single && !w.statement(c, tk, preT, preM, postT, postM) {
			return
		}
	}
	// retention cleanup inside a multi-command batch: follow the store for expired terminal tasks
	for i := range batch {
		if !batch[i].isMig || batch[i].mig.kind != mkGC {
			continue
		}
		g := batch[i].mig.gc
		for _, k := range sortedKeys(w.model.tasks) {
			t := w.model.tasks[k]
			if postTasks[k] == nil && terminal(*t) && t.CompletedAtMS < g.BeforeMS {
				delete(w.model.tasks, k)
			}
		}
		for _, k := range sortedKeys(postTasks) {
			t := postTasks[k]
			if w.model.tasks[k] == nil && terminal(*t) && t.CompletedAtMS < g.BeforeMS {
				if pt := preTasks[k]; pt != nil || true {
					x := *t
					w.model.tasks[k] = &x
				}
			}
		}
	}
	w.compareState(fmt.Sprintf("after index %d", w.index))
	if len(batch) > 1 {
		r.Probe("multi_command_batch")
	}
}

// statement checks the clauses of C17 on the rows an accepted, effective command
// met (preT, preM) and left (postT, postM).
func (w *c17World) statement(c *migCmd, tk string, preT *mTask, preM *rtMeta, postT *mTask, postM *rtMeta) bool {
	r := w.r
	if (c.kind == mkCreate || c.kind == mkCreateGuarded) && preT == nil {
		// a new task (possibly re-using the id of one that was garbage-collected) has no history
		delete(w.cutoverDone, tk)
		delete(w.rewound, tk)
	}
	if c.kind == mkCommit || c.kind == mkPromote {
		var rg metadb.ChannelMigrationRuntimeGuard
		if c.kind == mkCommit {
			rg = c.commit.RuntimeGuard
		} else {
			rg = c.promote.RuntimeGuard
		}
		if preT == nil || preM == nil || !proofCurrent(*preT, *preM, preM.WriteFenceVersion) || !ownsFence(*preT, *preM, preM.WriteFenceVersion) ||
			rg.ExpectedFenceVersion != preM.WriteFenceVersion || rg.ExpectedChannelEpoch != preM.ChannelEpoch || rg.ExpectedLeaderEpoch != preM.LeaderEpoch || rg.ExpectedLeader != preM.Leader {
			r.FailSig("cutover-without-current-proof", c.kind.String(), fmt.Sprintf("%s was accepted against task %s and row %s: the drain proof / guard does not describe the current row", c.desc, taskString(preT), rtString(preM)), nil)
			return false
		}
		if c.kind == mkPromote || (preT != nil && isLTKind(preT.Kind)) {
			w.cutoverDone[tk] = c.kind.String()
			w.cutovers++
			r.Probe("cutover_committed:" + c.kind.String())
		} else {
			r.Probe("embedded_transfer_committed")
		}
	}
	if w.cutoverDone[tk] != "" && preT != nil && postT != nil && phaseIn(preT.Phase, phVerifyLdr, phVerifyMem, phClear) && !phaseIn(postT.Phase, phVerifyLdr, phVerifyMem, phClear) {
		switch {
		case c.kind == mkAdvance:
			w.rewound[tk] = "phase-rewound-by-advance"
		case c.kind == mkResetFence:
			w.rewound[tk] = "phase-rewound-by-reset-fence"
		default:
			w.rewound[tk] = "phase-rewound-by-" + c.kind.String()
		}
		r.Probe("post_cutover_task_" + w.rewound[tk])
	}
	if c.kind == mkAbort && postT != nil && postT.Status == stAborted && w.cutoverDone[tk] != "" {
		sig := "direct"
		if w.rewound[tk] != "" {
			sig = w.rewound[tk]
		}
		r.FailSig("abort-after-cutover", sig, fmt.Sprintf("%s aborted task %s whose %s had been accepted before (task met: %s)", c.desc, tk, w.cutoverDone[tk], taskString(preT)), nil)
		return false
	}
	if preM != nil && postM != nil && preM.WriteFenceToken != "" && preM.WriteFenceToken != c.guardTaskID() && fenceOf(preM) != fenceOf(postM) {
		r.FailSig("foreign-fence-changed", c.kind.String(), fmt.Sprintf("%s (task %s) changed the write fence %s -> %s owned by task %q", c.desc, c.guardTaskID(), fenceOf(preM), fenceOf(postM), preM.WriteFenceToken), nil)
		return false
	}
	if postM != nil {
		if why := metaValid(*postM); why != "" {
			r.FailSig("invalid-meta-after-step", c.kind.String(), fmt.Sprintf("%s left row %s: %s", c.desc, rtString(postM), why), nil)
			return false
		}
		if preM != nil && int64(len(preM.ISR)) >= preM.MinISR && int64(len(postM.ISR)) < postM.MinISR {
			r.FailSig("invalid-meta-after-step", c.kind.String()+"/minisr", fmt.Sprintf("%s left |ISR|=%d below MinISR=%d (before: %s after: %s)", c.desc, len(postM.ISR), postM.MinISR, rtString(preM), rtString(postM)), nil)
			return false
		}
	}
	return true
}
