package metasima

import (
	"bytes"
	"encoding/binary"
	"encoding/json"
	"strings"

	"github.com/WuKongIM/WuKongIM/pkg/slot/fsm"
)

// ---------------------------------------------------------------------------
// Root-cause classification of C13 divergences.
//
// A divergence between the reference replica (every command alone) and another
// replica is first of all a symptom ("result ok vs stale_meta", "snapshot
// differs in table 9"). Several symptoms share one cause, and one cause shows
// up under many symptoms. The signature therefore names the cause when the
// specific command pattern that triggers it is present IN THE DIVERGING BATCH
// (and, for result divergences, ends at the diverging entry); otherwise the
// fine-grained symptom signature is kept, so an unrelated bug can never be
// filed under a known cause just because it shows a similar symptom.
//
// Patterns are recognised from the payload bytes of the log entries (wire
// format of pkg/slot/fsm), not from how the generator labelled them, so a
// byte-damaged payload that still decodes is classified like the command it
// decodes to.
// ---------------------------------------------------------------------------

const (
	wireDeleteChannel     = 3
	wireAddSubscribers    = 8
	wireRemoveSubscribers = 9
	wireApplyDelta        = 20
	wireEnterFence        = 21
	wireCleanupOutbox     = 23
	wireMigCreate         = 30
	wireMigClaim          = 31
	wireMigAdvance        = 32
	wireMigSetFence       = 33
	wireMigResetFence     = 34
	wireMigCommit         = 35
	wireMigAddLearner     = 36
	wireMigPromote        = 37
	wireMigClearFence     = 38
	wireMigAbort          = 39
	wireMigGC             = 40
	wireMigCreateGuarded  = 41
	wireCreateRuntimeMeta = 59
)

type cmdInfo struct {
	ok     bool // header and TLV framing parsed
	typ    byte
	ch     string // channel the command names ("" if none)
	chType int64
	task   string // migration task id
	status int    // target status of a migration step (0 if none)
	// apply-delta
	deltaHS   uint16
	innerType byte
}

func tlvFields(b []byte) (map[byte][]byte, bool) {
	out := map[byte][]byte{}
	for len(b) > 0 {
		if len(b) < 5 {
			return out, false
		}
		n := int(binary.BigEndian.Uint32(b[1:5]))
		if n < 0 || 5+n > len(b) {
			return out, false
		}
		if _, dup := out[b[0]]; !dup {
			out[b[0]] = b[5 : 5+n]
		}
		b = b[5+n:]
	}
	return out, true
}

func parseCmd(data []byte) cmdInfo {
	var ci cmdInfo
	if len(data) < 2 || data[0] != 1 {
		return ci
	}
	ci.typ = data[1]
	f, ok := tlvFields(data[2:])
	if !ok {
		return ci
	}
	ci.ok = true
	switch ci.typ {
	case wireDeleteChannel, wireAddSubscribers, wireRemoveSubscribers:
		ci.ch = string(f[1])
		if len(f[2]) == 8 {
			ci.chType = int64(binary.BigEndian.Uint64(f[2]))
		}
	case wireApplyDelta:
		if len(f[3]) == 8 {
			ci.deltaHS = uint16(binary.BigEndian.Uint64(f[3]))
		}
		if len(f[4]) >= 2 {
			ci.innerType = f[4][1]
			if ci.innerType == wireDeleteChannel {
				// the channel a delta-wrapped delete-channel names
				if in := parseCmd(f[4]); in.ok {
					ci.ch, ci.chType = in.ch, in.chType
				}
			}
		}
	case wireMigCreate, wireMigCreateGuarded, wireMigClaim, wireMigAdvance, wireMigSetFence, wireMigResetFence,
		wireMigCommit, wireMigAddLearner, wireMigPromote, wireMigClearFence, wireMigAbort:
		var m map[string]any
		if json.Unmarshal(f[1], &m) != nil {
			ci.ok = false
			return ci
		}
		str := func(m map[string]any, k string) string { s, _ := m[k].(string); return s }
		num := func(m map[string]any, k string) int { x, _ := m[k].(float64); return int(x) }
		switch ci.typ {
		case wireMigCreate:
			ci.ch, ci.task = str(m, "ChannelID"), str(m, "TaskID")
		case wireMigCreateGuarded:
			if t, _ := m["Task"].(map[string]any); t != nil {
				ci.ch, ci.task = str(t, "ChannelID"), str(t, "TaskID")
			}
		default:
			if g, _ := m["Guard"].(map[string]any); g != nil {
				ci.ch, ci.task = str(g, "ChannelID"), str(g, "TaskID")
			}
			ci.status = num(m, "Status")
		}
	}
	return ci
}

// finishesTask: the step makes its task terminal (completed 4, failed 5, aborted 6).
func (ci cmdInfo) finishesTask() bool {
	switch ci.typ {
	case wireMigAbort:
		return true
	case wireMigAdvance, wireMigClearFence:
		return ci.status >= 4 && ci.status <= 6
	}
	return false
}

func (ci cmdInfo) createsTask() bool {
	return ci.ok && (ci.typ == wireMigCreate || ci.typ == wireMigCreateGuarded) && ci.task != ""
}

// effHS is the hash slot an entry acts on (legacy machines map 0 to their slot).
func (w *c13World) effHS(e logEntry) uint16 {
	if e.hs == 0 && w.legacy {
		return w.owned[0]
	}
	return e.hs
}

// touches: the entry acts on hash slot hs (multi-hash-slot batch commands name
// their hash slots per item; the real decoder lists them).
func (w *c13World) touches(e logEntry, hs uint16) bool {
	eff := w.effHS(e)
	if eff == hs {
		return true
	}
	slots, err := fsm.DecodeCommandHashSlots(e.data, eff)
	return err == nil && containsU16(slots, hs)
}

func (w *c13World) trackedIndex(hs uint16) int {
	for i, x := range w.tracked {
		if x == hs {
			return i
		}
	}
	return -1
}

// hasMigrationState: the hash-slot migration state row (table 10, record 1) is
// present in an exported snapshot.
func hasMigrationState(snap []byte, hs uint16) bool {
	kvs, ok := decodeSnap(snap)
	if !ok {
		return false
	}
	want := []byte{0x02, 0x02, byte(hs >> 8), byte(hs), 0x10, 0, 0, 0, 10, 0x01}
	for _, e := range kvs {
		if bytes.Equal(e.k, want) {
			return true
		}
	}
	return false
}

// cleanupRemovedState: on the reference replica this (accepted) cleanup-outbox
// entry removed the migration state of its hash slot, i.e. it lifted a fence.
func (w *c13World) cleanupRemovedState(e logEntry) bool {
	if e.rejected || string(e.res) != "ok" || int(e.idx) >= len(w.snaps) {
		return false
	}
	hs := w.effHS(e)
	ti := w.trackedIndex(hs)
	if ti < 0 {
		return false
	}
	return hasMigrationState(w.snaps[e.idx-1][ti], hs) && !hasMigrationState(w.snaps[e.idx][ti], hs)
}

// rootCause inspects the diverging batch. j is the index (inside batch) of the
// entry whose outcome differs, or -1 for a state divergence; got is the
// diverging replica's result for entry j (nil if it failed); hsIdx / where
// locate a state divergence (tracked hash slot index and diffWhere()).
func (w *c13World) rootCause(batch []logEntry, j int, got []byte, hsIdx int, where string) string {
	if len(batch) < 2 {
		return ""
	}
	infos := make([]cmdInfo, len(batch))
	for i, e := range batch {
		infos[i] = parseCmd(e.data)
	}
	accepted := func(i int) bool { return !batch[i].rejected && string(batch[i].res) == "ok" }

	// 1. cleanup-outbox earlier in the same batch: the batch-local migration state is
	// dropped instead of tombstoned, later commands re-read the committed fence.
	for i := range batch {
		if !(infos[i].ok && infos[i].typ == wireCleanupOutbox && w.cleanupRemovedState(batch[i])) {
			continue
		}
		hs := w.effHS(batch[i])
		if j > i && w.touches(batch[j], hs) {
			refFenced := !batch[j].rejected && string(batch[j].res) == "hash_slot_fenced"
			gotFenced := got != nil && string(got) == "hash_slot_fenced"
			if refFenced != gotFenced {
				return "cleanup-outbox-earlier-in-same-batch"
			}
		}
		if j < 0 && i < len(batch)-1 && hsIdx >= 0 && w.tracked[hsIdx] == hs && strings.HasPrefix(where, "space10-table10") {
			return "cleanup-outbox-earlier-in-same-batch"
		}
	}

	// 2. a migration task created and finished inside one batch
	for i := range batch {
		if !(infos[i].createsTask() && accepted(i)) {
			continue
		}
		for k := i + 1; k < len(batch); k++ {
			if !(infos[k].ok && infos[k].finishesTask() && accepted(k) && infos[k].ch == infos[i].ch && infos[k].task == infos[i].task && w.effHS(batch[k]) == w.effHS(batch[i])) {
				continue
			}
			// 2a. its active-index row stays behind (the upsert looks for the previous row in the committed DB)
			if j < 0 && hsIdx >= 0 && w.tracked[hsIdx] == w.effHS(batch[i]) && strings.HasPrefix(where, "space11-table9") {
				return "migration-task-created-and-finished-in-one-batch"
			}
			// 2b. the batch keeps the channel's active slot reserved: the next create is refused
			if j > k && infos[j].createsTask() && infos[j].ch == infos[i].ch && w.effHS(batch[j]) == w.effHS(batch[i]) &&
				!batch[j].rejected && string(batch[j].res) == "ok" && string(got) == "stale_meta" {
				return "migration-create-after-task-created-and-finished-in-same-batch"
			}
		}
	}

	// 3. delete-channel followed by a subscriber change of the same channel: subscriber
	// existence is read from committed rows, the staged range delete is not seen
	if j > 0 && infos[j].ok && (infos[j].typ == wireAddSubscribers || infos[j].typ == wireRemoveSubscribers) &&
		!batch[j].rejected && bytes.HasPrefix(batch[j].res, []byte("WKSM")) && bytes.HasPrefix(got, []byte("WKSM")) {
		for i := 0; i < j; i++ {
			direct := infos[i].typ == wireDeleteChannel && w.effHS(batch[i]) == w.effHS(batch[j])
			// the same delete-channel replayed from a hash-slot migration delta for that hash slot
			wrapped := infos[i].typ == wireApplyDelta && infos[i].innerType == wireDeleteChannel && infos[i].deltaHS == w.effHS(batch[j])
			if infos[i].ok && (direct || wrapped) && accepted(i) && infos[i].ch != "" && infos[i].ch == infos[j].ch && infos[i].chType == infos[j].chType {
				return "delete-channel-then-subscriber-change-in-one-batch"
			}
		}
	}
	// 4. retention GC after the task rows changed earlier in the same batch (a task was
	// finished, or an earlier GC removed tasks): the GC plans its count and scans from
	// committed task rows, so it neither sees the finished task nor the removal
	if j > 0 && infos[j].ok && infos[j].typ == wireMigGC && !batch[j].rejected &&
		bytes.HasPrefix(batch[j].res, []byte("WKMG")) && bytes.HasPrefix(got, []byte("WKMG")) {
		for i := 0; i < j; i++ {
			if !infos[i].ok || batch[i].rejected || w.effHS(batch[i]) != w.effHS(batch[j]) {
				continue
			}
			if (infos[i].finishesTask() && accepted(i)) || (infos[i].typ == wireMigGC && bytes.HasPrefix(batch[i].res, []byte("WKMG")) && !bytes.Equal(batch[i].res, []byte("WKMG\x01\x00"))) {
				return "migration-gc-after-task-change-in-same-batch"
			}
		}
	}
	// 5. a plain create that repeats, byte for byte, a create staged earlier in the same
	// batch, with an accepted step of that task in between: the repeat is answered from
	// the batch's own table of staged creates ("ok, identical") although the task is no
	// longer the one it describes (alone it is answered stale_meta)
	if j > 1 && infos[j].ok && infos[j].typ == wireMigCreate && infos[j].task != "" && !batch[j].rejected &&
		string(batch[j].res) == "stale_meta" && string(got) == "ok" {
		for i := 0; i < j-1; i++ {
			if !(infos[i].ok && infos[i].typ == wireMigCreate && bytes.Equal(batch[i].data, batch[j].data) && w.effHS(batch[i]) == w.effHS(batch[j]) && accepted(i)) {
				continue
			}
			for k := i + 1; k < j; k++ {
				if infos[k].ok && infos[k].typ != wireMigCreate && infos[k].typ != wireMigCreateGuarded && infos[k].ch == infos[j].ch && infos[k].task == infos[j].task &&
					w.effHS(batch[k]) == w.effHS(batch[j]) && accepted(k) {
					return "migration-create-repeated-after-task-change-in-same-batch"
				}
			}
		}
	}
	return ""
}
