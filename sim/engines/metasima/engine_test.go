package metasima

import (
	"testing"

	"github.com/WuKongIM/WuKongIM/internal/verifsim/simkit"
)

func TestVerifSim(t *testing.T) {
	simkit.Main(t, simkit.Engine{
		Name: "metasima",
		Props: map[string]simkit.PropFunc{
			"C13": runC13,
			"C15": runC15,
			"C17": runC17,
			"C17exec": runC17exec,
		},
		Real: []string{
			"pkg/slot/fsm state machine (ApplyBatch, split-and-replay, ownership / fence checks, Snapshot, Restore, DurableAppliedIndex)",
			"pkg/slot/fsm command codecs (all Encode* functions; decodeCommand)",
			"pkg/db/meta (WriteBatch, Batch overlays, table codecs, monotonic runtime-meta resolution, channel migration tables and indexes, hash-slot snapshot export/import)",
			"pkg/db/internal/commit coordinator, pkg/db/internal/engine, Pebble v2 (WAL, memtable, flush, recovery)",
			"C17exec: pkg/cluster/channels MigrationExecutor (migration_executor.go, migration_leader_transfer.go, migration_replica_replace.go) and MigrationStore (migration_store.go)",
		},
		Stub: []string{
			"slot Raft log (the simulator orders, batches, delays, duplicates and re-delivers committed commands)",
			"disk (vfs.NewCrashableMem behind a WAL write/sync gate; crash = CrashClone with 0% or 100% of unsynced data)",
			"proposers: controller reconciler / channel leaders / migration executors acting on cached reads; wall clock of executors",
			"hash-slot ownership table (fixed per run), delta forwarder (nil)",
			"C17exec: channel data plane behind MigrationRuntime (probe / drain / apply-meta answered from a small per-node model with replication lag, a warming new leader, runtime eviction and re-activation from a stale metadata read), slot proposer, router, task source (both executors believe they lead the slot), operator, wall clock",
		},
		Rule: "One run = one synctest bubble. C13: a tape-generated log (8-40 commands over every command type, valid/stale/conflicting/malformed/unowned/re-proposed) applied alone on a reference replica and in tape-chosen ApplyBatch partitions on two more real replicas with crashes (between and inside batches), clean reopens and snapshot restores; non-trivial = >=5 applied commands, >=2 multi-command batches and (a recovery happened or the run is fault-free). " +
			"C15: 2-4 proposers with stale caches, 10-50 commands delivered reordered/duplicated in batches with reopen/crash; non-trivial = >=3 applied and >=1 refused write. " +
			"C17exec: the real pkg/cluster/channels MigrationExecutor (two identities) + MigrationStore against the real FSM, runtime and proposer ports parked at the scheduler (late answers, failures, lost / unacknowledged / duplicated proposals), executor crash and restart, operator create / abort, simulated clock, then a fault-free tail; non-trivial = >=4 accepted commands, a cutover committed or a task completed, and a fault fired (or the run is fault-free). " +
			"C17: two executors following the real migration workflow on stale views plus an ordinary metadata writer, 30-100 commands, simulated clock; non-trivial = >=4 accepted, >=1 refused and (a cutover was committed or the run is fault-free).",
		Assumptions: []string{
			"testing/synctest fake clock (go1.26.8): the commit coordinator's 500us flush window elapses in fake time",
			"crash clones keep either none (power loss) or all (process kill) of the unsynced data: torn writes are not explored because pebble's MemFS consumes its RNG in map order",
			"crash points inside ApplyBatch are WAL write/sync boundaries (flush/compaction I/O comes from background goroutines and has no canonical order)",
			"one state machine call at a time per replica (the slot runtime applies from a single goroutine)",
		},
	})
}
