package metasima

import (
	"testing"

	"github.com/WuKongIM/WuKongIM/internal/verifsim/simkit"
)

func TestVerifSim(t *testing.T) {
	simkit.Main(t, simkit.Engine{
		Name: "metasima",
		Props: map[string]simkit.PropFunc{
			"C15": runC15,
			"C17": runC17,
		},
	})
}
