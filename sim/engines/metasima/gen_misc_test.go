package metasima

import (
	"encoding/binary"
	"fmt"

	"github.com/WuKongIM/WuKongIM/internal/verifsim/simkit"
	metadb "github.com/WuKongIM/WuKongIM/pkg/db/meta"
	"github.com/WuKongIM/WuKongIM/pkg/protocol/channelid"
	"github.com/WuKongIM/WuKongIM/pkg/slot/fsm"
	"github.com/WuKongIM/WuKongIM/pkg/slot/multiraft"
)

// ---------------------------------------------------------------------------
// Generator for every other slot FSM command type (C13), over small key
// domains so that commands collide, replay and go stale.
// ---------------------------------------------------------------------------

var (
	simUIDs     = []string{"u1", "u2", "u3", "u4"}
	simChannels = []string{"g1", "g2", "g3"}
	simPlugins  = []string{"pa", "pb"}
	simMsgNos   = []string{"m1", "m2"}
	eventTypes  = []string{metadb.EventTypeStreamOpen, metadb.EventTypeStreamDelta, metadb.EventTypeStreamClose, metadb.EventTypeStreamError,
		metadb.EventTypeStreamCancel, metadb.EventTypeStreamSnapshot, metadb.EventTypeStreamFinish}
)

type miscCmd struct {
	hs   uint16
	data []byte
	desc string
	// maintenance: hash-slot migration maintenance commands and deltas are
	// deliberately accepted for hash slots the slot does not own
	maintenance bool
	// scopedForeign: a multi-hash-slot command that names a foreign hash slot
	scopedForeign bool
	// deltaHS: for an apply-delta command, the one hash slot it is a delta of
	deltaHS uint16
	isDelta bool
}

type miscGen struct {
	tp      *simkit.Tape
	slot    uint64
	owned   []uint16
	foreign uint16
	// personBias (0..2): how often a command belongs to the life cycle of one of two
	// person channels (admission, deletion, re-admission, completion), each of which
	// lives in one fixed hash slot like a real channel does
	personBias int
}

// personLifecycle draws one step of a person channel's life.
func (g *miscGen) personLifecycle() miscCmd {
	tp := g.tp
	pcs := simPersonChannels()
	k := tp.Intn(len(pcs))
	pc, hs := pcs[k], g.owned[k%len(g.owned)]
	switch tp.Weighted([]int{3, 3, 1, 1, 1}) {
	case 0:
		it := fsm.PersonDirectoryAdmissionBatchItem{HashSlot: hs,
			Task:        metadb.PersonDirectoryTask{ChannelID: pc, ChannelType: 1, CommittedTail: uint64(tp.Intn(5)), CreatedAt: int64(tp.Intn(5))},
			RuntimeMeta: g.runtimeMeta(pc, 1)}
		if data, err := fsm.EncodeAdmitPersonDirectoryTaskBatchCommandChecked([]fsm.PersonDirectoryAdmissionBatchItem{it}); err == nil {
			return miscCmd{hs: hs, data: data, desc: "admit-person-directory " + pc}
		}
	case 1:
		return miscCmd{hs: hs, data: fsm.EncodeDeleteChannelCommand(pc, 1), desc: "delete-channel " + pc}
	case 2:
		it := fsm.PersonDirectoryCompletionBatchItem{HashSlot: hs, ChannelID: pc, ChannelType: 1, Generation: uint64(1 + tp.Intn(3))}
		if data, err := fsm.EncodeCompletePersonDirectoryTaskBatchCommandChecked([]fsm.PersonDirectoryCompletionBatchItem{it}); err == nil {
			return miscCmd{hs: hs, data: data, desc: fmt.Sprintf("complete-person-directory %s gen=%d", pc, it.Generation)}
		}
	case 3:
		m := g.runtimeMeta(pc, 1)
		return miscCmd{hs: hs, data: fsm.EncodeUpsertChannelRuntimeMetaCommand(m), desc: fmt.Sprintf("upsert-runtime-meta %s %s", pc, rtString(&m))}
	default:
		c := metadb.Channel{ChannelID: pc, ChannelType: 1, Ban: int64(tp.Intn(2))}
		return miscCmd{hs: hs, data: fsm.EncodeCreateChannelCommand(c), desc: "create-channel " + pc}
	}
	return miscCmd{hs: hs, data: fsm.EncodeNoopCommand(), desc: "noop"}
}

func (g *miscGen) hs() uint16 { return pickU16(g.tp, g.owned) }

// personChannel draws from a small set of person channels so that admission,
// deletion and re-admission of one channel meet inside short logs.
func (g *miscGen) personChannel() string {
	a := g.tp.Intn(2)
	return channelid.EncodePersonChannel(simUIDs[a], simUIDs[a+1])
}

func simPersonChannels() []string {
	return []string{channelid.EncodePersonChannel(simUIDs[0], simUIDs[1]), channelid.EncodePersonChannel(simUIDs[1], simUIDs[2])}
}

// channelForRow picks the channel of a channel-row command: mostly a group
// channel, sometimes a person channel (type 1).
func (g *miscGen) channelForRow() (string, int64) {
	if g.tp.Intn(3) == 0 {
		return g.personChannel(), 1
	}
	return pickStr(g.tp, simChannels), 2
}

func (g *miscGen) membership() metadb.UserChannelMembership {
	tp := g.tp
	return metadb.UserChannelMembership{UID: pickStr(tp, simUIDs), ChannelID: pickStr(tp, simChannels), ChannelType: 2,
		JoinSeq: uint64(tp.Intn(4)), ReadSeq: uint64(tp.Intn(8)), DeletedToSeq: uint64(tp.Intn(4)), ActivatedAt: int64(tp.Intn(5)) * 10,
		Tombstone: tp.Intn(6) == 0, TombstoneAt: int64(tp.Intn(3)) * 7, SourceVersion: uint64(tp.Intn(4)), UpdatedAt: int64(tp.Intn(9)) * 5}
}

func (g *miscGen) cmdMembership() metadb.UserCMDChannelMembership {
	tp := g.tp
	return metadb.UserCMDChannelMembership{UID: pickStr(tp, simUIDs), CommandChannelID: channelid.ToCommandChannel(pickStr(tp, simChannels)), ChannelType: 2,
		StartSeq: uint64(tp.Intn(4)), AckSeq: uint64(tp.Intn(8)), Tombstone: tp.Intn(5) == 0, TombstoneAt: int64(tp.Intn(3)) * 9, UpdatedAt: int64(tp.Intn(9)) * 5}
}

func (g *miscGen) latest() metadb.ChannelLatest {
	tp := g.tp
	return metadb.ChannelLatest{ChannelID: pickStr(tp, simChannels), ChannelType: 2, LastMessageID: uint64(100 + tp.Intn(6)), LastMessageSeq: uint64(1 + tp.Intn(6)),
		LastAt: int64(tp.Intn(6)) * 11, FromUID: pickStr(tp, simUIDs), ClientMsgNo: pickStr(tp, simMsgNos), Payload: tp.Bytes(tp.Intn(6)), UpdatedAt: int64(tp.Intn(9)) * 5}
}

func (g *miscGen) event(ch string) metadb.MessageEventAppend {
	tp := g.tp
	return metadb.MessageEventAppend{ChannelID: ch, ChannelType: 2, ClientMsgNo: pickStr(tp, simMsgNos), EventID: fmt.Sprintf("e%d", tp.Intn(5)),
		EventKey: pickStr(tp, []string{"", "k1"}), EventType: pickStr(tp, eventTypes), Visibility: pickStr(tp, []string{"", metadb.VisibilityPublic, metadb.VisibilityPrivate}),
		OccurredAt: int64(tp.Intn(6)) * 3, Payload: tp.Bytes(tp.Intn(5)), UpdatedAt: int64(tp.Intn(9)) * 5}
}

func (g *miscGen) runtimeMeta(id string, typ int64) rtMeta {
	return baseMeta(g.tp, chanRef{id: id, typ: typ})
}

// ordinary draws one ordinary (non-maintenance) command.
func (g *miscGen) ordinary() miscCmd {
	tp := g.tp
	if g.personBias > 0 && tp.Chance(g.personBias, 5) {
		return g.personLifecycle()
	}
	hs := g.hs()
	foreignItem := func() (uint16, bool) {
		if tp.Chance(1, 10) {
			return g.foreign, true
		}
		return g.hs(), false
	}
	switch tp.Intn(27) {
	case 0:
		u := metadb.User{UID: pickStr(tp, simUIDs), Token: fmt.Sprintf("tok%d", tp.Intn(3)), DeviceFlag: int64(tp.Intn(3)), DeviceLevel: int64(tp.Intn(2))}
		return miscCmd{hs: hs, data: fsm.EncodeUpsertUserCommand(u), desc: fmt.Sprintf("upsert-user %+v", u)}
	case 1:
		u := metadb.User{UID: pickStr(tp, simUIDs), Token: fmt.Sprintf("new%d", tp.Intn(3)), DeviceFlag: int64(tp.Intn(3))}
		return miscCmd{hs: hs, data: fsm.EncodeCreateUserCommand(u), desc: fmt.Sprintf("create-user %+v", u)}
	case 2:
		d := metadb.Device{UID: pickStr(tp, simUIDs), DeviceFlag: int64(tp.Intn(3)), Token: fmt.Sprintf("d%d", tp.Intn(3)), DeviceLevel: int64(tp.Intn(2))}
		return miscCmd{hs: hs, data: fsm.EncodeUpsertDeviceCommand(d), desc: fmt.Sprintf("upsert-device %+v", d)}
	case 3, 4:
		cid, ctyp := g.channelForRow()
		c := metadb.Channel{ChannelID: cid, ChannelType: ctyp, Ban: int64(tp.Intn(2)), Disband: int64(tp.Intn(2)), SendBan: int64(tp.Intn(2)),
			AllowStranger: int64(tp.Intn(2)), Large: int64(tp.Intn(2))}
		if tp.Intn(2) == 0 {
			return miscCmd{hs: hs, data: fsm.EncodeUpsertChannelCommand(c), desc: fmt.Sprintf("upsert-channel %s ban=%d", c.ChannelID, c.Ban)}
		}
		return miscCmd{hs: hs, data: fsm.EncodeCreateChannelCommand(c), desc: fmt.Sprintf("create-channel %s ban=%d", c.ChannelID, c.Ban)}
	case 5:
		f := metadb.ChannelBusinessFlags{Ban: int64(tp.Intn(2)), Disband: int64(tp.Intn(2)), SendBan: int64(tp.Intn(2))}
		id, typ := g.channelForRow()
		return miscCmd{hs: hs, data: fsm.EncodePatchChannelBusinessFlagsCommand(id, typ, f), desc: fmt.Sprintf("patch-flags %s %+v", id, f)}
	case 6, 25:
		id, typ := g.channelForRow()
		return miscCmd{hs: hs, data: fsm.EncodeDeleteChannelCommand(id, typ), desc: "delete-channel " + id}
	case 7, 8, 9:
		id := pickStr(tp, simChannels)
		n := 1 + tp.Intn(3)
		var uids []string
		for i := 0; i < n; i++ {
			uids = append(uids, pickStr(tp, simUIDs))
		}
		ver := uint64(tp.Intn(4))
		if tp.Intn(3) != 0 {
			return miscCmd{hs: hs, data: fsm.EncodeAddSubscribersCommand(id, 2, uids, ver), desc: fmt.Sprintf("add-subscribers %s %v v%d", id, uids, ver)}
		}
		return miscCmd{hs: hs, data: fsm.EncodeRemoveSubscribersCommand(id, 2, uids, ver), desc: fmt.Sprintf("remove-subscribers %s %v v%d", id, uids, ver)}
	case 10, 11:
		n := 1 + tp.Intn(2)
		var ms []metadb.UserChannelMembership
		for i := 0; i < n; i++ {
			ms = append(ms, g.membership())
		}
		switch tp.Intn(5) {
		case 0:
			return miscCmd{hs: hs, data: fsm.EncodeDeleteUserChannelMembershipsCommand(ms), desc: fmt.Sprintf("delete-memberships %d", n)}
		case 1:
			return miscCmd{hs: hs, data: fsm.EncodeAdvanceUserChannelMembershipReadSeqCommand(ms), desc: fmt.Sprintf("advance-read %s/%s ->%d", ms[0].UID, ms[0].ChannelID, ms[0].ReadSeq)}
		case 2:
			return miscCmd{hs: hs, data: fsm.EncodeHideUserChannelMembershipCommand(ms), desc: fmt.Sprintf("hide-membership %s/%s", ms[0].UID, ms[0].ChannelID)}
		case 3:
			return miscCmd{hs: hs, data: fsm.EncodeActivateUserChannelMembershipCommand(ms), desc: fmt.Sprintf("activate-membership %s/%s", ms[0].UID, ms[0].ChannelID)}
		default:
			return miscCmd{hs: hs, data: fsm.EncodeUpsertUserChannelMembershipsCommand(ms), desc: fmt.Sprintf("upsert-memberships %s/%s src=%d", ms[0].UID, ms[0].ChannelID, ms[0].SourceVersion)}
		}
	case 12:
		ms := []metadb.UserCMDChannelMembership{g.cmdMembership()}
		switch tp.Intn(3) {
		case 0:
			return miscCmd{hs: hs, data: fsm.EncodeAdvanceUserCMDChannelMembershipAcksCommand(ms), desc: fmt.Sprintf("cmd-ack %s ->%d", ms[0].UID, ms[0].AckSeq)}
		case 1:
			return miscCmd{hs: hs, data: fsm.EncodeTombstoneUserCMDChannelMembershipsCommand(ms), desc: "cmd-tombstone " + ms[0].UID}
		default:
			return miscCmd{hs: hs, data: fsm.EncodeUpsertUserCMDChannelMembershipsCommand(ms), desc: "cmd-upsert " + ms[0].UID}
		}
	case 13:
		l := g.latest()
		return miscCmd{hs: hs, data: fsm.EncodeUpsertChannelLatestCommand(l), desc: fmt.Sprintf("latest %s seq=%d", l.ChannelID, l.LastMessageSeq)}
	case 14:
		n := 1 + tp.Intn(3)
		var items []fsm.ChannelLatestBatchItem
		foreign := false
		for i := 0; i < n; i++ {
			h, f := foreignItem()
			foreign = foreign || f
			items = append(items, fsm.ChannelLatestBatchItem{HashSlot: h, Latest: g.latest()})
		}
		return miscCmd{hs: hs, data: fsm.EncodeUpsertChannelLatestBatchCommand(items), desc: fmt.Sprintf("latest-batch %d foreign=%v", n, foreign), scopedForeign: foreign}
	case 15, 16:
		ch := pickStr(tp, simChannels)
		if tp.Intn(2) == 0 {
			e := g.event(ch)
			return miscCmd{hs: hs, data: fsm.EncodeAppendMessageEventCommand(e), desc: fmt.Sprintf("event %s/%s %s %s", ch, e.ClientMsgNo, e.EventID, e.EventType)}
		}
		n := 1 + tp.Intn(3)
		var es []metadb.MessageEventAppend
		for i := 0; i < n; i++ {
			es = append(es, g.event(ch))
		}
		return miscCmd{hs: hs, data: fsm.EncodeAppendMessageEventsCommand(es), desc: fmt.Sprintf("events %s x%d", ch, n)}
	case 17:
		b := metadb.PluginUserBinding{UID: pickStr(tp, simUIDs), PluginNo: pickStr(tp, simPlugins), CreatedAtMS: int64(tp.Intn(4)), UpdatedAtMS: int64(tp.Intn(9))}
		if tp.Intn(3) == 0 {
			return miscCmd{hs: hs, data: fsm.EncodeUnbindPluginUserCommand(b.UID, b.PluginNo), desc: fmt.Sprintf("unbind-plugin %s/%s", b.UID, b.PluginNo)}
		}
		return miscCmd{hs: hs, data: fsm.EncodeBindPluginUserCommand(b), desc: fmt.Sprintf("bind-plugin %s/%s", b.UID, b.PluginNo)}
	case 18, 19:
		n := 1 + tp.Intn(2)
		var items []fsm.PersonDirectoryAdmissionBatchItem
		foreign := false
		for i := 0; i < n; i++ {
			h, f := foreignItem()
			foreign = foreign || f
			pc := g.personChannel()
			items = append(items, fsm.PersonDirectoryAdmissionBatchItem{HashSlot: h,
				Task:        metadb.PersonDirectoryTask{ChannelID: pc, ChannelType: 1, CommittedTail: uint64(tp.Intn(5)), CreatedAt: int64(tp.Intn(5))},
				RuntimeMeta: g.runtimeMeta(pc, 1)})
		}
		if data, err := fsm.EncodeAdmitPersonDirectoryTaskBatchCommandChecked(items); err == nil {
			return miscCmd{hs: items[0].HashSlot, data: data, desc: fmt.Sprintf("admit-person-directory x%d foreign=%v", n, foreign), scopedForeign: foreign}
		}
		return miscCmd{hs: hs, data: fsm.EncodeNoopCommand(), desc: "noop"}
	case 20:
		n := 1 + tp.Intn(2)
		var items []fsm.UserChannelMembershipBatchItem
		foreign := false
		for i := 0; i < n; i++ {
			h, f := foreignItem()
			foreign = foreign || f
			a := tp.Intn(len(simUIDs))
			b := (a + 1) % len(simUIDs)
			m := g.membership()
			m.UID, m.ChannelID, m.ChannelType = simUIDs[a], channelid.EncodePersonChannel(simUIDs[a], simUIDs[b]), 1
			items = append(items, fsm.UserChannelMembershipBatchItem{HashSlot: h, Membership: m})
		}
		if data, err := fsm.EncodeEnsureUserChannelMembershipBatchCommandChecked(items); err == nil {
			return miscCmd{hs: items[0].HashSlot, data: data, desc: fmt.Sprintf("ensure-person-memberships x%d foreign=%v", n, foreign), scopedForeign: foreign}
		}
		return miscCmd{hs: hs, data: fsm.EncodeNoopCommand(), desc: "noop"}
	case 21:
		h, f := foreignItem()
		it := fsm.PersonDirectoryCompletionBatchItem{HashSlot: h, ChannelID: g.personChannel(), ChannelType: 1, Generation: uint64(1 + tp.Intn(2))}
		if data, err := fsm.EncodeCompletePersonDirectoryTaskBatchCommandChecked([]fsm.PersonDirectoryCompletionBatchItem{it}); err == nil {
			return miscCmd{hs: h, data: data, desc: fmt.Sprintf("complete-person-directory %s gen=%d foreign=%v", it.ChannelID, it.Generation, f), scopedForeign: f}
		}
		return miscCmd{hs: hs, data: fsm.EncodeNoopCommand(), desc: "noop"}
	case 22:
		// create-if-absent runtime metadata over ordinary and person channels
		n := 1 + tp.Intn(3)
		seen := map[string]bool{}
		var items []fsm.CreateChannelRuntimeMetaBatchItem
		foreign := false
		for i := 0; i < n; i++ {
			h, f := foreignItem()
			id, typ := pickStr(tp, simChannels), int64(2)
			if tp.Intn(4) == 0 {
				id, typ = g.personChannel(), 1
			}
			if seen[id] {
				continue
			}
			seen[id] = true
			foreign = foreign || f
			items = append(items, fsm.CreateChannelRuntimeMetaBatchItem{HashSlot: h, Meta: g.runtimeMeta(id, typ)})
		}
		if data, err := fsm.EncodeCreateChannelRuntimeMetaBatchCommandChecked(items); err == nil {
			return miscCmd{hs: items[0].HashSlot, data: data, desc: fmt.Sprintf("create-runtime-meta x%d foreign=%v", len(items), foreign), scopedForeign: foreign}
		}
		return miscCmd{hs: hs, data: fsm.EncodeNoopCommand(), desc: "noop"}
	case 23:
		id, typ := g.channelForRow()
		return miscCmd{hs: hs, data: fsm.EncodeDeleteChannelRuntimeMetaCommand(id, typ), desc: "delete-runtime-meta " + id}
	case 24:
		id, typ := g.channelForRow()
		m := g.runtimeMeta(id, typ)
		return miscCmd{hs: hs, data: fsm.EncodeUpsertChannelRuntimeMetaCommand(m), desc: fmt.Sprintf("upsert-runtime-meta %s %s", id, rtString(&m))}
	default:
		return miscCmd{hs: hs, data: fsm.EncodeNoopCommand(), desc: "noop"}
	}
}

// maintenanceCmd draws a hash-slot migration maintenance command.
func (g *miscGen) maintenanceCmd(lastIndex uint64) miscCmd {
	tp := g.tp
	// maintenance commands and deltas are accepted for hash slots the slot does
	// not own (source-side cleanup after a hand-over, incoming deltas before
	// it); the state machine snapshot does not cover those, so this world keeps
	// them on owned hash slots
	hs := g.hs()
	target := multiraft.SlotID(20 + tp.Intn(2))
	switch tp.Intn(5) {
	case 0:
		return miscCmd{hs: hs, data: fsm.EncodeEnterFenceCommandForTarget(hs, target), desc: fmt.Sprintf("enter-fence hs=%d target=%d", hs, target), maintenance: true}
	case 1:
		idx := uint64(1 + tp.Intn(int(lastIndex)+2))
		return miscCmd{hs: hs, data: fsm.EncodeAckHashSlotMigrationOutboxCommand(hs, multiraft.SlotID(g.slot), target, idx), desc: fmt.Sprintf("ack-outbox hs=%d target=%d idx=%d", hs, target, idx), maintenance: true}
	case 2:
		idx := uint64(1 + tp.Intn(int(lastIndex)+2))
		return miscCmd{hs: hs, data: fsm.EncodeCleanupHashSlotMigrationOutboxCommand(hs, multiraft.SlotID(g.slot), target, idx), desc: fmt.Sprintf("cleanup-outbox hs=%d target=%d through=%d", hs, target, idx), maintenance: true}
	default:
		inner := g.ordinary()
		src := multiraft.SlotID(30 + tp.Intn(2))
		sidx := uint64(1 + tp.Intn(4))
		return miscCmd{hs: hs, data: fsm.EncodeApplyDeltaCommand(src, sidx, hs, inner.data), desc: fmt.Sprintf("apply-delta hs=%d src=%d/%d [%s]", hs, src, sidx, inner.desc), maintenance: true, isDelta: true, deltaHS: hs}
	}
}

// mutate damages a valid encoding: truncation, unknown tags, oversized
// lengths, flipped bytes, unknown command type / version, trailing garbage.
func mutateBytes(tp *simkit.Tape, data []byte) ([]byte, string) {
	b := append([]byte(nil), data...)
	switch tp.Intn(9) {
	case 0:
		if len(b) > 0 {
			n := tp.Intn(len(b))
			return b[:n], fmt.Sprintf("truncate-to-%d", n)
		}
		return b, "empty"
	case 1:
		// unknown tag appended (forward-compatible decoders skip it)
		extra := []byte{byte(200 + tp.Intn(50)), 0, 0, 0, 2, 0xAA, 0xBB}
		return append(b, extra...), "append-unknown-tag"
	case 2:
		// oversized length in the first TLV header
		if len(b) >= 7 {
			binary.BigEndian.PutUint32(b[3:7], 0xFFFFFFF0+uint32(tp.Intn(15)))
			return b, "oversized-length"
		}
		return append(b, 1, 0xFF, 0xFF, 0xFF, 0xFF), "oversized-length-appended"
	case 3:
		if len(b) > 2 {
			i := 2 + tp.Intn(len(b)-2)
			b[i] ^= byte(1 + tp.Intn(255))
			return b, fmt.Sprintf("flip-byte-%d", i)
		}
		return b, "short"
	case 4:
		if len(b) > 1 {
			b[1] = byte(tp.Intn(256))
			return b, fmt.Sprintf("command-type-%d", b[1])
		}
		return b, "short"
	case 5:
		if len(b) > 0 {
			b[0] = byte(tp.Intn(4))
			return b, fmt.Sprintf("version-%d", b[0])
		}
		return b, "short"
	case 6:
		return append(b, tp.Bytes(1+tp.Intn(6))...), "trailing-garbage"
	case 7:
		// a length that is one too large / too small for some TLV
		if len(b) >= 7 {
			l := binary.BigEndian.Uint32(b[3:7])
			if tp.Intn(2) == 0 {
				l++
			} else if l > 0 {
				l--
			}
			binary.BigEndian.PutUint32(b[3:7], l)
			return b, "length-off-by-one"
		}
		return b, "short"
	default:
		if len(b) > 2 {
			// drop a chunk from the middle
			i := 2 + tp.Intn(len(b)-2)
			j := i + 1 + tp.Intn(len(b)-i)
			return append(b[:i:i], b[j:]...), fmt.Sprintf("cut-%d-%d", i, j)
		}
		return nil, "nil"
	}
}
