package metasima

import (
	"fmt"

	"github.com/WuKongIM/WuKongIM/internal/verifsim/simkit"
	metadb "github.com/WuKongIM/WuKongIM/pkg/db/meta"
	"github.com/WuKongIM/WuKongIM/pkg/slot/fsm"
)

// ---------------------------------------------------------------------------
// Migration executors: each one acts on a cached (possibly stale) view of the
// active task and of the routing row of a channel, and builds its commands the
// way pkg/cluster/channels.MigrationStore does (task guard = the task it saw,
// runtime guard = the row it saw, version = max(now, seen version + 1)).
// ---------------------------------------------------------------------------

type migKind int

const (
	mkCreate migKind = iota
	mkCreateGuarded
	mkClaim
	mkAdvance
	mkSetFence
	mkResetFence
	mkCommit
	mkAddLearner
	mkPromote
	mkClearFence
	mkAbort
	mkGC
)

var migKindNames = [...]string{"create", "create-guarded", "claim", "advance", "set-fence", "reset-fence", "commit-transfer", "add-learner", "promote", "clear-fence", "abort", "gc"}

func (k migKind) String() string { return migKindNames[k] }

type migCmd struct {
	kind   migKind
	hs     uint16
	ch     chanRef
	data   []byte
	desc   string
	author int
	rogue  bool // an Advance that does not follow the executor workflow

	task    mTask
	create  metadb.ChannelMigrationTaskCreate
	claim   metadb.ChannelMigrationTaskClaim
	advance metadb.ChannelMigrationTaskAdvance
	fence   metadb.ChannelMigrationFenceRequest
	reset   metadb.ChannelMigrationResetFenceRequest
	commit  metadb.ChannelMigrationLeaderTransferRequest
	learner metadb.ChannelMigrationAddLearnerRequest
	promote metadb.ChannelMigrationPromoteLearnerRequest
	clear   metadb.ChannelMigrationClearFenceRequest
	abort   metadb.ChannelMigrationAbortRequest
	gc      metadb.ChannelMigrationTaskGCRequest
}

// guardTaskID returns the task a command acts for ("" for gc).
func (c *migCmd) guardTaskID() string {
	switch c.kind {
	case mkCreate:
		return c.task.TaskID
	case mkCreateGuarded:
		return c.create.Task.TaskID
	case mkClaim:
		return c.claim.Guard.TaskID
	case mkAdvance:
		return c.advance.Guard.TaskID
	case mkSetFence:
		return c.fence.Guard.TaskID
	case mkResetFence:
		return c.reset.Guard.TaskID
	case mkCommit:
		return c.commit.Guard.TaskID
	case mkAddLearner:
		return c.learner.Guard.TaskID
	case mkPromote:
		return c.promote.Guard.TaskID
	case mkClearFence:
		return c.clear.Guard.TaskID
	case mkAbort:
		return c.abort.Guard.TaskID
	}
	return ""
}

type execView struct {
	task *mTask
	meta *rtMeta
}

type executor struct {
	id    int
	node  uint64
	views map[string]execView
}

type migGenCfg struct {
	fenceTTL   int64
	ownerTTL   int64
	rogue      bool // allow Advance requests outside the executor workflow
	abortW     int  // weight of operator aborts (0 = default 1)
	nextTaskID *int
}

func taskGuardOf(t mTask) metadb.ChannelMigrationTaskGuard {
	return metadb.ChannelMigrationTaskGuard{ChannelID: t.ChannelID, ChannelType: t.ChannelType, TaskID: t.TaskID,
		ExpectedStatus: t.Status, ExpectedPhase: t.Phase, ExpectedOwnerNodeID: t.OwnerNodeID,
		ExpectedOwnerLeaseUntilMS: t.OwnerLeaseUntilMS, ExpectedUpdatedAtMS: t.UpdatedAtMS}
}

func runtimeGuardOf(ch chanRef, m *rtMeta) metadb.ChannelMigrationRuntimeGuard {
	g := metadb.ChannelMigrationRuntimeGuard{ChannelID: ch.id, ChannelType: ch.typ}
	if m != nil {
		g.ExpectedChannelEpoch, g.ExpectedLeaderEpoch, g.ExpectedLeader = m.ChannelEpoch, m.LeaderEpoch, m.Leader
		g.ExpectedFenceToken, g.ExpectedFenceVersion, g.ExpectedRouteGeneration = m.WriteFenceToken, m.WriteFenceVersion, m.RouteGeneration
	}
	return g
}

func nextVersion(now, seen int64) int64 {
	if now <= seen {
		return seen + 1
	}
	return now
}

func hasProof(t mTask) bool {
	return t.DrainedFenceVersion != 0 && t.DrainedLeaderNode != 0 && t.DrainedChannelEpoch != 0 && t.DrainedLeaderEpoch != 0 && t.DrainedRuntimeGeneration != 0
}

func proofFrom(tp *simkit.Tape, t mTask, m *rtMeta) metadb.ChannelMigrationCutoverProof {
	leo := uint64(5 + tp.Intn(5))
	p := metadb.ChannelMigrationCutoverProof{CutoverLEO: leo, CutoverHW: leo, DrainedFenceVersion: t.FenceVersion}
	if m != nil {
		p.DrainedLeaderNode, p.DrainedRuntimeGeneration = m.Leader, m.RouteGeneration
		p.DrainedChannelEpoch, p.DrainedLeaderEpoch = m.ChannelEpoch, m.LeaderEpoch
	}
	if tp.Chance(1, 12) { // a damaged / partial proof
		switch tp.Intn(3) {
		case 0:
			p.DrainedLeaderEpoch = 0
		case 1:
			p.CutoverHW = p.CutoverLEO + 1
		default:
			p.DrainedFenceVersion++
		}
	}
	return p
}

// act draws the next command of executor e for channel ch at time now; ok is
// false when the executor, like the real one, leaves a task alone that another
// node owns under an unexpired lease.
func (e *executor) act(tp *simkit.Tape, ch chanRef, now int64, cfg migGenCfg) (migCmd, bool) {
	v := e.views[ch.id]
	if v.task == nil || terminal(*v.task) {
		if tp.Chance(1, 10) {
			return e.gcCmd(tp, ch, now), true
		}
		return e.createCmd(tp, ch, v, now, cfg), true
	}
	t := *v.task
	// what the real executor loop does first
	if t.OwnerNodeID != e.node {
		if t.OwnerNodeID != 0 && t.OwnerLeaseUntilMS > now && !tp.Chance(1, 8) {
			return migCmd{}, false
		}
		if !tp.Chance(1, 8) {
			return e.claimCmd(tp, ch, t, now, cfg), true
		}
	} else if t.OwnerLeaseUntilMS <= now || t.Status == stBlocked || t.Status == stPending {
		if !tp.Chance(1, 8) {
			return e.claimCmd(tp, ch, t, now, cfg), true
		}
	}
	abortW := cfg.abortW
	if abortW == 0 {
		abortW = 1
	}
	if t.Phase == phVerifyLdr || t.Phase == phVerifyMem {
		abortW *= 10 // an operator cancelling late, right after the cutover, is the interesting moment
		if cfg.rogue && tp.Intn(3) == 0 {
			// a task-only Advance that does not follow the workflow: back to a pre-cutover phase
			back := []metadb.ChannelMigrationPhase{phProbe, phDrain, phFinal, phWarm, phAddLearner}[tp.Intn(5)]
			return e.advanceCmd(tp, ch, t, v.meta, now, back, stRunning, false, true), true
		}
	} else if cfg.rogue {
		abortW *= 3
	}
	switch tp.Weighted([]int{24, abortW, 2, 2, 2, 1, 1}) {
	case 0:
		return e.workflowCmd(tp, ch, t, v.meta, now, cfg), true
	case 1:
		return e.abortCmd(ch, t, v.meta, now), true
	case 2:
		return e.resetCmd(tp, ch, t, v.meta, now), true
	case 3: // renew the fence (or try to take one early)
		return e.setFenceCmd(tp, ch, t, v.meta, now, cfg, true), true
	case 4:
		return e.outOfOrderCmd(tp, ch, t, v.meta, now, cfg), true
	case 5:
		return e.gcCmd(tp, ch, now), true
	default:
		return e.advanceCmd(tp, ch, t, v.meta, now, t.Phase, stBlocked, false, false), true
	}
}

func (e *executor) createCmd(tp *simkit.Tape, ch chanRef, v execView, now int64, cfg migGenCfg) migCmd {
	*cfg.nextTaskID++
	id := fmt.Sprintf("t%d", *cfg.nextTaskID)
	if tp.Chance(1, 8) && *cfg.nextTaskID > 1 {
		id = fmt.Sprintf("t%d", 1+tp.Intn(*cfg.nextTaskID)) // reuse an id: create conflicts / exact replays
	}
	t := mTask{TaskID: id, Status: stPending, Phase: phValidate, ChannelID: ch.id, ChannelType: ch.typ, CreatedAtMS: now, UpdatedAtMS: now}
	var leader uint64
	var reps, isr []uint64
	if v.meta != nil {
		leader, reps, isr = v.meta.Leader, v.meta.Replicas, v.meta.ISR
		t.BaseChannelEpoch, t.BaseLeaderEpoch = v.meta.ChannelEpoch, v.meta.LeaderEpoch
	}
	switch tp.Weighted([]int{3, 3, 1}) {
	case 0, 2:
		t.Kind = kindLT
		if tp.Intn(4) == 0 {
			t.Kind = kindLF
		}
		t.SourceNode = leader
		t.TargetNode = pickU64(tp, simNodes)
		for _, x := range isr { // prefer a legal target: an ISR member that is not the leader
			if x != leader && tp.Intn(2) == 0 {
				t.TargetNode = x
				break
			}
		}
		t.DesiredLeader = t.TargetNode
	default:
		t.Kind = kindRR
		t.SourceNode = pickU64(tp, simNodes)
		for _, x := range reps {
			if x != leader && tp.Intn(2) == 0 {
				t.SourceNode = x
				break
			}
		}
		t.TargetNode = uint64(5 + tp.Intn(2))
		if tp.Chance(1, 6) {
			t.TargetNode = pickU64(tp, simNodes)
		}
	}
	if tp.Weighted([]int{4, 1}) == 0 {
		req := metadb.ChannelMigrationTaskCreate{Task: t, RuntimeGuard: runtimeGuardOf(ch, v.meta)}
		return migCmd{kind: mkCreateGuarded, hs: ch.hs, ch: ch, create: req, author: e.id,
			data: fsm.EncodeCreateChannelMigrationTaskWithRuntimeGuardCommand(req),
			desc: fmt.Sprintf("x%d create-guarded %s %s", e.id, ch.id, taskString(&t))}
	}
	return migCmd{kind: mkCreate, hs: ch.hs, ch: ch, task: t, author: e.id,
		data: fsm.EncodeCreateChannelMigrationTaskCommand(t),
		desc: fmt.Sprintf("x%d create %s %s", e.id, ch.id, taskString(&t))}
}

func (e *executor) claimCmd(tp *simkit.Tape, ch chanRef, t mTask, now int64, cfg migGenCfg) migCmd {
	req := metadb.ChannelMigrationTaskClaim{Guard: taskGuardOf(t), Status: stRunning, Phase: t.Phase, OwnerNodeID: e.node,
		OwnerLeaseUntilMS: now + cfg.ownerTTL, NowMS: now, UpdatedAtMS: nextVersion(now, t.UpdatedAtMS)}
	return migCmd{kind: mkClaim, hs: ch.hs, ch: ch, claim: req, author: e.id, data: fsm.EncodeClaimChannelMigrationTaskCommand(req),
		desc: fmt.Sprintf("x%d claim %s/%s owner=%d now=%d (saw st=%d ph=%d owner=%d/%d upd=%d)", e.id, ch.id, t.TaskID, e.node, now, t.Status, t.Phase, t.OwnerNodeID, t.OwnerLeaseUntilMS, t.UpdatedAtMS)}
}

func (e *executor) advanceCmd(tp *simkit.Tape, ch chanRef, t mTask, m *rtMeta, now int64, phase metadb.ChannelMigrationPhase, st metadb.ChannelMigrationStatus, withProof, rogue bool) migCmd {
	req := metadb.ChannelMigrationTaskAdvance{Guard: taskGuardOf(t), Status: st, Phase: phase, Attempt: t.Attempt + 1, UpdatedAtMS: nextVersion(now, t.UpdatedAtMS)}
	if st == stBlocked {
		req.BlockerMessage = "blocked"
	}
	if st == stFailed {
		req.LastError = "failed"
		req.CompletedAtMS = req.UpdatedAtMS
	}
	if withProof {
		if hasProof(t) && t.DrainedFenceVersion == t.FenceVersion && tp.Intn(4) != 0 {
			req.CutoverProof = metadb.ChannelMigrationCutoverProof{CutoverLEO: t.CutoverLEO, CutoverHW: t.CutoverHW, DrainedLeaderNode: t.DrainedLeaderNode,
				DrainedRuntimeGeneration: t.DrainedRuntimeGeneration, DrainedChannelEpoch: t.DrainedChannelEpoch, DrainedLeaderEpoch: t.DrainedLeaderEpoch, DrainedFenceVersion: t.DrainedFenceVersion}
		} else {
			req.CutoverProof = proofFrom(tp, t, m)
		}
		req.Progress = metadb.ChannelMigrationProgress{LeaderLEO: req.CutoverProof.CutoverLEO, LeaderHW: req.CutoverProof.CutoverHW}
	}
	p := req.CutoverProof
	return migCmd{kind: mkAdvance, hs: ch.hs, ch: ch, advance: req, author: e.id, rogue: rogue, data: fsm.EncodeAdvanceChannelMigrationTaskCommand(req),
		desc: fmt.Sprintf("x%d advance %s/%s ph %d->%d st=%d proof=(L=%d ce=%d le=%d fv=%d hw=%d/%d)%s (saw upd=%d owner=%d/%d)", e.id, ch.id, t.TaskID, t.Phase, phase, st,
			p.DrainedLeaderNode, p.DrainedChannelEpoch, p.DrainedLeaderEpoch, p.DrainedFenceVersion, p.CutoverHW, p.CutoverLEO, map[bool]string{true: " ROGUE", false: ""}[rogue], t.UpdatedAtMS, t.OwnerNodeID, t.OwnerLeaseUntilMS)}
}

func fencePhaseFor(t mTask) metadb.ChannelMigrationPhase {
	if isLTKind(t.Kind) || t.EmbeddedLeaderTransfer {
		if t.Phase == phWriteFence {
			return phDrain
		}
		return t.Phase
	}
	if t.Kind == kindRR && t.Phase == phWarm {
		return phCutover
	}
	return t.Phase
}

func (e *executor) setFenceCmd(tp *simkit.Tape, ch chanRef, t mTask, m *rtMeta, now int64, cfg migGenCfg, _ bool) migCmd {
	reason := uint8(1)
	if t.Kind == kindRR {
		reason = 2
	}
	req := metadb.ChannelMigrationFenceRequest{Guard: taskGuardOf(t), RuntimeGuard: runtimeGuardOf(ch, m), Status: stRunning, Phase: fencePhaseFor(t),
		FenceReason: reason, FenceUntilMS: now + cfg.fenceTTL, UpdatedAtMS: nextVersion(now, t.UpdatedAtMS)}
	return migCmd{kind: mkSetFence, hs: ch.hs, ch: ch, fence: req, author: e.id, data: fsm.EncodeSetChannelWriteFenceCommand(req),
		desc: fmt.Sprintf("x%d set-fence %s/%s ph %d->%d until=%d (saw fence=%q/v%d upd=%d)", e.id, ch.id, t.TaskID, t.Phase, req.Phase, req.FenceUntilMS, req.RuntimeGuard.ExpectedFenceToken, req.RuntimeGuard.ExpectedFenceVersion, t.UpdatedAtMS)}
}

func (e *executor) resetCmd(tp *simkit.Tape, ch chanRef, t mTask, m *rtMeta, now int64) migCmd {
	ph := phWarm
	if isLTKind(t.Kind) || t.EmbeddedLeaderTransfer {
		ph = []metadb.ChannelMigrationPhase{phProbe, phWriteFence}[tp.Intn(2)]
	}
	req := metadb.ChannelMigrationResetFenceRequest{Guard: taskGuardOf(t), RuntimeGuard: runtimeGuardOf(ch, m), Status: stRunning, Phase: ph, NowMS: now, UpdatedAtMS: nextVersion(now, t.UpdatedAtMS)}
	return migCmd{kind: mkResetFence, hs: ch.hs, ch: ch, reset: req, author: e.id, data: fsm.EncodeResetChannelWriteFenceToPreCutoverCommand(req),
		desc: fmt.Sprintf("x%d reset-fence %s/%s ph %d->%d now=%d (saw fence=%q/v%d)", e.id, ch.id, t.TaskID, t.Phase, ph, now, req.RuntimeGuard.ExpectedFenceToken, req.RuntimeGuard.ExpectedFenceVersion)}
}

func (e *executor) commitCmd(ch chanRef, t mTask, m *rtMeta, now int64, cfg migGenCfg) migCmd {
	want := desiredLeaderOf(t)
	if want == 0 {
		want = t.TargetNode
	}
	var le uint64
	if m != nil {
		le = m.LeaderEpoch
	}
	req := metadb.ChannelMigrationLeaderTransferRequest{Guard: taskGuardOf(t), RuntimeGuard: runtimeGuardOf(ch, m), Status: stRunning, Phase: phVerifyLdr,
		DesiredLeader: want, NextLeaderEpoch: le + 1, LeaseUntilMS: now + cfg.fenceTTL, NowMS: now, UpdatedAtMS: nextVersion(now, t.UpdatedAtMS)}
	return migCmd{kind: mkCommit, hs: ch.hs, ch: ch, commit: req, author: e.id, data: fsm.EncodeCommitChannelLeaderTransferCommand(req),
		desc: fmt.Sprintf("x%d commit-transfer %s/%s leader->%d le->%d now=%d (saw ph=%d fence=%q/v%d ce=%d le=%d L=%d)", e.id, ch.id, t.TaskID, want, le+1, now, t.Phase,
			req.RuntimeGuard.ExpectedFenceToken, req.RuntimeGuard.ExpectedFenceVersion, req.RuntimeGuard.ExpectedChannelEpoch, req.RuntimeGuard.ExpectedLeaderEpoch, req.RuntimeGuard.ExpectedLeader)}
}

func (e *executor) addLearnerCmd(ch chanRef, t mTask, m *rtMeta, now int64) migCmd {
	req := metadb.ChannelMigrationAddLearnerRequest{Guard: taskGuardOf(t), RuntimeGuard: runtimeGuardOf(ch, m), Status: stRunning, Phase: phBootstrap,
		TargetNode: t.TargetNode, UpdatedAtMS: nextVersion(now, t.UpdatedAtMS)}
	return migCmd{kind: mkAddLearner, hs: ch.hs, ch: ch, learner: req, author: e.id, data: fsm.EncodeAddChannelLearnerCommand(req),
		desc: fmt.Sprintf("x%d add-learner %s/%s target=%d (saw ph=%d)", e.id, ch.id, t.TaskID, t.TargetNode, t.Phase)}
}

func (e *executor) promoteCmd(ch chanRef, t mTask, m *rtMeta, now int64) migCmd {
	req := metadb.ChannelMigrationPromoteLearnerRequest{Guard: taskGuardOf(t), RuntimeGuard: runtimeGuardOf(ch, m), Status: stRunning, Phase: phVerifyMem,
		SourceNode: t.SourceNode, TargetNode: t.TargetNode, NowMS: now, UpdatedAtMS: nextVersion(now, t.UpdatedAtMS)}
	return migCmd{kind: mkPromote, hs: ch.hs, ch: ch, promote: req, author: e.id, data: fsm.EncodePromoteLearnerAndRemoveReplicaCommand(req),
		desc: fmt.Sprintf("x%d promote %s/%s %d->%d now=%d (saw ph=%d fence=%q/v%d ce=%d le=%d L=%d)", e.id, ch.id, t.TaskID, t.SourceNode, t.TargetNode, now, t.Phase,
			req.RuntimeGuard.ExpectedFenceToken, req.RuntimeGuard.ExpectedFenceVersion, req.RuntimeGuard.ExpectedChannelEpoch, req.RuntimeGuard.ExpectedLeaderEpoch, req.RuntimeGuard.ExpectedLeader)}
}

func (e *executor) clearCmd(ch chanRef, t mTask, m *rtMeta, now int64) migCmd {
	upd := nextVersion(now, t.UpdatedAtMS)
	req := metadb.ChannelMigrationClearFenceRequest{Guard: taskGuardOf(t), RuntimeGuard: runtimeGuardOf(ch, m), Status: stCompleted, Phase: phClear, UpdatedAtMS: upd, CompletedAtMS: upd}
	if t.Kind == kindRR && t.EmbeddedLeaderTransfer && t.Phase == phVerifyLdr {
		req.Status, req.Phase, req.CompletedAtMS = stRunning, phAddLearner, 0
	}
	return migCmd{kind: mkClearFence, hs: ch.hs, ch: ch, clear: req, author: e.id, data: fsm.EncodeClearChannelWriteFenceCommand(req),
		desc: fmt.Sprintf("x%d clear-fence %s/%s ->st=%d ph=%d (saw ph=%d fence=%q/v%d)", e.id, ch.id, t.TaskID, req.Status, req.Phase, t.Phase, req.RuntimeGuard.ExpectedFenceToken, req.RuntimeGuard.ExpectedFenceVersion)}
}

func (e *executor) abortCmd(ch chanRef, t mTask, m *rtMeta, now int64) migCmd {
	upd := nextVersion(now, t.UpdatedAtMS)
	req := metadb.ChannelMigrationAbortRequest{Guard: taskGuardOf(t), RuntimeGuard: runtimeGuardOf(ch, m), Status: stAborted, Phase: t.Phase, UpdatedAtMS: upd, CompletedAtMS: upd, LastError: "operator"}
	return migCmd{kind: mkAbort, hs: ch.hs, ch: ch, abort: req, author: e.id, data: fsm.EncodeAbortChannelMigrationCommand(req),
		desc: fmt.Sprintf("x%d abort %s/%s (saw st=%d ph=%d fence=%q/v%d upd=%d)", e.id, ch.id, t.TaskID, t.Status, t.Phase, req.RuntimeGuard.ExpectedFenceToken, req.RuntimeGuard.ExpectedFenceVersion, t.UpdatedAtMS)}
}

func (e *executor) gcCmd(tp *simkit.Tape, ch chanRef, now int64) migCmd {
	req := metadb.ChannelMigrationTaskGCRequest{BeforeMS: now - int64(tp.Intn(3))*1000 + 1, Limit: 1 + tp.Intn(3)}
	if req.BeforeMS <= 0 {
		req.BeforeMS = 1
	}
	return migCmd{kind: mkGC, hs: ch.hs, ch: ch, gc: req, author: e.id, data: fsm.EncodeGarbageCollectTerminalChannelMigrationTasksCommand(req),
		desc: fmt.Sprintf("x%d gc hs=%d before=%d limit=%d", e.id, ch.hs, req.BeforeMS, req.Limit)}
}

// workflowCmd is the step the real executor issues for the phase it sees.
func (e *executor) workflowCmd(tp *simkit.Tape, ch chanRef, t mTask, m *rtMeta, now int64, cfg migGenCfg) migCmd {
	lt := isLTKind(t.Kind) || (t.Kind == kindRR && t.EmbeddedLeaderTransfer && isLTPhase(t.Phase))
	if lt {
		switch t.Phase {
		case phValidate:
			return e.advanceCmd(tp, ch, t, m, now, phProbe, stRunning, false, false)
		case phProbe:
			return e.advanceCmd(tp, ch, t, m, now, phWriteFence, stRunning, false, false)
		case phWriteFence:
			return e.setFenceCmd(tp, ch, t, m, now, cfg, false)
		case phDrain:
			return e.advanceCmd(tp, ch, t, m, now, phFinal, stRunning, true, false)
		case phFinal:
			if !hasProof(t) {
				return e.advanceCmd(tp, ch, t, m, now, phFinal, stRunning, true, false)
			}
			return e.advanceCmd(tp, ch, t, m, now, phCommit, stRunning, true, false)
		case phCommit:
			if !hasProof(t) || t.DrainedFenceVersion != t.FenceVersion {
				return e.advanceCmd(tp, ch, t, m, now, phFinal, stRunning, false, false)
			}
			return e.commitCmd(ch, t, m, now, cfg)
		case phVerifyLdr:
			return e.clearCmd(ch, t, m, now)
		}
		return e.advanceCmd(tp, ch, t, m, now, t.Phase, stBlocked, false, false)
	}
	switch t.Phase {
	case phValidate:
		if m != nil && m.Leader == t.SourceNode && tp.Intn(2) == 0 {
			// storage supports moving leadership away first (embedded leader transfer)
			c := e.advanceCmd(tp, ch, t, m, now, phProbe, stRunning, false, false)
			var want uint64
			for _, x := range m.ISR {
				if x != m.Leader {
					want = x
					break
				}
			}
			if want != 0 {
				c.advance.EmbeddedDesiredLeader = want
				c.data = fsm.EncodeAdvanceChannelMigrationTaskCommand(c.advance)
				c.desc += fmt.Sprintf(" embedded-leader=%d", want)
				return c
			}
		}
		return e.advanceCmd(tp, ch, t, m, now, phAddLearner, stRunning, false, false)
	case phAddLearner:
		return e.addLearnerCmd(ch, t, m, now)
	case phBootstrap:
		return e.advanceCmd(tp, ch, t, m, now, phWarm, stRunning, false, false)
	case phWarm:
		return e.setFenceCmd(tp, ch, t, m, now, cfg, false)
	case phCutover:
		return e.advanceCmd(tp, ch, t, m, now, phFinal, stRunning, true, false)
	case phFinal:
		if !hasProof(t) {
			return e.advanceCmd(tp, ch, t, m, now, phFinal, stRunning, true, false)
		}
		return e.advanceCmd(tp, ch, t, m, now, phPromote, stRunning, true, false)
	case phPromote:
		if !hasProof(t) || t.DrainedFenceVersion != t.FenceVersion {
			return e.advanceCmd(tp, ch, t, m, now, phFinal, stRunning, false, false)
		}
		return e.promoteCmd(ch, t, m, now)
	case phVerifyMem:
		return e.clearCmd(ch, t, m, now)
	}
	return e.advanceCmd(tp, ch, t, m, now, t.Phase, stBlocked, false, false)
}

// outOfOrderCmd issues a well-formed step that does not belong to the phase
// the executor sees (honest guards, wrong moment): the store must refuse it.
func (e *executor) outOfOrderCmd(tp *simkit.Tape, ch chanRef, t mTask, m *rtMeta, now int64, cfg migGenCfg) migCmd {
	if cfg.rogue && tp.Intn(2) == 0 {
		ph := allPhases[tp.Intn(len(allPhases))]
		st := []metadb.ChannelMigrationStatus{stRunning, stRunning, stBlocked, stPending}[tp.Intn(4)]
		return e.advanceCmd(tp, ch, t, m, now, ph, st, tp.Intn(3) == 0, true)
	}
	switch tp.Intn(6) {
	case 0:
		return e.commitCmd(ch, t, m, now, cfg)
	case 1:
		return e.promoteCmd(ch, t, m, now)
	case 2:
		return e.clearCmd(ch, t, m, now)
	case 3:
		return e.addLearnerCmd(ch, t, m, now)
	case 4:
		return e.advanceCmd(tp, ch, t, m, now, t.Phase, stFailed, false, false)
	default:
		return e.setFenceCmd(tp, ch, t, m, now, cfg, true)
	}
}
