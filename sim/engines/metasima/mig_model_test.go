package metasima

import (
	"fmt"
	"sort"

	metadb "github.com/WuKongIM/WuKongIM/pkg/db/meta"
)

// ---------------------------------------------------------------------------
// Reference model of the channel migration task state machine (property C17),
// written from the property statement and the documented command semantics:
// every command carries a task guard (the task row the executor saw) and, for
// steps that touch routing metadata, a runtime guard (the metadata row the
// executor saw). A step is accepted only against exactly those rows.
// ---------------------------------------------------------------------------

type mTask = metadb.ChannelMigrationTask

const (
	stPending   = metadb.ChannelMigrationStatusPending
	stRunning   = metadb.ChannelMigrationStatusRunning
	stBlocked   = metadb.ChannelMigrationStatusBlocked
	stCompleted = metadb.ChannelMigrationStatusCompleted
	stFailed    = metadb.ChannelMigrationStatusFailed
	stAborted   = metadb.ChannelMigrationStatusAborted

	phValidate   = metadb.ChannelMigrationPhaseValidate
	phProbe      = metadb.ChannelMigrationPhaseProbeTarget
	phWriteFence = metadb.ChannelMigrationPhaseWriteFence
	phDrain      = metadb.ChannelMigrationPhaseDrainLeader
	phFinal      = metadb.ChannelMigrationPhaseFinalTargetCatchUp
	phCommit     = metadb.ChannelMigrationPhaseCommitLeaderMeta
	phVerifyLdr  = metadb.ChannelMigrationPhaseVerifyNewLeader
	phAddLearner = metadb.ChannelMigrationPhaseAddLearner
	phBootstrap  = metadb.ChannelMigrationPhaseBootstrapTarget
	phWarm       = metadb.ChannelMigrationPhaseWarmCatchUp
	phCutover    = metadb.ChannelMigrationPhaseCutoverFence
	phPromote    = metadb.ChannelMigrationPhasePromoteAndRemove
	phVerifyMem  = metadb.ChannelMigrationPhaseVerifyMembership
	phClear      = metadb.ChannelMigrationPhaseClearFence

	kindLT = metadb.ChannelMigrationKindLeaderTransfer
	kindRR = metadb.ChannelMigrationKindReplicaReplace
	kindLF = metadb.ChannelMigrationKindLeaderFailover
)

var allPhases = []metadb.ChannelMigrationPhase{phValidate, phProbe, phWriteFence, phDrain, phFinal, phCommit, phVerifyLdr,
	phAddLearner, phBootstrap, phWarm, phCutover, phPromote, phVerifyMem, phClear}

func phaseIn(p metadb.ChannelMigrationPhase, set ...metadb.ChannelMigrationPhase) bool {
	for _, x := range set {
		if x == p {
			return true
		}
	}
	return false
}

func isLTKind(k metadb.ChannelMigrationKind) bool { return k == kindLT || k == kindLF }

// phases of the leader-transfer workflow, the ones in which the task holds (or
// is releasing) the write fence, and the ones from which it may be aborted
// (everything before the leader change is committed).
func isLTPhase(p metadb.ChannelMigrationPhase) bool {
	return phaseIn(p, phValidate, phProbe, phWriteFence, phDrain, phFinal, phCommit, phVerifyLdr, phClear)
}
func isLTFencePhase(p metadb.ChannelMigrationPhase) bool {
	return phaseIn(p, phWriteFence, phDrain, phFinal, phCommit, phVerifyLdr, phClear)
}
func isLTAbortPhase(p metadb.ChannelMigrationPhase) bool {
	return phaseIn(p, phValidate, phProbe, phWriteFence, phDrain, phFinal, phCommit)
}
func isRRFencePhase(p metadb.ChannelMigrationPhase) bool {
	return phaseIn(p, phCutover, phFinal, phPromote, phVerifyMem, phClear)
}
func isRRAbortPhase(p metadb.ChannelMigrationPhase) bool {
	return phaseIn(p, phValidate, phAddLearner, phBootstrap, phWarm, phCutover, phFinal, phPromote)
}

func terminal(t mTask) bool { return t.Status == stCompleted || t.Status == stFailed || t.Status == stAborted }

func validStatus(s metadb.ChannelMigrationStatus) bool { return s >= stPending && s <= stAborted }
func validPhase(p metadb.ChannelMigrationPhase) bool  { return phaseIn(p, allPhases...) }

func keyOK(s string) bool { return s != "" && len(s) <= 255 }

func validTask(t mTask) bool {
	if !keyOK(t.ChannelID) || !keyOK(t.TaskID) {
		return false
	}
	if !isLTKind(t.Kind) && t.Kind != kindRR {
		return false
	}
	if !validStatus(t.Status) || t.Phase == 0 {
		return false
	}
	if isLTKind(t.Kind) && t.DesiredLeader != 0 && t.DesiredLeader != t.TargetNode {
		return false
	}
	if terminal(t) && t.CompletedAtMS <= 0 {
		return false
	}
	return true
}

func validGuard(g metadb.ChannelMigrationTaskGuard) bool {
	return keyOK(g.ChannelID) && keyOK(g.TaskID) && g.ExpectedStatus != 0 && g.ExpectedPhase != 0
}

func validTransition(g metadb.ChannelMigrationTaskGuard, rg metadb.ChannelMigrationRuntimeGuard, st metadb.ChannelMigrationStatus, ph metadb.ChannelMigrationPhase, updatedAt, completedAt int64) bool {
	if !validGuard(g) || !keyOK(rg.ChannelID) {
		return false
	}
	if !validStatus(st) || !validPhase(ph) || updatedAt <= g.ExpectedUpdatedAtMS {
		return false
	}
	if (st == stCompleted || st == stFailed || st == stAborted) && completedAt <= 0 {
		return false
	}
	return true
}

func guardMatches(g metadb.ChannelMigrationTaskGuard, t mTask) bool {
	return t.ChannelID == g.ChannelID && t.ChannelType == g.ChannelType && t.TaskID == g.TaskID &&
		t.Status == g.ExpectedStatus && t.Phase == g.ExpectedPhase && t.OwnerNodeID == g.ExpectedOwnerNodeID &&
		t.OwnerLeaseUntilMS == g.ExpectedOwnerLeaseUntilMS && t.UpdatedAtMS == g.ExpectedUpdatedAtMS
}

func runtimeGuardMatches(g metadb.ChannelMigrationRuntimeGuard, m rtMeta) bool {
	return m.ChannelID == g.ChannelID && m.ChannelType == g.ChannelType && m.ChannelEpoch == g.ExpectedChannelEpoch &&
		m.LeaderEpoch == g.ExpectedLeaderEpoch && m.Leader == g.ExpectedLeader && m.WriteFenceToken == g.ExpectedFenceToken &&
		m.WriteFenceVersion == g.ExpectedFenceVersion && (g.ExpectedRouteGeneration == 0 || m.RouteGeneration == g.ExpectedRouteGeneration)
}

type migOutcome int

const (
	mOK      migOutcome = iota // accepted (possibly an idempotent no-op)
	mStale                     // refused: reported as stale_meta, nothing changes
	mInvalid                   // rejected with an error, nothing changes
)

func (o migOutcome) String() string { return [...]string{"accept", "refuse", "invalid"}[o] }

type migModel struct {
	tasks map[string]*mTask  // channel|task
	metas map[string]*rtMeta // channel
	chans map[string]chanRef
}

func newMigModel() *migModel {
	return &migModel{tasks: map[string]*mTask{}, metas: map[string]*rtMeta{}, chans: map[string]chanRef{}}
}

func tkey(ch, task string) string { return ch + "|" + task }

func (m *migModel) activeTask(ch string) *mTask {
	for _, k := range sortedKeys(m.tasks) {
		t := m.tasks[k]
		if t.ChannelID == ch && !terminal(*t) {
			return t
		}
	}
	return nil
}

func sortedKeys[V any](m map[string]V) []string {
	ks := make([]string, 0, len(m))
	for k := range m {
		ks = append(ks, k)
	}
	sort.Strings(ks)
	return ks
}

func taskHasFence(t mTask) bool { return t.FenceToken != "" || t.FenceVersion != 0 || t.FenceUntilMS != 0 }

// ownsFence: the task is the owner of the fence currently stored on the row,
// and the caller proved it saw that fence version.
func ownsFence(t mTask, m rtMeta, expectedVersion uint64) bool {
	return t.FenceToken != "" && t.FenceVersion != 0 && t.FenceUntilMS > 0 && t.FenceToken == t.TaskID &&
		t.FenceToken == m.WriteFenceToken && t.FenceVersion == m.WriteFenceVersion && t.FenceVersion == expectedVersion
}

func fenceMatches(m rtMeta, token string, version uint64, nowMS int64, allowExpired bool) bool {
	if token == "" || version == 0 || m.WriteFenceToken != token || m.WriteFenceVersion != version {
		return false
	}
	return allowExpired || nowMS <= m.WriteFenceUntilMS
}

// proofCurrent: the drain proof stored on the task describes exactly the row
// that is current now (fence version, channel epoch, leader epoch, leader).
func proofCurrent(t mTask, m rtMeta, expectedVersion uint64) bool {
	any := t.CutoverLEO != 0 || t.CutoverHW != 0 || t.DrainedLeaderNode != 0 || t.DrainedRuntimeGeneration != 0 ||
		t.DrainedChannelEpoch != 0 || t.DrainedLeaderEpoch != 0 || t.DrainedFenceVersion != 0
	if expectedVersion == 0 || !any {
		return false
	}
	if t.DrainedLeaderNode == 0 || t.DrainedRuntimeGeneration == 0 || t.DrainedChannelEpoch == 0 || t.DrainedLeaderEpoch == 0 ||
		t.DrainedFenceVersion == 0 || t.CutoverHW > t.CutoverLEO {
		return false
	}
	return t.DrainedFenceVersion == expectedVersion && m.WriteFenceVersion == expectedVersion &&
		t.DrainedChannelEpoch == m.ChannelEpoch && t.DrainedLeaderEpoch == m.LeaderEpoch && t.DrainedLeaderNode == m.Leader
}

func clearProof(t mTask) mTask {
	t.CutoverLEO, t.CutoverHW, t.DrainedLeaderNode, t.DrainedRuntimeGeneration = 0, 0, 0, 0
	t.DrainedChannelEpoch, t.DrainedLeaderEpoch, t.DrainedFenceVersion = 0, 0, 0
	return t
}

func clearFenceAndProof(t mTask) mTask {
	t.FenceToken, t.FenceVersion, t.FenceUntilMS = "", 0, 0
	return clearProof(t)
}

func clearMetaFence(m rtMeta) rtMeta {
	m.WriteFenceToken = ""
	m.WriteFenceVersion++
	m.WriteFenceReason = 0
	m.WriteFenceUntilMS = 0
	return m
}

func fencePhaseAllowed(t mTask) bool {
	if isLTKind(t.Kind) {
		return isLTFencePhase(t.Phase)
	}
	if t.Kind == kindRR {
		return isRRFencePhase(t.Phase) || (t.EmbeddedLeaderTransfer && isLTFencePhase(t.Phase))
	}
	return false
}

func desiredLeaderOf(t mTask) uint64 {
	if t.EmbeddedLeaderTransfer && t.EmbeddedDesiredLeader != 0 {
		return t.EmbeddedDesiredLeader
	}
	return t.DesiredLeader
}

func replaceMember(xs []uint64, old, nw uint64) []uint64 {
	out := make([]uint64, 0, len(xs))
	for _, x := range xs {
		if x == old {
			x = nw
		}
		out = append(out, x)
	}
	return normSet(out)
}

func removeMember(xs []uint64, v uint64) []uint64 {
	out := make([]uint64, 0, len(xs))
	for _, x := range xs {
		if x != v {
			out = append(out, x)
		}
	}
	return normSet(out)
}

// stepTaskMeta is the common shape of every step that touches the task row and
// the routing row atomically.
func (m *migModel) stepTaskMeta(g metadb.ChannelMigrationTaskGuard, rg metadb.ChannelMigrationRuntimeGuard,
	mutate func(t mTask, meta rtMeta) (mTask, rtMeta, bool)) migOutcome {
	tp := m.tasks[tkey(g.ChannelID, g.TaskID)]
	if tp == nil || tp.ChannelType != g.ChannelType {
		return mStale
	}
	mp := m.metas[rg.ChannelID]
	if mp == nil || mp.ChannelType != rg.ChannelType {
		return mStale
	}
	task, meta := *tp, *mp
	nt, nm, ok := mutate(task, meta)
	if !ok {
		return mStale
	}
	nm = refNormalize(nm)
	if routeFieldsChanged(meta, nm) && nm.RouteGeneration <= meta.RouteGeneration {
		nm.RouteGeneration = nextGen(meta.RouteGeneration)
	}
	if !guardMatches(g, task) || !runtimeGuardMatches(rg, meta) {
		if task == nt && rtEqual(&meta, &nm) {
			return mOK // exact replay of a step whose effect is already in place
		}
		return mStale
	}
	if terminal(task) && task != nt {
		return mStale
	}
	if !validTask(nt) || !refValid(nm) {
		return mInvalid
	}
	m.tasks[tkey(g.ChannelID, g.TaskID)] = &nt
	m.metas[rg.ChannelID] = &nm
	return mOK
}

func (m *migModel) stepTask(g metadb.ChannelMigrationTaskGuard, mutate func(t mTask) (mTask, bool)) migOutcome {
	tp := m.tasks[tkey(g.ChannelID, g.TaskID)]
	if tp == nil || tp.ChannelType != g.ChannelType {
		return mStale
	}
	if !guardMatches(g, *tp) {
		return mStale
	}
	nt, ok := mutate(*tp)
	if !ok {
		return mStale
	}
	if !validTask(nt) {
		return mInvalid
	}
	if !terminal(nt) {
		if a := m.activeTask(nt.ChannelID); a != nil && a.TaskID != nt.TaskID {
			return mStale
		}
	}
	m.tasks[tkey(g.ChannelID, g.TaskID)] = &nt
	return mOK
}

func (m *migModel) create(task mTask) migOutcome {
	if !validTask(task) {
		return mInvalid
	}
	if ex := m.tasks[tkey(task.ChannelID, task.TaskID)]; ex != nil && ex.ChannelType == task.ChannelType {
		if *ex == task {
			return mOK
		}
		return mStale
	}
	if !terminal(task) {
		if a := m.activeTask(task.ChannelID); a != nil {
			return mStale
		}
	}
	t := task
	m.tasks[tkey(task.ChannelID, task.TaskID)] = &t
	return mOK
}

func (m *migModel) createGuarded(req metadb.ChannelMigrationTaskCreate) migOutcome {
	if !validTask(req.Task) || !keyOK(req.RuntimeGuard.ChannelID) ||
		req.Task.ChannelID != req.RuntimeGuard.ChannelID || req.Task.ChannelType != req.RuntimeGuard.ChannelType {
		return mInvalid
	}
	if ex := m.tasks[tkey(req.Task.ChannelID, req.Task.TaskID)]; ex != nil && ex.ChannelType == req.Task.ChannelType {
		if *ex == req.Task {
			return mOK
		}
		return mStale
	}
	mp := m.metas[req.RuntimeGuard.ChannelID]
	if mp == nil || !runtimeGuardMatches(req.RuntimeGuard, *mp) {
		return mStale
	}
	return m.create(req.Task)
}

func (m *migModel) claim(req metadb.ChannelMigrationTaskClaim) migOutcome {
	if !validGuard(req.Guard) || req.OwnerNodeID == 0 || req.NowMS <= 0 || req.OwnerLeaseUntilMS <= req.NowMS {
		return mInvalid
	}
	return m.stepTask(req.Guard, func(t mTask) (mTask, bool) {
		free := t.OwnerNodeID == 0 || t.OwnerNodeID == req.OwnerNodeID || (t.OwnerLeaseUntilMS > 0 && t.OwnerLeaseUntilMS <= req.NowMS)
		if !free {
			return t, false
		}
		t.Status, t.Phase, t.OwnerNodeID, t.OwnerLeaseUntilMS, t.UpdatedAtMS = req.Status, req.Phase, req.OwnerNodeID, req.OwnerLeaseUntilMS, req.UpdatedAtMS
		return t, true
	})
}

func (m *migModel) advance(req metadb.ChannelMigrationTaskAdvance) migOutcome {
	if !keyOK(req.Guard.ChannelID) || !keyOK(req.Guard.TaskID) {
		return mInvalid
	}
	return m.stepTask(req.Guard, func(t mTask) (mTask, bool) {
		t.Status, t.Phase, t.Attempt, t.NextRunAtMS = req.Status, req.Phase, req.Attempt, req.NextRunAtMS
		t.BlockerCode, t.BlockerMessage, t.LastError = req.BlockerCode, req.BlockerMessage, req.LastError
		t.UpdatedAtMS, t.CompletedAtMS, t.Progress = req.UpdatedAtMS, req.CompletedAtMS, req.Progress
		if req.CutoverProof != (metadb.ChannelMigrationCutoverProof{}) {
			p := req.CutoverProof
			t.CutoverLEO, t.CutoverHW, t.DrainedLeaderNode, t.DrainedRuntimeGeneration = p.CutoverLEO, p.CutoverHW, p.DrainedLeaderNode, p.DrainedRuntimeGeneration
			t.DrainedChannelEpoch, t.DrainedLeaderEpoch, t.DrainedFenceVersion = p.DrainedChannelEpoch, p.DrainedLeaderEpoch, p.DrainedFenceVersion
		}
		if req.EmbeddedDesiredLeader != 0 {
			t.EmbeddedLeaderTransfer, t.EmbeddedDesiredLeader = true, req.EmbeddedDesiredLeader
		}
		return t, true
	})
}

func (m *migModel) setFence(req metadb.ChannelMigrationFenceRequest) migOutcome {
	if !validGuard(req.Guard) || !keyOK(req.RuntimeGuard.ChannelID) || !validStatus(req.Status) || !validPhase(req.Phase) ||
		req.FenceReason == 0 || req.FenceUntilMS <= 0 || req.UpdatedAtMS <= req.Guard.ExpectedUpdatedAtMS {
		return mInvalid
	}
	return m.stepTaskMeta(req.Guard, req.RuntimeGuard, func(t mTask, meta rtMeta) (mTask, rtMeta, bool) {
		if req.Status != stRunning {
			return t, meta, false
		}
		okPhase := false
		if isLTKind(t.Kind) || (t.Kind == kindRR && t.EmbeddedLeaderTransfer && isLTPhase(t.Phase)) {
			okPhase = (t.Phase == phWriteFence && req.Phase == phDrain) || (isLTFencePhase(t.Phase) && req.Phase == t.Phase)
		} else if t.Kind == kindRR {
			okPhase = (t.Phase == phWarm && req.Phase == phCutover) || (isRRFencePhase(t.Phase) && req.Phase == t.Phase)
		}
		if !okPhase {
			return t, meta, false
		}
		// a fence may be set on a free row, or renewed by its owner; never over another owner's fence
		th, mh := taskHasFence(t), meta.WriteFenceToken != ""
		if th != mh {
			return t, meta, false
		}
		if th && !ownsFence(t, meta, meta.WriteFenceVersion) {
			return t, meta, false
		}
		nt := clearProof(t)
		nt.Status, nt.Phase, nt.FenceToken, nt.FenceVersion, nt.FenceUntilMS, nt.UpdatedAtMS =
			req.Status, req.Phase, t.TaskID, meta.WriteFenceVersion+1, req.FenceUntilMS, req.UpdatedAtMS
		nm := meta
		nm.WriteFenceToken, nm.WriteFenceVersion, nm.WriteFenceReason, nm.WriteFenceUntilMS = t.TaskID, meta.WriteFenceVersion+1, req.FenceReason, req.FenceUntilMS
		return nt, nm, true
	})
}

func (m *migModel) resetFence(req metadb.ChannelMigrationResetFenceRequest) migOutcome {
	if !validTransition(req.Guard, req.RuntimeGuard, req.Status, req.Phase, req.UpdatedAtMS, 0) || req.NowMS <= 0 {
		return mInvalid
	}
	return m.stepTaskMeta(req.Guard, req.RuntimeGuard, func(t mTask, meta rtMeta) (mTask, rtMeta, bool) {
		if req.Status != stRunning || !fencePhaseAllowed(t) {
			return t, meta, false
		}
		okPhase := false
		if isLTKind(t.Kind) || (t.Kind == kindRR && t.EmbeddedLeaderTransfer && isLTFencePhase(t.Phase)) {
			okPhase = req.Phase == phProbe || req.Phase == phWriteFence
		} else if t.Kind == kindRR {
			okPhase = req.Phase == phWarm
		}
		if !okPhase {
			return t, meta, false
		}
		if !ownsFence(t, meta, req.RuntimeGuard.ExpectedFenceVersion) ||
			!fenceMatches(meta, req.RuntimeGuard.ExpectedFenceToken, req.RuntimeGuard.ExpectedFenceVersion, 0, true) {
			return t, meta, false
		}
		if req.NowMS <= meta.WriteFenceUntilMS {
			return t, meta, false // only an expired fence may be reset
		}
		nt := clearFenceAndProof(t)
		nt.Status, nt.Phase, nt.UpdatedAtMS = req.Status, req.Phase, req.UpdatedAtMS
		return nt, clearMetaFence(meta), true
	})
}

func (m *migModel) commitTransfer(req metadb.ChannelMigrationLeaderTransferRequest) migOutcome {
	if !validTransition(req.Guard, req.RuntimeGuard, req.Status, req.Phase, req.UpdatedAtMS, 0) ||
		req.DesiredLeader == 0 || req.NextLeaderEpoch == 0 || req.LeaseUntilMS <= 0 || req.NowMS <= 0 {
		return mInvalid
	}
	return m.stepTaskMeta(req.Guard, req.RuntimeGuard, func(t mTask, meta rtMeta) (mTask, rtMeta, bool) {
		if req.Status != stRunning || t.Phase != phCommit || req.Phase != phVerifyLdr {
			return t, meta, false
		}
		if !isLTKind(t.Kind) && !(t.Kind == kindRR && t.EmbeddedLeaderTransfer) {
			return t, meta, false
		}
		rg := req.RuntimeGuard
		if !fenceMatches(meta, rg.ExpectedFenceToken, rg.ExpectedFenceVersion, req.NowMS, false) ||
			!ownsFence(t, meta, rg.ExpectedFenceVersion) || !proofCurrent(t, meta, rg.ExpectedFenceVersion) {
			return t, meta, false
		}
		if req.DesiredLeader != desiredLeaderOf(t) || !containsU64(meta.ISR, req.DesiredLeader) || req.NextLeaderEpoch <= meta.LeaderEpoch {
			return t, meta, false
		}
		nt := t
		nt.Status, nt.Phase, nt.UpdatedAtMS = req.Status, req.Phase, req.UpdatedAtMS
		nm := meta
		nm.Leader, nm.LeaderEpoch, nm.LeaseUntilMS = req.DesiredLeader, req.NextLeaderEpoch, req.LeaseUntilMS
		return nt, nm, true
	})
}

func (m *migModel) addLearner(req metadb.ChannelMigrationAddLearnerRequest) migOutcome {
	if !validTransition(req.Guard, req.RuntimeGuard, req.Status, req.Phase, req.UpdatedAtMS, 0) || req.TargetNode == 0 {
		return mInvalid
	}
	return m.stepTaskMeta(req.Guard, req.RuntimeGuard, func(t mTask, meta rtMeta) (mTask, rtMeta, bool) {
		if t.Kind != kindRR || t.Phase != phAddLearner || req.Status != stRunning || req.Phase != phBootstrap {
			return t, meta, false
		}
		srcInISR := containsU64(meta.ISR, t.SourceNode)
		if req.TargetNode != t.TargetNode || meta.Leader == t.SourceNode || !containsU64(meta.Replicas, t.SourceNode) ||
			(!srcInISR && int64(len(meta.ISR)) < meta.MinISR) || containsU64(meta.Replicas, req.TargetNode) || containsU64(meta.ISR, req.TargetNode) {
			return t, meta, false
		}
		nt := t
		nt.Status, nt.Phase, nt.UpdatedAtMS = req.Status, req.Phase, req.UpdatedAtMS
		nm := meta
		nm.Replicas = append(append([]uint64(nil), meta.Replicas...), req.TargetNode)
		nm.ChannelEpoch++
		return nt, nm, true
	})
}

func (m *migModel) promote(req metadb.ChannelMigrationPromoteLearnerRequest) migOutcome {
	if !validTransition(req.Guard, req.RuntimeGuard, req.Status, req.Phase, req.UpdatedAtMS, 0) ||
		req.SourceNode == 0 || req.TargetNode == 0 || req.SourceNode == req.TargetNode || req.NowMS <= 0 {
		return mInvalid
	}
	return m.stepTaskMeta(req.Guard, req.RuntimeGuard, func(t mTask, meta rtMeta) (mTask, rtMeta, bool) {
		if t.Kind != kindRR || t.Phase != phPromote || req.Status != stRunning || req.Phase != phVerifyMem {
			return t, meta, false
		}
		rg := req.RuntimeGuard
		if !fenceMatches(meta, rg.ExpectedFenceToken, rg.ExpectedFenceVersion, req.NowMS, false) ||
			!ownsFence(t, meta, rg.ExpectedFenceVersion) || !proofCurrent(t, meta, rg.ExpectedFenceVersion) {
			return t, meta, false
		}
		srcInISR := containsU64(meta.ISR, req.SourceNode)
		if req.SourceNode != t.SourceNode || req.TargetNode != t.TargetNode || meta.Leader == req.SourceNode ||
			!containsU64(meta.Replicas, req.SourceNode) || !containsU64(meta.Replicas, req.TargetNode) ||
			(!srcInISR && int64(len(meta.ISR)) < meta.MinISR) || containsU64(meta.ISR, req.TargetNode) {
			return t, meta, false
		}
		nt := t
		nt.Status, nt.Phase, nt.UpdatedAtMS = req.Status, req.Phase, req.UpdatedAtMS
		nm := meta
		nm.Replicas = replaceMember(meta.Replicas, req.SourceNode, req.TargetNode)
		if srcInISR {
			nm.ISR = replaceMember(meta.ISR, req.SourceNode, req.TargetNode)
		} else {
			nm.ISR = normSet(append(append([]uint64(nil), meta.ISR...), req.TargetNode))
		}
		nm.ChannelEpoch++
		return nt, nm, true
	})
}

func (m *migModel) clearFence(req metadb.ChannelMigrationClearFenceRequest) migOutcome {
	if !validTransition(req.Guard, req.RuntimeGuard, req.Status, req.Phase, req.UpdatedAtMS, req.CompletedAtMS) {
		return mInvalid
	}
	return m.stepTaskMeta(req.Guard, req.RuntimeGuard, func(t mTask, meta rtMeta) (mTask, rtMeta, bool) {
		if !fencePhaseAllowed(t) {
			return t, meta, false
		}
		finish := req.Status == stCompleted && req.Phase == phClear && req.CompletedAtMS > 0
		embeddedDone := t.Kind == kindRR && t.EmbeddedLeaderTransfer && t.Phase == phVerifyLdr && req.Status == stRunning && req.Phase == phAddLearner && req.CompletedAtMS == 0
		switch {
		case finish:
			done := terminal(t) && t.Phase == phClear
			if isLTKind(t.Kind) && !(t.Phase == phVerifyLdr || done) {
				return t, meta, false
			}
			if t.Kind == kindRR && !(t.Phase == phVerifyMem || done) {
				return t, meta, false
			}
		case embeddedDone:
		default:
			return t, meta, false
		}
		rg := req.RuntimeGuard
		// exact replay of a completed clear: task already completed with these stamps, row already unfenced at version+1
		if finish && terminal(t) && t.Status == stCompleted && t.Phase == phClear && t.UpdatedAtMS == req.UpdatedAtMS && t.CompletedAtMS == req.CompletedAtMS &&
			!taskHasFence(t) && t == clearProof(t) &&
			meta.ChannelID == rg.ChannelID && meta.ChannelType == rg.ChannelType && meta.ChannelEpoch == rg.ExpectedChannelEpoch &&
			meta.LeaderEpoch == rg.ExpectedLeaderEpoch && meta.Leader == rg.ExpectedLeader && meta.WriteFenceToken == "" &&
			meta.WriteFenceVersion == rg.ExpectedFenceVersion+1 && meta.WriteFenceReason == 0 && meta.WriteFenceUntilMS == 0 {
			return t, meta, true
		}
		if !ownsFence(t, meta, rg.ExpectedFenceVersion) || !fenceMatches(meta, rg.ExpectedFenceToken, rg.ExpectedFenceVersion, 0, true) {
			return t, meta, false
		}
		nt := clearFenceAndProof(t)
		nt.Status, nt.Phase, nt.UpdatedAtMS, nt.CompletedAtMS = req.Status, req.Phase, req.UpdatedAtMS, req.CompletedAtMS
		if embeddedDone {
			nt.EmbeddedLeaderTransfer, nt.EmbeddedDesiredLeader = false, 0
		}
		return nt, clearMetaFence(meta), true
	})
}

func (m *migModel) abort(req metadb.ChannelMigrationAbortRequest) migOutcome {
	if req.Status != stAborted || !validTransition(req.Guard, req.RuntimeGuard, req.Status, req.Phase, req.UpdatedAtMS, req.CompletedAtMS) {
		return mInvalid
	}
	return m.stepTaskMeta(req.Guard, req.RuntimeGuard, func(t mTask, meta rtMeta) (mTask, rtMeta, bool) {
		if terminal(t) {
			return t, meta, false
		}
		abortable := false
		switch {
		case isLTKind(t.Kind):
			abortable = isLTAbortPhase(t.Phase)
		case t.Kind == kindRR && t.EmbeddedLeaderTransfer && isLTPhase(t.Phase):
			abortable = isLTAbortPhase(t.Phase)
		case t.Kind == kindRR:
			abortable = isRRAbortPhase(t.Phase)
		}
		if !abortable {
			return t, meta, false // the cutover has been committed: no way back
		}
		nt := clearFenceAndProof(t)
		nt.Status, nt.Phase, nt.UpdatedAtMS, nt.CompletedAtMS, nt.LastError = req.Status, req.Phase, req.UpdatedAtMS, req.CompletedAtMS, req.LastError
		nm := meta
		if meta.WriteFenceToken != "" {
			rg := req.RuntimeGuard
			if !ownsFence(t, meta, rg.ExpectedFenceVersion) || !fenceMatches(meta, rg.ExpectedFenceToken, rg.ExpectedFenceVersion, 0, true) {
				return t, meta, false
			}
			nm = clearMetaFence(nm)
		} else if taskHasFence(t) {
			return t, meta, false
		}
		if t.Kind == kindRR && phaseIn(t.Phase, phBootstrap, phWarm, phCutover, phFinal, phPromote) &&
			containsU64(nm.Replicas, t.TargetNode) && !containsU64(nm.ISR, t.TargetNode) {
			nm.Replicas = removeMember(nm.Replicas, t.TargetNode)
			nm.ChannelEpoch++
		}
		return nt, nm, true
	})
}

// gc removes terminal tasks completed before the cutoff, in row order, for the
// channels of one hash slot; it reports how many it removed.
func (m *migModel) gc(hs uint16, req metadb.ChannelMigrationTaskGCRequest) (migOutcome, int) {
	if req.BeforeMS <= 0 || req.Limit <= 0 {
		return mInvalid, 0
	}
	type cand struct {
		key string
		t   *mTask
	}
	var cs []cand
	for k, t := range m.tasks {
		if c, ok := m.chans[t.ChannelID]; ok && c.hs == hs && terminal(*t) && t.CompletedAtMS < req.BeforeMS {
			cs = append(cs, cand{k, t})
		}
	}
	sort.Slice(cs, func(i, j int) bool {
		a, b := cs[i].t, cs[j].t
		if a.ChannelID != b.ChannelID {
			return a.ChannelID < b.ChannelID
		}
		if a.ChannelType != b.ChannelType {
			return a.ChannelType < b.ChannelType
		}
		return a.TaskID < b.TaskID
	})
	n := 0
	for _, c := range cs {
		if n >= req.Limit {
			break
		}
		delete(m.tasks, c.key)
		n++
	}
	return mOK, n
}

func taskString(t *mTask) string {
	if t == nil {
		return "<none>"
	}
	return fmt.Sprintf("{%s k=%d st=%d ph=%d src=%d tgt=%d want=%d emb=%v/%d owner=%d/%d upd=%d done=%d fence=%q/v%d/u%d proof=(leo=%d hw=%d L=%d rg=%d ce=%d le=%d fv=%d) att=%d}",
		t.TaskID, t.Kind, t.Status, t.Phase, t.SourceNode, t.TargetNode, t.DesiredLeader, t.EmbeddedLeaderTransfer, t.EmbeddedDesiredLeader,
		t.OwnerNodeID, t.OwnerLeaseUntilMS, t.UpdatedAtMS, t.CompletedAtMS, t.FenceToken, t.FenceVersion, t.FenceUntilMS,
		t.CutoverLEO, t.CutoverHW, t.DrainedLeaderNode, t.DrainedRuntimeGeneration, t.DrainedChannelEpoch, t.DrainedLeaderEpoch, t.DrainedFenceVersion, t.Attempt)
}
