package metasima

import (
	"bytes"
	"context"
	"errors"
	"fmt"
	"testing"

	"github.com/WuKongIM/WuKongIM/internal/verifsim/simkit"
	metadb "github.com/WuKongIM/WuKongIM/pkg/db/meta"
	"github.com/WuKongIM/WuKongIM/pkg/slot/fsm"
	"github.com/WuKongIM/WuKongIM/pkg/slot/multiraft"
)

// C15 — channel routing metadata never regresses.
//
// World: one real slot FSM over one real meta DB; 2-4 proposers compute
// upserts / create-if-absent batches / retention advances / deletes from
// cached (stale) reads; the simulated slot log orders, delays and duplicates
// their proposals and delivers them in tape-chosen ApplyBatch groups; the DB is
// reopened (cleanly or from a crash clone) at tape-chosen points.

type c15World struct {
	r     *simkit.Run
	tp    *simkit.Tape
	n     *node
	chans []chanRef
	props []*rtProposer
	ref   map[string]*rtMeta // reference row per channel (literal reading)
	lex   map[string]*rtMeta // same, but epochs ordered lexicographically (channel epoch first)
	literal bool
	// strict = the literal reading of "leader epoch never decreases" for a
	// candidate that raises the channel epoch (see refUpsert).
	pending []rtCmd
	index   uint64
	applied int
	refused int
	faults  int
	deleted map[string]bool // channels deleted inside the batch being checked
	// adoptedInBatch: the recorded finding C15-K1 was passed inside the batch being checked
	adoptedInBatch bool
}

func runC15(t *testing.T, r *simkit.Run) {
	dropPools()
	simkit.Bubble(t, r, func() {
		w := &c15World{r: r, tp: r.Tape, ref: map[string]*rtMeta{}, lex: map[string]*rtMeta{}}
		defer func() {
			if w.n != nil {
				w.n.close()
			}
		}()
		w.run()
	})
}

func (w *c15World) run() {
	tp, r := w.tp, w.r
	nProps := 2 + tp.Intn(3)
	nChans := 2 + tp.Intn(2)
	ops := 10 + tp.Intn(40)
	noFaults := tp.Intn(4) == 0
	maxBatch := 1 + tp.Intn(5)
	dupBias := tp.Intn(3)
	invalidOK := tp.Intn(3) == 0
	// literal: "leader epoch never decreases" is read literally. In the other half of
	// the runs the reference orders epochs lexicographically (channel epoch first), as
	// the store does, so that those runs are not cut short by the recorded finding
	// C15-K1 and every other clause keeps being checked to the end of the history.
	w.literal = tp.Intn(2) == 0
	memTable := []int{256 << 10, 64 << 10, 16 << 10}[tp.Intn(3)]
	hashSlots := []uint16{3, 7}
	r.Config = map[string]any{"proposers": nProps, "channels": nChans, "ops": ops, "nofaults": noFaults,
		"max_batch": maxBatch, "dup_bias": dupBias, "invalid_ok": invalidOK, "memtable": memTable, "literal_leader_epoch": w.literal}
	ids := []string{"chA", "chB", "chC"}
	for i := 0; i < nChans; i++ {
		w.chans = append(w.chans, chanRef{id: ids[i], typ: 2, hs: hashSlots[i%2]})
	}
	for i := 0; i < nProps; i++ {
		w.props = append(w.props, &rtProposer{id: i, cache: map[string]*rtMeta{}})
	}
	w.n = newNode(r, "n0", 1, hashSlots, false, memTable)
	if !w.n.open() {
		return
	}
	steps := 0
	for steps < ops*4 && !r.Failed() && r.InfraErr == "" {
		steps++
		r.Steps++
		issued := w.applied + w.refused
		if issued >= ops && len(w.pending) == 0 {
			break
		}
		wPropose, wCommit, wRefresh, wFault := 5, 0, 2, 0
		if issued+len(w.pending) >= ops+6 {
			wPropose = 0
		}
		if len(w.pending) > 0 {
			wCommit = 5
		}
		if !noFaults {
			wFault = 1
		}
		switch tp.Weighted([]int{wPropose, wCommit, wRefresh, wFault}) {
		case 0:
			p := w.props[tp.Intn(len(w.props))]
			c := p.propose(tp, w.chans, invalidOK)
			w.pending = append(w.pending, c)
			r.Logf("propose %s", c.desc)
		case 1:
			w.commit(maxBatch, dupBias)
		case 2:
			p := w.props[tp.Intn(len(w.props))]
			ch := w.chans[tp.Intn(len(w.chans))]
			p.cache[ch.id] = w.read(ch)
			r.Logf("p%d reads %s = %s", p.id, ch.id, rtString(p.cache[ch.id]))
		case 3:
			w.fault()
		}
	}
	r.Nontrivial = w.applied >= 3 && w.refused >= 1
}

func (w *c15World) read(ch chanRef) *rtMeta {
	m, err := w.n.db.ForHashSlot(ch.hs).GetChannelRuntimeMeta(context.Background(), ch.id, ch.typ)
	if errors.Is(err, metadb.ErrNotFound) {
		return nil
	}
	if err != nil {
		w.r.Infra("read %s: %v", ch.id, err)
		return nil
	}
	return &m
}

func (w *c15World) fault() {
	r := w.r
	before := map[string]*rtMeta{}
	for _, ch := range w.chans {
		before[ch.id] = w.read(ch)
	}
	var ok bool
	switch w.tp.Intn(3) {
	case 0:
		r.Logf("fault: clean reopen")
		r.Fault("reopen")
		ok = w.n.reopenClean()
	case 1:
		r.Logf("fault: power loss (synced data only), reopen on crash clone")
		r.Fault("crash_powerloss")
		ok = w.n.crashNow(0)
	default:
		r.Logf("fault: process kill, reopen on crash clone")
		r.Fault("crash_kill")
		ok = w.n.crashNow(100)
	}
	if !ok {
		return
	}
	w.faults++
	for _, ch := range w.chans {
		got := w.read(ch)
		if !rtEqual(got, before[ch.id]) {
			r.FailSig("row-changed-by-restart", "", fmt.Sprintf("channel %s: row before restart %s, after %s (every ApplyBatch had returned)", ch.id, rtString(before[ch.id]), rtString(got)), nil)
			return
		}
	}
	if d := w.n.durable(); d != w.lastDurable() {
		r.Probe("durable_index_lag_after_restart")
	}
}

func (w *c15World) lastDurable() uint64 { return w.index }

// channelBytes returns the raw snapshot entries that mention a channel id.
func channelBytes(snaps [][]byte, id string) []byte {
	var out []byte
	for _, s := range snaps {
		kvs, ok := decodeSnap(s)
		if !ok {
			continue
		}
		for _, e := range kvs {
			if bytes.Contains(e.k, []byte(id)) {
				out = append(out, e.k...)
				out = append(out, 0)
				out = append(out, e.v...)
				out = append(out, 0)
			}
		}
	}
	return out
}

func (w *c15World) snapAll() [][]byte {
	var out [][]byte
	for _, hs := range w.n.hashSlots {
		out = append(out, w.n.export(hs))
	}
	return out
}

type c15Expect struct {
	outcome rtOutcome
	lexOut  rtOutcome // outcome under the lexicographic-epoch reading
	created []bool
	touched []chanRef
	changed map[string]bool
}

// model applies one command to the reference rows and says what must be seen.
func (w *c15World) model(c rtCmd) c15Expect {
	e := c15Expect{changed: map[string]bool{}}
	switch c.kind {
	case rtkUpsert:
		cur := w.ref[c.ch.id]
		// the command codec canonicalises the candidate on both sides of the
		// wire, so an unset route generation travels as its default value
		next, out := refUpsert(cur, refNormalize(c.meta), w.literal)
		ln, lo := refUpsert(w.lex[c.ch.id], refNormalize(c.meta), false)
		if lo == rtApplied {
			w.lex[c.ch.id] = ln
		}
		e.lexOut = lo
		e.outcome, e.touched = out, []chanRef{c.ch}
		if out == rtApplied {
			e.changed[c.ch.id] = !rtEqual(cur, next)
			w.ref[c.ch.id] = next
		}
	case rtkCreate:
		for _, it := range c.items {
			if !refValid(it.Meta) {
				e.outcome = rtInvalid
			}
		}
		if e.outcome == rtInvalid {
			return e
		}
		for _, it := range c.items {
			ch := chanRef{id: it.Meta.ChannelID, typ: it.Meta.ChannelType, hs: it.HashSlot}
			next, created, _ := refCreate(w.ref[ch.id], it.Meta)
			w.ref[ch.id] = next
			w.lex[ch.id], _, _ = refCreate(w.lex[ch.id], it.Meta)
			e.created = append(e.created, created)
			e.touched = append(e.touched, ch)
			e.changed[ch.id] = created
		}
	case rtkRetention:
		cur := w.ref[c.ch.id]
		next, out := refRetention(cur, c.ret)
		ln, lo := refRetention(w.lex[c.ch.id], c.ret)
		if lo == rtApplied {
			w.lex[c.ch.id] = ln
		}
		e.lexOut = lo
		e.outcome, e.touched = out, []chanRef{c.ch}
		if out == rtApplied {
			e.changed[c.ch.id] = !rtEqual(cur, next)
			w.ref[c.ch.id] = next
		}
	case rtkDelete:
		e.touched = []chanRef{c.ch}
		e.changed[c.ch.id] = w.ref[c.ch.id] != nil
		delete(w.ref, c.ch.id)
		delete(w.lex, c.ch.id)
		w.deleted[c.ch.id] = true
	}
	return e
}

// adoptLexicographic is taken after the recorded finding C15-K1 was observed in a
// run that goes on (simkit.Run.FailSigContinue): the literal reference row is
// replaced by the row the store holds (the lexicographic reference, which has
// followed the store all along), and the rest of the history is judged like a
// run of the lexicographic half.
func (w *c15World) adoptLexicographic() {
	w.literal = false
	w.adoptedInBatch = true // which writes of this batch were "refused" was judged literally: that clause rests until the next batch
	w.ref = map[string]*rtMeta{}
	for id, m := range w.lex {
		if m != nil {
			c := *m
			w.ref[id] = &c
		}
	}
	w.r.Probe("known_c15k1_passed_reference_adopts_stored_row")
}

func (w *c15World) commit(maxBatch, dupBias int) {
	r, tp := w.r, w.tp
	m := 1 + tp.Intn(min(maxBatch, len(w.pending)))
	var batch []rtCmd
	for i := 0; i < m && len(w.pending) > 0; i++ {
		k := tp.PickOldestBiased(len(w.pending))
		c := w.pending[k]
		if dupBias > 0 && tp.Chance(dupBias, 8) {
			r.Fault("duplicate_delivery") // stays pending: delivered again later
			r.Logf("log: %s will be delivered again", c.desc)
		} else {
			w.pending = append(w.pending[:k], w.pending[k+1:]...)
		}
		if k > 0 {
			r.Fault("reordered_delivery")
		}
		batch = append(batch, c)
	}
	pre := map[string]*rtMeta{}
	for _, ch := range w.chans {
		pre[ch.id] = w.read(ch)
	}
	preSnaps := w.snapAll()
	w.deleted = map[string]bool{}
	w.adoptedInBatch = false

	cmds := make([]multiraft.Command, len(batch))
	for i, c := range batch {
		w.index++
		cmds[i] = multiraft.Command{SlotID: multiraft.SlotID(w.n.slot), HashSlot: c.hs, Index: w.index, Term: 1, Data: c.data}
	}
	r.Logf("apply batch of %d (index %d..%d)", len(batch), cmds[0].Index, cmds[len(cmds)-1].Index)
	out := w.n.apply(cmds)
	if out.panicked != "" {
		r.Fail("panic", "ApplyBatch panicked: "+out.panicked, nil)
		return
	}
	results := out.res
	errs := make([]error, len(batch))
	if out.err != nil {
		// A batch fails as a whole when one command is rejected with an error
		// (the slot would stop there); it must have had no effect. The log then
		// delivers the commands one at a time, skipping the rejected ones.
		r.Probe("batch_error_fallback")
		for _, ch := range w.chans {
			if got := w.read(ch); !rtEqual(got, pre[ch.id]) {
				r.FailSig("failed-batch-side-effect", "", fmt.Sprintf("ApplyBatch returned %v but row %s changed: %s -> %s", out.err, ch.id, rtString(pre[ch.id]), rtString(got)), nil)
				return
			}
		}
		results = make([][]byte, len(batch))
		for i := range cmds {
			o := w.n.apply(cmds[i : i+1])
			if o.panicked != "" {
				r.Fail("panic", "ApplyBatch panicked: "+o.panicked, nil)
				return
			}
			errs[i] = o.err
			if o.err == nil {
				results[i] = o.res[0]
			}
		}
	}
	if len(results) != len(batch) {
		r.Fail("result-count", fmt.Sprintf("%d results for %d commands", len(results), len(batch)), nil)
		return
	}
	// reference, command by command in log order
	refusedOnly := map[string]bool{}
	acceptedAny := map[string]bool{}
	for i, c := range batch {
		exp := w.model(c)
		res := string(results[i])
		r.Logf("  #%d %s => %q err=%s (reference: %s)", cmds[i].Index, c.desc, res, errClass(errs[i]), exp.outcome)
		if exp.outcome == rtInvalid {
			if errs[i] == nil {
				r.FailSig("invalid-accepted", fmt.Sprint(c.kind), fmt.Sprintf("%s: an unstorable row was accepted with result %q", c.desc, res), nil)
				return
			}
			w.refused++
			r.Probe("invalid_rejected")
			continue
		}
		if errs[i] != nil {
			r.FailSig("unexpected-error", errClass(errs[i]), fmt.Sprintf("%s: rejected with %v, the reference accepts it as %s", c.desc, errs[i], exp.outcome), nil)
			return
		}
		switch c.kind {
		case rtkUpsert, rtkRetention:
			wantStale := exp.outcome == rtConflict
			if wantStale != (res == fsm.ApplyResultStaleMeta) && (exp.lexOut == rtConflict) == (res == fsm.ApplyResultStaleMeta) && !rtEqual(w.ref[c.ch.id], w.lex[c.ch.id]) {
				if r.FailSigContinue("leader-epoch-decreased", "channel-epoch-raised", fmt.Sprintf("%s: result %q follows a row in which an earlier write of this batch raised the channel epoch while lowering the leader epoch (literal reference row %s, lexicographic row %s)", c.desc, res, rtString(w.ref[c.ch.id]), rtString(w.lex[c.ch.id])), nil) {
					return
				}
				// recorded finding, the run goes on: the reference adopts the store's
				// (lexicographic) ordering of the two epochs from here; every other clause,
				// including "leader epoch never decreases inside one channel epoch",
				// restarts from the adopted rows
				w.adoptLexicographic()
				acceptedAny[c.ch.id] = true // this batch's "refused writes leave the bytes alone" check no longer applies to the row
				switch res {
				case fsm.ApplyResultStaleMeta:
					w.refused++
				case fsm.ApplyResultOK:
					w.applied++
				default:
					r.FailSig("result-mismatch", fmt.Sprintf("%d/%s", c.kind, exp.lexOut), fmt.Sprintf("%s: result %q", c.desc, res), nil)
					return
				}
				continue
			}
			if wantStale != (res == fsm.ApplyResultStaleMeta) {
				r.FailSig("result-mismatch", fmt.Sprintf("%d/%s", c.kind, exp.outcome), fmt.Sprintf("%s: result %q, reference outcome %s", c.desc, res, exp.outcome), nil)
				return
			}
			if !wantStale && res != fsm.ApplyResultOK {
				r.FailSig("result-mismatch", fmt.Sprintf("%d/%s", c.kind, exp.outcome), fmt.Sprintf("%s: result %q, want ok", c.desc, res), nil)
				return
			}
		case rtkCreate:
			got, err := fsm.DecodeCreateChannelRuntimeMetaBatchResult(results[i])
			if err != nil || len(got) != len(exp.created) {
				r.FailSig("result-mismatch", "create-shape", fmt.Sprintf("%s: undecodable/misaligned create result %q (%v)", c.desc, res, err), nil)
				return
			}
			for j := range got {
				if got[j].ChannelID != c.items[j].Meta.ChannelID || got[j].Created != exp.created[j] {
					r.FailSig("result-mismatch", "create", fmt.Sprintf("%s: item %d reported (%s created=%v), reference (%s created=%v)", c.desc, j, got[j].ChannelID, got[j].Created, c.items[j].Meta.ChannelID, exp.created[j]), nil)
					return
				}
			}
		case rtkDelete:
			if res != fsm.ApplyResultOK {
				r.FailSig("result-mismatch", "delete", fmt.Sprintf("%s: result %q", c.desc, res), nil)
				return
			}
		}
		refusedCmd := exp.outcome != rtApplied
		if refusedCmd {
			w.refused++
			r.Probe("refused_" + exp.outcome.String())
		} else {
			w.applied++
		}
		for _, ch := range exp.touched {
			if exp.changed[ch.id] {
				acceptedAny[ch.id] = true
			} else if !acceptedAny[ch.id] {
				refusedOnly[ch.id] = true
			}
		}
	}
	postSnaps := w.snapAll()
	for _, ch := range w.chans {
		post := w.read(ch)
		if pre[ch.id] != nil && post != nil && !w.deleted[ch.id] {
			if class, detail := rtRegression(*pre[ch.id], *post); class != "" && !(class == "leader-epoch-decreased" && !w.literal && post.ChannelEpoch > pre[ch.id].ChannelEpoch) {
				sig := ""
				if class == "leader-epoch-decreased" {
					sig = "same-channel-epoch"
					if post.ChannelEpoch > pre[ch.id].ChannelEpoch {
						sig = "channel-epoch-raised"
					}
				}
				msg := fmt.Sprintf("channel %s across index %d..%d: %s; before %s after %s", ch.id, cmds[0].Index, w.index, detail, rtString(pre[ch.id]), rtString(post))
				if sig != "channel-epoch-raised" {
					r.FailSig(class, sig, msg, nil)
					return
				}
				if r.FailSigContinue(class, sig, msg, nil) {
					return
				}
				w.adoptLexicographic()
				acceptedAny[ch.id] = true // the literal reference had called that write refused
			}
		}
		if !rtEqual(post, w.ref[ch.id]) && rtEqual(post, w.lex[ch.id]) {
			if r.FailSigContinue("leader-epoch-decreased", "channel-epoch-raised", fmt.Sprintf("channel %s inside index %d..%d: a write that raised the channel epoch was applied although it carried an older leader epoch; stored %s, literal reference %s (before the batch: %s)", ch.id, cmds[0].Index, w.index, rtString(post), rtString(w.ref[ch.id]), rtString(pre[ch.id])), nil) {
				return
			}
			w.adoptLexicographic()
			acceptedAny[ch.id] = true
		}
		if !rtEqual(post, w.ref[ch.id]) {
			r.FailSig("row-differs-from-reference", "", fmt.Sprintf("channel %s after index %d: stored %s, reference %s (before the batch: %s)", ch.id, w.index, rtString(post), rtString(w.ref[ch.id]), rtString(pre[ch.id])), nil)
			return
		}
		if w.deleted[ch.id] && post != nil {
			r.Probe("recreated_after_delete")
		}
		if refusedOnly[ch.id] && !acceptedAny[ch.id] && !w.adoptedInBatch {
			if !bytes.Equal(channelBytes(preSnaps, ch.id), channelBytes(postSnaps, ch.id)) {
				r.FailSig("refused-write-changed-row", "", fmt.Sprintf("channel %s received only refused/no-op writes in index %d..%d but its stored bytes changed", ch.id, cmds[0].Index, w.index), nil)
				return
			}
			r.Probe("refused_row_bytes_identical")
		}
		r.State("c15", ch.id, rtString(post))
	}
	if len(batch) > 1 {
		r.Probe("multi_command_batch")
	}
}
