package metasima

import (
	"context"
	"encoding/json"
	"errors"
	"fmt"
	"sort"
	"sync/atomic"
	"testing"
	"time"

	"github.com/WuKongIM/WuKongIM/internal/verifsim/simkit"
	ch "github.com/WuKongIM/WuKongIM/pkg/channel"
	"github.com/WuKongIM/WuKongIM/pkg/cluster/channels"
	"github.com/WuKongIM/WuKongIM/pkg/cluster/routing"
	metadb "github.com/WuKongIM/WuKongIM/pkg/db/meta"
	"github.com/WuKongIM/WuKongIM/pkg/slot/fsm"
	"github.com/WuKongIM/WuKongIM/pkg/slot/multiraft"
)

// C17exec — the execution-level part of C17.
//
// The real migration executors (pkg/cluster/channels: MigrationExecutor with its
// leader-transfer / failover / replica-replace phase functions) and the real
// MigrationStore facade run against the real slot FSM + meta DB. Everything the
// executor reaches outside itself is a port owned by the simulator:
//
//   - MigrationRuntime (ProbeChannel / DrainChannel / ApplyChannelMeta) is a small
//     simulated channel data plane (per node: the metadata it has applied, its log
//     end; leaders stop appending once they see a fence); every call parks at the
//     scheduler and is answered now, answered with what was true when it was made
//     (a late answer), or fails;
//   - MigrationCommandProposer parks too: the command is delivered to the FSM,
//     lost, delivered with the answer lost, or delivered twice;
//   - task source / metadata readers read the real DB.
//
// Two executor identities (the old and the new leader of the slot) run RunOnce
// concurrently, are crashed at any parked call and replaced by new instances; an
// operator creates tasks and aborts them through the same real store facade at
// any moment; a simulated wall clock expires owner leases and fences.

const (
	xOK    = 0
	xFail  = 1
	xStale = 2 // runtime port: answer with the state at call time; proposer: delivered, answer lost
	xDup   = 3 // proposer: delivered twice
	xCrash = 9
)

type xCall struct {
	actor  *xActor
	kind   string // probe | drain | applymeta | propose
	chID   string
	node   uint64
	drain  ch.DrainChannelRequest
	meta   rtMeta
	cmd    []byte
	hs     uint16
	desc   string
	issued bool // issue-time check done

	// answers (filled by the scheduler before the call is released)
	probe, probeThen ch.RuntimeProbeChannel
	probeErrThen     error
	drained, drainedThen ch.DrainChannelResult
	err              error
}

type xActor struct {
	limit    int
	id       int
	name     string
	node     uint64
	operator bool
	w        *c17xWorld
	exec     *channels.MigrationExecutor
	store    *channels.MigrationStore
	alive    bool
	busy     atomic.Bool
	runs     int
	lastErr  error
}

type simNode struct {
	has  bool
	view rtMeta
	leo  uint64
	// warming: the node has just taken over as leader; its high watermark and fence
	// snapshot are not visible yet (the case runLeaderTransferVerifyNewLeader waits for)
	warming bool
}

type simChan struct {
	nodes map[uint64]*simNode
}

type c17xWorld struct {
	*c17World
	sim    *simkit.World
	nowMS  int64
	actors []*xActor
	oper   *xActor
	rt     map[string]*simChan
	// metaHist: every routing row the FSM has stored per channel, oldest first (what a
	// stale "authoritative" read - a deposed slot leader answering from its local DB -
	// can still return)
	metaHist map[string][]rtMeta
	cfgReload int
	faults bool
	cfgErr, cfgStale, cfgLose, cfgDup, cfgCrash, cfgAbort, cfgWriter int

	taskSeq    int
	completed  int
	execIssued int
}

func runC17exec(t *testing.T, r *simkit.Run) {
	dropPools()
	simkit.Bubble(t, r, func() {
		base := &c17World{r: r, tp: r.Tape, model: newMigModel(), cutoverDone: map[string]string{}, rewound: map[string]string{}}
		w := &c17xWorld{c17World: base, sim: simkit.NewWorld(r), rt: map[string]*simChan{}, metaHist: map[string][]rtMeta{}}
		defer func() {
			w.sim.CloseAll(xCrash)
			simkit.Wait()
			if w.n != nil {
				w.n.close()
			}
		}()
		w.run()
	})
}

// ---------------------------------------------------------------------------
// ports
// ---------------------------------------------------------------------------

func (w *c17xWorld) clock() time.Time { return time.UnixMilli(w.nowMS) }

type xRouter struct{ w *c17xWorld }

func (x xRouter) RouteKey(key string) (routing.Route, error) {
	c, ok := x.w.model.chans[key]
	if !ok {
		return routing.Route{}, fmt.Errorf("no route for %q", key)
	}
	return routing.Route{HashSlot: c.hs, SlotID: 1, Leader: 11}, nil
}

// xReader: hash-slot scoped reads of the real DB.
type xReader struct{ w *c17xWorld }

func (x xReader) GetChannelRuntimeMeta(ctx context.Context, hashSlot uint16, channelID string, channelType int64) (metadb.ChannelRuntimeMeta, error) {
	return x.w.n.db.ForHashSlot(hashSlot).GetChannelRuntimeMeta(ctx, channelID, channelType)
}
func (x xReader) GetActiveChannelMigrationTask(ctx context.Context, hashSlot uint16, channelID string, channelType int64) (metadb.ChannelMigrationTask, bool, error) {
	return x.w.n.db.ForHashSlot(hashSlot).GetActiveChannelMigrationTask(ctx, channelID, channelType)
}
func (x xReader) GetChannelMigrationTask(ctx context.Context, hashSlot uint16, channelID string, channelType int64, taskID string) (metadb.ChannelMigrationTask, bool, error) {
	t, err := x.w.n.db.ForHashSlot(hashSlot).GetChannelMigrationTask(ctx, channelID, channelType, taskID)
	if errors.Is(err, metadb.ErrNotFound) {
		return metadb.ChannelMigrationTask{}, false, nil
	}
	return t, err == nil, err
}
func (x xReader) ListActiveChannelMigrationTasks(ctx context.Context, hashSlot uint16, limit int) ([]metadb.ChannelMigrationTask, error) {
	return x.w.n.db.ForHashSlot(hashSlot).ListActiveChannelMigrationTasks(ctx, limit)
}

// xMeta: the executor's authoritative runtime-meta reader.
type xMeta struct{ w *c17xWorld }

func (x xMeta) GetChannelRuntimeMeta(ctx context.Context, channelID string, channelType int64) (metadb.ChannelRuntimeMeta, error) {
	c, ok := x.w.model.chans[channelID]
	if !ok {
		return metadb.ChannelRuntimeMeta{}, metadb.ErrNotFound
	}
	return x.w.n.db.ForHashSlot(c.hs).GetChannelRuntimeMeta(ctx, channelID, channelType)
}

// xSource: both executor identities believe they lead the slot.
type xSource struct{ w *c17xWorld }

func (x xSource) ListRunnableMigrationTasks(ctx context.Context, localNode uint64, limit int) ([]metadb.ChannelMigrationTask, error) {
	var out []metadb.ChannelMigrationTask
	for _, hs := range x.w.n.hashSlots {
		if limit-len(out) <= 0 {
			break
		}
		ts, err := x.w.n.db.ForHashSlot(hs).ListActiveChannelMigrationTasks(ctx, limit-len(out))
		if err != nil {
			return nil, err
		}
		out = append(out, ts...)
	}
	return out, nil
}

// xPorts: the parking ports of one actor.
type xPorts struct{ a *xActor }

func (p xPorts) park(c *xCall) int {
	c.actor = p.a
	return p.a.w.sim.Park(fmt.Sprintf("%s %s", p.a.name, c.desc), c)
}

func (p xPorts) ProposeChannelMigrationCommand(ctx context.Context, slotID uint32, hashSlot uint16, command []byte) error {
	c := &xCall{kind: "propose", cmd: append([]byte(nil), command...), hs: hashSlot, desc: "propose " + p.a.w.describe(command)}
	if d := p.park(c); d == xCrash {
		return context.Canceled
	}
	return c.err
}

func (p xPorts) ProbeChannel(ctx context.Context, nodeID uint64, channelID string, channelType uint8) (ch.RuntimeProbeChannel, error) {
	c := &xCall{kind: "probe", chID: channelID, node: nodeID, desc: fmt.Sprintf("probe %s@%d", channelID, nodeID)}
	c.probeThen, c.probeErrThen = p.a.w.probeNow(channelID, nodeID)
	switch p.park(c) {
	case xCrash:
		return ch.RuntimeProbeChannel{}, context.Canceled
	case xStale:
		return c.probeThen, c.probeErrThen
	}
	return c.probe, c.err
}

func (p xPorts) DrainChannel(ctx context.Context, nodeID uint64, req ch.DrainChannelRequest) (ch.DrainChannelResult, error) {
	c := &xCall{kind: "drain", chID: req.ChannelID.ID, node: nodeID, drain: req, desc: fmt.Sprintf("drain %s@%d le=%d fv=%d", req.ChannelID.ID, nodeID, req.LeaderEpoch, req.FenceVersion)}
	c.drainedThen = p.a.w.drainNow(nodeID, req)
	switch p.park(c) {
	case xCrash:
		return ch.DrainChannelResult{}, context.Canceled
	case xStale:
		return c.drainedThen, nil
	}
	return c.drained, c.err
}

func (p xPorts) ApplyChannelMeta(ctx context.Context, nodeID uint64, meta metadb.ChannelRuntimeMeta) error {
	c := &xCall{kind: "applymeta", chID: meta.ChannelID, node: nodeID, meta: meta, desc: fmt.Sprintf("apply-meta %s@%d ce=%d le=%d L=%d fv=%d", meta.ChannelID, nodeID, meta.ChannelEpoch, meta.LeaderEpoch, meta.Leader, meta.WriteFenceVersion)}
	if d := p.park(c); d == xCrash {
		return context.Canceled
	}
	return c.err
}

// ---------------------------------------------------------------------------
// simulated channel data plane
// ---------------------------------------------------------------------------

func (w *c17xWorld) simNode(chID string, node uint64) *simNode {
	sc := w.rt[chID]
	if sc.nodes[node] == nil {
		sc.nodes[node] = &simNode{}
	}
	return sc.nodes[node]
}

// hwOf: a leader's high watermark is what every ISR member it knows holds; a
// follower's is what it holds of that.
func (w *c17xWorld) hwOf(chID string, node uint64) uint64 {
	sc := w.rt[chID]
	n := sc.nodes[node]
	if n == nil || !n.has {
		return 0
	}
	leaderHW := func(l *simNode) uint64 {
		m := l.leo
		for _, x := range l.view.ISR {
			o := sc.nodes[x]
			if o == nil || !o.has {
				return 0
			}
			if o.leo < m {
				m = o.leo
			}
		}
		return m
	}
	if n.view.Leader == node {
		return leaderHW(n)
	}
	if l := sc.nodes[n.view.Leader]; l != nil && l.has && l.view.Leader == n.view.Leader {
		if h := leaderHW(l); h < n.leo {
			return h
		}
	}
	return n.leo
}

func (w *c17xWorld) probeNow(chID string, node uint64) (ch.RuntimeProbeChannel, error) {
	sc := w.rt[chID]
	if sc == nil {
		return ch.RuntimeProbeChannel{}, ch.ErrChannelNotFound
	}
	n := sc.nodes[node]
	if n == nil || !n.has {
		return ch.RuntimeProbeChannel{}, ch.ErrChannelNotFound
	}
	role := ch.RoleFollower
	if n.view.Leader == node {
		role = ch.RoleLeader
	}
	hw := w.hwOf(chID, node)
	if n.warming {
		hw = 0
	}
	p := ch.RuntimeProbeChannel{ChannelID: ch.ChannelID{ID: chID, Type: uint8(n.view.ChannelType)}, LeaderEpoch: n.view.LeaderEpoch, ChannelEpoch: n.view.ChannelEpoch,
		Role: role, Status: ch.StatusActive, LEO: n.leo, HW: hw, CheckpointHW: hw}
	if n.view.WriteFenceToken != "" && !n.warming {
		p.WriteFence = ch.WriteFence{Token: n.view.WriteFenceToken, Version: n.view.WriteFenceVersion, Reason: ch.WriteFenceReason(n.view.WriteFenceReason), Until: time.UnixMilli(n.view.WriteFenceUntilMS)}
	}
	return p, nil
}

func (w *c17xWorld) drainNow(node uint64, req ch.DrainChannelRequest) ch.DrainChannelResult {
	sc := w.rt[req.ChannelID.ID]
	if sc == nil {
		return ch.DrainChannelResult{}
	}
	n := sc.nodes[node]
	if n == nil || !n.has {
		return ch.DrainChannelResult{}
	}
	hw := w.hwOf(req.ChannelID.ID, node)
	ok := n.view.Leader == node && n.view.LeaderEpoch == req.LeaderEpoch && n.view.WriteFenceToken != "" && n.view.WriteFenceVersion == req.FenceVersion && hw == n.leo
	return ch.DrainChannelResult{Drained: ok, LEO: n.leo, HW: hw}
}

func newerView(cur, cand rtMeta) bool {
	if cand.RouteGeneration != cur.RouteGeneration {
		return cand.RouteGeneration > cur.RouteGeneration
	}
	return cand.ChannelEpoch > cur.ChannelEpoch || cand.LeaderEpoch > cur.LeaderEpoch || cand.WriteFenceVersion > cur.WriteFenceVersion
}

func (w *c17xWorld) applyViewNow(chID string, node uint64, meta rtMeta) {
	n := w.simNode(chID, node)
	if !n.has || newerView(n.view, meta) {
		if meta.Leader == node && (!n.has || n.view.Leader != node) && w.faults {
			n.warming = true
		}
		n.has, n.view = true, refNormalize(meta)
	}
}

// syncRuntime: metadata propagation and replication as they happen without the
// executor's help (all=true: everything has caught up, used in the healthy tail).
func (w *c17xWorld) syncRuntime(all bool) {
	for _, c := range w.chans {
		m := w.readMeta(c)
		if m == nil {
			continue
		}
		sc := w.rt[c.id]
		var top uint64
		for _, id := range simNodeIDs(sc) {
			if sc.nodes[id].leo > top {
				top = sc.nodes[id].leo
			}
		}
		for _, node := range m.Replicas {
			if all || w.tp.Intn(2) == 0 {
				w.applyViewNow(c.id, node, *m)
			}
			if n := sc.nodes[node]; n != nil && n.has && (all || w.tp.Intn(2) == 0) {
				n.leo = top
				n.warming = false
			}
		}
	}
}

// replicate: every loaded replica of the channel catches up with the longest log.
func (w *c17xWorld) replicate(chID string) {
	sc := w.rt[chID]
	if sc == nil {
		return
	}
	var top uint64
	for _, id := range simNodeIDs(sc) {
		if sc.nodes[id].leo > top {
			top = sc.nodes[id].leo
		}
	}
	for _, id := range simNodeIDs(sc) {
		if n := sc.nodes[id]; n.has {
			n.leo = top
		}
	}
}

func simNodeIDs(sc *simChan) []uint64 {
	ids := make([]uint64, 0, len(sc.nodes))
	for id := range sc.nodes {
		ids = append(ids, id)
	}
	sort.Slice(ids, func(i, j int) bool { return ids[i] < ids[j] })
	return ids
}

func (w *c17xWorld) noteMeta(c chanRef) {
	m := w.readMeta(c)
	if m == nil {
		return
	}
	h := w.metaHist[c.id]
	if len(h) == 0 || !rtEqual(&h[len(h)-1], m) {
		w.metaHist[c.id] = append(h, refNormalize(*m))
	}
}

// runtimeReload: a node loses its channel runtime (idle eviction of a fenced, hence
// idle, channel; or a process restart) and, in half of the cases, activates it again
// right away from what its metadata resolver returns. The resolver bypasses the
// service-level metadata floor, and "authoritative" reads are served by whichever
// node believes it leads the slot, without a lease or read-index check
// (pkg/slot/proxy/authoritative_rpc.go shouldServeSlotLocally), so a deposed slot
// leader can hand out an older row: the runtime then reports older epochs than the
// metadata an executor has just applied to it.
func (w *c17xWorld) runtimeReload() {
	tp, r := w.tp, w.r
	c := w.chans[tp.Intn(len(w.chans))]
	sc := w.rt[c.id]
	ids := simNodeIDs(sc)
	var loaded []uint64
	for _, id := range ids {
		if sc.nodes[id].has {
			loaded = append(loaded, id)
		}
	}
	if len(loaded) == 0 {
		return
	}
	node := loaded[tp.Intn(len(loaded))]
	// the interesting moment is between an acknowledged apply-meta and the probe that
	// follows it: prefer the node a parked probe is addressed to
	atProbe := false
	for _, p := range w.sim.Pending() {
		x := p.Info.(*xCall)
		if x.kind != "probe" {
			continue
		}
		if pc, ok := w.model.chans[x.chID]; ok && w.rt[x.chID] != nil && w.rt[x.chID].nodes[x.node] != nil && w.rt[x.chID].nodes[x.node].has && tp.Intn(3) != 0 {
			c, sc, node, atProbe = pc, w.rt[x.chID], x.node, true
			r.Probe("runtime_reload_at_parked_probe")
		}
		break
	}
	n := sc.nodes[node]
	h := w.metaHist[c.id]
	var evict bool
	if atProbe {
		// there an eviction alone only makes the probe fail (channel not found)
		evict = tp.Intn(4) == 0
	} else {
		evict = tp.Intn(2) == 0
	}
	if evict || len(h) < 2 {
		n.has, n.warming = false, false
		r.Fault("runtime_evicted")
		r.Logf("runtime: %s@%d is evicted / restarts (its log stays on disk)", c.id, node)
		return
	}
	back := 1 + tp.Intn(min(3, len(h)-1))
	old := h[len(h)-1-back]
	n.view, n.warming = old, false
	r.Fault("runtime_reloaded_from_stale_read")
	r.Logf("runtime: %s@%d is evicted and re-activated from a stale metadata read (%d versions old: ce=%d le=%d L=%d fv=%d)", c.id, node, back, old.ChannelEpoch, old.LeaderEpoch, old.Leader, old.WriteFenceVersion)
}

// clientAppends: every node that believes it leads and sees no fence accepts writes.
func (w *c17xWorld) clientAppends() {
	for _, c := range w.chans {
		sc := w.rt[c.id]
		for _, id := range simNodeIDs(sc) {
			n := sc.nodes[id]
			if n.has && n.view.Leader == id && n.view.WriteFenceToken == "" {
				n.leo += uint64(1 + w.tp.Intn(3))
			}
		}
	}
}

// ---------------------------------------------------------------------------
// commands on their way to the FSM
// ---------------------------------------------------------------------------

func payloadOf(data []byte) []byte {
	if len(data) < 2 {
		return nil
	}
	f, _ := tlvFields(data[2:])
	return f[1]
}

// decodeMig turns the bytes a store facade proposed back into the typed request.
func (w *c17xWorld) decodeMig(data []byte) (migCmd, bool) {
	var c migCmd
	if len(data) < 2 {
		return c, false
	}
	pl := payloadOf(data)
	var err error
	var chID string
	switch data[1] {
	case wireMigCreate:
		c.kind = mkCreate
		err = json.Unmarshal(pl, &c.task)
		chID = c.task.ChannelID
	case wireMigCreateGuarded:
		c.kind = mkCreateGuarded
		err = json.Unmarshal(pl, &c.create)
		chID = c.create.Task.ChannelID
	case 31:
		c.kind = mkClaim
		err = json.Unmarshal(pl, &c.claim)
		chID = c.claim.Guard.ChannelID
	case wireMigAdvance:
		c.kind = mkAdvance
		err = json.Unmarshal(pl, &c.advance)
		chID = c.advance.Guard.ChannelID
	case 33:
		c.kind = mkSetFence
		err = json.Unmarshal(pl, &c.fence)
		chID = c.fence.Guard.ChannelID
	case 34:
		c.kind = mkResetFence
		err = json.Unmarshal(pl, &c.reset)
		chID = c.reset.Guard.ChannelID
	case 35:
		c.kind = mkCommit
		err = json.Unmarshal(pl, &c.commit)
		chID = c.commit.Guard.ChannelID
	case 36:
		c.kind = mkAddLearner
		err = json.Unmarshal(pl, &c.learner)
		chID = c.learner.Guard.ChannelID
	case 37:
		c.kind = mkPromote
		err = json.Unmarshal(pl, &c.promote)
		chID = c.promote.Guard.ChannelID
	case wireMigClearFence:
		c.kind = mkClearFence
		err = json.Unmarshal(pl, &c.clear)
		chID = c.clear.Guard.ChannelID
	case wireMigAbort:
		c.kind = mkAbort
		err = json.Unmarshal(pl, &c.abort)
		chID = c.abort.Guard.ChannelID
	default:
		return c, false
	}
	if err != nil {
		return c, false
	}
	cr, ok := w.model.chans[chID]
	if !ok {
		return c, false
	}
	c.ch, c.hs, c.data = cr, cr.hs, data
	return c, true
}

// guardAndTarget: the phase the command expects and the phase it asks for.
func (c *migCmd) guardAndTarget() (metadb.ChannelMigrationPhase, metadb.ChannelMigrationPhase, bool) {
	switch c.kind {
	case mkClaim:
		return c.claim.Guard.ExpectedPhase, c.claim.Phase, true
	case mkAdvance:
		return c.advance.Guard.ExpectedPhase, c.advance.Phase, true
	case mkSetFence:
		return c.fence.Guard.ExpectedPhase, c.fence.Phase, true
	case mkResetFence:
		return c.reset.Guard.ExpectedPhase, c.reset.Phase, true
	case mkCommit:
		return c.commit.Guard.ExpectedPhase, c.commit.Phase, true
	case mkAddLearner:
		return c.learner.Guard.ExpectedPhase, c.learner.Phase, true
	case mkPromote:
		return c.promote.Guard.ExpectedPhase, c.promote.Phase, true
	case mkClearFence:
		return c.clear.Guard.ExpectedPhase, c.clear.Phase, true
	case mkAbort:
		return c.abort.Guard.ExpectedPhase, c.abort.Phase, true
	}
	return 0, 0, false
}

func (w *c17xWorld) describe(data []byte) string {
	c, ok := w.decodeMig(data)
	if !ok {
		return fmt.Sprintf("undecodable(%x)", data)
	}
	from, to, has := c.guardAndTarget()
	if !has {
		return fmt.Sprintf("%s %s/%s", c.kind, c.ch.id, c.guardTaskID())
	}
	return fmt.Sprintf("%s %s/%s ph %d->%d", c.kind, c.ch.id, c.guardTaskID(), from, to)
}

func postCutoverPhase(p metadb.ChannelMigrationPhase) bool { return phaseIn(p, phVerifyLdr, phVerifyMem, phClear) }

// issueCheck: an executor must never ask to move a task whose cutover was
// accepted back to a pre-cutover phase (the execution-level form of the remark
// attached to C17-K1 / C17-K2).
func (w *c17xWorld) issueCheck(x *xCall) {
	if x.issued || x.kind != "propose" || x.actor.operator {
		return
	}
	x.issued = true
	w.execIssued++
	c, ok := w.decodeMig(x.cmd)
	if !ok {
		w.r.FailSig("executor-issued-undecodable-command", "", fmt.Sprintf("%s proposed %x", x.actor.name, x.cmd), nil)
		return
	}
	w.r.Probe("executor_issued:" + c.kind.String())
	tk := tkey(c.ch.id, c.guardTaskID())
	from, to, has := c.guardAndTarget()
	if has && w.cutoverDone[tk] != "" && postCutoverPhase(from) && !postCutoverPhase(to) {
		w.r.FailSig("executor-rewinds-post-cutover-task", "issued:"+c.kind.String(), fmt.Sprintf("%s issued %s for task %s whose %s had been accepted: it asks to move the task from post-cutover phase %d back to phase %d", x.actor.name, x.desc, tk, w.cutoverDone[tk], from, to), nil)
	}
	if c.kind == mkAbort || c.kind == mkResetFence {
		w.r.FailSig("executor-issued-unexpected-command", c.kind.String(), fmt.Sprintf("%s issued %s (executors neither abort nor reset fences)", x.actor.name, x.desc), nil)
	}
	if c.kind == mkSetFence && w.cutoverDone[tk] != "" && postCutoverPhase(from) {
		// not forbidden by any clause of C17 (the task renews its own fence and stays in
		// its phase), but it discards the drain proof of a committed task: counted
		w.r.Probe("note.executor_renewed_fence_after_cutover")
		w.r.Logf("NOTE %s renews the fence of task %s after its %s was accepted (%s)", x.actor.name, tk, w.cutoverDone[tk], x.desc)
	}
}

// deliver applies one proposed command to the real FSM alone, with every C17
// check on the rows it met and left, and returns what the proposer is told.
func (w *c17xWorld) deliver(x *xCall) error {
	r := w.r
	c, ok := w.decodeMig(x.cmd)
	if !ok {
		r.Infra("undecodable migration command from %s: %x", x.actor.name, x.cmd)
		return metadb.ErrInvalidArgument
	}
	c.desc = x.actor.name + " " + w.describe(x.cmd)
	tk := tkey(c.ch.id, c.guardTaskID())
	preTasks := w.readTasks()
	preT, preM := preTasks[tk], w.readMeta(c.ch)
	w.index++
	out := w.n.apply([]multiraft.Command{{SlotID: 1, HashSlot: x.hs, Index: w.index, Term: 1, Data: x.cmd}})
	if out.panicked != "" {
		r.Fail("panic", "ApplyBatch panicked: "+out.panicked, nil)
		return metadb.ErrInvalidArgument
	}
	postTasks := w.readTasks()
	postT, postM := postTasks[tk], w.readMeta(c.ch)

	trial := w.model.clone()
	saved := w.model
	w.model = trial
	oc, _ := w.applyModel(&c)
	w.model = saved
	res := ""
	if out.err == nil {
		res = string(out.res[0])
	}
	r.Logf("  #%d t=%d %s => %q err=%s (reference %s)", w.index, w.nowMS, c.desc, res, errClass(out.err), oc)
	if out.err != nil {
		if oc != mInvalid {
			r.FailSig("unexpected-error", c.kind.String()+"/"+errClass(out.err), fmt.Sprintf("%s: rejected with error %v, reference says %s", c.desc, out.err, oc), nil)
		}
		w.refused++
		return out.err
	}
	if oc == mInvalid {
		r.FailSig("invalid-accepted", c.kind.String(), fmt.Sprintf("%s: result %q but the reference rejects the request as invalid", c.desc, res), nil)
		return nil
	}
	refused := res == fsm.ApplyResultStaleMeta
	if !refused {
		effective := (preT == nil) != (postT == nil) || (preT != nil && postT != nil && *preT != *postT) || !rtEqual(preM, postM)
		if effective {
			if !x.actor.operator && w.cutoverDone[tk] != "" && preT != nil && postT != nil && postCutoverPhase(preT.Phase) && !postCutoverPhase(postT.Phase) {
				r.FailSig("executor-rewinds-post-cutover-task", "applied:"+c.kind.String(), fmt.Sprintf("%s was accepted and moved task %s (whose %s had been accepted) from phase %d back to phase %d", c.desc, tk, w.cutoverDone[tk], preT.Phase, postT.Phase), nil)
				return nil
			}
			if !w.statement(&c, tk, preT, preM, postT, postM) {
				return nil
			}
			if postT != nil && terminal(*postT) && (preT == nil || !terminal(*preT)) {
				if postT.Status == stCompleted {
					w.completed++
					r.Probe("task_completed")
				} else {
					r.Probe(fmt.Sprintf("task_ended_status_%d", postT.Status))
				}
			}
		}
	}
	switch {
	case refused && oc == mOK:
		r.Probe("refused_but_reference_accepts:" + c.kind.String())
		w.refused++
	case !refused && oc == mStale:
		r.FailSig("accepted-but-reference-refuses", c.kind.String(), fmt.Sprintf("%s: result %q; reference refuses it against task %s meta %s", c.desc, res, taskString(preT), rtString(preM)), nil)
		return nil
	case refused:
		w.refused++
		r.Probe("refused:" + c.kind.String())
	default:
		w.model = trial
		w.accepted++
		r.Probe("accepted:" + c.kind.String())
	}
	// at most one active task per channel
	for _, cr := range w.chans {
		var active []string
		for _, k := range sortedKeys(postTasks) {
			if t := postTasks[k]; t.ChannelID == cr.id && !terminal(*t) {
				active = append(active, t.TaskID)
			}
		}
		if len(active) > 1 {
			r.FailSig("two-active-tasks", "", fmt.Sprintf("channel %s has active tasks %v after index %d", cr.id, active, w.index), nil)
			return nil
		}
		ph := metadb.ChannelMigrationPhase(0)
		st := metadb.ChannelMigrationStatus(0)
		if len(active) == 1 {
			t := postTasks[tkey(cr.id, active[0])]
			ph, st = t.Phase, t.Status
		}
		r.State("c17exec", len(active), ph, st, postM != nil && postM.WriteFenceToken != "")
	}
	w.compareState(fmt.Sprintf("after index %d", w.index))
	w.noteMeta(c.ch)
	if refused {
		return metadb.ErrStaleMeta // what the slot proposer reports for a stale_meta answer
	}
	return nil
}

// ---------------------------------------------------------------------------
// the world
// ---------------------------------------------------------------------------

func (w *c17xWorld) newActor(id int, name string, node uint64, operator bool) *xActor {
	a := &xActor{id: id, name: name, node: node, operator: operator, w: w, alive: true}
	w.wire(a)
	return a
}

// wire builds a fresh executor instance (nothing survives a restart but the DB).
func (w *c17xWorld) wire(a *xActor) {
	ports := xPorts{a: a}
	a.limit = w.tp.Intn(3) // 0 = the production default (one task inspected per tick)
	a.store = channels.NewMigrationStore(channels.MigrationStoreConfig{LocalNode: a.node, Router: xRouter{w}, Proposer: ports, Reader: xReader{w},
		Now: w.clock}) // production lease defaults: owner 30 s, fence 30 s
	if !a.operator {
		a.exec = channels.NewMigrationExecutor(channels.MigrationExecutorConfig{LocalNode: a.node, Source: xSource{w}, Store: a.store, Runtime: ports, Meta: xMeta{w},
			Clock: w.clock, TaskLimit: a.limit})
	}
}

func (w *c17xWorld) spawn(a *xActor, what string, f func(ctx context.Context) error) {
	a.busy.Store(true)
	a.runs++
	w.r.Logf("t=%d %s starts %s", w.nowMS, a.name, what)
	go func() {
		err := f(context.Background())
		a.lastErr = err
		a.busy.Store(false)
	}()
	simkit.Wait()
}

func (w *c17xWorld) run() {
	tp, r := w.tp, w.r
	nChans := 1 + tp.Intn(2)
	// long enough for a replica-replace (about 30 scheduler picks when nothing else is
	// chosen) to reach its post-cutover phases while faults are still on in a good share
	// of the runs; what is left over is finished in the fault-free tail
	steps := 100 + tp.Intn(300)
	w.faults = tp.Intn(4) != 0
	twoExec := tp.Intn(3) != 0
	w.cfgErr, w.cfgStale, w.cfgLose, w.cfgDup, w.cfgCrash, w.cfgAbort = tp.Intn(3), tp.Intn(3), tp.Intn(3), tp.Intn(2), tp.Intn(3), tp.Intn(3)
	if !w.faults {
		w.cfgErr, w.cfgStale, w.cfgLose, w.cfgDup, w.cfgCrash = 0, 0, 0, 0, 0
	}
	w.cfgWriter = tp.Intn(2)
	w.cfgReload = tp.Intn(3)
	if !w.faults {
		w.cfgReload = 0
	}
	memTable := []int{256 << 10, 64 << 10}[tp.Intn(2)]
	r.Config = map[string]any{"leader_writes": w.cfgWriter, "runtime_reload": w.cfgReload, "channels": nChans, "steps": steps, "faults": w.faults, "two_executors": twoExec, "rt_error": w.cfgErr, "rt_late": w.cfgStale,
		"proposal_lost": w.cfgLose, "proposal_dup": w.cfgDup, "crash": w.cfgCrash, "operator_abort": w.cfgAbort, "memtable": memTable}
	hashSlots := []uint16{3, 7}
	ids := []string{"chA", "chB"}
	w.nowMS = 1_000_000
	w.n = newNode(r, "n0", 1, hashSlots, false, memTable)
	if !w.n.open() {
		return
	}
	for i := 0; i < nChans; i++ {
		c := chanRef{id: ids[i], typ: 2, hs: hashSlots[i%2]}
		w.chans = append(w.chans, c)
		w.model.chans[c.id] = c
		start := tp.Intn(len(simNodes))
		reps := normSet([]uint64{simNodes[start], simNodes[(start+1)%4], simNodes[(start+2)%4]})
		isr := reps
		if tp.Intn(3) == 0 {
			isr = reps[:2]
		}
		m := rtMeta{ChannelID: c.id, ChannelType: c.typ, ChannelEpoch: uint64(1 + tp.Intn(3)), LeaderEpoch: uint64(1 + tp.Intn(3)),
			Replicas: reps, ISR: isr, Leader: isr[tp.Intn(len(isr))], MinISR: int64(1 + tp.Intn(2)), Status: 2, LeaseUntilMS: w.nowMS + 5000}
		w.index++
		out := w.n.apply([]multiraft.Command{{SlotID: 1, HashSlot: c.hs, Index: w.index, Term: 1, Data: fsm.EncodeUpsertChannelRuntimeMetaCommand(m)}})
		if out.err != nil || out.panicked != "" {
			r.Infra("initial upsert failed: %v %s", out.err, out.panicked)
			return
		}
		nm := refNormalize(m)
		w.model.metas[c.id] = &nm
		w.rt[c.id] = &simChan{nodes: map[uint64]*simNode{}}
		for _, node := range reps {
			w.applyViewNow(c.id, node, nm)
			w.simNode(c.id, node).leo = uint64(3 + tp.Intn(4))
		}
		w.noteMeta(c)
		r.Logf("init %s %s", c.id, rtString(&nm))
	}
	w.actors = append(w.actors, w.newActor(0, "x11", 11, false))
	if twoExec {
		w.actors = append(w.actors, w.newActor(1, "x12", 12, false))
		r.Fault("two_executors")
	}
	w.oper = w.newActor(9, "op", 99, true)

	for step := 0; step < steps && !r.Failed() && r.InfraErr == ""; step++ {
		r.Steps++
		simkit.Wait()
		pending := w.sim.Pending()
		for _, p := range pending {
			w.issueCheck(p.Info.(*xCall))
		}
		if r.Failed() {
			break
		}
		var idle, busy []*xActor
		for _, a := range w.actors {
			if a.alive && !a.busy.Load() {
				idle = append(idle, a)
			}
			if a.alive && a.busy.Load() {
				busy = append(busy, a)
			}
		}
		var dead []*xActor
		for _, a := range w.actors {
			if !a.alive {
				dead = append(dead, a)
			}
		}
		wRun, wRel, wClock, wSync, wOp, wCrash, wRestart := 0, 0, 2, 2, 0, 0, 0
		if len(idle) > 0 {
			wRun = 6
		}
		if len(pending) > 0 {
			wRel = 8
		}
		if !w.oper.busy.Load() {
			wOp = 2
		}
		if len(busy) > 0 {
			wCrash = w.cfgCrash
		}
		if len(dead) > 0 {
			wRestart = 3
		}
		// an eviction matters when it falls between an acknowledged apply-meta and the
		// probe that follows it; elsewhere it only makes runtime calls fail, so it is kept
		// rare there (the executors must still get somewhere while faults are on)
		wReload := 0
		if w.cfgReload > 0 && step%4 == 0 {
			wReload = 1
		}
		for _, p := range pending {
			if p.Info.(*xCall).kind == "probe" {
				wReload = 3 * w.cfgReload
				break
			}
		}
		switch tp.Weighted([]int{wRel, wRun, wClock, wSync, wOp, wCrash, wRestart, w.cfgWriter, wReload}) {
		case 0:
			w.release(pending[tp.PickOldestBiased(len(pending))], false)
		case 1:
			a := idle[tp.Intn(len(idle))]
			w.spawn(a, "RunOnce", a.exec.RunOnce)
		case 2:
			// the executor loop ticks every second in production; leases last 30 s
			if tp.Chance(1, 6) {
				w.nowMS += int64(1000 * (8 + tp.Intn(30)))
				r.Fault("clock_jump")
			} else {
				w.nowMS += int64(100 * (1 + tp.Intn(20)))
			}
			r.Logf("clock -> %d", w.nowMS)
		case 3:
			w.syncRuntime(false)
			w.clientAppends()
			r.Logf("runtime: metadata propagation / replication / client appends")
		case 4:
			w.operatorStep()
		case 5:
			a := busy[tp.Intn(len(busy))]
			w.crash(a)
		case 6:
			a := dead[tp.Intn(len(dead))]
			a.alive = true
			w.wire(a)
			r.Logf("t=%d %s restarts as a new executor instance", w.nowMS, a.name)
		case 7:
			w.channelLeaderWrite()
		case 8:
			w.runtimeReload()
		}
	}
	if r.Failed() || r.InfraErr != "" {
		return
	}
	w.healthyTail()
	r.Nontrivial = w.accepted >= 4 && (w.cutovers > 0 || w.completed > 0) && (len(r.Faults) > 0 || !w.faults)
}

// release answers one parked call.
func (w *c17xWorld) release(p *simkit.Parked, healthy bool) {
	tp, r := w.tp, w.r
	x := p.Info.(*xCall)
	d := xOK
	if x.kind == "propose" {
		if !healthy {
			d = tp.Weighted([]int{8, w.cfgLose, w.cfgLose, w.cfgDup})
		}
		switch d {
		case xOK:
			x.err = w.deliver(x)
		case xFail:
			r.Fault("proposal_lost")
			r.Logf("  %s: proposal lost (%s)", x.actor.name, x.desc)
			x.err = errors.New("sim: proposal lost")
		case xStale:
			r.Fault("proposal_answer_lost")
			_ = w.deliver(x)
			x.err = errors.New("sim: proposal outcome unknown")
		case xDup:
			r.Fault("proposal_delivered_twice")
			x.err = w.deliver(x)
			if !r.Failed() {
				_ = w.deliver(x)
			}
		}
		w.sim.Release(p, xOK)
		simkit.Wait()
		return
	}
	if !healthy {
		d = tp.Weighted([]int{8, w.cfgErr, w.cfgStale})
	}
	switch d {
	case xFail:
		r.Fault("runtime_call_failed")
		x.err = errors.New("sim: runtime rpc timeout")
	case xStale:
		r.Fault("runtime_answer_late")
	}
	switch x.kind {
	case "probe":
		if d == xOK {
			x.probe, x.err = w.probeNow(x.chID, x.node)
		}
		r.Logf("  %s: %s => %s", x.actor.name, x.desc, map[int]string{xOK: "answered", xFail: "failed", xStale: "late answer"}[d])
	case "drain":
		if d == xOK {
			// Replication runs in milliseconds, the executor ticks in seconds: a fenced
			// leader has normally replicated its tail by the time it is asked to drain.
			// The other case (value 0: followers still behind, "not drained", which blocks
			// the task for good) stays reachable.
			if !healthy && tp.Intn(4) != 0 {
				w.replicate(x.drain.ChannelID.ID)
			}
			x.drained = w.drainNow(x.node, x.drain)
		}
		r.Logf("  %s: %s => %s drained=%v", x.actor.name, x.desc, map[int]string{xOK: "answered", xFail: "failed", xStale: "late answer"}[d], x.drained.Drained)
	case "applymeta":
		if d != xFail {
			w.applyViewNow(x.chID, x.node, x.meta)
		}
		d = xOK
		r.Logf("  %s: %s => err=%v", x.actor.name, x.desc, x.err)
	}
	w.sim.Release(p, d)
	simkit.Wait()
}

// crash kills an executor in the middle of RunOnce: its parked call never
// returns a result; a proposal already on its way may still reach the FSM.
func (w *c17xWorld) crash(a *xActor) {
	r := w.r
	r.Fault("executor_crash")
	r.Logf("t=%d %s crashes", w.nowMS, a.name)
	a.alive = false
	for _, p := range w.sim.Pending() {
		x := p.Info.(*xCall)
		if x.actor != a {
			continue
		}
		if x.kind == "propose" && w.tp.Intn(2) == 0 {
			r.Logf("  the proposal in flight still reaches the slot")
			_ = w.deliver(x)
		}
		w.sim.Release(p, xCrash)
	}
	simkit.Wait()
}

func (w *c17xWorld) activeTask(c chanRef) *mTask {
	t, ok, err := w.n.db.ForHashSlot(c.hs).GetActiveChannelMigrationTask(context.Background(), c.id, c.typ)
	if err != nil || !ok {
		return nil
	}
	return &t
}

// channelLeaderWrite: the ordinary same-epoch writes a channel leader makes to
// its routing row while a migration is in progress (lease renewal, ISR shrink or
// growth, retention), computed from the row as stored now.
func (w *c17xWorld) channelLeaderWrite() {
	tp, r := w.tp, w.r
	c := w.chans[tp.Intn(len(w.chans))]
	cur := w.readMeta(c)
	if cur == nil {
		return
	}
	m := *cur
	m.ISR = append([]uint64(nil), cur.ISR...)
	what := ""
	switch tp.Intn(3) {
	case 0:
		m.LeaseUntilMS = w.nowMS + 5000
		what = "renew-lease"
	case 1:
		if len(m.ISR) > 1 && tp.Intn(2) == 0 {
			var keep []uint64
			drop := m.ISR[tp.Intn(len(m.ISR))]
			for _, x := range m.ISR {
				if x != drop || x == m.Leader {
					keep = append(keep, x)
				}
			}
			m.ISR = keep
			what = "isr-shrink"
		} else {
			// a learner added by a replica replacement is not promoted by the leader
			var learner uint64
			if t := w.activeTask(c); t != nil && t.Kind == kindRR && !postCutoverPhase(t.Phase) {
				learner = t.TargetNode
			}
			for _, x := range m.Replicas {
				if !containsU64(m.ISR, x) && x != learner {
					m.ISR = append(m.ISR, x)
					break
				}
			}
			what = "isr-grow"
		}
	default:
		m.RetentionThroughSeq += uint64(tp.Intn(3))
		what = "retention"
	}
	m.RouteGeneration = cur.RouteGeneration + 1
	preFence := fenceOf(cur)
	w.index++
	out := w.n.apply([]multiraft.Command{{SlotID: 1, HashSlot: c.hs, Index: w.index, Term: 1, Data: fsm.EncodeUpsertChannelRuntimeMetaCommand(m)}})
	if out.panicked != "" || out.err != nil {
		r.Infra("channel leader write failed: %v %s", out.err, out.panicked)
		return
	}
	if next, oc := refUpsert(w.model.metas[c.id], refNormalize(m), false); oc == rtApplied {
		w.model.metas[c.id] = next
	}
	post := w.readMeta(c)
	r.Logf("  #%d channel leader of %s: %s => %q now %s", w.index, c.id, what, out.res[0], rtString(post))
	if cur.WriteFenceToken != "" && post != nil && preFence != fenceOf(post) {
		r.FailSig("foreign-fence-changed", "by-ordinary-writer", fmt.Sprintf("a same-epoch write (%s) changed the write fence %s -> %s", what, preFence, fenceOf(post)), nil)
		return
	}
	w.noteMeta(c)
	w.compareState(fmt.Sprintf("after index %d", w.index))
}

// healthyLeaderWrites: with every replica caught up, the channel leader takes
// every replica (but a not yet promoted learner) back into the ISR.
func (w *c17xWorld) healthyLeaderWrites() {
	for _, c := range w.chans {
		cur := w.readMeta(c)
		if cur == nil {
			continue
		}
		var learner uint64
		if t := w.activeTask(c); t != nil && t.Kind == kindRR && !postCutoverPhase(t.Phase) {
			learner = t.TargetNode
		}
		m := *cur
		m.ISR = append([]uint64(nil), cur.ISR...)
		grew := false
		for _, x := range m.Replicas {
			if !containsU64(m.ISR, x) && x != learner {
				m.ISR = append(m.ISR, x)
				grew = true
			}
		}
		if !grew {
			continue
		}
		m.RouteGeneration = cur.RouteGeneration + 1
		w.index++
		out := w.n.apply([]multiraft.Command{{SlotID: 1, HashSlot: c.hs, Index: w.index, Term: 1, Data: fsm.EncodeUpsertChannelRuntimeMetaCommand(m)}})
		if out.panicked != "" || out.err != nil {
			w.r.Infra("healthy leader write failed: %v %s", out.err, out.panicked)
			return
		}
		if next, oc := refUpsert(w.model.metas[c.id], refNormalize(m), false); oc == rtApplied {
			w.model.metas[c.id] = next
		}
		w.r.Logf("  #%d channel leader of %s restores its ISR => %q", w.index, c.id, out.res[0])
	}
}

// operatorStep: create a task on a free channel, or abort the active one.
func (w *c17xWorld) operatorStep() {
	tp := w.tp
	c := w.chans[tp.Intn(len(w.chans))]
	id := ch.ChannelID{ID: c.id, Type: uint8(c.typ)}
	if t := w.activeTask(c); t != nil {
		// an abort is most telling when it races with the cutover (fence set, commit /
		// promote in flight or accepted); an operator that keeps aborting young tasks only
		// prevents every task from getting there, so those aborts are rarer
		den := 16
		if t.FenceVersion > 0 || postCutoverPhase(t.Phase) {
			den = 4
		}
		if w.cfgAbort == 0 || !tp.Chance(w.cfgAbort, den) {
			return
		}
		task := *t
		w.r.Fault("operator_abort")
		w.spawn(w.oper, fmt.Sprintf("abort of %s/%s (sees st=%d ph=%d)", c.id, task.TaskID, task.Status, task.Phase), func(ctx context.Context) error {
			return w.oper.store.Abort(ctx, task, "operator")
		})
		return
	}
	m := w.readMeta(c)
	if m == nil {
		return
	}
	w.taskSeq++
	tid := fmt.Sprintf("t%d", w.taskSeq)
	switch tp.Weighted([]int{3, 3, 1}) {
	case 0:
		var want uint64
		for _, x := range m.ISR {
			if x != m.Leader && (want == 0 || tp.Intn(2) == 0) {
				want = x
			}
		}
		if want == 0 || tp.Chance(1, 8) {
			want = pickU64(tp, simNodes)
		}
		w.spawn(w.oper, fmt.Sprintf("create leader-transfer %s/%s ->%d", c.id, tid, want), func(ctx context.Context) error {
			_, err := w.oper.store.CreateLeaderTransfer(ctx, channels.CreateLeaderTransferRequest{ChannelID: id, TaskID: tid, DesiredLeader: ch.NodeID(want)})
			return err
		})
	case 1:
		var src uint64
		for _, x := range m.Replicas {
			if x != m.Leader && (src == 0 || tp.Intn(2) == 0) {
				src = x
			}
		}
		if src == 0 || tp.Chance(1, 8) {
			src = m.Leader
		}
		tgt := uint64(5 + tp.Intn(3))
		w.spawn(w.oper, fmt.Sprintf("create replica-replace %s/%s %d->%d", c.id, tid, src, tgt), func(ctx context.Context) error {
			_, err := w.oper.store.CreateReplicaReplace(ctx, channels.CreateReplicaReplaceRequest{ChannelID: id, TaskID: tid, SourceNode: ch.NodeID(src), TargetNode: ch.NodeID(tgt)})
			return err
		})
	default:
		var want uint64
		for _, x := range m.ISR {
			if x != m.Leader {
				want = x
			}
		}
		if want == 0 {
			return
		}
		hw := w.hwOf(c.id, want)
		w.spawn(w.oper, fmt.Sprintf("create leader-failover %s/%s ->%d", c.id, tid, want), func(ctx context.Context) error {
			_, err := w.oper.store.CreateLeaderFailover(ctx, channels.CreateLeaderFailoverRequest{ChannelID: id, TaskID: tid, DesiredLeader: ch.NodeID(want), ObservedHW: hw, ObservedLeaderEpoch: m.LeaderEpoch})
			return err
		})
	}
}

// healthyTail: faults stop. One executor instance stays, the data plane is
// healthy and caught up, every proposal is delivered, time passes. Every task
// must settle: reach a terminal state, or be parked as Blocked (which the real
// executor never resumes on its own: it waits for the operator) in a phase from
// which the operator can still abort it.
func (w *c17xWorld) healthyTail() {
	r := w.r
	r.Logf("--- faults stop ---")
	anyBusy := func() bool {
		for _, x := range append(append([]*xActor(nil), w.actors...), w.oper) {
			if x.busy.Load() {
				return true
			}
		}
		return false
	}
	for guard := 0; (anyBusy() || w.sim.NumPending() > 0) && guard < 200 && !r.Failed(); guard++ {
		for _, p := range w.sim.Pending() {
			w.issueCheck(p.Info.(*xCall))
			w.release(p, true)
		}
		simkit.Wait()
	}
	if anyBusy() {
		r.Infra("calls still in flight after draining")
		return
	}
	for _, a := range w.actors[1:] {
		a.alive = false
	}
	a := w.actors[0]
	a.alive = true
	w.wire(a)
	const maxTicks = 150
	settled := func() (bool, string) {
		for _, c := range w.chans {
			if t := w.activeTask(c); t != nil && t.Status != stBlocked {
				return false, fmt.Sprintf("%s/%s st=%d ph=%d", c.id, t.TaskID, t.Status, t.Phase)
			}
		}
		return true, ""
	}
	tick := 0
	for ; tick < maxTicks && !r.Failed(); tick++ {
		if ok, _ := settled(); ok {
			break
		}
		w.nowMS += 1000
		w.healthyLeaderWrites()
		w.syncRuntime(true)
		w.spawn(a, "RunOnce (healthy)", a.exec.RunOnce)
		for guard := 0; a.busy.Load() && guard < 50 && !r.Failed(); guard++ {
			for _, p := range w.sim.Pending() {
				w.issueCheck(p.Info.(*xCall))
				w.release(p, true)
			}
			simkit.Wait()
		}
	}
	if r.Failed() {
		return
	}
	if ok, what := settled(); !ok {
		sig := ""
		limit := a.limit
		if limit <= 0 {
			limit = 1
		}
		listed, _ := xSource{w}.ListRunnableMigrationTasks(context.Background(), a.node, limit)
		blockedAhead, seen := 0, false
		for _, t := range listed {
			if t.Status == stBlocked {
				blockedAhead++
			} else {
				seen = true
			}
		}
		// Liveness is not part of C17 (a safety property): what follows is observed
		// and counted, never reported as a violation.
		if !seen && blockedAhead > 0 {
			// the executor inspects the first `limit` active rows and skips blocked ones:
			// every runnable task behind them is never looked at
			sig = "liveness.task_starved_behind_blocked_task"
			what += fmt.Sprintf(" (the executor inspects the first %d active task row(s) per tick, all of them are Blocked and skipped, so this task is never looked at)", limit)
		} else {
			sig = "liveness.task_not_settled"
		}
		r.Probe(sig)
		r.Logf("NOTE %s: %d healthy executor ticks (one per second of simulated wall clock) after the last fault a task is still neither terminal nor blocked: %s", sig, maxTicks, what)
	} else {
		r.ProbeN("healthy_ticks_to_settle", tick)
	}
	for _, c := range w.chans {
		t := w.activeTask(c)
		if t == nil {
			continue
		}
		tk := tkey(c.id, t.TaskID)
		if t.Status != stBlocked {
			continue
		}
		r.Probe(fmt.Sprintf("settled_blocked_phase_%d", t.Phase))
		if w.cutoverDone[tk] != "" || postCutoverPhase(t.Phase) {
			r.Probe(fmt.Sprintf("liveness.task_blocked_after_cutover:phase-%d/%s", t.Phase, t.BlockerMessage))
			r.Logf("NOTE liveness.task_blocked_after_cutover: task %s is Blocked in phase %d (%s) after its %s was accepted: the executor skips blocked tasks and the store refuses to abort it (%s)", tk, t.Phase, t.BlockerMessage, w.cutoverDone[tk], taskString(t))
		}
	}
}
