package metasima

import (
	"bytes"
	"context"
	"encoding/binary"
	"errors"
	"fmt"
	"math/rand/v2"
	"runtime"
	"strings"
	"sync"

	"github.com/WuKongIM/WuKongIM/internal/verifsim/simkit"
	"github.com/WuKongIM/WuKongIM/pkg/db/internal/engine"
	metadb "github.com/WuKongIM/WuKongIM/pkg/db/meta"
	"github.com/WuKongIM/WuKongIM/pkg/slot/fsm"
	"github.com/WuKongIM/WuKongIM/pkg/slot/multiraft"
	"github.com/cockroachdb/pebble/v2"
	"github.com/cockroachdb/pebble/v2/vfs"
)

// ---------------------------------------------------------------------------
// Disk: vfs.NewCrashableMem() behind a gate that numbers WAL writes/syncs so a
// crash clone can be taken at a tape-chosen point *inside* one ApplyBatch.
// Only operations on *.log files are numbered: they are issued in program
// order by the single committer, whereas flush/compaction I/O comes from
// Pebble's background goroutines and has no canonical order.
// ---------------------------------------------------------------------------

type quietLogger struct{}

func (quietLogger) Infof(string, ...interface{})  {}
func (quietLogger) Errorf(string, ...interface{}) {}
func (quietLogger) Fatalf(format string, args ...interface{}) {
	panic(fmt.Sprintf("pebble fatal: "+format, args...))
}

type gateFS struct {
	vfs.FS
	mem *vfs.MemFS

	mu      sync.Mutex
	armed   bool
	countTo int
	seen    int
	pct     int
	clone   *vfs.MemFS
}

func newGateFS(mem *vfs.MemFS) *gateFS { return &gateFS{FS: mem, mem: mem} }

// arm asks for a crash clone right before the k-th WAL write/sync from now on.
func (g *gateFS) arm(k, pct int) {
	g.mu.Lock()
	g.armed, g.countTo, g.seen, g.pct, g.clone = true, k, 0, pct, nil
	g.mu.Unlock()
}

// disarm returns the clone taken since arm (nil when the point was not reached).
func (g *gateFS) disarm() *vfs.MemFS {
	g.mu.Lock()
	defer g.mu.Unlock()
	c := g.clone
	g.armed, g.clone = false, nil
	return c
}

func (g *gateFS) walOp() {
	g.mu.Lock()
	if g.armed {
		g.seen++
		if g.seen == g.countTo {
			g.clone = crashClone(g.mem, g.pct)
			g.armed = false
		}
	}
	g.mu.Unlock()
}

func crashClone(mem *vfs.MemFS, pct int) *vfs.MemFS {
	// pct is 0 (power loss: synced data only) or 100 (process kill: everything
	// written). Intermediate values would consume the RNG in Go map order
	// inside pebble's MemFS and are therefore not reproducible.
	return mem.CrashClone(vfs.CrashCloneCfg{UnsyncedDataPercent: pct, RNG: rand.New(rand.NewPCG(7, 11))})
}

func isWAL(name string) bool { return strings.HasSuffix(name, ".log") }

func (g *gateFS) Create(name string, c vfs.DiskWriteCategory) (vfs.File, error) {
	f, err := g.FS.Create(name, c)
	if err == nil && isWAL(name) {
		return &gateFile{File: f, g: g}, nil
	}
	return f, err
}

func (g *gateFS) ReuseForWrite(oldname, newname string, c vfs.DiskWriteCategory) (vfs.File, error) {
	f, err := g.FS.ReuseForWrite(oldname, newname, c)
	if err == nil && isWAL(newname) {
		return &gateFile{File: f, g: g}, nil
	}
	return f, err
}

func (g *gateFS) OpenReadWrite(name string, c vfs.DiskWriteCategory, opts ...vfs.OpenOption) (vfs.File, error) {
	f, err := g.FS.OpenReadWrite(name, c, opts...)
	if err == nil && isWAL(name) {
		return &gateFile{File: f, g: g}, nil
	}
	return f, err
}

type gateFile struct {
	vfs.File
	g *gateFS
}

func (f *gateFile) Write(p []byte) (int, error) { f.g.walOp(); return f.File.Write(p) }
func (f *gateFile) Sync() error                 { f.g.walOp(); return f.File.Sync() }
func (f *gateFile) SyncData() error             { f.g.walOp(); return f.File.SyncData() }
func (f *gateFile) SyncTo(n int64) (bool, error) {
	f.g.walOp()
	return f.File.SyncTo(n)
}

// dropPools empties every sync.Pool (two GC cycles: primary -> victim -> gone).
// Pebble pools objects that own channels (sstable write tasks); a channel made
// inside one synctest bubble must never be used from the next run's bubble
// ("send on synctest channel from outside bubble" is fatal).
func dropPools() {
	runtime.GC()
	runtime.GC()
}

// hookFS / hookMem are read by the Pebble hook at Open time. Runs are
// sequential inside one worker process, so plain package variables suffice.
var (
	hookFS  vfs.FS
	hookMem int
)

func installHook() {
	engine.VerifPebbleHook = func(o *pebble.Options) {
		if hookFS != nil {
			o.FS = hookFS
		}
		if hookMem > 0 {
			o.MemTableSize = uint64(hookMem)
		}
		o.Logger = quietLogger{}
		o.CacheSize = 1 << 20
	}
}

// ---------------------------------------------------------------------------
// node: one real slot FSM over one real meta DB on its own simulated disk.
// ---------------------------------------------------------------------------

type node struct {
	r         *simkit.Run
	name      string
	slot      uint64
	hashSlots []uint16
	legacy    bool
	memTable  int
	// outgoing: hash slots with an outgoing migration (runtime configuration the
	// cluster layer installs on every replica; re-installed after each open)
	outgoing map[uint16]multiraft.SlotID

	mem  *vfs.MemFS
	gate *gateFS
	db   *metadb.DB
	sm   multiraft.StateMachine
	bsm  multiraft.BatchStateMachine
}

const dbPath = "/meta"

func newNode(r *simkit.Run, name string, slot uint64, hashSlots []uint16, legacy bool, memTable int) *node {
	n := &node{r: r, name: name, slot: slot, hashSlots: append([]uint16(nil), hashSlots...), legacy: legacy, memTable: memTable}
	n.mem = vfs.NewCrashableMem()
	n.gate = newGateFS(n.mem)
	return n
}

func (n *node) open() bool {
	installHook()
	hookFS, hookMem = n.gate, n.memTable
	db, err := metadb.Open(dbPath)
	hookFS = nil
	if err != nil {
		n.r.Infra("%s: open meta db: %v", n.name, err)
		return false
	}
	var sm multiraft.StateMachine
	if n.legacy {
		sm, err = fsm.NewStateMachine(db, n.slot)
	} else {
		sm, err = fsm.NewStateMachineWithHashSlots(db, n.slot, n.hashSlots)
	}
	if err != nil {
		_ = db.Close()
		n.r.Infra("%s: new state machine: %v", n.name, err)
		return false
	}
	bsm, ok := sm.(multiraft.BatchStateMachine)
	if !ok {
		_ = db.Close()
		n.r.Infra("%s: state machine is not a BatchStateMachine", n.name)
		return false
	}
	if len(n.outgoing) > 0 {
		cfg, ok := sm.(interface {
			UpdateOutgoingDeltaTargets(map[uint16]multiraft.SlotID)
		})
		if !ok {
			_ = db.Close()
			n.r.Infra("%s: state machine has no UpdateOutgoingDeltaTargets", n.name)
			return false
		}
		cfg.UpdateOutgoingDeltaTargets(n.outgoing)
	}
	n.db, n.sm, n.bsm = db, sm, bsm
	return true
}

func (n *node) close() {
	if n.db != nil {
		_ = n.db.Close()
		n.db, n.sm, n.bsm = nil, nil, nil
	}
}

// reopenClean closes and reopens on the same disk.
func (n *node) reopenClean() bool {
	n.close()
	return n.open()
}

// crashNow takes a crash clone of the disk as it is, abandons the running
// incarnation (closed against the abandoned disk) and reopens on the clone.
func (n *node) crashNow(pct int) bool {
	clone := crashClone(n.mem, pct)
	return n.restartOn(clone)
}

func (n *node) restartOn(clone *vfs.MemFS) bool {
	n.close()
	n.mem = clone
	n.gate = newGateFS(clone)
	return n.open()
}

func (n *node) durable() uint64 {
	d, ok := n.sm.(multiraft.DurableAppliedStateMachine)
	if !ok {
		n.r.Infra("%s: not a DurableAppliedStateMachine", n.name)
		return 0
	}
	v, err := d.DurableAppliedIndex(context.Background())
	if err != nil {
		n.r.Infra("%s: DurableAppliedIndex: %v", n.name, err)
	}
	return v
}

// export returns the full meta snapshot bytes of one hash slot.
func (n *node) export(hs uint16) []byte {
	snap, err := n.db.ExportHashSlotSnapshot(context.Background(), []uint16{hs})
	if err != nil {
		n.r.Infra("%s: export hash slot %d: %v", n.name, hs, err)
		return nil
	}
	return snap.Data
}

type applyOut struct {
	res      [][]byte
	err      error
	panicked string
}

// apply calls the real ApplyBatch and converts a panic into a value.
func (n *node) apply(cmds []multiraft.Command) (out applyOut) {
	defer func() {
		if p := recover(); p != nil {
			out.panicked = fmt.Sprint(p)
		}
	}()
	out.res, out.err = n.bsm.ApplyBatch(context.Background(), cmds)
	return out
}

// errClass maps an error to a stable class (never the message: messages may
// embed batch-dependent detail).
func errClass(err error) string {
	switch {
	case err == nil:
		return ""
	case errors.Is(err, metadb.ErrCorruptValue):
		return "corrupt"
	case errors.Is(err, metadb.ErrInvalidArgument):
		return "invalid"
	case errors.Is(err, metadb.ErrChecksumMismatch):
		return "checksum"
	case errors.Is(err, metadb.ErrStaleMeta):
		return "stale"
	case errors.Is(err, metadb.ErrNotFound):
		return "notfound"
	case errors.Is(err, metadb.ErrAlreadyExists):
		return "exists"
	default:
		return "other:" + firstWords(err.Error(), 6)
	}
}

func firstWords(s string, n int) string {
	f := strings.Fields(s)
	if len(f) > n {
		f = f[:n]
	}
	return strings.Join(f, " ")
}

func short(b []byte) string {
	if len(b) <= 24 {
		return fmt.Sprintf("%q", b)
	}
	return fmt.Sprintf("%q…(%d)", b[:24], len(b))
}

// ---------------------------------------------------------------------------
// snapshot decoding (format documented in pkg/db/meta/snapshot.go) for
// readable diffs in violation details.
// ---------------------------------------------------------------------------

type kv struct{ k, v []byte }

func decodeSnap(data []byte) ([]kv, bool) {
	if len(data) < 4+2+2+8+4 {
		return nil, false
	}
	body := data[:len(data)-4]
	body = body[4+2:]
	n := int(binary.BigEndian.Uint16(body[:2]))
	body = body[2:]
	if len(body) < n*2+8 {
		return nil, false
	}
	body = body[n*2:]
	cnt := binary.BigEndian.Uint64(body[:8])
	body = body[8:]
	out := make([]kv, 0, cnt)
	for i := uint64(0); i < cnt; i++ {
		kl, a := binary.Uvarint(body)
		if a <= 0 {
			return nil, false
		}
		body = body[a:]
		vl, b := binary.Uvarint(body)
		if b <= 0 {
			return nil, false
		}
		body = body[b:]
		if uint64(len(body)) < kl+vl {
			return nil, false
		}
		out = append(out, kv{k: body[:kl], v: body[kl : kl+vl]})
		body = body[kl+vl:]
	}
	return out, true
}

// snapDiff describes the first difference between two snapshots.
func snapDiff(a, b []byte) string {
	ka, ok1 := decodeSnap(a)
	kb, ok2 := decodeSnap(b)
	if !ok1 || !ok2 {
		return fmt.Sprintf("undecodable snapshots (len %d vs %d)", len(a), len(b))
	}
	i, j := 0, 0
	for i < len(ka) && j < len(kb) {
		c := bytes.Compare(ka[i].k, kb[j].k)
		switch {
		case c < 0:
			return fmt.Sprintf("key %x only in first (value %s); entries %d vs %d", ka[i].k, short(ka[i].v), len(ka), len(kb))
		case c > 0:
			return fmt.Sprintf("key %x only in second (value %s); entries %d vs %d", kb[j].k, short(kb[j].v), len(ka), len(kb))
		default:
			if !bytes.Equal(ka[i].v, kb[j].v) {
				return fmt.Sprintf("key %x differs: %q vs %q", ka[i].k, ka[i].v, kb[j].v)
			}
		}
		i++
		j++
	}
	if i < len(ka) {
		return fmt.Sprintf("key %x only in first; entries %d vs %d", ka[i].k, len(ka), len(kb))
	}
	if j < len(kb) {
		return fmt.Sprintf("key %x only in second; entries %d vs %d", kb[j].k, len(ka), len(kb))
	}
	return "entries equal, framing differs"
}

// diffWhere names the key space / table / index (or family) of the first key
// that differs between two snapshots; it refines violation signatures.
func diffWhere(a, b []byte) string {
	ka, ok1 := decodeSnap(a)
	kb, ok2 := decodeSnap(b)
	if !ok1 || !ok2 {
		return "undecodable"
	}
	name := func(k []byte) string {
		if len(k) < 9 {
			return fmt.Sprintf("key-%x", k)
		}
		if len(k) >= 11 {
			return fmt.Sprintf("space%02x-table%d-id%d", k[4], binary.BigEndian.Uint32(k[5:9]), binary.BigEndian.Uint16(k[9:11]))
		}
		return fmt.Sprintf("space%02x-table%d", k[4], binary.BigEndian.Uint32(k[5:9]))
	}
	i, j := 0, 0
	for i < len(ka) && j < len(kb) {
		c := bytes.Compare(ka[i].k, kb[j].k)
		switch {
		case c < 0:
			return name(ka[i].k)
		case c > 0:
			return name(kb[j].k)
		case !bytes.Equal(ka[i].v, kb[j].v):
			return name(ka[i].k)
		}
		i++
		j++
	}
	if i < len(ka) {
		return name(ka[i].k)
	}
	if j < len(kb) {
		return name(kb[j].k)
	}
	return "framing"
}

func snapEntries(data []byte) int {
	k, ok := decodeSnap(data)
	if !ok {
		return -1
	}
	return len(k)
}

// pick helpers -------------------------------------------------------------

func pickU16(tp *simkit.Tape, xs []uint16) uint16 { return xs[tp.Intn(len(xs))] }
func pickStr(tp *simkit.Tape, xs []string) string { return xs[tp.Intn(len(xs))] }
func pickU64(tp *simkit.Tape, xs []uint64) uint64 { return xs[tp.Intn(len(xs))] }

func containsU64(xs []uint64, v uint64) bool {
	for _, x := range xs {
		if x == v {
			return true
		}
	}
	return false
}

func containsU16(xs []uint16, v uint16) bool {
	for _, x := range xs {
		if x == v {
			return true
		}
	}
	return false
}

// semanticDump reads the hash slot through the typed read API (an observation
// that does not depend on the snapshot exporter).
func (n *node) semanticDump(hs uint16) string {
	ctx := context.Background()
	s := n.db.ForHashSlot(hs)
	var b strings.Builder
	note := func(what string, err error) {
		if err != nil && !errors.Is(err, metadb.ErrNotFound) {
			fmt.Fprintf(&b, "%s:ERR(%s);", what, errClass(err))
		}
	}
	for _, uid := range simUIDs {
		if u, err := s.GetUser(ctx, uid); err == nil {
			fmt.Fprintf(&b, "user%+v;", u)
		} else {
			note("user "+uid, err)
		}
		for flag := int64(0); flag < 3; flag++ {
			if d, err := s.GetDevice(ctx, uid, flag); err == nil {
				fmt.Fprintf(&b, "dev%+v;", d)
			} else {
				note("device "+uid, err)
			}
		}
		if ms, _, _, err := s.ListUserChannelMembershipPage(ctx, uid, metadb.UserChannelMembershipCursor{}, 50); err == nil {
			for _, m := range ms {
				fmt.Fprintf(&b, "mem%+v;", m)
			}
		} else {
			note("memberships "+uid, err)
		}
		if ms, _, _, err := s.ListUserCMDChannelMembershipPage(ctx, uid, metadb.UserCMDChannelMembershipCursor{}, 50); err == nil {
			for _, m := range ms {
				fmt.Fprintf(&b, "cmdmem%+v;", m)
			}
		} else {
			note("cmd memberships "+uid, err)
		}
		if bs, err := s.ListPluginBindingsByUID(ctx, uid); err == nil {
			for _, x := range bs {
				fmt.Fprintf(&b, "plugin%+v;", x)
			}
		} else {
			note("plugins "+uid, err)
		}
	}
	for _, id := range simChannels {
		if c, err := s.GetChannel(ctx, id, 2); err == nil {
			fmt.Fprintf(&b, "chan%+v;", c)
		} else {
			note("channel "+id, err)
		}
		if subs, err := s.ListSubscribersSnapshot(ctx, id, 2); err == nil {
			fmt.Fprintf(&b, "subs %s %v;", id, subs)
		} else {
			note("subscribers "+id, err)
		}
		if l, err := s.GetChannelLatest(ctx, id, 2); err == nil {
			fmt.Fprintf(&b, "latest%+v;", l)
		} else {
			note("latest "+id, err)
		}
	}
	for _, id := range simPersonChannels() {
		if c, err := s.GetChannel(ctx, id, 1); err == nil {
			fmt.Fprintf(&b, "chan%+v;", c)
		} else {
			note("channel "+id, err)
		}
		if t, ok, err := s.GetPersonDirectoryTask(ctx, id, 1); err == nil && ok {
			fmt.Fprintf(&b, "dirtask%+v;", t)
		} else {
			note("dirtask "+id, err)
		}
	}
	if metas, _, _, err := s.ListChannelRuntimeMetaPage(ctx, metadb.ChannelRuntimeMetaCursor{}, 100); err == nil {
		for i := range metas {
			fmt.Fprintf(&b, "rt %s/%d %s;", metas[i].ChannelID, metas[i].ChannelType, rtString(&metas[i]))
		}
	} else {
		note("runtime metas", err)
	}
	if tasks, err := s.ListChannelMigrationTasks(ctx); err == nil {
		for i := range tasks {
			fmt.Fprintf(&b, "task %s %s;", tasks[i].ChannelID, taskString(&tasks[i]))
		}
	} else {
		note("tasks", err)
	}
	for _, id := range []string{"chA", "chB"} {
		if t, ok, err := s.GetActiveChannelMigrationTask(ctx, id, 2); err == nil && ok {
			fmt.Fprintf(&b, "active %s=%s;", id, t.TaskID)
		} else {
			note("active "+id, err)
		}
	}
	return b.String()
}
