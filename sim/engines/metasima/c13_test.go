package metasima

import (
	"bytes"
	"context"
	"errors"
	"fmt"
	"testing"

	"github.com/WuKongIM/WuKongIM/internal/verifsim/simkit"
	metadb "github.com/WuKongIM/WuKongIM/pkg/db/meta"
	"github.com/WuKongIM/WuKongIM/pkg/slot/multiraft"
)

// C13 — the slot state machine is deterministic and batch-transparent.
//
// The simulator is the slot log. Replica 0 (the reference replica) applies
// every command alone, as soon as it is appended, and never fails. The other
// replicas receive the same log in tape-chosen ApplyBatch partitions, are
// crashed (between batches or inside one), reopened and replayed from their
// durable applied index, or replaced by a snapshot of another replica.

type logEntry struct {
	idx        uint64
	hs         uint16
	data       []byte
	desc       string
	mustRefuse bool // an ordinary command addressed to a hash slot the slot does not own
	plain      bool // an ordinary, undamaged command (never allowed to touch a foreign hash slot)
	isDelta    bool // an undamaged apply-delta command for hash slot deltaHS
	deltaHS    uint16

	res      []byte // reference result (nil when rejected)
	rejected bool
	errCls   string
}

type replica struct {
	n   *node
	pos int // number of log entries whose effects this replica holds
	// skipForeign: restored from a state machine snapshot after the foreign hash slot
	// had been written by a maintenance command (snapshots do not cover it)
	skipForeign bool
}

type c13World struct {
	r  *simkit.Run
	tp *simkit.Tape

	slot     uint64
	legacy   bool
	owned    []uint16
	foreign  uint16
	tracked  []uint16 // owned + foreign
	memTable int
	outgoing map[uint16]multiraft.SlotID

	ref   *node
	reps  []*replica
	nodes []*node // everything ever opened (closed at teardown)

	log   []logEntry
	snaps [][][]byte // snaps[pos][i] = bytes of tracked[i] on the reference replica after pos entries

	misc  *miscGen
	chans []chanRef
	prop  *rtProposer
	execs []*executor
	gen   migGenCfg
	now   int64

	foreignDirty bool

	accepted, rejected int
	batchesMulti       int
	recoveries         int
}

func runC13(t *testing.T, r *simkit.Run) {
	dropPools()
	simkit.Bubble(t, r, func() {
		w := &c13World{r: r, tp: r.Tape}
		defer func() {
			for _, n := range w.nodes {
				n.close()
			}
		}()
		w.run()
	})
}

func (w *c13World) newNode(name string) *node {
	n := newNode(w.r, name, w.slot, w.owned, w.legacy, w.memTable)
	n.outgoing = w.outgoing
	w.nodes = append(w.nodes, n)
	return n
}

func (w *c13World) run() {
	tp, r := w.tp, w.r
	w.slot = []uint64{1, 2, 5}[tp.Intn(3)]
	w.legacy = tp.Intn(4) == 3
	if w.legacy {
		w.owned = []uint16{uint16(w.slot)}
	} else {
		sets := [][]uint16{{3, 7}, {1, 4, 9}, {2, 6}}
		w.owned = sets[tp.Intn(len(sets))]
	}
	w.foreign = 11
	w.tracked = append(append([]uint16(nil), w.owned...), w.foreign)
	nCmds := 8 + tp.Intn(33)
	noFaults := tp.Intn(4) == 0
	maxBatch := 2 + tp.Intn(7)
	w.memTable = []int{256 << 10, 64 << 10, 16 << 10}[tp.Intn(3)]
	malformedBias := tp.Intn(3)
	unownedBias := tp.Intn(3)
	migBias := 2 + tp.Intn(6)
	rtBias := 1 + tp.Intn(4)
	maintBias := tp.Intn(3)
	abortW := 1 + tp.Intn(6)
	personBias := tp.Intn(3)
	retryBias := tp.Intn(3)
	if noFaults {
		retryBias = 0
	}
	if tp.Intn(4) == 0 {
		// an outgoing hash-slot migration is configured: every command on that hash
		// slot is also staged into the migration outbox
		w.outgoing = map[uint16]multiraft.SlotID{w.owned[0]: 20}
	}
	r.Config = map[string]any{"outgoing": len(w.outgoing) > 0, "abort_w": abortW, "person_bias": personBias, "retry_bias": retryBias, "slot": w.slot, "legacy": w.legacy, "owned": fmt.Sprint(w.owned), "cmds": nCmds, "nofaults": noFaults, "max_batch": maxBatch,
		"memtable": w.memTable, "malformed_bias": malformedBias, "unowned_bias": unownedBias, "mig_bias": migBias, "rt_bias": rtBias, "maint_bias": maintBias}

	w.misc = &miscGen{tp: tp, slot: w.slot, owned: w.owned, foreign: w.foreign, personBias: personBias}
	for i, id := range []string{"chA", "chB"} {
		w.chans = append(w.chans, chanRef{id: id, typ: 2, hs: w.owned[i%len(w.owned)]})
	}
	w.prop = &rtProposer{id: 0, cache: map[string]*rtMeta{}}
	taskCounter := 0
	w.gen = migGenCfg{fenceTTL: 2000, ownerTTL: 3000, rogue: true, abortW: abortW, nextTaskID: &taskCounter}
	w.now = 10_000
	for i := 0; i < 2; i++ {
		w.execs = append(w.execs, &executor{id: i, node: uint64(11 + i), views: map[string]execView{}})
	}

	w.ref = w.newNode("ref")
	if !w.ref.open() {
		return
	}
	for i := 1; i <= 2; i++ {
		n := w.newNode(fmt.Sprintf("r%d", i))
		if !n.open() {
			return
		}
		w.reps = append(w.reps, &replica{n: n})
	}
	w.snaps = append(w.snaps, w.snapAll(w.ref))

	steps := 0
	for steps < nCmds*6+40 && !r.Failed() && r.InfraErr == "" {
		steps++
		r.Steps++
		backlog := 0
		for _, f := range w.reps {
			backlog += len(w.log) - f.pos
		}
		if len(w.log) >= nCmds && backlog == 0 {
			break
		}
		wAppend, wDeliver, wFault := 6, 0, 0
		if len(w.log) >= nCmds {
			wAppend = 0
		}
		if backlog > 0 {
			wDeliver = 5
		}
		if !noFaults && len(w.log) > 0 {
			wFault = 2
		}
		switch tp.Weighted([]int{wAppend, wDeliver, wFault}) {
		case 0:
			w.appendCommand(malformedBias, unownedBias, migBias, rtBias, maintBias, retryBias)
		case 1:
			f := w.pickLagging()
			size := 1 + tp.Intn(min(maxBatch, len(w.log)-f.pos))
			w.deliver(f, size, 0, 0)
		case 2:
			w.fault(maxBatch)
		}
	}
	if r.Failed() || r.InfraErr != "" {
		return
	}
	// final agreement: whole-machine snapshots of all replicas at the log end
	want, err := w.ref.sm.Snapshot(context.Background())
	if err != nil {
		r.Infra("ref snapshot: %v", err)
		return
	}
	for _, f := range w.reps {
		if f.pos != len(w.log) {
			continue
		}
		got, err := f.n.sm.Snapshot(context.Background())
		if err != nil {
			r.Infra("%s snapshot: %v", f.n.name, err)
			return
		}
		if !bytes.Equal(got.Data, want.Data) {
			r.FailSig("snapshot-divergence", "final", fmt.Sprintf("replica %s and the reference replica hold different state machine snapshots after all %d entries: %s", f.n.name, len(w.log), snapDiff(want.Data, got.Data)), nil)
			return
		}
		if !w.checkState(f, "final", nil) {
			return
		}
	}
	r.Nontrivial = w.accepted >= 5 && w.batchesMulti >= 2 && (w.recoveries > 0 || noFaults)
}

func (w *c13World) snapAll(n *node) [][]byte {
	out := make([][]byte, len(w.tracked))
	for i, hs := range w.tracked {
		out[i] = n.export(hs)
	}
	return out
}

func (w *c13World) dumpAll(n *node) []string {
	out := make([]string, len(w.tracked))
	for i, hs := range w.tracked {
		out[i] = n.semanticDump(hs)
	}
	return out
}

func (w *c13World) pickLagging() *replica {
	var lag []*replica
	for _, f := range w.reps {
		if f.pos < len(w.log) {
			lag = append(lag, f)
		}
	}
	return lag[w.tp.Intn(len(lag))]
}

// ---------------------------------------------------------------------------
// the log
// ---------------------------------------------------------------------------

func (w *c13World) refreshViews() {
	ctx := context.Background()
	for _, e := range w.execs {
		if w.tp.Intn(3) == 0 {
			continue // stays stale
		}
		ch := w.chans[w.tp.Intn(len(w.chans))]
		v := execView{}
		if m, err := w.ref.db.ForHashSlot(ch.hs).GetChannelRuntimeMeta(ctx, ch.id, ch.typ); err == nil {
			v.meta = &m
		} else if !errors.Is(err, metadb.ErrNotFound) {
			w.r.Infra("read meta: %v", err)
		}
		if t, ok, err := w.ref.db.ForHashSlot(ch.hs).GetActiveChannelMigrationTask(ctx, ch.id, ch.typ); err == nil && ok {
			v.task = &t
		}
		e.views[ch.id] = v
	}
	if w.tp.Intn(2) == 0 {
		ch := w.chans[w.tp.Intn(len(w.chans))]
		if m, err := w.ref.db.ForHashSlot(ch.hs).GetChannelRuntimeMeta(ctx, ch.id, ch.typ); err == nil {
			w.prop.cache[ch.id] = &m
		} else if errors.Is(err, metadb.ErrNotFound) {
			w.prop.cache[ch.id] = nil
		}
	}
}

func (w *c13World) appendCommand(malformedBias, unownedBias, migBias, rtBias, maintBias, retryBias int) {
	tp, r := w.tp, w.r
	w.refreshViews()
	w.now += int64(100 * tp.Intn(12))
	var e logEntry
	ordinary := true
	retried := false
	if retryBias > 0 && tp.Chance(retryBias, 10) {
		// a proposer that got no answer proposes the same bytes again (value 0: it does not)
		var cand []int
		for i := len(w.log) - 1; i >= 0 && len(w.log)-i <= 4; i-- {
			if w.log[i].plain {
				cand = append(cand, i)
			}
		}
		if len(cand) > 0 {
			o := w.log[cand[tp.Intn(len(cand))]]
			e = logEntry{hs: o.hs, data: o.data, desc: fmt.Sprintf("REPROPOSED-#%d %s", o.idx, o.desc), mustRefuse: o.mustRefuse}
			retried = true
			r.Fault("reproposed_command")
		}
	}
	if !retried {
		switch tp.Weighted([]int{10, migBias, rtBias, maintBias}) {
		case 0:
			c := w.misc.ordinary()
			e = logEntry{hs: c.hs, data: c.data, desc: c.desc, mustRefuse: c.scopedForeign}
		case 1:
			ex := w.execs[tp.Intn(len(w.execs))]
			ch := w.chans[tp.Intn(len(w.chans))]
			c, ok := ex.act(tp, ch, w.now, w.gen)
			if !ok {
				c = ex.gcCmd(tp, ch, w.now)
			}
			e = logEntry{hs: c.hs, data: c.data, desc: c.desc}
		case 2:
			c := w.prop.propose(tp, w.chans, true)
			e = logEntry{hs: c.hs, data: c.data, desc: c.desc}
		default:
			c := w.misc.maintenanceCmd(uint64(len(w.log)))
			e = logEntry{hs: c.hs, data: c.data, desc: c.desc, isDelta: c.isDelta, deltaHS: c.deltaHS}
			ordinary = false
		}
	}
	if retried {
		// proposed again exactly as it was
	} else if ordinary && unownedBias > 0 && tp.Chance(unownedBias, 16) {
		e.hs = w.foreign
		e.mustRefuse = true
		e.desc = "UNOWNED-HASH-SLOT " + e.desc
	} else if ordinary && w.legacy && !e.mustRefuse && tp.Intn(3) == 0 {
		e.hs = 0 // legacy default hash slot
	}
	if !retried && malformedBias > 0 && tp.Chance(malformedBias, 12) {
		var how string
		e.data, how = mutateBytes(tp, e.data)
		e.desc = "MALFORMED(" + how + ") " + e.desc
		e.mustRefuse = false // a damaged payload may decode as anything
		ordinary, e.isDelta = false, false
		r.Fault("malformed_payload")
	}
	e.plain = ordinary
	e.idx = uint64(len(w.log) + 1)

	// the reference replica applies it alone
	pre := w.snaps[len(w.snaps)-1]
	preDurable := w.ref.durable()
	out := w.ref.apply([]multiraft.Command{w.cmd(e)})
	if out.panicked != "" {
		r.FailSig("panic", "apply", fmt.Sprintf("ApplyBatch panicked on #%d %s (hash slot %d, payload %x): %s", e.idx, e.desc, e.hs, e.data, out.panicked), nil)
		return
	}
	post := w.snapAll(w.ref)
	if out.err != nil {
		e.rejected, e.errCls = true, errClass(out.err)
		w.rejected++
		r.Probe("rejected:" + e.errCls)
		for i := range w.tracked {
			if !bytes.Equal(pre[i], post[i]) {
				r.FailSig("rejected-command-had-effect", e.errCls, fmt.Sprintf("#%d %s was rejected (%v) but hash slot %d changed: %s", e.idx, e.desc, out.err, w.tracked[i], snapDiff(pre[i], post[i])), nil)
				return
			}
		}
		if d := w.ref.durable(); d != preDurable {
			r.FailSig("rejected-command-had-effect", "applied-index", fmt.Sprintf("#%d %s was rejected (%v) but the durable applied index moved %d -> %d", e.idx, e.desc, out.err, preDurable, d), nil)
			return
		}
	} else {
		if len(out.res) != 1 {
			r.Fail("result-count", fmt.Sprintf("#%d: %d results for one command", e.idx, len(out.res)), nil)
			return
		}
		e.res = out.res[0]
		w.accepted++
		if e.mustRefuse {
			r.FailSig("unowned-hash-slot-accepted", "", fmt.Sprintf("#%d %s (hash slot %d, owned %v) was applied with result %q", e.idx, e.desc, e.hs, w.owned, e.res), nil)
			return
		}
		if fi := len(w.tracked) - 1; e.plain && !bytes.Equal(pre[fi], post[fi]) {
			r.FailSig("unowned-hash-slot-written", "", fmt.Sprintf("#%d %s changed hash slot %d, which the slot does not own: %s", e.idx, e.desc, w.foreign, snapDiff(pre[fi], post[fi])), nil)
			return
		}
		if ci := parseCmd(e.data); ci.ok && ci.typ == wireApplyDelta {
			// (also for byte-damaged payloads that still decode as a delta)
			for i, hs := range w.tracked {
				if hs != ci.deltaHS && !bytes.Equal(pre[i], post[i]) {
					sig := ""
					if ci.innerType == wireCreateRuntimeMeta {
						sig = "delta-of-unfiltered-batch-command"
					}
					r.FailSig("delta-wrote-other-hash-slot", sig, fmt.Sprintf("#%d %s is a delta of hash slot %d but changed hash slot %d (owned: %v): %s", e.idx, e.desc, ci.deltaHS, hs, w.owned, snapDiff(pre[i], post[i])), nil)
					return
				}
			}
		}
		if fi := len(w.tracked) - 1; !bytes.Equal(pre[fi], post[fi]) {
			// an accepted maintenance-type payload wrote the foreign hash slot (allowed by
			// design); state machine snapshots do not cover it
			w.foreignDirty = true
			r.Probe("foreign_hash_slot_written_by_maintenance")
		}
		if d := w.ref.durable(); d > e.idx {
			r.FailSig("applied-index-ahead", "", fmt.Sprintf("durable applied index %d after entry %d", d, e.idx), nil)
			return
		}
	}
	if e.mustRefuse && out.err != nil {
		r.Probe("unowned_refused")
	}
	r.Logf("#%d hs=%d %s => %s", e.idx, e.hs, e.desc, w.outcome(e))
	w.log = append(w.log, e)
	w.snaps = append(w.snaps, post)
	n := 0
	for i := range post {
		n += snapEntries(post[i])
	}
	r.State("c13", len(w.log) > 0, n/4, e.rejected)
}

func resultKind(b []byte) string {
	switch s := string(b); s {
	case "ok", "hash_slot_fenced", "stale_meta":
		return s
	}
	if len(b) >= 4 && b[0] == 'W' && b[1] == 'K' {
		return "typed:" + string(b[:4])
	}
	return "data"
}

func (w *c13World) outcome(e logEntry) string {
	if e.rejected {
		return "REJECTED(" + e.errCls + ")"
	}
	return short(e.res)
}

func (w *c13World) cmd(e logEntry) multiraft.Command {
	return multiraft.Command{SlotID: multiraft.SlotID(w.slot), HashSlot: e.hs, Index: e.idx, Term: 1, Data: e.data}
}

// ---------------------------------------------------------------------------
// delivery to the other replicas
// ---------------------------------------------------------------------------

// checkState compares every tracked hash slot of f with the reference replica
// at the same log position.
func (w *c13World) checkState(f *replica, when string, batch []logEntry) bool {
	got := w.snapAll(f.n)
	want := w.snaps[f.pos]
	for i := range w.tracked {
		if f.skipForeign && i == len(w.tracked)-1 {
			continue
		}
		if !bytes.Equal(got[i], want[i]) {
			where := diffWhere(want[i], got[i])
			sig := when + "/" + where
			if rc := w.rootCause(batch, -1, nil, i, where); rc != "" {
				sig = rc
			}
			w.r.FailSig("snapshot-divergence", sig, fmt.Sprintf("replica %s %s: hash slot %d differs from the reference replica at log position %d (%s): %s", f.n.name, when, w.tracked[i], f.pos, where, snapDiff(want[i], got[i])), nil)
			return false
		}
	}
	if f.pos != len(w.log) || !(when == "final" || when == "after-snapshot-restore") {
		return true
	}
	// typed reads (independent of the exporter), against the reference replica's current state
	gotD, wantD := w.dumpAll(f.n), w.dumpAll(w.ref)
	for i := range w.tracked {
		if f.skipForeign && i == len(w.tracked)-1 {
			continue
		}
		if gotD[i] != wantD[i] {
			w.r.FailSig("read-divergence", when, fmt.Sprintf("replica %s %s: typed reads of hash slot %d differ from the reference replica at log position %d although the exported snapshot bytes agree:\n reference: %s\n replica:   %s", f.n.name, when, w.tracked[i], f.pos, wantD[i], gotD[i]), nil)
			return false
		}
	}
	return true
}

// compareOne checks the outcome of entry batch[j] on replica f against the
// reference; batch is what the replica was given in that ApplyBatch call.
func (w *c13World) compareOne(f *replica, batch []logEntry, j int, res []byte, err error, how string) bool {
	r := w.r
	e := batch[j]
	var got []byte
	if err == nil {
		got = res
	}
	rc := ""
	if (err != nil) != e.rejected || (err == nil && !bytes.Equal(res, e.res)) {
		rc = w.rootCause(batch, j, got, -1, "")
	}
	pick := func(symptom string) string {
		if rc != "" {
			return rc
		}
		return symptom
	}
	switch {
	case err != nil && !e.rejected:
		r.FailSig("outcome-divergence", pick("error-only-on-replica"), fmt.Sprintf("#%d %s: reference replica returned %s, replica %s (%s) failed with %v", e.idx, e.desc, short(e.res), f.n.name, how, err), nil)
	case err == nil && e.rejected:
		r.FailSig("outcome-divergence", pick("error-only-on-reference"), fmt.Sprintf("#%d %s: reference replica rejected it (%s), replica %s (%s) returned %s", e.idx, e.desc, e.errCls, f.n.name, how, short(res)), nil)
	case err != nil && errClass(err) != e.errCls:
		r.FailSig("outcome-divergence", "error-class", fmt.Sprintf("#%d %s: reference replica rejected with %s, replica %s (%s) with %s", e.idx, e.desc, e.errCls, f.n.name, how, errClass(err)), nil)
	case err == nil && !bytes.Equal(res, e.res):
		// Every recorded C13 finding stays terminal for its run, also the ones that look
		// like a difference of the reported result only: with an outgoing hash-slot
		// migration configured a command answered "ok" is also written to the migration
		// outbox, so the replicas' stored bytes differ from there on.
		r.FailSig("result-divergence", pick(resultKind(e.res)+"->"+resultKind(res)), fmt.Sprintf("#%d %s: reference replica (applied alone) returned %q, replica %s (%s) returned %q", e.idx, e.desc, e.res, f.n.name, how, res), nil)
	default:
		return true
	}
	return false
}

// deliver hands the next size entries to f as one ApplyBatch. With crashAt>0 a
// crash clone is taken right before the crashAt-th WAL write/sync of that call
// and the replica restarts from it afterwards.
func (w *c13World) deliver(f *replica, size, crashAt, crashPct int) {
	r := w.r
	lo, hi := f.pos, f.pos+size
	entries := w.log[lo:hi]
	cmds := make([]multiraft.Command, size)
	for i, e := range entries {
		cmds[i] = w.cmd(e)
	}
	how := fmt.Sprintf("batch #%d..#%d", entries[0].idx, entries[size-1].idx)
	if size == 1 {
		how = "alone"
	} else {
		w.batchesMulti++
	}
	if crashAt > 0 {
		f.n.gate.arm(crashAt, crashPct)
	}
	out := f.n.apply(cmds)
	var clone = f.n.gate.disarm()
	if out.panicked != "" {
		r.FailSig("panic", "apply", fmt.Sprintf("ApplyBatch panicked on replica %s (%s): %s", f.n.name, how, out.panicked), nil)
		return
	}
	r.Logf("%s applies %s => err=%s", f.n.name, how, errClass(out.err))
	if out.err == nil {
		if len(out.res) != size {
			r.Fail("result-count", fmt.Sprintf("%s: %d results for %d commands", how, len(out.res), size), nil)
			return
		}
		for i := range entries {
			if !w.compareOne(f, entries, i, out.res[i], nil, how) {
				return
			}
		}
		f.pos = hi
	} else {
		// ApplyBatch fails as a whole when one command is rejected. Some entry of the
		// batch must be one the reference replica rejected too, and nothing may have
		// been applied. The log then re-delivers the entries one at a time.
		anyRejected := false
		for _, e := range entries {
			anyRejected = anyRejected || e.rejected
		}
		if !anyRejected {
			r.FailSig("outcome-divergence", "error-only-in-batch", fmt.Sprintf("replica %s: ApplyBatch(%s) failed with %v although every entry applied cleanly on the reference replica", f.n.name, how, out.err), nil)
			return
		}
		r.Probe("batch_rejected_then_single")
		if clone == nil {
			if !w.checkState(f, "after-failed-batch", nil) {
				return
			}
			for _, e := range entries {
				o := f.n.apply([]multiraft.Command{w.cmd(e)})
				if o.panicked != "" {
					r.FailSig("panic", "apply", fmt.Sprintf("ApplyBatch panicked on replica %s (#%d alone): %s", f.n.name, e.idx, o.panicked), nil)
					return
				}
				var res []byte
				if o.err == nil {
					res = o.res[0]
				}
				if !w.compareOne(f, []logEntry{e}, 0, res, o.err, "alone after failed batch") {
					return
				}
				f.pos++
			}
		}
	}
	if clone != nil {
		r.Fault(fmt.Sprintf("crash_in_apply_pct%d", crashPct))
		r.Logf("%s crashes inside that ApplyBatch (before WAL op %d, unsynced data kept: %d%%)", f.n.name, crashAt, crashPct)
		if !f.n.restartOn(clone) {
			return
		}
		w.recover(f, lo, hi)
		return
	}
	if crashAt > 0 {
		r.Probe("crash_point_not_reached")
	}
	w.checkState(f, "after-apply", entries)
}

// recover: after a restart the replica continues from its durable applied
// index, exactly like the slot runtime. lo..hi is the batch that was in flight
// (lo==hi when none was).
func (w *c13World) recover(f *replica, lo, hi int) {
	r := w.r
	w.recoveries++
	d := int(f.n.durable())
	if d > hi || d > len(w.log) {
		r.FailSig("applied-index-ahead", "after-restart", fmt.Sprintf("replica %s recovered durable applied index %d beyond the delivered log position %d", f.n.name, d, hi), nil)
		return
	}
	if lo == hi && d < w.durablePos(hi) {
		r.FailSig("acknowledged-apply-lost", "", fmt.Sprintf("replica %s: every ApplyBatch up to #%d had returned, durable applied index after restart is %d (expected %d)", f.n.name, hi, d, w.durablePos(hi)), nil)
		return
	}
	if lo != hi && d < w.durablePos(lo) {
		r.FailSig("acknowledged-apply-lost", "in-flight", fmt.Sprintf("replica %s: batches up to #%d had returned before the crash, durable applied index after restart is %d (expected at least %d)", f.n.name, lo, d, w.durablePos(lo)), nil)
		return
	}
	f.pos = d
	r.Logf("%s recovers with durable applied index %d, replays from #%d", f.n.name, d, d+1)
	var inflight []logEntry
	if d == hi && lo < hi {
		inflight = w.log[lo:hi] // the batch that was in flight survived the crash as a whole
	}
	w.checkState(f, "after-restart", inflight)
}

// durablePos: the applied index the reference replica reported after pos entries
// is the largest index <= pos of an entry that was committed; entries that were
// rejected or were commit-time no-ops do not advance it. The harness only needs
// a lower bound that is certainly durable: the last accepted entry whose result
// is not a stale no-op.
func (w *c13World) durablePos(pos int) int {
	for p := pos; p > 0; p-- {
		e := w.log[p-1]
		if !e.rejected && string(e.res) != "stale_meta" {
			return p
		}
	}
	return 0
}

func (w *c13World) fault(maxBatch int) {
	tp, r := w.tp, w.r
	f := w.reps[tp.Intn(len(w.reps))]
	switch tp.Weighted([]int{2, 2, 3, 3}) {
	case 0:
		r.Fault("reopen")
		r.Logf("%s: clean close and reopen", f.n.name)
		if f.n.reopenClean() {
			w.recover(f, f.pos, f.pos)
		}
	case 1:
		pct := []int{0, 100}[tp.Intn(2)]
		r.Fault(fmt.Sprintf("crash_between_batches_pct%d", pct))
		r.Logf("%s: crash between batches (unsynced data kept: %d%%)", f.n.name, pct)
		if f.n.crashNow(pct) {
			w.recover(f, f.pos, f.pos)
		}
	case 2:
		if f.pos >= len(w.log) {
			r.Probe("crash_in_apply_skipped_no_backlog")
			return
		}
		size := 1 + tp.Intn(min(maxBatch, len(w.log)-f.pos))
		w.deliver(f, size, 1+tp.Intn(3), []int{0, 100}[tp.Intn(2)])
	case 3:
		w.snapshotRestore(f)
	}
}

// snapshotRestore replaces replica f by a snapshot of another replica taken at
// that replica's current log position.
func (w *c13World) snapshotRestore(f *replica) {
	tp, r := w.tp, w.r
	srcNode, srcPos, srcName := w.ref, len(w.log), "ref"
	if tp.Intn(2) == 0 {
		for _, o := range w.reps {
			if o != f {
				srcNode, srcPos, srcName = o.n, o.pos, o.n.name
			}
		}
	}
	snap, err := srcNode.sm.Snapshot(context.Background())
	if err != nil {
		r.Infra("snapshot %s: %v", srcName, err)
		return
	}
	snap.Index, snap.Term = uint64(srcPos), 1
	fresh := tp.Intn(2) == 0 || f.pos > srcPos
	r.Fault("snapshot_restore")
	r.Logf("%s is restored from a snapshot of %s at #%d (%d bytes, fresh=%v)", f.n.name, srcName, srcPos, len(snap.Data), fresh)
	if fresh {
		f.n.close()
		n := w.newNode(f.n.name + "'")
		if !n.open() {
			return
		}
		f.n = n
	}
	if err := f.n.sm.Restore(context.Background(), snap); err != nil {
		r.FailSig("restore-failed", errClass(err), fmt.Sprintf("restoring a snapshot of %s at #%d into %s: %v", srcName, srcPos, f.n.name, err), nil)
		return
	}
	f.pos = srcPos
	f.skipForeign = f.skipForeign || w.foreignDirty
	w.recoveries++
	if d := int(f.n.durable()); srcPos > 0 && d != srcPos {
		r.FailSig("restore-applied-index", "", fmt.Sprintf("after restoring a snapshot at #%d the durable applied index is %d", srcPos, d), nil)
		return
	}
	w.checkState(f, "after-snapshot-restore", nil)
}
