package message

// storesim: deterministic simulation of the node-local message store.
//
// One run = one synctest bubble holding one real message.Engine (MessageDB,
// channel registry, ChannelLog / ChannelStore, commit coordinator, Pebble) on
// a crashable in-memory disk. A tape-driven history of mutations is applied
// to the store and to a reference model; after every operation the store is
// read back through its own read and lookup APIs (and, white-box, through raw
// key scans of every index family) and compared with the model.
//
//	C07  the store is a faithful sequential log (rows, log end, lookups, indexes)
//	C08  one message per (sender, client message number); ids unique per node
//	C09  crash atomicity: the disk is cloned before EVERY mutating file-system
//	     call in three crash modes; each clone is reopened and must hold, per
//	     channel, a prefix of the issued mutations that contains every
//	     acknowledged one, with rows, indexes, manifests and identities complete.

import (
	"context"
	"fmt"
	"os"
	"runtime"
	"sort"
	"sync"
	"sync/atomic"
	"testing"
	"time"

	"github.com/WuKongIM/WuKongIM/internal/verifsim/simkit"
	"github.com/WuKongIM/WuKongIM/pkg/db/internal/engine"
	"github.com/cockroachdb/pebble/v2"
	"github.com/cockroachdb/pebble/v2/vfs"
)

func TestVerifSim(t *testing.T) {
	simkit.Main(t, simkit.Engine{
		Name: "storesim",
		Props: map[string]simkit.PropFunc{
			"C07": runStore,
			"C08": runStore,
			"C09": runStore,
		},
		Real: []string{"message.Engine opened through message.Open (engine.Open + NewDB + commit coordinator)",
			"MessageDB channel registry (leases, warm cache, reclamation)", "ChannelLog typed API (Append/ApplyFetch/TruncateFrom/TrimPrefixThrough/checkpoint/history, reads and lookups)",
			"ChannelStore compatibility API (StoreAppendBatch incl. exact proposals, StoreApplyFetch*, Truncate*, retention adopt/trim, checkpoint HW, ReplaceRecoverySuffix, DiscardForRestore, LoadDurableFrontier/Recovery/Proposal)",
			"commit.Coordinator (group commit, lanes, shards)", "engine.DB / engine.Batch", "Pebble v2.1.4 (WAL, memtable flushes, compactions, manifest, recovery)", "idempotency negative filter"},
		Stub: []string{"disk: pebble vfs.NewCrashableMem behind a counting/cloning gate (crash = CrashClone with 100%/0%/~50% of unsynced data)",
			"clients (tape-driven, one operation or one cross-channel group at a time)", "clock (synctest fake clock)"},
		Rule: "One run = one synctest bubble with one real message engine on a simulated disk, 1-5 channels of three flavours (typed ChannelLog API, compatibility ChannelStore API, exact-proposal API), " +
			"a tape-driven history (C07/C08: 20-80 operations; C09: 0-16 un-enumerated prelude operations ending with a directed retention adopt+trim on some channels, then 2-7 steps whose every disk call is a crash point, biased to truncations and suffix replacements of logs that carry retention state) of appends, applies, truncations, trims, checkpoints, replacements, cleanups, cross-channel client groups, lease cycles and database reopens; one run in four has no reopen / lease reclamation / cache eviction. " +
			"Non-trivial: C07 = a full read-back succeeded and (at least 8 successful mutations including a removal and a full read-back after a reopen or lease reclamation, or a fault-free run with at least 15 mutations); " +
			"C08 = at least one duplicate was rejected and at least one fresh append was accepted after it; " +
			"C09 = at least one acknowledged mutation and at least 10 crash images per crash mode (process kill, power loss, torn) examined (a crash-free control run counts with 8 mutations and a full read-back).",
		Assumptions: []string{"testing/synctest fake clock and quiescence (go1.26.8)",
			"pebble vfs.MemFS crash-clone semantics model the disk: synced data survives, unsynced 4 KiB blocks and directory entries survive independently with the chosen probability",
			"the Pebble options of the repo are kept except: file system, memtable size, block cache size, L0 compaction threshold, table-stats collection and read sampling disabled, silent logger",
			"operations on one channel are issued one at a time; cross-channel groups only touch distinct channels and never collide on message ids inside one group",
			"torn-write clones are not reproducible bit for bit (MemFS iterates a Go map while drawing); verdicts do not depend on it unless a defect exists"},
	})
}

// violation classes per property; a class of another property ends the run
// and is counted as a probe only.
var storeClassProp = map[string]string{
	"leo-mismatch": "C07", "read-mismatch": "C07", "row-unreadable": "C07", "lookup-mismatch": "C07", "index-mismatch": "C07",
	"state-mismatch": "C07", "unexpected-error": "C07", "unexpected-success": "C07", "result-mismatch": "C07", "frontier-mismatch": "C07",
	"duplicate-accepted": "C08", "fresh-rejected": "C08", "duplicate-stored": "C08", "idempotency-lookup-mismatch": "C08", "message-id-lookup-mismatch": "C08",
	"crash-reopen-failed": "C09", "crash-not-prefix": "C09", "crash-global-index": "C09", "crash-background-error": "C09",
}

type flavour int

const (
	flTyped flavour = iota
	flCompat
	flExact
)

var flavourName = []string{"typed", "compat", "exact"}

type cfg struct {
	Channels   int
	Flavours   []flavour
	Ops        int
	MemTable   int
	L0         int
	CacheKB    int
	Window     time.Duration
	MaxReq     int
	Shards     int
	Warm       int
	NoFaults   bool
	ReopenW    int
	LeaseW     int
	GroupW     int
	EmptyTyped bool
	TruncSlack bool
	Collide    int
	Saturate   bool
	Alphabet   int
	BigPayload int
	Crash      bool
	CrashOpen  bool
	TornPct    int
	CheckEvery int
	// C09: operations applied (without crash enumeration) before the
	// enumerated steps, so that those steps start from a store that already
	// holds rows, watermarks, retention state and proposal chains; and how
	// strongly the enumerated steps prefer mutations that shrink the log.
	Prelude    int
	ShrinkBias int
	// C08: number of distinct idempotency keys bulk-loaded into channel 0 before
	// the history (0 = off). The regime crosses every sizing constant of the
	// negative membership filter with margin (primary capacity 384, the overflow
	// layer, anything derived from them), then forces a filter rebuild and
	// re-sends keys from the whole index order.
	ManyKeys int
}

func drawStoreCfg(r *simkit.Run) cfg {
	tp := r.Tape
	c := cfg{}
	c.Channels = 2 + tp.Weighted([]int{3, 3, 2, 1})
	switch r.Property {
	case "C09":
		c.Channels = 1 + tp.Weighted([]int{3, 3, 2})
	}
	mix := tp.Intn(4) // 0 mixed, 1 typed-heavy, 2 compat-heavy, 3 exact-heavy
	order := [][]flavour{{flTyped, flCompat, flExact}, {flTyped, flCompat, flExact}, {flCompat, flTyped, flExact}, {flExact, flTyped, flCompat}}
	for i := 0; i < c.Channels; i++ {
		ws := []int{1, 1, 1}
		if mix != 0 {
			ws = []int{6, 1, 1}
		}
		c.Flavours = append(c.Flavours, order[mix][tp.Weighted(ws)])
	}
	c.Ops = 20 + tp.Intn(41)
	c.MemTable = []int{1 << 20, 32 << 10, 64 << 10, 256 << 10}[tp.Intn(4)]
	c.L0 = []int{8, 2, 1}[tp.Intn(3)]
	c.CacheKB = []int{1024, 64, 8}[tp.Intn(3)]
	c.Window = []time.Duration{0, -1, 2 * time.Millisecond}[tp.Intn(3)]
	c.MaxReq = []int{0, 1, 2}[tp.Intn(3)]
	c.Shards = 1 + tp.Weighted([]int{3, 1})
	c.Warm = []int{8192, 1, 0}[tp.Intn(3)]
	c.NoFaults = tp.Intn(4) == 0
	c.ReopenW = 1 + tp.Intn(3)
	c.LeaseW = 1 + tp.Intn(3)
	c.GroupW = tp.Intn(4)
	c.Collide = tp.Intn(4)
	c.Alphabet = 2 + tp.Intn(5)
	c.BigPayload = tp.Intn(3)
	c.CheckEvery = 4 + tp.Intn(8)
	switch r.Property {
	case "C07":
		c.EmptyTyped = tp.Intn(4) == 1
		c.TruncSlack = tp.Intn(4) == 1
	case "C08":
		c.Collide = 2 + tp.Intn(2)
		c.Alphabet = 2 + tp.Intn(3)
		c.Saturate = tp.Intn(6) == 1
		c.BigPayload = 0
		if c.Saturate {
			// few channels and a longer history so that one channel's negative
			// filter (384 primary slots) really saturates and is then probed
			c.Channels = 1 + tp.Intn(2)
			c.Flavours = c.Flavours[:c.Channels]
			for i := range c.Flavours {
				if c.Flavours[i] == flExact {
					c.Flavours[i] = flCompat
				}
			}
			c.Ops = 50 + tp.Intn(30)
			c.Collide = 3
		} else if tp.Intn(8) == 7 {
			c.ManyKeys = 1300 + tp.Intn(1201)
			c.Channels = 1 + tp.Intn(2)
			c.Flavours = c.Flavours[:c.Channels]
			if c.Flavours[0] == flExact {
				c.Flavours[0] = flCompat
			}
			c.Ops = 6 + tp.Intn(10)
			c.CheckEvery = 1 << 30
		}
	case "C09":
		c.Ops = 2 + tp.Intn(6)
		if r.Tier == "thorough" {
			c.Ops = 3 + tp.Intn(12)
		}
		c.Crash = tp.Intn(6) != 1
		if !c.Crash {
			c.Ops = 10 + tp.Intn(20)
		}
		c.CrashOpen = tp.Intn(8) == 1
		c.TornPct = 30 + tp.Intn(41)
		c.CheckEvery = 1 << 30
		// small memtables and large rows: flushes, manifest edits and compactions
		// must fall inside the 2-7 steps whose disk calls are enumerated
		c.MemTable = []int{32 << 10, 16 << 10, 256 << 10}[tp.Intn(3)]
		c.BigPayload = 1 + tp.Intn(2)*3
		if c.Crash {
			// multi-step preconditions (retention trim or adopted boundary, then a
			// truncation / suffix replacement, then the crash) do not fit into 2-7
			// random steps: build them up first, enumerate afterwards
			c.Prelude = []int{0, 6, 10, 16}[tp.Intn(4)]
			c.ShrinkBias = tp.Intn(3)
		}
	}
	if c.NoFaults {
		c.Warm = 8192
	}
	return c
}

type idLoc struct {
	ch  int
	seq uint64
}

type world struct {
	t    *testing.T
	r    *simkit.Run
	c    cfg
	ctx  context.Context
	disk *simDisk
	eng  *Engine

	useFS          vfs.FS
	openingPrimary bool

	mu    sync.Mutex // guards step and every channel's acked/states (read from disk gate)
	step  int
	chans []*simChan

	nextID   uint64
	avoidIDs map[uint64]bool // ids already used by another channel of the current call / group
	bulk     bool            // generating a bulk append of distinct keys (filter saturation)
	forceBulk bool
	liveIDs  map[uint64]idLoc
	graveIDs []uint64
	cmdSeq   uint64

	flushes     atomic.Int64
	compactions atomic.Int64
	groupMax    atomic.Int64
	bgMu        sync.Mutex
	bgErrs      []string

	tainted bool
	prelude bool // C09: building up state before the enumerated steps
	// directed retention arguments (touchRetention)
	forceThrough     uint64
	forceMaxMessages int

	// statistics for the non-triviality rule and probes
	mutations    int
	removals     int
	dupRejected  int
	freshAfter   int
	fullChecks   int
	checkedAfter bool // a full check happened after a reopen / lease reclamation
	disturbed    bool // a reopen or lease reclamation happened since the last full check
	crashChecked [crashModes]int
	crashSeen    map[string][]int
	ackedMuts    int
}

type quietLogger struct{}

func (quietLogger) Infof(string, ...interface{})  {}
func (quietLogger) Errorf(string, ...interface{}) {}
func (quietLogger) Fatalf(format string, args ...interface{}) {
	panic("pebble fatal: " + fmt.Sprintf(format, args...))
}

func (w *world) hook(o *pebble.Options) {
	primary := w.openingPrimary
	o.FS = w.useFS
	o.MemTableSize = uint64(w.c.MemTable)
	o.CacheSize = int64(w.c.CacheKB) << 10
	o.L0CompactionThreshold = w.c.L0
	o.Logger = quietLogger{}
	o.DisableTableStats = true
	o.Experimental.ReadSamplingMultiplier = -1
	o.EventListener = &pebble.EventListener{
		FlushEnd: func(pebble.FlushInfo) {
			if primary {
				w.flushes.Add(1)
			}
		},
		CompactionEnd: func(pebble.CompactionInfo) {
			if primary {
				w.compactions.Add(1)
			}
		},
		BackgroundError: func(err error) {
			w.bgMu.Lock()
			w.bgErrs = append(w.bgErrs, err.Error())
			w.bgMu.Unlock()
		},
	}
}

func (w *world) takeBgErrs() []string {
	w.bgMu.Lock()
	defer w.bgMu.Unlock()
	e := w.bgErrs
	w.bgErrs = nil
	return e
}

// observer of the commit coordinator (probe: requests grouped into one commit).
func (w *world) SetCommitCoordinatorQueueDepth(int) {}
func (w *world) ObserveCommitCoordinatorBatch(ev CommitCoordinatorBatchEvent) {
	for {
		cur := w.groupMax.Load()
		if int64(ev.Requests) <= cur || w.groupMax.CompareAndSwap(cur, int64(ev.Requests)) {
			return
		}
	}
}

func (w *world) fail(class, sig, detail string) {
	if w.r.Failed() || w.tainted {
		return
	}
	if storeClassProp[class] != w.r.Property {
		w.r.Probe("run_ended_by_other_property:" + class + "/" + sig)
		w.r.Logf("run ends: violation of another property's class %s/%s: %s", class, sig, detail)
		w.tainted = true
		return
	}
	w.r.FailSig(class, sig, detail, nil)
}

func (w *world) stop() bool { return w.r.Failed() || w.tainted || w.r.InfraErr != "" }

// openOn opens a message engine on fs exactly as production does.
func (w *world) openOn(fs vfs.FS, configure bool) (*Engine, error) {
	w.useFS = fs
	w.openingPrimary = configure
	eng, err := Open("/db")
	if err != nil {
		return nil, err
	}
	if configure {
		eng.ConfigureCommitCoordinator(CommitCoordinatorConfig{FlushWindow: w.c.Window, MaxRequests: w.c.MaxReq, Shards: w.c.Shards, Observer: w})
		eng.db.registry.maxWarmEntries = w.c.Warm
	}
	return eng, nil
}

func (w *world) openPrimary() bool {
	eng, err := w.openOn(w.disk.fs(), true)
	if err != nil {
		w.r.Infra("open primary: %v", err)
		return false
	}
	w.eng = eng
	for _, c := range w.chans {
		if !w.acquire(c) {
			return false
		}
	}
	return true
}

func (w *world) acquire(c *simChan) bool {
	log, err := w.eng.db.Channel(c.key, c.id)
	if err != nil {
		w.r.Infra("acquire log %s: %v", c.key, err)
		return false
	}
	store, err := w.eng.ForChannel(chKey(c.key), chID(c.id))
	if err != nil {
		log.Close()
		w.r.Infra("acquire store %s: %v", c.key, err)
		return false
	}
	c.log, c.store = log, store
	return true
}

func (w *world) release(c *simChan) {
	if c.store != nil {
		c.store.Close()
		c.store = nil
	}
	if c.log != nil {
		c.log.Close()
		c.log = nil
	}
}

func (w *world) closePrimary() {
	if w.eng == nil {
		return
	}
	for _, c := range w.chans {
		w.release(c)
	}
	if err := w.eng.Close(); err != nil {
		w.r.Infra("close primary: %v", err)
	}
	w.eng = nil
	simkit.Wait()
}

// snapshot is called by the disk gate (any goroutine) before a mutating call.
func (w *world) snapshot() (int, []chanExpect) {
	w.mu.Lock()
	defer w.mu.Unlock()
	ex := make([]chanExpect, len(w.chans))
	for i, c := range w.chans {
		ex[i] = chanExpect{acked: c.acked, issued: len(c.states) - 1}
	}
	return w.step, ex
}

func runStore(t *testing.T, r *simkit.Run) {
	c := drawStoreCfg(r)
	fl := make([]string, len(c.Flavours))
	for i, f := range c.Flavours {
		fl[i] = flavourName[f]
	}
	r.Config = map[string]any{"channels": c.Channels, "flavours": fl, "ops": c.Ops, "memtable": c.MemTable, "l0": c.L0, "cache_kb": c.CacheKB,
		"window_us": c.Window.Microseconds(), "max_req": c.MaxReq, "shards": c.Shards, "warm": c.Warm, "nofaults": c.NoFaults,
		"collide": c.Collide, "alphabet": c.Alphabet, "saturate": c.Saturate, "empty_typed": c.EmptyTyped, "trunc_slack": c.TruncSlack,
		"crash": c.Crash, "crash_open": c.CrashOpen, "torn_pct": c.TornPct, "group_w": c.GroupW, "big": c.BigPayload,
		"prelude": c.Prelude, "shrink_bias": c.ShrinkBias, "many_keys": c.ManyKeys}
	r.Logf("cfg %v", simkitConfigLine(r.Config))
	w := &world{t: t, r: r, c: c, ctx: context.Background(), disk: newSimDisk(), liveIDs: map[uint64]idLoc{}, nextID: 1000, crashSeen: map[string][]int{}}
	w.disk.tornPct = c.TornPct
	w.disk.tornSeed = r.Tape.Uint64()
	w.disk.snapshot = w.snapshot
	simkit.Bubble(t, r, func() {
		engine.VerifPebbleHook = w.hook
		defer func() { engine.VerifPebbleHook = nil }()
		defer w.closePrimary()
		w.run()
	})
	// Pebble keeps sync.Pools of objects that carry channels and WaitGroups
	// (sstable write tasks, batches). An object created in this run's bubble
	// must never reach the next run's bubble: two collections empty every pool.
	runtime.GC()
	runtime.GC()
	w.finish()
	if os.Getenv("VERIF_DEBUG_TRACE") != "" {
		for _, l := range r.Trace() {
			fmt.Println("TRACE " + l)
		}
	}
}

func simkitConfigLine(m map[string]any) string {
	ks := make([]string, 0, len(m))
	for k := range m {
		ks = append(ks, k)
	}
	sort.Strings(ks)
	s := ""
	for _, k := range ks {
		s += fmt.Sprintf("%s=%v ", k, m[k])
	}
	return s
}

func (w *world) run() {
	for i := 0; i < w.c.Channels; i++ {
		c := &simChan{idx: i, key: ChannelKey(fmt.Sprintf("k%d", i)), id: ChannelID{ID: fmt.Sprintf("ch%d", i), Type: uint8(1 + i%2)}, fl: w.c.Flavours[i],
			epoch: 3, term: 5, fence: 7}
		c.states = []*mstate{{}}
		w.chans = append(w.chans, c)
	}
	if w.c.Crash && w.c.CrashOpen {
		w.disk.cloning = true
	}
	if !w.openPrimary() {
		return
	}
	simkit.Wait()
	if w.c.Crash {
		w.checkCrashPoints() // crash points of the first open (CrashOpen runs)
		w.disk.cloning = false
		w.prelude = true
		for op := 0; op < w.c.Prelude && !w.stop(); op++ {
			w.mu.Lock()
			w.step++
			w.mu.Unlock()
			w.r.Steps++
			w.oneStep()
			simkit.Wait()
			if es := w.takeBgErrs(); len(es) > 0 {
				w.r.Infra("pebble background error on the primary: %v", es)
				return
			}
		}
		if w.c.Prelude > 0 {
			for _, c := range w.chans {
				if !w.stop() && c.fl != flTyped && w.r.Tape.Intn(3) != 0 {
					w.touchRetention(c)
					simkit.Wait()
				}
			}
		}
		w.prelude = false
		if w.stop() {
			return
		}
		if w.c.Prelude > 0 {
			w.fullCheck("prelude")
			if w.stop() {
				return
			}
			for _, c := range w.chans {
				st := c.st()
				if st.hasRet && st.lastRowSeq() > st.ret.PhysicalRetentionThroughSeq {
					w.r.Probe("prelude.retention_with_live_tail")
				}
			}
		}
		w.r.Logf("crash enumeration starts after step %d", w.step)
		w.disk.cloning = true
	}
	if w.c.ManyKeys > 0 {
		w.manyKeysPhase()
		simkit.Wait()
	}
	for op := 0; op < w.c.Ops && !w.stop(); op++ {
		w.mu.Lock()
		w.step++
		w.mu.Unlock()
		w.r.Steps++
		w.oneStep()
		simkit.Wait()
		if es := w.takeBgErrs(); len(es) > 0 {
			w.r.Infra("pebble background error on the primary: %v", es)
			return
		}
		for _, c := range w.chans {
			st := c.st()
			w.r.State(c.fl, len(st.rows), st.leo-st.lastRowSeq(), st.hasRet, st.hwOr0(), len(st.props), len(st.hist))
		}
		if w.stop() {
			break
		}
		if w.c.Crash {
			w.checkCrashPoints()
		} else if (op+1)%w.c.CheckEvery == 0 {
			w.fullCheck("periodic")
		}
	}
	if w.stop() {
		return
	}
	if w.c.Crash {
		// crash while idle after the last step, then during a clean shutdown
		w.disk.takeNow("idle")
		w.checkCrashPoints()
		w.mu.Lock()
		w.step++
		w.mu.Unlock()
		w.r.Logf("op %d shutdown", w.step)
		w.closePrimary()
		w.disk.takeNow("closed")
		w.checkCrashPoints()
		w.disk.cloning = false
		if w.stop() || !w.openPrimary() {
			return
		}
	}
	w.fullCheck("final")
}

func (w *world) finish() {
	r := w.r
	r.ProbeN("pebble.flush", int(w.flushes.Load()))
	r.ProbeN("pebble.compaction", int(w.compactions.Load()))
	if g := w.groupMax.Load(); g > 1 {
		r.Probe("coordinator.group>1")
	}
	r.ProbeN("fs.ops", w.disk.opCount())
	for _, c := range w.chans {
		r.State(c.fl, len(c.st().rows), c.st().leo, c.st().hasRet, c.st().hasCP, len(c.st().props))
	}
	if r.Failed() || w.tainted {
		return
	}
	switch r.Property {
	case "C07":
		r.Nontrivial = w.fullChecks > 0 && ((w.mutations >= 8 && w.removals >= 1 && w.checkedAfter) || (w.c.NoFaults && w.mutations >= 15))
	case "C08":
		r.Nontrivial = w.dupRejected >= 1 && w.freshAfter >= 1
	case "C09":
		r.Nontrivial = w.ackedMuts >= 1 && w.crashChecked[crashKill] >= 10 && w.crashChecked[crashPower] >= 10 && w.crashChecked[crashTorn] >= 10
		if !w.c.Crash {
			r.Nontrivial = w.mutations >= 8 && w.fullChecks > 0
		}
	}
}
