package message

// C08 "many keys" regime: channel 0 is bulk-loaded with more distinct
// idempotency keys than any sizing constant of the negative membership filter
// (primary capacity, overflow layer, anything derived from them), the filter is
// forced to be rebuilt (database reopen, or lease reclamation without warm
// state), and keys from the whole index order - first, middle, the last ones -
// are sent again with fresh message ids. Every re-send must be refused; fresh
// keys must be accepted.

import (
	"fmt"
	"sort"
)

func (w *world) manyKeysPhase() {
	tp := w.r.Tape
	c := w.chans[0]
	total := w.c.ManyKeys
	w.r.Logf("many-keys regime: loading %d keyed rows into %s (%s)", total, c.key, flavourName[c.fl])
	loaded := 0
	for loaded < total && !w.stop() {
		n := 250
		if total-loaded < n {
			n = total - loaded
		}
		st := c.st()
		rows := make([]mrow, n)
		for i := range rows {
			w.nextID++
			k := loaded + i
			rows[i] = mrow{Seq: st.leo + uint64(i) + 1, ID: w.nextID, From: fromAlphabet[1+k%2], CMN: fmt.Sprintf("b%05d", k), Payload: []byte{byte(k)},
				TS: 1_700_000_000_000 + int64(k%1000), ChannelID: c.id.ID, ChannelType: c.id.Type}
		}
		w.stamp(c, rows)
		ns := st.clone()
		ns.appendRows(rows)
		w.issue(c, ns)
		var err error
		if c.fl == flTyped {
			_, err = c.log.Append(w.ctx, typedRecords(rows), AppendOptions{Mode: AppendTrustedContiguous})
		} else {
			_, err = c.store.AppendTrusted(w.compatRecords(rows, 0, false))
		}
		if err != nil {
			w.fail("unexpected-error", "many-keys.load", fmt.Sprintf("bulk append of %d rows on %s: %v", n, c.key, err))
			return
		}
		w.ack(c)
		w.ackedMuts++
		w.mutations++
		w.noteAdded(c, rows)
		loaded += n
	}
	if w.stop() {
		return
	}
	w.r.Probe("manykeys.loaded")
	// force a rebuild of the negative filter
	if tp.Intn(2) == 0 {
		w.r.Logf("many-keys regime: reopen the database")
		w.closePrimary()
		if w.r.InfraErr != "" || !w.openPrimary() {
			return
		}
		for _, x := range w.chans {
			x.reopenGen++
			x.leaseGen++
		}
		w.r.Fault("reopen")
	} else {
		w.r.Logf("many-keys regime: reclaim the entry without warm state")
		w.eng.db.registry.maxWarmEntries = 0
		w.release(c)
		if !w.acquire(c) {
			return
		}
		c.leaseGen++
		w.r.Fault("lease_reclaim")
	}
	// the stored keys in index order (client message number first, then sender)
	st := c.st()
	keyed := make([]mrow, 0, len(st.rows))
	for _, r := range st.rows {
		if r.From != "" && r.CMN != "" {
			keyed = append(keyed, r)
		}
	}
	sort.Slice(keyed, func(i, j int) bool {
		if keyed[i].CMN != keyed[j].CMN {
			return keyed[i].CMN < keyed[j].CMN
		}
		return keyed[i].From < keyed[j].From
	})
	n := len(keyed)
	picks := []int{0, n / 2, n - 1, n - 1 - tp.Intn(64), n - 1 - tp.Intn(64), n/2 + tp.Intn(n/2), tp.Intn(n), -1, n - 1 - tp.Intn(64), -1}
	for _, pi := range picks {
		if w.stop() {
			return
		}
		st = c.st()
		w.nextID++
		row := mrow{Seq: st.leo + 1, ID: w.nextID, Payload: []byte{7}, TS: 1_700_000_000_500, ChannelID: c.id.ID, ChannelType: c.id.Type}
		what := "fresh key"
		if pi >= 0 {
			row.From, row.CMN = keyed[pi].From, keyed[pi].CMN
			what = fmt.Sprintf("stored key #%d of %d in index order", pi+1, n)
		} else {
			c.uniq++
			row.From, row.CMN = "u0", fmt.Sprintf("z%05d", c.uniq)
		}
		mode := AppendMode(tp.Intn(2)) // strict or server-allocated ids: both must consult the key index
		rows := []mrow{row}
		w.stamp(c, rows)
		v := w.predictRows(c, st, rows, mode)
		w.r.Logf("many-keys regime: re-send %s (%q,%q) mode=%d expect=%s", what, row.From, row.CMN, mode, kindName[v.kind])
		if v.kind == kOK {
			ns := st.clone()
			ns.appendRows(rows)
			w.issue(c, ns)
		}
		var err error
		switch {
		case c.fl == flTyped:
			_, err = c.log.Append(w.ctx, typedRecords(rows), AppendOptions{Mode: mode})
		case mode == AppendStrict:
			_, err = c.store.Append(w.compatRecords(rows, 0, false))
		default:
			_, err = c.store.AppendServerAllocated(w.compatRecords(rows, 0, false))
		}
		w.r.Logf("  -> err=%v", err)
		if !w.judgeAppend(c, "many-keys.resend", v, kOK, err, rows) {
			return
		}
		if v.kind == kOK {
			w.ack(c)
			w.ackedMuts++
			w.noteAdded(c, rows)
		}
		w.r.Probe("manykeys.resend")
	}
	w.saturationProbe(c)
	w.checkChannel(c, 0)
}
