package message

// Oracles of the storesim engine: read the store back through its own read
// and lookup APIs, and through raw key scans of every index / system family,
// and compare with a model state. Used live (C07/C08) and on crash images (C09).

import (
	"bytes"
	"encoding/binary"
	"errors"
	"fmt"
	"os"
	"sort"
	"strings"

	"github.com/WuKongIM/WuKongIM/internal/verifsim/simkit"
	"github.com/WuKongIM/WuKongIM/pkg/db/internal/dberrors"
	"github.com/WuKongIM/WuKongIM/pkg/db/internal/engine"
	"github.com/WuKongIM/WuKongIM/pkg/db/internal/keycodec"
	channel "github.com/WuKongIM/WuKongIM/pkg/db/message/channelcompat"
	"github.com/WuKongIM/WuKongIM/pkg/quorumlog"
	"github.com/cockroachdb/pebble/v2/vfs"
)

type mismatch struct {
	class, sig, detail string
}

func mm(class, sig, format string, args ...any) *mismatch {
	return &mismatch{class: class, sig: sig, detail: fmt.Sprintf(format, args...)}
}

type handles struct {
	db    *MessageDB
	log   *ChannelLog
	store *ChannelStore
}

func rowVsMessage(r mrow, m Message) string {
	switch {
	case m.MessageSeq != r.Seq:
		return fmt.Sprintf("seq %d != %d", m.MessageSeq, r.Seq)
	case m.MessageID != r.ID:
		return fmt.Sprintf("seq %d: id %d != %d", r.Seq, m.MessageID, r.ID)
	case m.FromUID != r.From:
		return fmt.Sprintf("seq %d: from %q != %q", r.Seq, m.FromUID, r.From)
	case m.ClientMsgNo != r.CMN:
		return fmt.Sprintf("seq %d: client msg no %q != %q", r.Seq, m.ClientMsgNo, r.CMN)
	case !bytes.Equal(m.Payload, r.Payload):
		return fmt.Sprintf("seq %d: payload differs (len %d vs %d)", r.Seq, len(m.Payload), len(r.Payload))
	case m.PayloadHash != r.hash():
		return fmt.Sprintf("seq %d: payload hash %d != %d", r.Seq, m.PayloadHash, r.hash())
	case m.ServerTimestampMS != r.TS:
		return fmt.Sprintf("seq %d: server ts %d != %d", r.Seq, m.ServerTimestampMS, r.TS)
	case m.ChannelID != r.ChannelID || m.ChannelType != r.ChannelType:
		return fmt.Sprintf("seq %d: channel %q/%d != %q/%d", r.Seq, m.ChannelID, m.ChannelType, r.ChannelID, r.ChannelType)
	}
	return ""
}

func rowVsCompat(r mrow, m channel.Message) string {
	flags := uint8(0)
	for i, b := range []bool{m.Framer.NoPersist, m.Framer.RedDot, m.Framer.SyncOnce, m.Framer.DUP, m.Framer.HasServerVersion, m.Framer.End} {
		if b {
			flags |= 1 << i
		}
	}
	switch {
	case m.MessageSeq != r.Seq || m.MessageID != r.ID:
		return fmt.Sprintf("seq/id %d/%d != %d/%d", m.MessageSeq, m.MessageID, r.Seq, r.ID)
	case m.FromUID != r.From || m.ClientMsgNo != r.CMN:
		return fmt.Sprintf("seq %d: key %q/%q != %q/%q", r.Seq, m.FromUID, m.ClientMsgNo, r.From, r.CMN)
	case !bytes.Equal(m.Payload, r.Payload):
		return fmt.Sprintf("seq %d: payload differs", r.Seq)
	case m.ServerTimestampMS != r.TS:
		return fmt.Sprintf("seq %d: server ts %d != %d", r.Seq, m.ServerTimestampMS, r.TS)
	case flags != r.Flags&63 || uint8(m.Setting) != r.Setting || uint8(m.StreamFlag) != r.StreamFlag:
		return fmt.Sprintf("seq %d: flags/setting/stream %d/%d/%d != %d/%d/%d", r.Seq, flags, m.Setting, m.StreamFlag, r.Flags&63, r.Setting, r.StreamFlag)
	case m.MsgKey != r.MsgKey || m.Expire != r.Expire || m.ClientSeq != r.ClientSeq || m.StreamNo != r.StreamNo || m.StreamID != r.StreamID ||
		m.Timestamp != r.Timestamp || m.Topic != r.Topic || m.ChannelID != r.ChannelID || m.ChannelType != r.ChannelType:
		return fmt.Sprintf("seq %d: header fields differ: %+v vs %+v", r.Seq, m, r)
	}
	return ""
}

func compareRows(what string, got []Message, want []mrow) *mismatch {
	if len(got) != len(want) {
		return mm("read-mismatch", what, "%s returned %d messages (%s), model has %d (%s)", what, len(got), seqsOf(got), len(want), seqsOfRows(want))
	}
	for i := range want {
		if d := rowVsMessage(want[i], got[i]); d != "" {
			return mm("read-mismatch", what, "%s[%d]: %s", what, i, d)
		}
	}
	return nil
}

func seqsOf(ms []Message) string {
	if len(ms) == 0 {
		return "none"
	}
	return fmt.Sprintf("%d..%d", ms[0].MessageSeq, ms[len(ms)-1].MessageSeq)
}

func seqsOfRows(rs []mrow) string {
	if len(rs) == 0 {
		return "none"
	}
	return fmt.Sprintf("%d..%d", rs[0].Seq, rs[len(rs)-1].Seq)
}

func sample(n, max int) []int {
	idx := make([]int, 0, max)
	if n <= max {
		for i := 0; i < n; i++ {
			idx = append(idx, i)
		}
		return idx
	}
	step := n / max
	for i := 0; i < n && len(idx) < max-1; i += step {
		idx = append(idx, i)
	}
	return append(idx, n-1)
}

// diffChannel compares one channel of an open store with a model state and
// returns the first disagreement. level 0: log end, full forward read, system
// records; level 1: every read / lookup API and the raw key scan. tp (may be
// nil) supplies random read arguments.
func (w *world) diffChannel(h handles, c *simChan, st *mstate, level int, tp *simkit.Tape) *mismatch {
	ctx := w.ctx
	leo, err := h.log.LEO(ctx)
	if err != nil {
		return mm("leo-mismatch", "error", "LEO(%s): %v", c.key, err)
	}
	if leo != st.leo {
		if st.retSlack && st.hasRet {
			return mm("leo-mismatch", "typed-truncate-keeps-retained-max", "LEO(%s) = %d, a sequential log ends at %d (TruncateFrom left RetainedMaxSeq above the new end, so recovery / the next trim restore the old log end)", c.key, leo, st.leo)
		}
		return mm("leo-mismatch", "value", "LEO(%s) = %d, model %d (rows %s)", c.key, leo, st.leo, seqsOfRows(st.rows))
	}
	msgs, err := h.log.Read(ctx, 1, ReadOptions{})
	if err != nil {
		if c.emptyTyped && strings.Contains(err.Error(), "payload hash mismatch") {
			return mm("row-unreadable", "typed-append-empty-payload", "Read(%s): %v — a typed Append stored a zero-length payload with hash 0 and every read crossing it now fails", c.key, err)
		}
		return mm("row-unreadable", "read-error", "Read(%s, 1): %v", c.key, err)
	}
	if m := compareRows("Read(1)", msgs, st.rows); m != nil {
		return m
	}
	// duplicates among the stored rows themselves (C08)
	seenKey := map[[2]string]uint64{}
	for _, m := range msgs {
		if m.FromUID == "" || m.ClientMsgNo == "" {
			continue
		}
		k := [2]string{m.FromUID, m.ClientMsgNo}
		if prev, dup := seenKey[k]; dup {
			return mm("duplicate-stored", "key", "channel %s stores (%q,%q) at seq %d and %d", c.key, m.FromUID, m.ClientMsgNo, prev, m.MessageSeq)
		}
		seenKey[k] = m.MessageSeq
	}
	if _, inCatalog, err := h.db.engine.Get(encodeCatalogKey(c.key)); err != nil || inCatalog != st.catalog {
		return mm("state-mismatch", "catalog", "catalog entry of %s present=%v err=%v, model present=%v", c.key, inCatalog, err, st.catalog)
	}
	cp, hasCP, err := h.log.LoadCheckpoint(ctx)
	if err != nil || hasCP != st.hasCP || (hasCP && cp != st.cp) {
		return mm("state-mismatch", "checkpoint", "LoadCheckpoint(%s) = %+v %v %v, model %+v %v", c.key, cp, hasCP, err, st.cp, st.hasCP)
	}
	if hasCP && cp.HW > leo && !st.mid {
		return mm("state-mismatch", "checkpoint-above-leo", "checkpoint HW %d > log end %d on %s", cp.HW, leo, c.key)
	}
	ret, hasRet, err := h.log.LoadRetentionState(ctx)
	if err != nil || hasRet != st.hasRet {
		return mm("state-mismatch", "retention", "LoadRetentionState(%s) = %+v %v %v, model %+v %v", c.key, ret, hasRet, err, st.ret, st.hasRet)
	}
	if hasRet {
		cmp := st.ret
		if st.retSlack {
			cmp.RetainedMaxSeq = ret.RetainedMaxSeq
		}
		if ret != cmp {
			return mm("state-mismatch", "retention", "LoadRetentionState(%s) = %+v, model %+v", c.key, ret, st.ret)
		}
	}
	if level == 0 {
		return nil
	}
	return w.diffChannelDeep(h, c, st, tp)
}

func (w *world) diffChannelDeep(h handles, c *simChan, st *mstate, tp *simkit.Tape) *mismatch {
	ctx := w.ctx
	rows := st.rows
	// GetBySeq on rows and boundaries
	for _, i := range sample(len(rows), 40) {
		r := rows[i]
		m, ok, err := h.log.GetBySeq(ctx, r.Seq)
		if err != nil || !ok {
			return mm("read-mismatch", "GetBySeq", "GetBySeq(%s,%d) = ok %v err %v, model has the row", c.key, r.Seq, ok, err)
		}
		if d := rowVsMessage(r, m); d != "" {
			return mm("read-mismatch", "GetBySeq", "GetBySeq(%s,%d): %s", c.key, r.Seq, d)
		}
	}
	for _, seq := range []uint64{st.firstSeq() - 1, st.lastRowSeq() + 1, st.leo + 1, st.leo + 7} {
		if seq == 0 || seq == ^uint64(0) {
			continue
		}
		if _, live := st.rowAt(seq); live {
			continue
		}
		if m, ok, err := h.log.GetBySeq(ctx, seq); err != nil || ok {
			return mm("read-mismatch", "GetBySeq", "GetBySeq(%s,%d) = id %d ok %v err %v, model has no such row", c.key, seq, m.MessageID, ok, err)
		}
	}
	// reverse and bounded reads
	rev, err := h.log.ReadReverse(ctx, 0, ReadOptions{})
	if err != nil {
		return mm("row-unreadable", "read-error", "ReadReverse(%s,0): %v", c.key, err)
	}
	if m := compareRows("ReadReverse(0)", rev, st.expectReadReverse(0, 0, 0)); m != nil {
		return m
	}
	type rq struct {
		from          uint64
		limit, maxByt int
	}
	var reqs []rq
	if tp != nil {
		for i := 0; i < 3; i++ {
			reqs = append(reqs, rq{uint64(tp.Intn(int(st.leo) + 3)), tp.Intn(5), []int{0, 1, 30, 5000}[tp.Intn(4)]})
		}
	} else {
		reqs = []rq{{st.firstSeq(), 2, 0}, {st.leo, 0, 1}, {st.firstSeq() + 1, 3, 40}}
	}
	for _, q := range reqs {
		got, err := h.log.Read(ctx, q.from, ReadOptions{Limit: q.limit, MaxBytes: q.maxByt})
		if err != nil {
			return mm("row-unreadable", "read-error", "Read(%s,%d,%d,%d): %v", c.key, q.from, q.limit, q.maxByt, err)
		}
		if m := compareRows(fmt.Sprintf("Read(from=%d,limit=%d,maxBytes=%d)", q.from, q.limit, q.maxByt), got, st.expectRead(q.from, q.limit, q.maxByt)); m != nil {
			return m
		}
		got, err = h.log.ReadReverse(ctx, q.from, ReadOptions{Limit: q.limit, MaxBytes: q.maxByt})
		if err != nil {
			return mm("row-unreadable", "read-error", "ReadReverse(%s,%d,%d,%d): %v", c.key, q.from, q.limit, q.maxByt, err)
		}
		if m := compareRows(fmt.Sprintf("ReadReverse(from=%d,limit=%d,maxBytes=%d)", q.from, q.limit, q.maxByt), got, st.expectReadReverse(q.from, q.limit, q.maxByt)); m != nil {
			return m
		}
	}
	// message id lookups
	for _, i := range sample(len(rows), 24) {
		r := rows[i]
		m, ok, err := h.log.GetByMessageID(ctx, r.ID)
		if err != nil || !ok {
			return mm("message-id-lookup-mismatch", "missing", "GetByMessageID(%s,%d) = ok %v err %v, model stores it at seq %d", c.key, r.ID, ok, err, r.Seq)
		}
		if d := rowVsMessage(r, m); d != "" {
			return mm("message-id-lookup-mismatch", "different-row", "GetByMessageID(%s,%d): %s", c.key, r.ID, d)
		}
	}
	liveID := map[uint64]bool{}
	for _, r := range rows {
		liveID[r.ID] = true
	}
	for _, id := range w.graveIDs {
		if liveID[id] {
			continue
		}
		if m, ok, err := h.log.GetByMessageID(ctx, id); err != nil || ok {
			return mm("message-id-lookup-mismatch", "removed-row", "GetByMessageID(%s,%d) = seq %d ok %v err %v, the model holds no such row in this channel", c.key, id, m.MessageSeq, ok, err)
		}
	}
	// idempotency lookups
	n := 0
	for i := len(rows) - 1; i >= 0 && n < 24; i-- {
		r := rows[i]
		if r.From == "" || r.CMN == "" {
			continue
		}
		n++
		hit, ok, err := h.log.LookupIdempotency(ctx, IdempotencyKey{FromUID: r.From, ClientMsgNo: r.CMN})
		if err != nil || !ok {
			return mm("idempotency-lookup-mismatch", "missing", "LookupIdempotency(%s,%q,%q) = ok %v err %v, model stores it at seq %d", c.key, r.From, r.CMN, ok, err, r.Seq)
		}
		holder, _ := st.hasKey(r.From, r.CMN)
		if hit.MessageSeq != holder.Seq || hit.MessageID != holder.ID || hit.Offset != holder.Seq-1 || hit.PayloadHash != holder.hash() {
			return mm("idempotency-lookup-mismatch", "different-row", "LookupIdempotency(%s,%q,%q) = %+v, model row %v", c.key, r.From, r.CMN, hit, holder)
		}
	}
	for _, k := range c.graveKeys {
		if _, live := st.hasKey(k[0], k[1]); live {
			continue
		}
		if hit, ok, err := h.log.LookupIdempotency(ctx, IdempotencyKey{FromUID: k[0], ClientMsgNo: k[1]}); err != nil || ok {
			return mm("idempotency-lookup-mismatch", "removed-row", "LookupIdempotency(%s,%q,%q) = %+v ok %v err %v, the model holds no such key", c.key, k[0], k[1], hit, ok, err)
		}
	}
	// client message number listing and last sender sequence
	cmns, froms := map[string]bool{}, map[string]bool{}
	for _, r := range rows {
		if r.CMN != "" && len(cmns) < 6 {
			cmns[r.CMN] = true
		}
		if r.From != "" && len(froms) < 5 {
			froms[r.From] = true
		}
	}
	for _, cmn := range simkit.SortedKeys(cmns) {
		for _, q := range []struct {
			before uint64
			limit  int
		}{{0, 1000}, {st.lastRowSeq(), 1}} {
			page, err := h.log.ListByClientMsgNo(ctx, cmn, q.before, q.limit)
			if err != nil {
				return mm("lookup-mismatch", "ListByClientMsgNo", "ListByClientMsgNo(%s,%q,%d,%d): %v", c.key, cmn, q.before, q.limit, err)
			}
			want, more, next := st.expectListByCMN(cmn, q.before, q.limit)
			if m := compareRows(fmt.Sprintf("ListByClientMsgNo(%q,%d,%d)", cmn, q.before, q.limit), page.Messages, want); m != nil {
				m.class, m.sig = "lookup-mismatch", "ListByClientMsgNo"
				return m
			}
			if page.HasMore != more || page.NextBeforeSeq != next {
				return mm("lookup-mismatch", "ListByClientMsgNo", "ListByClientMsgNo(%s,%q,%d,%d) cursor more=%v next=%d, model more=%v next=%d", c.key, cmn, q.before, q.limit, page.HasMore, page.NextBeforeSeq, more, next)
			}
		}
	}
	for _, from := range simkit.SortedKeys(froms) {
		for _, through := range []uint64{st.leo, st.firstSeq(), ^uint64(0), (st.firstSeq() + st.leo) / 2} {
			if through == 0 {
				continue
			}
			seq, ok, err := h.log.GetLastSenderMessageSeq(ctx, from, through)
			wseq, wok := st.expectLastSender(from, through)
			if err != nil || ok != wok || seq != wseq {
				return mm("lookup-mismatch", "GetLastSenderMessageSeq", "GetLastSenderMessageSeq(%s,%q,%d) = %d %v %v, model %d %v", c.key, from, through, seq, ok, err, wseq, wok)
			}
		}
	}
	hist, _, err := h.log.LoadHistory(ctx)
	if err != nil || len(hist) != len(st.hist) {
		return mm("state-mismatch", "history", "LoadHistory(%s) = %v err %v, model %v", c.key, hist, err, st.hist)
	}
	for i := range hist {
		if hist[i] != st.hist[i] {
			return mm("state-mismatch", "history", "LoadHistory(%s) = %v, model %v", c.key, hist, st.hist)
		}
	}
	if m := w.diffRaw(h, c, st); m != nil {
		return m
	}
	if m := w.diffCompat(h, c, st); m != nil {
		return m
	}
	// the exact frontier must be readable, or refused (fail closed), on every flavour
	return w.diffExact(h, c, st)
}

// diffCompat reads the channel through the compatibility surface.
func (w *world) diffCompat(h handles, c *simChan, st *mstate) *mismatch {
	if h.store == nil {
		return nil
	}
	leo, err := h.store.LEOWithError()
	if err != nil || leo != st.leo {
		return mm("leo-mismatch", "compat", "ChannelStore.LEO(%s) = %d err %v, model %d", c.key, leo, err, st.leo)
	}
	for _, i := range sample(len(st.rows), 12) {
		r := st.rows[i]
		m, ok, err := h.store.GetMessageBySeq(r.Seq)
		if err != nil || !ok {
			return mm("read-mismatch", "compat.GetMessageBySeq", "GetMessageBySeq(%s,%d) ok %v err %v", c.key, r.Seq, ok, err)
		}
		if d := rowVsCompat(r, m); d != "" {
			return mm("read-mismatch", "compat.GetMessageBySeq", "GetMessageBySeq(%s,%d): %s", c.key, r.Seq, d)
		}
	}
	from := uint64(0)
	if len(st.rows) > 0 {
		from = st.rows[len(st.rows)/2].Seq - 1
	}
	recs, err := h.store.Read(from, 1<<30)
	if err != nil {
		return mm("row-unreadable", "compat.Read", "ChannelStore.Read(%s,%d): %v", c.key, from, err)
	}
	want := st.rowsFrom(from + 1)
	if len(recs) != len(want) {
		return mm("read-mismatch", "compat.Read", "ChannelStore.Read(%s,%d) returned %d records, model %d", c.key, from, len(recs), len(want))
	}
	for i, rec := range recs {
		if rec.Index != want[i].Seq || rec.ID != want[i].ID {
			return mm("read-mismatch", "compat.Read", "ChannelStore.Read(%s)[%d] = index %d id %d, model %d/%d", c.key, i, rec.Index, rec.ID, want[i].Seq, want[i].ID)
		}
		row, err := decodeCompatibilityRecordPayload(rec.Payload)
		if err != nil || !bytes.Equal(row.Payload, want[i].Payload) || row.FromUID != want[i].From || row.ClientMsgNo != want[i].CMN || row.ServerTimestampMS != want[i].TS {
			return mm("read-mismatch", "compat.Read", "ChannelStore.Read(%s)[%d] payload does not decode to the model row %v (err %v)", c.key, i, want[i], err)
		}
	}
	list, err := h.store.ListMessagesBySeq(w.ctx, st.leo, 3, 0, true)
	if err != nil {
		return mm("row-unreadable", "compat.List", "ListMessagesBySeq(%s): %v", c.key, err)
	}
	wantRev := st.expectReadReverse(st.leo, 3, 0)
	if len(list) != len(wantRev) {
		return mm("read-mismatch", "compat.List", "ListMessagesBySeq(%s,reverse from %d) returned %d, model %d", c.key, st.leo, len(list), len(wantRev))
	}
	for i := range list {
		if d := rowVsCompat(wantRev[i], list[i]); d != "" {
			return mm("read-mismatch", "compat.List", "ListMessagesBySeq(%s)[%d]: %s", c.key, i, d)
		}
	}
	return nil
}

// diffExact checks the exact frontier / identity / proposal read surface.
func (w *world) diffExact(h handles, c *simChan, st *mstate) *mismatch {
	if h.store == nil {
		return nil
	}
	fr, err := h.store.LoadDurableFrontier(w.ctx)
	tail := st.propIndexByLast(st.leo)
	wantErr := (st.hasCP && st.cp.HW > st.leo) || (st.leo > 0 && tail < 0)
	if wantErr {
		if err == nil {
			return mm("frontier-mismatch", "not-fail-closed", "LoadDurableFrontier(%s) = %+v although the log end %d has no tail proof / hw %d", c.key, fr, st.leo, st.hwOr0())
		}
		return nil
	}
	if err != nil {
		return mm("frontier-mismatch", "error", "LoadDurableFrontier(%s): %v (model leo %d hw %d)", c.key, err, st.leo, st.hwOr0())
	}
	want := DurableFrontier{LEO: st.leo, Committed: st.hwOr0()}
	if st.leo > 0 {
		want.Manifest = st.props[tail].manifest
		want.TailIdentity = st.props[tail].entries[len(st.props[tail].entries)-1]
	}
	if c.fl != flExact && st.leo == 0 && fr == want {
		return nil
	}
	if fr != want {
		return mm("frontier-mismatch", "value", "LoadDurableFrontier(%s) = leo %d hw %d cmd %x, model leo %d hw %d cmd %x", c.key, fr.LEO, fr.Committed, fr.Manifest.CommandID[:10], want.LEO, want.Committed, want.Manifest.CommandID[:10])
	}
	var idx []uint64
	for _, p := range st.props {
		idx = append(idx, p.manifest.LastOffset, p.manifest.BaseOffset+1)
	}
	idx = append(idx, st.leo+1)
	if len(idx) > 12 {
		idx = idx[len(idx)-12:]
	}
	rec, err := h.store.LoadDurableRecovery(w.ctx, idx)
	if err != nil {
		return mm("frontier-mismatch", "recovery-error", "LoadDurableRecovery(%s,%v): %v", c.key, idx, err)
	}
	for i, probe := range rec.Entries {
		id, have := st.identityAt(idx[i])
		if probe.Present != (have && idx[i] <= st.leo) || (probe.Present && probe.Identity != id) {
			return mm("frontier-mismatch", "identity", "LoadDurableRecovery(%s) index %d present=%v, model present=%v", c.key, idx[i], probe.Present, have)
		}
	}
	// the newest proposal whose rows are all live must be loadable by command
	for i := len(st.props) - 1; i >= 0 && i >= len(st.props)-2; i-- {
		p := st.props[i]
		if _, live := st.rowAt(p.manifest.BaseOffset + 1); !live {
			continue
		}
		got, ok, err := h.store.LoadDurableProposal(w.ctx, p.manifest.CommandID, 64, 1<<24)
		if err != nil || !ok || got.Manifest != p.manifest || len(got.Records) != len(p.rows) {
			return mm("frontier-mismatch", "proposal", "LoadDurableProposal(%s,%x) ok %v err %v records %d, model %d", c.key, p.manifest.CommandID[:10], ok, err, len(got.Records), len(p.rows))
		}
	}
	// donor page over the live proposals (what a recovering peer would fetch)
	first := -1
	for i, p := range st.props {
		if _, live := st.rowAt(p.manifest.BaseOffset + 1); live {
			first = i
			break
		}
	}
	if c.fl == flExact && first >= 0 && st.leo-st.props[first].manifest.BaseOffset <= 256 {
		from := st.props[first].manifest.BaseOffset + 1
		page, err := h.store.ReadDurableRecoveryPage(w.ctx, DurableRecoveryPageRequest{From: from, Through: st.leo, MaxBytes: 1 << 26})
		if err != nil {
			return mm("frontier-mismatch", "recovery-page", "ReadDurableRecoveryPage(%s,%d..%d): %v", c.key, from, st.leo, err)
		}
		wantRows := st.rowsFrom(from)
		if len(page.Records) != len(wantRows) || len(page.Entries) != len(wantRows) || page.DurableFrontier != want {
			return mm("frontier-mismatch", "recovery-page", "ReadDurableRecoveryPage(%s,%d..%d) returned %d records %d entries leo %d, model %d rows leo %d", c.key, from, st.leo, len(page.Records), len(page.Entries), page.LEO, len(wantRows), want.LEO)
		}
		for i, rec := range page.Records {
			id, _ := st.identityAt(wantRows[i].Seq)
			if rec.Index != wantRows[i].Seq || rec.ID != wantRows[i].ID || !page.Entries[i].Present || page.Entries[i].Identity != id || rec.Epoch != id.ChannelEpoch {
				return mm("frontier-mismatch", "recovery-page", "ReadDurableRecoveryPage(%s)[%d] = index %d id %d epoch %d, model row %v", c.key, i, rec.Index, rec.ID, rec.Epoch, wantRows[i])
			}
		}
	}
	for _, p := range c.retired {
		if _, still := st.propByCommand(p.manifest.CommandID); still {
			continue
		}
		if _, ok, err := h.store.LoadDurableProposal(w.ctx, p.manifest.CommandID, 64, 1<<24); err != nil || ok {
			return mm("frontier-mismatch", "retired-proposal", "LoadDurableProposal(%s,%x) ok %v err %v for a truncated proposal", c.key, p.manifest.CommandID[:10], ok, err)
		}
	}
	return nil
}

// expectedKeys builds every key (and, where fixed, value) the channel
// partition must contain for st. A nil value means "not compared".
func expectedKeys(c *simChan, st *mstate) map[string][]byte {
	out := map[string][]byte{}
	key := c.key
	for _, r := range st.rows {
		out[string(encodeMessageRowKey(key, r.Seq, messageHeaderFamilyID))] = nil
		if r.CMN != "" && r.From == "" {
			out[string(encodeMessageClientMsgNoIndexKey(key, r.CMN, r.Seq))] = binary.BigEndian.AppendUint64(nil, r.Seq)
		}
		if r.From != "" && r.CMN != "" {
			v := binary.BigEndian.AppendUint64(nil, r.Seq)
			v = binary.BigEndian.AppendUint64(v, r.ID)
			v = binary.BigEndian.AppendUint64(v, r.hash())
			out[string(encodeMessageIdempotencyIndexKey(key, r.From, r.CMN))] = v
		}
		if r.From != "" && !r.syncOnce() {
			out[string(encodeMessageSenderSeqIndexKey(key, r.From, r.Seq))] = binary.BigEndian.AppendUint64(nil, r.ID)
		}
	}
	if st.hasCP {
		out[string(encodeCheckpointKey(key))] = encodeCheckpoint(st.cp)
	}
	if st.hasRet {
		if st.retSlack {
			out[string(encodeRetentionStateKey(key))] = nil
		} else {
			out[string(encodeRetentionStateKey(key))] = encodeRetentionState(st.ret)
		}
	}
	for _, p := range st.hist {
		out[string(encodeHistoryPointKey(key, p))] = encodeEpochPoint(p)
	}
	for name, seq := range st.cursors {
		out[string(encodeCommittedCursorKey(key, name))] = binary.BigEndian.AppendUint64(nil, seq)
	}
	for _, p := range st.props {
		v := encodeDurableProposalRecord(durableProposalRecord{manifest: p.manifest})
		out[string(encodeProposalByLastKey(key, p.manifest.LastOffset))] = v
		out[string(encodeProposalByCommandKey(key, p.manifest.CommandID))] = v
		for _, e := range p.entries {
			out[string(encodeEntryIdentityKey(key, e.Index))] = encodeDurableEntryIdentity(e)
		}
	}
	return out
}

func describeKey(c *simChan, k []byte) string {
	if seq, fam, ok := decodeMessageRowKey(c.key, k); ok {
		return fmt.Sprintf("row seq=%d family=%d", seq, fam)
	}
	for id, name := range map[uint16]string{messageIndexIDMessageID: "index:message_id", messageIndexIDClientMsgNo: "index:client_msg_no",
		messageIndexIDFromUIDClientMsgNo: "index:idempotency", messageIndexIDFromUIDMessageSeq: "index:sender_seq"} {
		if p := encodeMessageIndexPrefix(c.key, id); bytes.HasPrefix(k, p) {
			return fmt.Sprintf("%s %q", name, k[len(p):])
		}
	}
	for id, name := range map[uint16]string{messageSystemIDCheckpoint: "checkpoint", messageSystemIDHistory: "history", messageSystemIDSnapshot: "snapshot",
		messageSystemIDRetention: "retention", messageSystemIDCursor: "cursor", messageSystemIDProposalByLast: "proposal_by_last",
		messageSystemIDProposalByCommand: "proposal_by_command", messageSystemIDEntryIdentity: "entry_identity"} {
		if p := encodeMessageSystemPrefix(c.key, id); bytes.HasPrefix(k, p) {
			return fmt.Sprintf("system:%s %x", name, k[len(p):])
		}
	}
	return fmt.Sprintf("unknown %x", k)
}

// diffRaw scans every key of the channel partition: rows, secondary indexes,
// system records, proposal manifests and entry identities must be exactly the
// set implied by the model state (nothing dangling, nothing missing).
func (w *world) diffRaw(h handles, c *simChan, st *mstate) *mismatch {
	want := expectedKeys(c, st)
	span := keycodec.NewPrefixSpan(encodeMessageChannelPartitionPrefix(c.key))
	it, err := h.db.engine.NewIter(engine.Span{Start: span.Start, End: span.End}, engine.IterOptions{})
	if err != nil {
		return mm("index-mismatch", "scan-error", "raw scan of %s: %v", c.key, err)
	}
	defer it.Close()
	seen := 0
	for ok := it.First(); ok; ok = it.Next() {
		k := it.Key()
		wv, expected := want[string(k)]
		if !expected {
			return mm("index-mismatch", "dangling", "channel %s holds a key the model does not imply: %s", c.key, describeKey(c, k))
		}
		seen++
		if wv != nil {
			v, err := it.Value()
			if err != nil || !bytes.Equal(v, wv) {
				return mm("index-mismatch", "value", "channel %s key %s has value %x, model %x (err %v)", c.key, describeKey(c, k), v, wv, err)
			}
		}
		delete(want, string(k))
	}
	if err := it.Error(); err != nil {
		return mm("index-mismatch", "scan-error", "raw scan of %s: %v", c.key, err)
	}
	if len(want) > 0 {
		ks := make([]string, 0, len(want))
		for k := range want {
			ks = append(ks, k)
		}
		sort.Strings(ks)
		return mm("index-mismatch", "missing", "channel %s lacks %d key(s) the model implies, first: %s", c.key, len(want), describeKey(c, []byte(ks[0])))
	}
	return nil
}

// diffGlobal checks the node-wide message id index and the catalog against
// the given per-channel states.
func (w *world) diffGlobal(db *MessageDB, states []*mstate) *mismatch {
	want := map[uint64]idLoc{}
	for i, st := range states {
		for _, r := range st.rows {
			if prev, dup := want[r.ID]; dup {
				return mm("duplicate-stored", "message-id", "message id %d is stored twice in the model: channel %d seq %d and channel %d seq %d", r.ID, prev.ch, prev.seq, i, r.Seq)
			}
			want[r.ID] = idLoc{ch: i, seq: r.Seq}
		}
	}
	span := keycodec.NewPrefixSpan(encodeGlobalMessageIDIndexPrefix())
	it, err := db.engine.NewIter(engine.Span{Start: span.Start, End: span.End}, engine.IterOptions{})
	if err != nil {
		return mm("index-mismatch", "scan-error", "global id scan: %v", err)
	}
	defer it.Close()
	for ok := it.First(); ok; ok = it.Next() {
		id, ok := decodeGlobalMessageIDIndexKey(it.Key())
		if !ok {
			return mm("index-mismatch", "global-id", "undecodable global id key %x", it.Key())
		}
		v, err := it.Value()
		if err != nil {
			return mm("index-mismatch", "scan-error", "global id value: %v", err)
		}
		ck, seq, err := decodeGlobalMessageIDIndexValue(v)
		loc, expected := want[id]
		if !expected {
			return mm("index-mismatch", "global-id-dangling", "global message id index holds id %d -> %s/%d, the model stores no such message", id, ck, seq)
		}
		if err != nil || ck != w.chans[loc.ch].key || seq != loc.seq {
			return mm("index-mismatch", "global-id", "global message id index maps id %d to %s/%d (err %v), model %s/%d", id, ck, seq, err, w.chans[loc.ch].key, loc.seq)
		}
		delete(want, id)
	}
	if len(want) > 0 {
		ids := make([]uint64, 0, len(want))
		for id := range want {
			ids = append(ids, id)
		}
		sortU64(ids)
		return mm("index-mismatch", "global-id-missing", "global message id index lacks id %d (and %d more)", ids[0], len(ids)-1)
	}
	entries, err := db.ListChannels(w.ctx)
	if err != nil {
		return mm("state-mismatch", "catalog", "ListChannels: %v", err)
	}
	got := map[ChannelKey]ChannelID{}
	for _, e := range entries {
		got[e.Key] = e.ID
	}
	for i, st := range states {
		c := w.chans[i]
		id, have := got[c.key]
		if have != st.catalog || (have && id != c.id) {
			return mm("state-mismatch", "catalog", "catalog entry of %s present=%v id=%+v, model present=%v", c.key, have, id, st.catalog)
		}
	}
	return nil
}

// ---- live checks (C07 / C08) ----

func (w *world) checkChannel(c *simChan, level int) {
	if w.stop() {
		return
	}
	h := handles{db: w.eng.db, log: c.log, store: c.store}
	if m := w.diffChannel(h, c, c.st(), level, w.r.Tape); m != nil {
		w.fail(m.class, m.sig, m.detail)
		return
	}
	w.r.Logf("  check %s level=%d ok leo=%d rows=%s", c.key, level, c.st().leo, seqsOfRows(c.st().rows))
}

func (w *world) fullCheck(tag string) {
	if w.stop() {
		return
	}
	states := make([]*mstate, len(w.chans))
	for i, c := range w.chans {
		w.checkChannel(c, 1)
		if w.stop() {
			return
		}
		states[i] = c.st()
	}
	if m := w.diffGlobal(w.eng.db, states); m != nil {
		w.fail(m.class, m.sig, m.detail)
		return
	}
	w.fullChecks++
	if w.disturbed {
		w.checkedAfter = true
		w.disturbed = false
	}
	w.r.Probe("check.exhaustive")
	w.r.Logf("full check (%s) ok", tag)
}

// ---- crash checks (C09) ----

func (w *world) checkCrashPoints() {
	points := w.disk.drain()
	if len(points) == 0 || w.stop() {
		return
	}
	wasCloning := w.disk.cloning
	w.disk.cloning = false
	defer func() { w.disk.cloning = wasCloning }()
	// outcome sets per channel for the trace (kill / power loss only: torn clones are not reproducible)
	outcome := make([]map[int]bool, len(w.chans))
	for i := range outcome {
		outcome[i] = map[int]bool{}
	}
	for _, cp := range points {
		w.r.ProbeN("crash_points", 1)
		if i := strings.IndexByte(cp.kind, ':'); i >= 0 {
			w.r.Probe("crash_point_in." + cp.kind[i+1:])
		}
		for mode := 0; mode < crashModes; mode++ {
			if w.stop() {
				return
			}
			w.checkCrashImage(cp, mode, outcome)
		}
		cp.clones = [crashModes]*vfs.MemFS{}
	}
	if w.stop() {
		return
	}
	line := ""
	for i, c := range w.chans {
		ks := make([]int, 0, len(outcome[i]))
		for k := range outcome[i] {
			ks = append(ks, k)
		}
		sort.Ints(ks)
		line += fmt.Sprintf(" %s:%v", c.key, ks)
	}
	w.r.Logf("  crash images of step %d recovered to model states%s", w.step, line)
}

func (w *world) checkCrashImage(cp *crashPoint, mode int, outcome []map[int]bool) {
	fs := cp.clones[mode]
	sig := fmt.Sprintf("%016x", diskDigest(fs))
	for _, e := range cp.expect {
		sig += fmt.Sprintf("|%d-%d", e.acked, e.issued)
	}
	w.r.Steps++
	w.r.Fault("crash." + crashModeName[mode])
	w.r.Probe("crash." + crashModeName[mode])
	if os.Getenv("VERIF_DEBUG") != "" {
		fmt.Printf("DBG point k=%d kind=%s step=%d mode=%s sig=%s files=%s\n", cp.k, cp.kind, cp.step, crashModeName[mode], sig, diskListing(fs))
	}
	if found, dup := w.crashSeen[sig]; dup {
		// same disk content and same expectation as an image already examined: same verdict.
		// (Which image of a pair is examined first depends on background-job timing, so the
		// recorded outcome is replayed into the per-step summary.)
		w.r.Probe("crash_images_identical_skipped")
		w.crashChecked[mode]++
		if mode != crashTorn {
			for i, j := range found {
				outcome[i][j] = true
			}
		}
		return
	}
	foundAll := make([]int, 0, len(w.chans))
	w.crashChecked[mode]++
	w.r.Probe("crash_images_reopened")
	where := fmt.Sprintf("crash before file-system call #%d (%s) of step %d, mode %s", cp.k, cp.kind, cp.step, crashModeName[mode])
	eng, err := w.openOn(fs, false)
	if err != nil {
		w.fail("crash-reopen-failed", crashModeName[mode], fmt.Sprintf("%s: reopen failed: %v", where, err))
		return
	}
	defer func() {
		if err := eng.Close(); err != nil && !w.stop() {
			w.fail("crash-reopen-failed", "close", fmt.Sprintf("%s: close after recovery failed: %v", where, err))
		}
		simkit.Wait()
		if es := w.takeBgErrs(); len(es) > 0 && !w.stop() {
			w.fail("crash-background-error", crashModeName[mode], fmt.Sprintf("%s: pebble background error after recovery: %v", where, es))
		}
	}()
	matched := make([]*mstate, len(w.chans))
	for i, c := range w.chans {
		ex := cp.expect[i]
		log, err := eng.db.Channel(c.key, c.id)
		if err != nil {
			w.fail("crash-reopen-failed", "channel", fmt.Sprintf("%s: Channel(%s): %v", where, c.key, err))
			return
		}
		store, err := eng.ForChannel(chKey(c.key), chID(c.id))
		if err != nil {
			log.Close()
			w.fail("crash-reopen-failed", "channel", fmt.Sprintf("%s: ForChannel(%s): %v", where, c.key, err))
			return
		}
		h := handles{db: eng.db, log: log, store: store}
		var diffs []string
		found := -1
		// newest first: the common case after the commit point
		for j := ex.issued; j >= ex.acked; j-- {
			m := w.diffChannel(h, c, c.states[j], 1, nil)
			if m == nil {
				found = j
				break
			}
			diffs = append(diffs, fmt.Sprintf("vs state %d (%s): [%s/%s] %s", j, stateLabel(j, ex), m.class, m.sig, m.detail))
		}
		store.Close()
		log.Close()
		if found < 0 {
			lost := ex.acked == ex.issued
			sigv := "partial-or-unknown-state"
			if lost {
				sigv = "acknowledged-mutation-not-recovered"
			}
			w.fail("crash-not-prefix", sigv, fmt.Sprintf("%s: channel %s (%s) matches none of the allowed model states %d..%d:\n  %s", where, c.key, flavourName[c.fl], ex.acked, ex.issued, strings.Join(diffs, "\n  ")))
			return
		}
		matched[i] = c.states[found]
		foundAll = append(foundAll, found)
		if mode != crashTorn {
			outcome[i][found] = true
		}
		if ex.issued > ex.acked {
			if found == ex.acked {
				w.r.Probe("recovered.inflight_absent")
			} else {
				w.r.Probe("recovered.inflight_present")
			}
		}
	}
	w.crashSeen[sig] = foundAll
	if m := w.diffGlobal(eng.db, matched); m != nil {
		w.fail("crash-global-index", m.sig, fmt.Sprintf("%s: %s", where, m.detail))
	}
}

func stateLabel(j int, ex chanExpect) string {
	switch {
	case j == ex.acked && j == ex.issued:
		return "acknowledged"
	case j == ex.acked:
		return "last acknowledged"
	default:
		return "in flight"
	}
}

var _ = errors.Is
var _ = dberrors.ErrConflict
var _ quorumlog.CommandID
